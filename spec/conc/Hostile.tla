------------------------------ MODULE Hostile ------------------------------
(***************************************************************************)
(* Property C12: no client-controlled input makes the library panic,       *)
(* overflow the stack or stop making progress; every malformed or hostile  *)
(* input is answered with an error.                                        *)
(*                                                                         *)
(* Request handling is a total function of the input.  A request travels   *)
(* through the stages                                                      *)
(*     decode -> parse -> validate -> coerce -> execute                    *)
(* (decode = the transport: JSON body, GET query string, multipart body,   *)
(* WebSocket frames; not present for Schema::execute).  Every stage is     *)
(* total: it either refuses its input with an error answer or hands a      *)
(* well-formed intermediate to the next stage, and the recursive stages    *)
(* (parse: nesting of values / selections / types; validate: chains of     *)
(* fragment spreads) bound their recursion by a limit that fits the stack. *)
(*                                                                         *)
(*  - The case space (hostile class x position x size x transport) and,    *)
(*    for every case, the stage that must refuse it (RefusedAt) are given  *)
(*    below; Expect / Allowed derive the admissible outcomes.              *)
(*  - The state machine runs a case through the stages one step at a time, *)
(*    descending one nesting level per step in the recursive stages.       *)
(*    Mode M: with no deviation switched on, no behaviour crashes, every   *)
(*    behaviour ends with an answer in Allowed(case) (invariants + the     *)
(*    liveness property Answered); with the named deviations of today's    *)
(*    code switched on, a crash is reachable only on the deviation's       *)
(*    trigger class.                                                       *)
(*  - Mode G: every initial state = one case, printed for the harness.     *)
(*  - Mode V: HostileTrace judges the outcome the real library produced    *)
(*    (in a child process: panic / abort / timeout are data).              *)
(***************************************************************************)
EXTENDS Integers, Sequences, FiniteSets, TLC

CONSTANTS Depths,        \* nesting depths / chain lengths to try
          SelDepths,     \* nesting depths for selection sets made of inline fragments: around the parser's documented
                         \* limit (MAX_RECURSION_DEPTH = 64) and far beyond
          LightDepths,   \* depths for positions whose handling is super-linear (cost only)
          Sizes,         \* lengths of names / numbers of repeated items
          Cuts,          \* truncation points, in twentieths of the payload
          SafeDepth,     \* a nesting depth of list / object values and list types that certainly fits the stack of a server thread (2 MiB)
          SafeSel,       \* a nesting depth of selection sets that certainly fits it (a level of selection costs less stack)
          SafeChain,     \* a fragment-chain length that certainly fits it
          HeavyTransports,  \* transports for the size-parameterised document classes
          Wide,          \* TRUE: the larger grid of block-string shapes (thorough tier)
          Dev            \* deviations of today's code that are switched on (mode M only)

Transports == {"execute", "json", "get", "multipart", "ws"}
Wire       == Transports \ {"execute"}
Stages     == <<"decode", "parse", "validate", "coerce", "execute">>

--------------------------------------------------------------------------------
(* The case space.  A case is [class, pos, sub, k, transport].                  *)
MarkerClasses == {"marker_nan", "marker_oob", "marker_huge", "marker_neg", "marker_empty", "marker_plus", "marker_space"}
MarkerPos     == {"var", "lit", "list", "field", "query_lit"}
InTypes       == {"int", "long", "ulong", "float", "string", "boolean", "id", "enum", "list", "inp", "any", "upload"}
JsonKinds     == {"null", "bool", "int", "float", "string", "array", "object", "empty_array", "empty_object", "neg", "nested_array"}
NumberLits    == {"int_digits", "neg_digits", "exp", "neg_exp", "frac_digits", "i64_max_plus", "u64_max_plus", "i32_max_plus", "minus_zero"}
BadStrings    == {"lone_high", "lone_low", "high_then_ascii", "swapped_pair", "braced_surrogate", "braced_too_big", "braced_empty",
                  "braced_unclosed", "bad_escape", "short_u", "unterminated", "unterminated_block", "raw_newline", "nul_char",
                  "escape_at_end", "block_escape_end"}
NoJsonSpelling == {"braced_surrogate", "braced_too_big", "braced_empty", "braced_unclosed", "unterminated_block", "block_escape_end"}
UndefinedPos  == {"list_default", "nonnull_list_default", "named_default", "nonnull_named_default", "nested_list_default",
                  "list_no_default", "list_default_used", "fragment_on", "list_null_default"}
HugeNamePos   == {"operation", "operation_mismatch", "field", "alias", "argument", "variable", "directive", "enum_value",
                  "string_value", "comment", "input_field"}
FloodPos      == {"aliases", "same_field", "directives", "arguments", "variables", "operations", "list_items", "commas", "json_var_items"}
BadDocs       == {"empty", "whitespace", "only_comment", "nul", "bom_inside", "lone_brace", "close_brace", "unknown_token", "dollar", "at",
                  "ellipsis", "colon", "number_name", "non_ascii_name", "astral", "schema_def", "two_anonymous", "unknown_op",
                  "subscription_multi_root", "empty_selection", "bang", "variable_in_default", "self_default", "dup_variable",
                  "introspection_deep", "typename_only", "skip_var_missing", "include_wrong_type", "skip_no_arg"}
ExtPos        == {"apq_version_string", "apq_hash_number", "apq_not_object", "apq_null", "apq_empty", "apq_wrong_hash",
                  "apq_version_big", "apq_version_neg", "unknown_ext"}
BadBytes      == {"invalid_utf8", "overlong", "surrogate_utf8", "truncated_utf8", "nul", "bom"}
GetSyntax     == {"bad_percent", "lone_percent", "short_percent", "variables_not_json", "variables_array", "variables_string",
                  "variables_number", "extensions_not_json", "extensions_array", "dup_query", "no_query", "empty", "only_amp",
                  "no_equals", "unknown_key", "plus", "huge_key", "many_params", "variables_deep"}
ShapePos      == {"query_number", "query_null", "query_array", "query_missing", "opname_number", "opname_array", "variables_number",
                  "variables_string", "variables_array", "extensions_number", "extensions_array", "body_number", "body_string",
                  "body_null", "body_true", "batch_empty", "batch_of_number", "batch_nested", "batch_two", "batch_one", "dup_query_key",
                  "trailing_garbage", "two_documents", "empty_body", "whitespace_body", "unknown_key", "single_quotes", "comment", "nan",
                  "deep_unknown_key", "deep_extensions", "huge_string_key"}
ContentTypes  == {"text/plain", "application/x-www-form-urlencoded", "///", "multipart/form-data", "application/json; charset=utf-16",
                  "application/graphql", "APPLICATION/JSON", "application/json;;;", "*/*"}
MpPos         == {"no_operations", "no_map", "map_not_json", "map_wrong_shape", "map_array", "map_missing_file", "map_unknown_var",
                  "map_not_variables", "map_empty_path", "map_dots", "map_deep_path", "map_index_huge", "map_index_neg", "map_index_oob",
                  "map_many_paths",
                  "file_without_map", "file_before_operations", "dup_operations", "dup_file", "batch_index_oob", "batch_index_bad",
                  "marker_with_file", "marker_alias_file", "no_boundary_param", "wrong_boundary", "empty_boundary", "huge_boundary",
                  "empty_body", "only_close", "part_bad_content_type", "part_multipart_content_type", "part_no_name", "part_no_disposition",
                  "huge_header", "many_parts", "lf_only", "preamble", "epilogue"}
WsWhat        == {"invalid_json", "not_object", "number", "unknown_type", "missing_type", "type_number", "id_number", "start_no_payload",
                  "start_no_id", "start_payload_string", "start_before_init", "double_init", "binary_garbage", "empty_frame",
                  "first_frame_garbage", "huge_id", "deep_init_payload", "deep_ping_payload", "init_payload_string", "stop_unknown",
                  "dup_id", "terminate", "many_frames", "pong_unsolicited", "good"}
Sized(pos)    == pos \in {"huge_key", "many_params", "variables_deep", "deep_unknown_key", "deep_extensions", "huge_string_key",
                          "map_deep_path", "map_many_paths", "huge_boundary", "huge_header", "many_parts", "introspection_deep"}
WsSized(w)    == w \in {"huge_id", "deep_init_payload", "deep_ping_payload", "many_frames"}
KOf(sized)    == IF sized THEN Sizes ELSE {0}
\* small documents whose fragment spreads form a cycle that an operation reaches (1-3 fragments, every shape), under
\* every server configuration: validation mode x request limits (sub)
CycleShapes   == {"self", "self_only", "mutual", "triangle", "below_field", "below_field_mutual", "inline", "typed_inline", "self_twice",
                  "tail_cycle", "second_operation", "mutation_root", "subscription_root", "unused_small", "with_directive", "with_variable"}
SchemaCfgs    == {"strict", "fast", "strict_limits", "fast_limits"}
\* block strings in which a line starts (after an ASCII indent) with a multi-byte / exotic character, alone or beside an
\* ordinary line of smaller / bigger indent: sub = indent.lead.content.other
BsIndents     == IF Wide THEN {"0", "1", "2", "4", "t", "st"} ELSE {"0", "2", "t"}
BsLeads       == {"nbsp", "emsp", "idsp", "bom", "nel", "l2", "l3", "l4", "a"} \cup (IF Wide THEN {"ls", "two"} ELSE {})
BsContents    == {"e", "x"} \cup (IF Wide THEN {"sp"} ELSE {})
BsOthers      == {"none", "small", "big"} \cup (IF Wide THEN {"small_first", "tab", "blank"} ELSE {})
BsSubs        == {i \o "." \o ld \o "." \o ct \o "." \o o : i \in BsIndents, ld \in BsLeads, ct \in BsContents, o \in BsOthers}
BsPos         == {"arg", "var_default", "input_field"} \cup (IF Wide THEN {"arg_first_line", "list_item"} ELSE {})

\* selection sets nested through inline fragments: untyped `... {`, typed `... on T {`, with a directive, typed / untyped /
\* field in turn, inline fragment and field in turn, and the same inside a fragment definition; sub = server configuration:
\* "" (defaults: limit_recursive_depth 32) or "raised" (the application raised limit_recursive_depth, so that the parser's
\* own nesting limit is the only bound left)
InlinePos     == {"inline_untyped", "inline_typed", "inline_directive", "inline_mixed", "inline_alt_field", "inline_in_fragment",
                  "inline_mixed_in_fragment"}
C(cl, p, k, t) == [class |-> cl, pos |-> p, sub |-> "", k |-> k, transport |-> t]
C2(cl, p, sb, k, t) == [class |-> cl, pos |-> p, sub |-> sb, k |-> k, transport |-> t]
\* document-borne classes: the hostile part is in the query text / variables / extensions and travels over every transport
DocCases ==
  {C(cl, p, 0, t) : cl \in MarkerClasses, p \in MarkerPos, t \in Transports}
  \cup {C("nest_list", p, k, t) : p \in {"lit_any", "lit_int", "var_default", "unclosed"}, k \in Depths, t \in HeavyTransports}
  \cup {C("nest_list", "json_vars", k, t) : k \in Depths, t \in HeavyTransports \cap Wire}
  \cup {C("nest_obj", p, k, t) : p \in {"lit_any", "unclosed"}, k \in Depths, t \in HeavyTransports}
  \cup {C("nest_obj", "lit_inp", k, t) : k \in LightDepths, t \in HeavyTransports}
  \cup {C("nest_obj", "json_vars", k, t) : k \in Depths, t \in HeavyTransports \cap Wire}
  \cup {C("nest_sel", p, k, t) : p \in {"field", "inline", "fragment_def", "unclosed"}, k \in Depths, t \in HeavyTransports}
  \cup {C2("nest_sel", p, sb, k, t) : p \in InlinePos, sb \in {"", "raised"}, k \in SelDepths, t \in HeavyTransports}
  \cup {C2("nest_sel", p, "raised", k, "execute") : p \in {"field", "inline", "fragment_def"}, k \in SelDepths}
  \cup {C("nest_vartype", p, k, t) : p \in {"list", "nonnull"}, k \in Depths, t \in HeavyTransports}
  \cup {C(cl, p, k, t) : cl \in {"frag_chain", "frag_cycle"}, p \in {"spread", "unused"}, k \in Depths, t \in HeavyTransports}
  \* k digits; k even: a literal in the document, k odd: a JSON number in the variables
  \cup {C2("big_number", ty, l, k, "execute") : ty \in InTypes \ {"upload", "inp", "list", "enum", "boolean"}, l \in NumberLits, k \in {12, 400}}
  \cup {C2("big_number", ty, l, k, "json") : ty \in InTypes \ {"upload", "inp", "list", "enum", "boolean"}, l \in NumberLits, k \in {13, 401}}
  \cup {C("bad_string", p, k, t) : p \in BadStrings, k \in {0, 1}, t \in Transports}
  \cup {C("bad_string", p, 2, t) : p \in BadStrings \ NoJsonSpelling, t \in Wire}
  \cup {C("undefined_type", p, 0, t) : p \in UndefinedPos, t \in Transports}
  \cup {C("huge_name", p, k, t) : p \in HugeNamePos, k \in Sizes, t \in HeavyTransports}
  \cup {C("flood", p, k, t) : p \in FloodPos, k \in Sizes, t \in HeavyTransports}
  \cup {C2("wrong_kind", ty, kd, 0, t) : ty \in InTypes, kd \in JsonKinds, t \in HeavyTransports}
  \cup UNION {{C("bad_document", p, k, t) : k \in KOf(Sized(p)), t \in Transports} : p \in BadDocs}
  \cup {C("request_ext", p, 0, t) : p \in ExtPos, t \in Transports}
  \cup {C("request_ext_noquery", p, 0, t) : p \in {"apq_unknown_hash", "apq_version_2"}, t \in Transports}
  \cup {C2("small_cycle", p, cfg, 0, t) : p \in CycleShapes, cfg \in SchemaCfgs, t \in Transports}
  \cup {C2("block_string", "arg", sb, 0, t) : sb \in BsSubs, t \in HeavyTransports}
  \cup {C2("block_string", p, sb, 0, t) : p \in BsPos \ {"arg"}, sb \in BsSubs, t \in {"execute", "json"}}
  \cup {C("benign", p, 0, t) : p \in {"query", "variables", "subscription"}, t \in Transports}
  \cup {C("benign", "upload", 0, "multipart")}
\* transport-borne classes: the hostile part is in the bytes of one transport
WireCases ==
  {C("truncate", "cut", k, t) : k \in Cuts, t \in Wire}
  \cup {C("bad_bytes", p, k, t) : p \in BadBytes, k \in {0, 1}, t \in Wire}
  \cup UNION {{C("get_syntax", p, k, "get") : k \in KOf(Sized(p))} : p \in GetSyntax}
  \cup UNION {{C("request_shape", p, k, t) : k \in KOf(Sized(p)), t \in {"json", "multipart", "ws"}} : p \in ShapePos}
  \cup {C("content_type", p, 0, "json") : p \in ContentTypes}
  \cup UNION {{C("mp_structure", p, k, "multipart") : k \in KOf(Sized(p))} : p \in MpPos}
  \cup UNION {{C2("ws_frames", pr, w, k, "ws") : k \in KOf(WsSized(w)), pr \in {"old", "new"}} : w \in WsWhat}
Cases == DocCases \cup WireCases

--------------------------------------------------------------------------------
(* What the property demands of each case: "error" (malformed or hostile: must  *)
(* be answered with an error), "data" (harmless: must be served), "any" (the     *)
(* property only forbids a crash: well-formed extreme inputs, or inputs whose    *)
(* acceptance is a matter of leniency that other properties judge).              *)
\* JSON kinds that a variable of the given type cannot be coerced from (GraphQL spec 3.5 Scalars, 3.10 Input Objects,
\* 3.11 List input coercion); everything else is left to C06/C07.
WrongKinds(ty) ==
  CASE ty \in {"int", "long", "ulong"} -> {"bool", "float", "string", "array", "object", "empty_array", "empty_object", "nested_array"}
    [] ty = "float"   -> {"bool", "string", "array", "object", "empty_array", "empty_object", "nested_array"}
    [] ty = "string"  -> JsonKinds \ {"null", "string"}
    [] ty = "boolean" -> JsonKinds \ {"null", "bool"}
    [] ty = "id"      -> {"bool", "float", "array", "object", "empty_array", "empty_object", "nested_array"}
    [] ty = "enum"    -> JsonKinds \ {"null", "string"}
    [] ty = "list"    -> {"bool", "float", "string", "object", "empty_object", "nested_array"}
    [] ty = "inp"     -> JsonKinds \ {"null", "object", "empty_object"}
    [] ty = "upload"  -> JsonKinds              \* `Upload!` variable: null is refused, nothing but a bound file is an upload
    [] OTHER          -> {}                     \* the JSON scalar takes everything

\* The stage that must refuse the case; "none" = harmless; "free" = the property does not say.
RefusedAt(c) ==
  LET cl == c.class  p == c.pos IN
  CASE cl \in MarkerClasses -> "coerce"                      \* a marker that names no bound file is not an upload
    [] cl \in {"nest_list", "nest_obj", "nest_sel"} -> IF p = "unclosed" THEN "parse" ELSE "free"
    [] cl = "nest_vartype" -> "free"
    [] cl = "frag_chain" -> "free"
    [] cl = "frag_cycle" -> "validate"                        \* spec 5.5.2.2 Fragment spreads must not form cycles
    \* a cycle that no operation reaches may be served by the reduced validation of ValidationMode::Fast (it is never walked)
    [] cl = "small_cycle" -> IF p = "unused_small" /\ c.sub \in {"fast", "fast_limits"} THEN "free" ELSE "validate"
    [] cl = "block_string" -> "free"                          \* every block string is a well-formed value (spec 2.9.4); C13 judges the value
    [] cl = "big_number" -> IF p = "int" /\ c.sub # "minus_zero" THEN "validate" ELSE "free"   \* Int is 32 bit
    [] cl = "bad_string" -> IF p = "nul_char" THEN "free" ELSE IF c.k = 2 THEN "decode" ELSE "parse"
    [] cl = "undefined_type" -> "validate"                    \* spec 5.8.2 Variables are input types / 5.5.1.2
    [] cl = "huge_name" -> IF p \in {"operation_mismatch", "field", "argument", "directive", "enum_value", "input_field"}
                           THEN "validate" ELSE "free"
    [] cl = "flood" -> IF p = "arguments" THEN "validate" ELSE "free"
    [] cl = "wrong_kind" -> IF c.sub \in WrongKinds(p) THEN "coerce" ELSE "free"
    [] cl = "bad_document" ->
         IF p \in {"empty", "whitespace", "only_comment", "nul", "lone_brace", "close_brace", "unknown_token", "dollar", "at", "ellipsis",
                   "colon", "number_name", "non_ascii_name", "astral", "empty_selection", "bang", "variable_in_default", "self_default"}
         THEN "parse"
         ELSE IF p \in {"schema_def", "two_anonymous", "dup_variable", "include_wrong_type", "skip_no_arg"}
         THEN "validate"
         \* "subscription_multi_root" (spec 5.2.3.1) and "skip_var_missing" (a required variable without a value, spec 6.1.2)
         \* are invalid requests too, but whether they are refused is what C09 / C06 judge; here they must only not crash.
         ELSE "free"
    [] cl = "request_ext" -> "free"
    [] cl = "request_ext_noquery" -> "execute"                \* no document and no registered query
    [] cl = "benign" -> IF p = "subscription" THEN "free" ELSE "none"
    [] cl = "truncate" -> IF c.transport = "get" THEN "free" ELSE "decode"
    [] cl = "bad_bytes" -> IF c.transport = "get" \/ p = "bom" THEN "free" ELSE "decode"    \* JSON text is UTF-8 without raw control characters
    [] cl = "get_syntax" -> IF p \in {"variables_not_json", "variables_array", "variables_string", "variables_number",
                                      "extensions_not_json", "extensions_array"} THEN "decode"
                            ELSE IF p \in {"no_query", "empty", "only_amp", "no_equals"} THEN "parse" ELSE "free"
    [] cl = "request_shape" ->
         IF p \in {"query_number", "query_null", "query_array", "opname_number", "opname_array", "variables_number", "variables_string",
                   "variables_array", "extensions_number", "extensions_array", "body_number", "body_string", "body_null", "body_true",
                   "batch_of_number", "batch_nested", "trailing_garbage", "two_documents", "empty_body", "whitespace_body", "single_quotes",
                   "comment", "nan"} THEN "decode"
         ELSE IF p = "query_missing" THEN "parse" ELSE "free"
    [] cl = "content_type" -> IF p \in {"///", "multipart/form-data"} THEN "decode" ELSE "free"
    [] cl = "mp_structure" ->
         IF p \in {"no_operations", "no_map", "map_not_json", "map_wrong_shape", "map_array", "map_missing_file", "no_boundary_param",
                   "wrong_boundary", "empty_body", "only_close"} THEN "decode"
         ELSE IF p = "marker_with_file" THEN "coerce" ELSE "free"
    [] cl = "ws_frames" ->
         IF c.sub \in {"invalid_json", "not_object", "number", "unknown_type", "missing_type", "type_number", "id_number",
                             "start_no_payload", "start_no_id", "start_payload_string", "start_before_init", "double_init",
                             "binary_garbage", "empty_frame", "first_frame_garbage"} THEN "decode" ELSE "free"
    [] OTHER -> "free"                                          \* byte-level mutations

Expect(c) == LET r == RefusedAt(c) IN IF r = "none" THEN "data" ELSE IF r = "free" THEN "any" ELSE "error"
Answers    == {"data", "errors", "reject", "close", "open"}       \* open: a WebSocket that says nothing and stays open
Crashes    == {"panic", "abort", "timeout"}
Allowed(c) == CASE Expect(c) = "error" -> {"errors", "reject", "close"}
                [] Expect(c) = "data"  -> {"data"}
                [] OTHER               -> Answers

--------------------------------------------------------------------------------
(* Named deviations of today's code.  Each is triggered by a syntactic feature   *)
(* of the input (computed by the harness from the payload bytes) and excuses     *)
(* exactly one kind of crash.                                                    *)
\* feat = [depth: deepest nesting of [ and { in the payload,
\*         val: deepest nesting of [ (anywhere) and of { inside parentheses (argument values, variable definitions),
\*         sel: deepest nesting of { outside parentheses (selection sets; objects of a JSON body),
\*         frags: number of fragment definitions]
\* A level of value nesting costs the recursive-descent parser about three times the stack of a level of selection nesting
\* (measured on the unchanged tree, 2 MiB: object values die between 1000 and 1500, list values between 2000 and 2500, selection
\* sets between 4500 and 5000): the trigger is a stack budget, val / SafeDepth + sel / SafeSel > 1.
\* (the switches DevUploadMarker, DevUndefinedType and DevNestedMultipart are gone: fixed in /repo, see known_findings/C12.json)
DevParserDepth    == "DevParserDepth"        \* the pest parser recurses on nesting before any depth check
DevFragmentChain  == "DevFragmentChain"      \* NoFragmentCycles::detect_from recurses along spreads of unused fragments
AllDevs == {DevParserDepth, DevFragmentChain}

OverBudget(feat) == feat.val * SafeSel + feat.sel * SafeDepth > SafeDepth * SafeSel
Triggered(feat) ==
  (IF OverBudget(feat) THEN {DevParserDepth} ELSE {}) \cup (IF feat.frags > SafeChain THEN {DevFragmentChain} ELSE {})
CrashOf(d) == "abort"
\* deviations that explain the observed crash on this input
Explains(feat, outcome) == {d \in Triggered(feat) : CrashOf(d) = outcome}

--------------------------------------------------------------------------------
(* The features of the structured cases, as the spec sees them (mode M uses them; *)
(* in mode V the harness reports the features of the bytes it actually sent).    *)
NestClasses == {"nest_list", "nest_obj", "nest_sel", "nest_vartype"}
FeatOf(c) == [depth  |-> IF c.class \in NestClasses THEN c.k ELSE 0,
              val    |-> IF c.class \in NestClasses \ {"nest_sel"} THEN c.k ELSE 0,
              sel    |-> IF c.class = "nest_sel" THEN c.k ELSE 0,
              frags  |-> IF c.class \in {"frag_chain", "frag_cycle"} THEN c.k ELSE 0]

--------------------------------------------------------------------------------
(* The state machine: one case through the stages.                               *)
VARIABLES case, stage, level, answer
vars == <<case, stage, level, answer>>

StageIx(s) == CHOOSE i \in 1..Len(Stages) : Stages[i] = s
FirstStage(c) == IF c.transport = "execute" THEN "parse" ELSE "decode"
ErrorOf(s, c) == IF s = "decode" THEN (IF c.transport = "ws" THEN "close" ELSE "reject") ELSE "errors"
\* the recursion a stage performs on this case: parse descends the nesting, validate follows the spread chain
Recursion(s, c) == CASE s = "parse" /\ c.class \in NestClasses -> c.k
                     [] s = "validate" /\ c.class \in {"frag_chain", "frag_cycle"} -> c.k
                     [] OTHER -> 0
\* the bound an ideal stage enforces before descending
Limit(s, c) == IF s = "parse" THEN (IF c.class = "nest_sel" THEN SafeSel ELSE SafeDepth) ELSE SafeChain
DevOf(s) == IF s = "parse" THEN DevParserDepth ELSE DevFragmentChain

Init == case \in Cases /\ stage = "start" /\ level = 0 /\ answer = "none"

Start == stage = "start" /\ stage' = FirstStage(case) /\ UNCHANGED <<case, level, answer>>

\* One more level of recursion inside a recursive stage.  The ideal stage refuses the input at its limit; with the
\* stage's deviation on, it descends without looking and dies when the stack is exhausted (modelled at 2 x the limit).
Descend == /\ stage \in {"parse", "validate"} /\ answer = "none" /\ level < Recursion(stage, case)
           /\ IF DevOf(stage) \notin Dev
              THEN IF level >= Limit(stage, case) THEN answer' = "errors" /\ level' = 0
                                            ELSE answer' = answer /\ level' = IF level + 100 < Recursion(stage, case) THEN level + 100 ELSE Recursion(stage, case)
              ELSE IF level >= 2 * Limit(stage, case) THEN answer' = "abort" /\ level' = 0
                                                ELSE answer' = answer /\ level' = IF level + 100 < Recursion(stage, case) THEN level + 100 ELSE Recursion(stage, case)
           /\ UNCHANGED <<case, stage>>

\* The stage has consumed its input: refuse, or hand over.
Finish == /\ stage \in {Stages[i] : i \in 1..Len(Stages)} /\ answer = "none" /\ level >= Recursion(stage, case)
          /\ IF RefusedAt(case) = stage THEN answer' = ErrorOf(stage, case) /\ stage' = stage
             ELSE IF stage = "execute" THEN answer' \in (IF RefusedAt(case) = "free" THEN {"data", "errors"} ELSE {"data"}) /\ stage' = stage
             ELSE answer' = answer /\ stage' = Stages[StageIx(stage) + 1]
          /\ level' = 0 /\ UNCHANGED case
\* a "free" case may also be refused by any stage (leniency is not prescribed)
Lenient == /\ stage \in {Stages[i] : i \in 1..Len(Stages)} /\ answer = "none" /\ RefusedAt(case) = "free" /\ level = 0
           /\ answer' = ErrorOf(stage, case) /\ UNCHANGED <<case, stage, level>>

Next == Start \/ Descend \/ Finish \/ Lenient
Spec == Init /\ [][Next]_vars /\ WF_vars(Next)

\* ---- mode M ------------------------------------------------------------------------------------
TypeOK == answer \in {"none"} \cup Answers \cup Crashes /\ level >= 0
\* ideal handling (Dev = {}): never a crash, and an answer is one the property admits
NoCrash       == answer \notin Crashes
AnswerAllowed == answer # "none" => answer \in Allowed(case) \cup Crashes
\* with deviations on: a crash only on the trigger class of a switched-on deviation that explains it
CrashExplained == answer \in Crashes => Explains(FeatOf(case), answer) \cap Dev # {}
\* a wire transport that refuses at decode never reaches the parser, so a WebSocket answer is close / errors / data
Answered == <>(answer # "none")
\* every hostile class is refused at a stage its transport has: execute has no decode stage
ASSUME \A c \in Cases : RefusedAt(c) = "decode" => c.transport # "execute"
=============================================================================
