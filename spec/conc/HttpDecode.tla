----------------------------- MODULE HttpDecode -----------------------------
(***************************************************************************)
(* HTTP transport of GraphQL requests (property C23).                      *)
(*                                                                         *)
(* Part 1 -- reference semantics of the four transport encodings.          *)
(*   An abstract request has four fields, each absent / null / a value.    *)
(*   Denote(r) is the request it means (GraphQL over HTTP, "Request        *)
(*   parameters": query, operationName, variables, extensions; absent and  *)
(*   null optional parameters mean "not given").  Encode*(r, ..) is the    *)
(*   *wire form* of r in each transport, at the level the protocol fixes:  *)
(*   member / parameter / part names and which values are JSON texts.      *)
(*   Bytes (JSON text, percent-encoding, multipart framing) are rendered   *)
(*   by the harness from the wire form.  Decode(w) is the reference        *)
(*   decoder of wire forms: the request(s) a server must see, or Err for   *)
(*   a malformed encoding.  The law  Decode(Encode(enc, r)) = Denote(r)    *)
(*   is checked by TLC over the whole generated domain (RoundTripLaw).     *)
(*                                                                         *)
(* Part 2 -- batch execution as a state machine (Schema::execute_batch /   *)
(*   Executor::execute_batch): the items of a batch run concurrently and   *)
(*   complete in any order (each behind a gate the environment opens);     *)
(*   the response list is aligned with the request list.                   *)
(*                                                                         *)
(* All strings are *atoms*: names of entries of the harness's string       *)
(* table (quotes, &, =, %, +, unicode, control characters, the empty       *)
(* string ...).  TLC never looks inside them; the harness maps names to    *)
(* text when rendering and text back to names when logging.                *)
(***************************************************************************)
EXTENDS JsonTree, FiniteSets, TLC      \* JsonTree: JSON value trees (J, JStr, JObj, Mem, HasKey, Get, HasBroken, JEq)

--------------------------------------------------------------------------------
(* Decoded requests and outcomes.                                              *)
None    == [some |-> FALSE, a |-> ""]
Some(a) == [some |-> TRUE, a |-> a]
Req(q, op, vars, ext) == [query |-> q, op |-> op, vars |-> vars, ext |-> ext]
Err == [k |-> "error", shape |-> "", reqs |-> <<>>]
Ok(shape, reqs) == [k |-> "ok", shape |-> shape, reqs |-> reqs]     \* shape: "single" | "batch"

ReqEq(a, b) == /\ a.query = b.query /\ a.op = b.op
               /\ JEq(a.vars, b.vars) /\ JEq(a.ext, b.ext)
OutcomeEq(a, b) ==
  IF a.k # b.k THEN FALSE
  ELSE IF a.k = "error" THEN TRUE                     \* error texts and classes are not compared
  ELSE /\ a.shape = b.shape /\ Len(a.reqs) = Len(b.reqs)
       /\ \A i \in 1..Len(a.reqs) : ReqEq(a.reqs[i], b.reqs[i])

--------------------------------------------------------------------------------
(* Abstract requests: each field is  [p |-> "absent" | "null" | "val", v |-> J] *)
Absent  == [p |-> "absent", v |-> JNull]
Null    == [p |-> "null",   v |-> JNull]
Val(v)  == [p |-> "val",    v |-> v]
AReq(q, op, vars, ext) == [query |-> q, op |-> op, vars |-> vars, ext |-> ext]

\* GraphQL over HTTP: `query` missing means "no document" (the empty string here, atom EMPTY);
\* an optional parameter that is missing or null is "not given".
Denote(r) == Req(IF r.query.p = "val" THEN r.query.v.a ELSE "EMPTY",
                 IF r.op.p = "val" THEN Some(r.op.v.a) ELSE None,
                 IF r.vars.p = "val" THEN r.vars.v ELSE EmptyObj,
                 IF r.ext.p = "val" THEN r.ext.v ELSE EmptyObj)

--------------------------------------------------------------------------------
(* Wire forms.                                                                  *)
(*  json / json-batch : body = one JSON text                                    *)
(*  get               : params = sequence of  key=value ; kind "raw" carries an *)
(*                      atom, kind "json" carries a JSON text (variables and    *)
(*                      extensions are JSON-encoded strings in a query string)  *)
(*  multipart         : parts = sequence of named form fields with JSON texts   *)
(*                      ("operations" and "map" of the multipart request spec)  *)
\* ws names the insignificant whitespace the renderer puts before, after and inside every JSON text of the
\* wire form ("none" "sp" "tab" "cr" "lf" "mix"); RFC 8259 section 2 allows it around every structural character,
\* so no decoder below looks at it: the decoded request does not depend on ws.
Wire(enc, ws, body, params, parts) == [enc |-> enc, ws |-> ws, body |-> body, params |-> params, parts |-> parts]
Param(key, kind, a, j) == [key |-> key, kind |-> kind, a |-> a, j |-> j]
Part(name, j) == [name |-> name, j |-> j]

Rev(s) == [i \in 1..Len(s) |-> s[Len(s) + 1 - i]]
Present(f) == f.p # "absent"
FVal(f) == IF f.p = "null" THEN JNull ELSE f.v

\* variant v: [rev |-> BOOLEAN, extra |-> "none" | "unknown" | "snake", ws |-> whitespace kind] -- member / parameter order, and extra
\* members / parameters that the protocol does not define (they must be ignored): "unknown" adds foo,
\* "snake" adds operation_name (which is *not* the operation name in any transport).
JsonMembers(r) ==
  (IF Present(r.query) THEN <<Mem("query", FVal(r.query))>> ELSE <<>>) \o
  (IF Present(r.op)    THEN <<Mem("operationName", FVal(r.op))>> ELSE <<>>) \o
  (IF Present(r.vars)  THEN <<Mem("variables", FVal(r.vars))>> ELSE <<>>) \o
  (IF Present(r.ext)   THEN <<Mem("extensions", FVal(r.ext))>> ELSE <<>>)
JsonReq(r, v) ==
  LET ms == JsonMembers(r) \o (IF v.extra = "unknown" THEN <<Mem("foo", JInt(1))>>
                                ELSE IF v.extra = "snake" THEN <<Mem("operation_name", JStr("PLAIN"))>> ELSE <<>>)
  IN JObj(IF v.rev THEN Rev(ms) ELSE ms)

EncodeJson(r, v)       == Wire("json", v.ws, JsonReq(r, v), <<>>, <<>>)
EncodeJsonBatch(rs, v) == Wire("json-batch", v.ws, JList([i \in 1..Len(rs) |-> JsonReq(rs[i], v)]), <<>>, <<>>)

\* A query string cannot say "null" for a string parameter: a null operationName is omitted.
GetParams(r) ==
  (IF r.query.p = "val" THEN <<Param("query", "raw", r.query.v.a, JNull)>> ELSE <<>>) \o
  (IF r.op.p = "val"    THEN <<Param("operationName", "raw", r.op.v.a, JNull)>> ELSE <<>>) \o
  (IF Present(r.vars)   THEN <<Param("variables", "json", "", FVal(r.vars))>> ELSE <<>>) \o
  (IF Present(r.ext)    THEN <<Param("extensions", "json", "", FVal(r.ext))>> ELSE <<>>)
EncodeGet(r, v) ==
  LET ps == GetParams(r) \o (IF v.extra = "unknown" THEN <<Param("foo", "raw", "AMP", JNull)>>
                              ELSE IF v.extra = "snake" THEN <<Param("operation_name", "raw", "PLAIN", JNull)>> ELSE <<>>)
  IN Wire("get", v.ws, JNull, IF v.rev THEN Rev(ps) ELSE ps, <<>>)

MpParts(j, v) == IF v.rev THEN <<Part("map", EmptyObj), Part("operations", j)>>
                          ELSE <<Part("operations", j), Part("map", EmptyObj)>>
EncodeMultipart(r, v)       == Wire("multipart", v.ws, JNull, <<>>, MpParts(JsonReq(r, v), v))
EncodeMultipartBatch(rs, v) == Wire("multipart-batch", v.ws, JNull, <<>>,
                                    MpParts(JList([i \in 1..Len(rs) |-> JsonReq(rs[i], v)]), v))

Encode(enc, rs, v) ==
  CASE enc = "json"            -> EncodeJson(rs[1], v)
    [] enc = "get"             -> EncodeGet(rs[1], v)
    [] enc = "multipart"       -> EncodeMultipart(rs[1], v)
    [] enc = "json-batch"      -> EncodeJsonBatch(rs, v)
    [] enc = "multipart-batch" -> EncodeMultipartBatch(rs, v)

--------------------------------------------------------------------------------
(* Reference decoder.  A step result is [ok |-> BOOLEAN, v |-> value].          *)
Good(v) == [ok |-> TRUE, v |-> v]
Bad     == [ok |-> FALSE, v |-> 0]

\* request members of a JSON object (GraphQL over HTTP, POST body)
MemQuery(o) == IF ~HasKey(o, "query") THEN Good("EMPTY")
               ELSE LET x == Get(o, "query") IN IF x.k = "str" THEN Good(x.a) ELSE Bad
MemOp(o)    == IF ~HasKey(o, "operationName") THEN Good(None)
               ELSE LET x == Get(o, "operationName") IN
                    IF x.k = "null" THEN Good(None) ELSE IF x.k = "str" THEN Good(Some(x.a)) ELSE Bad
MemMap(o, key) == IF ~HasKey(o, key) THEN Good(EmptyObj)
                  ELSE LET x == Get(o, key) IN
                       IF x.k = "null" THEN Good(EmptyObj) ELSE IF x.k = "obj" THEN Good(x) ELSE Bad
DecodeReq(x) ==
  IF x.k # "obj" THEN Bad
  ELSE LET q == MemQuery(x) o == MemOp(x) v == MemMap(x, "variables") e == MemMap(x, "extensions")
       IN IF q.ok /\ o.ok /\ v.ok /\ e.ok THEN Good(Req(q.v, o.v, v.v, e.v)) ELSE Bad

\* a body is one request object or a non-empty list of request objects
DecodeBody(j) ==
  IF HasBroken(j) THEN Err
  ELSE IF j.k = "list" THEN
         IF Len(j.c) = 0 THEN Err
         ELSE IF \A i \in 1..Len(j.c) : DecodeReq(j.c[i]).ok
              THEN Ok("batch", [i \in 1..Len(j.c) |-> DecodeReq(j.c[i]).v]) ELSE Err
  ELSE LET r == DecodeReq(j) IN IF r.ok THEN Ok("single", <<r.v>>) ELSE Err

\* query string (GraphQL over HTTP, GET): parameters query, operationName, variables, extensions;
\* opKey is the name under which the operation name is looked up.
PHas(ps, key) == \E i \in 1..Len(ps) : ps[i].key = key
PGet(ps, key) == ps[CHOOSE i \in 1..Len(ps) : ps[i].key = key]
ParMap(ps, key) == IF ~PHas(ps, key) THEN Good(EmptyObj)
                   ELSE LET x == PGet(ps, key).j IN
                        IF HasBroken(x) THEN Bad
                        ELSE IF x.k = "null" THEN Good(EmptyObj) ELSE IF x.k = "obj" THEN Good(x) ELSE Bad
DecodeGetWith(ps, opKey) ==
  LET q == IF PHas(ps, "query") THEN PGet(ps, "query").a ELSE "EMPTY"
      o == IF PHas(ps, opKey) THEN Some(PGet(ps, opKey).a) ELSE None
      v == ParMap(ps, "variables")
      e == ParMap(ps, "extensions")
  IN IF v.ok /\ e.ok THEN Ok("single", <<Req(q, o, v.v, e.v)>>) ELSE Err

\* multipart request: the "operations" field holds the body, "map" the (here empty) file map
PartHas(ps, name) == \E i \in 1..Len(ps) : ps[i].name = name
PartGet(ps, name) == ps[CHOOSE i \in 1..Len(ps) : ps[i].name = name].j
DecodeMultipartWith(ps, Body(_)) ==
  IF ~PartHas(ps, "operations") \/ ~PartHas(ps, "map") THEN Err
  ELSE IF PartGet(ps, "map").k # "obj" THEN Err
  ELSE Body(PartGet(ps, "operations"))

Decode(w) ==
  CASE w.enc \in {"json", "json-batch"}           -> DecodeBody(w.body)
    [] w.enc = "get"                              -> DecodeGetWith(w.params, "operationName")
    [] w.enc \in {"multipart", "multipart-batch"} -> DecodeMultipartWith(w.parts, DecodeBody)

--------------------------------------------------------------------------------
(* Named deviations of today's code (known_findings/C23.json).                  *)

\* (DevGetOperationNameKey -- GET `operationName` ignored -- was fixed in /repo and its switch deleted.)

\* DevSeqAsRequest: a JSON *array* in request position is read as a request by position
\* [query, operationName, variables, extensions] (serde's struct-from-sequence form, tried before the
\* batch form); so `[]` is one empty request instead of a rejected empty batch, and `["{a}"]` is a request.
SeqStr(c, i, dflt) == IF Len(c) < i THEN Good(dflt) ELSE IF c[i].k = "str" THEN Good(c[i].a) ELSE Bad
SeqOp(c)  == IF Len(c) < 2 THEN Good(None)
             ELSE IF c[2].k = "null" THEN Good(None) ELSE IF c[2].k = "str" THEN Good(Some(c[2].a)) ELSE Bad
SeqMap(c, i) == IF Len(c) < i THEN Good(EmptyObj)
                ELSE IF c[i].k = "null" THEN Good(EmptyObj) ELSE IF c[i].k = "obj" THEN Good(c[i]) ELSE Bad
DevDecodeReq(x) ==
  IF x.k = "list" THEN
    IF Len(x.c) > 4 THEN Bad
    ELSE LET q == SeqStr(x.c, 1, "EMPTY") o == SeqOp(x.c) v == SeqMap(x.c, 3) e == SeqMap(x.c, 4)
         IN IF q.ok /\ o.ok /\ v.ok /\ e.ok THEN Good(Req(q.v, o.v, v.v, e.v)) ELSE Bad
  ELSE DecodeReq(x)
DevSeqDecodeBody(j) ==
  IF HasBroken(j) THEN Err
  ELSE LET r == DevDecodeReq(j) IN
       IF r.ok THEN Ok("single", <<r.v>>)
       ELSE IF j.k = "list" /\ Len(j.c) > 0 /\ \A i \in 1..Len(j.c) : DevDecodeReq(j.c[i]).ok
            THEN Ok("batch", [i \in 1..Len(j.c) |-> DevDecodeReq(j.c[i]).v]) ELSE Err
DevSeqDecode(w) ==
  CASE w.enc \in {"json", "json-batch"}           -> DevSeqDecodeBody(w.body)
    [] w.enc \in {"multipart", "multipart-batch"} -> DecodeMultipartWith(w.parts, DevSeqDecodeBody)
    [] OTHER -> Decode(w)
\* the deviation can only show when an array stands where a request object belongs
SeqInReqPosition(j) == j.k = "list" /\ (Len(j.c) = 0 \/ \E i \in 1..Len(j.c) : j.c[i].k # "obj")
DevSeqTrigger(w) ==
  CASE w.enc \in {"json", "json-batch"}           -> SeqInReqPosition(w.body)
    [] w.enc \in {"multipart", "multipart-batch"} -> PartHas(w.parts, "operations") /\ SeqInReqPosition(PartGet(w.parts, "operations"))
    [] OTHER -> FALSE

\* Verdict of one observed outcome for one wire form.
Judge(w, obs) ==
  IF OutcomeEq(Decode(w), obs) THEN "ok"
  ELSE IF DevSeqTrigger(w) /\ OutcomeEq(DevSeqDecode(w), obs) THEN "known:DevSeqAsRequest"
  ELSE "violation"

--------------------------------------------------------------------------------
(* Part 2: batch execution.                                                     *)
(* execute_batch(Single r) = Single(execute r); execute_batch(Batch rs) runs    *)
(* execute(rs[i]) for all i concurrently (FuturesOrdered) and collects.  Each   *)
(* item is blocked in its resolver until the environment opens its gate.        *)
CONSTANT MaxBatch
VARIABLES phase,    \* "idle" | "submitted" | "running" | "returned"
          shape,    \* "single" | "batch"
          n,        \* number of requests
          gate,     \* set of items whose gate is open
          done,     \* set of items whose execution has completed
          order,    \* completion order (sequence of items) -- auxiliary
          res,      \* res[i] = what item i produced (the marker of the request it executed)
          out       \* the returned response list
bvars == <<phase, shape, n, gate, done, order, res, out>>

\* the marker of request i is i; a response carries the marker its resolver received
Items == 1..n

BInit == /\ phase = "idle" /\ shape = "single" /\ n = 0 /\ gate = {} /\ done = {}
         /\ order = <<>> /\ res = <<>> /\ out = <<>>

Submit(k, sh) == /\ phase = "idle" /\ (sh = "single" => k = 1) /\ k >= 1   \* an empty batch does not decode
                 /\ phase' = "submitted" /\ shape' = sh /\ n' = k /\ res' = [i \in 1..k |-> 0]
                 /\ UNCHANGED <<gate, done, order, out>>
\* first poll: every item starts and runs up to its gate
Start == /\ phase = "submitted" /\ phase' = "running"
         /\ UNCHANGED <<shape, n, gate, done, order, res, out>>
\* environment
OpenGate(i) == /\ phase \in {"submitted", "running"} /\ i \in Items /\ i \notin gate
               /\ gate' = gate \cup {i}
               /\ UNCHANGED <<phase, shape, n, done, order, res, out>>
Complete(i) == /\ phase = "running" /\ i \in gate /\ i \notin done
               /\ done' = done \cup {i} /\ order' = Append(order, i)
               /\ res' = [res EXCEPT ![i] = i]
               /\ UNCHANGED <<phase, shape, n, gate, out>>
\* FuturesOrdered::collect: outputs in submission order
Collect == /\ phase = "running" /\ done = Items
           /\ out' = [i \in 1..n |-> res[i]] /\ phase' = "returned"
           /\ UNCHANGED <<shape, n, gate, done, order, res>>
\* what an order-oblivious combinator (FuturesUnordered / completion order) would return -- used only as the
\* negative control of the invariant (MC_HttpDecodeDev.cfg must find a counterexample)
CollectUnordered == /\ phase = "running" /\ done = Items
                    /\ out' = [i \in 1..n |-> res[order[i]]] /\ phase' = "returned"
                    /\ UNCHANGED <<shape, n, gate, done, order, res>>

Internal == Start \/ (\E i \in 1..MaxBatch : Complete(i)) \/ Collect
BNext == \/ \E k \in 1..MaxBatch, sh \in {"single", "batch"} : Submit(k, sh)
         \/ \E i \in 1..MaxBatch : OpenGate(i)
         \/ Internal
BNextUnordered == \/ \E k \in 1..MaxBatch, sh \in {"single", "batch"} : Submit(k, sh)
                  \/ \E i \in 1..MaxBatch : OpenGate(i)
                  \/ Start \/ (\E i \in 1..MaxBatch : Complete(i)) \/ CollectUnordered
BSpec == BInit /\ [][BNext]_bvars /\ WF_bvars(Internal)

\* the property: the response list is the request list, position by position
Aligned      == phase = "returned" => (Len(out) = n /\ \A i \in 1..n : out[i] = i)
NothingEarly == phase = "returned" => gate = Items          \* no response before its resolver was released
BTypeOK      == /\ phase \in {"idle", "submitted", "running", "returned"} /\ done \subseteq gate
                /\ Len(order) = Cardinality(done)
Returns      == (phase # "idle" /\ gate = Items) ~> (phase = "returned")

\* one poll of the real future = Start (if needed), then every enabled Complete, then Collect if possible.
\* PollReady(g, k): does a poll with gates g open return the k responses?
PollReady(g, k) == g = 1..k
=============================================================================
