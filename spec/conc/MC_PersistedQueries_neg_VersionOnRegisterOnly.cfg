CONSTANT Good = {"t1", "t2"}
CONSTANT Invalid = {"i1"}
CONSTANT Unparseable = {"x1"}
CONSTANT Versions = {1, 2}
CONSTANT MalformedKinds = {"strversion"}
CONSTANT Dev = {"VersionOnRegisterOnly"}
SPECIFICATION Spec
INVARIANT MonAccepts
