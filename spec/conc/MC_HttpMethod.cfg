CONSTANT Dev = {}
CONSTANT BatchLen = 2
SPECIFICATION Spec
INVARIANT TypeOK
INVARIANT GetNeverMutates
INVARIANT GetMutationAnswered
INVARIANT DoneMatchesReference
INVARIANT PostUnaffected
INVARIANT CellDemands
PROPERTY Terminates
