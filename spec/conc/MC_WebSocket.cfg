\* mode M: both protocols, keep-alive on/off, the protocols as written (no deviation switched on).
\* The five clauses of C25 (and P0) are invariants of the monitor state carried by the model.
\* This is the thorough-tier configuration; checks/C25.py writes the quick-tier variant (<= 4 client messages,
\* keep-alive configured, which subsumes not configured) and the deviation demonstrations (Dev = {one switch},
\* expected counterexample to P4_ViolationCodes) into work/C25/.
CONSTANT Protos = {"GWS", "STWS"}
CONSTANT KeepAlives = {TRUE, FALSE}
CONSTANT Ids = {"a", "b"}
CONSTANT MaxEv = 2
CONSTANT MaxIn = 5
CONSTANT MaxQ = 2
CONSTANT Dev = {}
INIT Init
NEXT Next
VIEW MView
INVARIANT TypeOK
INVARIANT P0_ProtocolAlphabet
INVARIANT P1_AckBeforeRun
INVARIANT P2_DataIsLive
INVARIANT P3_CompleteOnce
INVARIANT P4_ViolationCodes
INVARIANT P5_SilentAfterClose
INVARIANT P6_PongPerPing
INVARIANT MonitorInSync
