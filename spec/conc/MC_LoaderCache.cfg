CONSTANT Keys = {1, 2}
CONSTANT Types = {"a", "b"}
CONSTANT Kind = "lru"
CONSTANT Cap = 1
CONSTANT Holes = {}
CONSTANT MaxOps = 4
SPECIFICATION Spec
INVARIANT WellFormed
INVARIANT Provenance
INVARIANT LoadAnswersItsKeys
INVARIANT FreshWhenOff
INVARIANT HitsAreOld
INVARIANT FeedIsHeld
INVARIANT ClearForgets
INVARIANT LastUsedIsHeld
