------------------------------ MODULE WebSocket ------------------------------
(***************************************************************************)
(* GraphQL over WebSocket sessions (property C25).                         *)
(*                                                                         *)
(* One session of async_graphql::http::WebSocket (src/http/websocket.rs)   *)
(* for either protocol:                                                    *)
(*   "GWS"  = graphql-transport-ws   (enisdenjo/graphql-ws PROTOCOL.md)    *)
(*   "STWS" = subscriptions-transport-ws, the legacy "graphql-ws"          *)
(*            sub-protocol (apollographql PROTOCOL.md)                     *)
(*                                                                         *)
(* Part 1 is the PROPERTY: a deterministic monitor over the merged history *)
(* of environment events and server events.  It only knows the protocol    *)
(* documents and the property text; it never looks at the model.           *)
(* Part 2 is the MODEL: environment actions plus one action `Poll` that    *)
(* transcribes one call of WebSocket::poll_next in the code's priority     *)
(* order, with today's deviations as named switches (CONSTANT Dev).        *)
(* The model carries the monitor state; P1..P5 are invariants of it.       *)
(*                                                                         *)
(* History alphabet (uniform records [k, t, id, n]):                       *)
(*   in/t       client message t put on the wire                           *)
(*              t: init start stop ping pong term bad eof                  *)
(*   recv/t     the server took that message from its input stream         *)
(*   exec       the server called Executor::execute_stream (id, n = gen)   *)
(*   initcall   the server invoked on_connection_init                      *)
(*   pingcall   the server invoked on_ping                                 *)
(*   initres    the init callback resolved (n = 1 ok, 0 error)             *)
(*   pingres    the oldest suspended ping callback resolved (n = 1 ok,     *)
(*              0 error)                                                   *)
(*   ev / end   the operation's source stream produced an event / ended    *)
(*   tick       the keep-alive delay elapsed                               *)
(*   out/t      result of one poll_next:                                   *)
(*              ack | next(id, gen) | complete(id) | pong(n = rank of the  *)
(*              answered ping callback, see P6) | error                    *)
(*              | close(n = code) | none (stream ended) | pending          *)
(*              | other (anything the protocol does not know)              *)
(***************************************************************************)
EXTENDS Naturals, Sequences, FiniteSets, TLC

CONSTANTS Protos,     \* protocols to explore, a subset of {"GWS", "STWS"}
          KeepAlives, \* keep-alive timer configured or not: a subset of BOOLEAN
          Ids,        \* operation ids
          MaxEv,      \* events fed to one execution of an operation
          MaxIn,      \* client messages put on the wire (including eof)
          MaxQ,       \* client messages waiting unread
          Dev         \* deviations of today's code that are switched on

AllDev == {"DevDupIdReplaces", "DevUnauth1011", "DevInvalid1002"}
ASSUME Protos \subseteq {"GWS", "STWS"} /\ Dev \subseteq AllDev /\ KeepAlives \subseteq BOOLEAN

E(k, t, id, n) == [k |-> k, t |-> t, id |-> id, n |-> n]
Out(t, id, n)  == E("out", t, id, n)

(***************************************************************************)
(* Part 1 -- the property.                                                 *)
(*                                                                         *)
(* graphql-transport-ws close codes (PROTOCOL.md):                         *)
(*   4400 message of unknown type or format ("Invalid message")            *)
(*   4401 Subscribe before the connection was acknowledged                 *)
(*   4409 Subscribe with the id of an active operation                     *)
(*   4429 more than one ConnectionInit                                     *)
(* The legacy protocol has no close codes: GQL_CONNECTION_ERROR is its     *)
(* only rejection message and a bare close frame its only other way to     *)
(* refuse, so for STWS a violation must be answered by connection_error    *)
(* followed by the end of the stream, or by a close frame (any code).  A   *)
(* repeated GQL_START id is not a violation there (the reference server    *)
(* replaces the running operation), and a message that does not parse may  *)
(* be answered by connection_error without disconnecting.                  *)
(*                                                                         *)
(* Clauses (labels stored in mon.bad):                                     *)
(*  P1 operations run only after a single acknowledged connection_init     *)
(*  P2 every data/next message belongs to a live operation                 *)
(*  P3 an operation completes at most once and emits nothing afterwards    *)
(*  P4 a protocol violation closes the connection with the protocol's code *)
(*  P5 nothing is sent after a close                                       *)
(*  P0 a message that the negotiated protocol does not have, or a          *)
(*     close / connection_error without any cause                          *)
(*  P6 (graphql-transport-ws, "Ping: ... the recipient must send a Pong as *)
(*     soon as possible"): every ping the server took gets its own pong,   *)
(*     in the order of the pings.  The harness's on_ping callback suspends *)
(*     on a gate and returns the number of its call as the pong payload;   *)
(*     a recorded pong carries n = the rank of that call among the ping    *)
(*     callbacks not yet answered by a pong (1 = the oldest; 0 = a pong    *)
(*     without a callback result, i.e. an unsolicited heartbeat, legal).   *)
(*     So: a pong of rank 1 whose callback has finished is the only        *)
(*     solicited pong allowed, and the server must not idle (return        *)
(*     Pending) while the oldest unanswered ping's callback has finished.  *)
(*     The legacy protocol has no ping / pong: not judged there.           *)
(* Not judged: close reasons, payloads, the order in which two ready       *)
(* operations are served, the close code used for a rejected init / ping   *)
(* callback or a keep-alive expiry, whether an ack is ever sent.            *)
(***************************************************************************)
CodeOf(v) == CASE v = "BadMessage" -> 4400 [] v = "Unauthorized" -> 4401
               [] v = "Duplicate" -> 4409 [] v = "TooManyInit" -> 4429 [] OTHER -> 0
ViolationCodes == {4400, 4401, 4409, 4429}
Violations == {"BadMessage", "Unauthorized", "Duplicate", "TooManyInit"}

NoOp == [st |-> "idle", gen |-> 0, fed |-> 0, sent |-> 0]
MonInit == [bad |-> "", why |-> "", at |-> 0, used |-> {},
            acks |-> 0,            \* connection_ack messages sent
            inits |-> 0,           \* connection_init messages received
            init |-> "none",       \* init callback: none | wait | ok | err | done
            pq |-> <<>>,           \* ping callbacks invoked and not yet answered by a pong, oldest first: wait | ok | err
            ops |-> [i \in Ids |-> NoOp],   \* st: idle | live | stopped | done
            want |-> [i \in Ids |-> FALSE], \* a legal subscribe for i was received and has not run yet
            expect |-> "",         \* "" | a violation awaiting its answer | "Terminate"
            dup |-> "",            \* the id of the Duplicate violation
            conn |-> "open",       \* open | closeSent | errorSent | over
            inbox |-> <<>>,        \* client messages on the wire, not yet taken
            timer |-> FALSE]       \* a keep-alive expiry happened

Fail(m, clause, why) == [m EXCEPT !.bad = clause, !.why = why]

\* Would message x be a protocol violation if the server took it in state m?
IsViolation(p, m, x) ==
  \/ x.t = "bad"
  \/ x.t = "init" /\ m.inits >= 1
  \/ x.t = "start" /\ m.acks = 0
  \/ x.t = "start" /\ p = "GWS" /\ m.ops[x.id].st = "live"

MonRecv(p, m, e) ==
  LET m1 == [m EXCEPT !.inbox = IF @ = <<>> THEN @ ELSE Tail(@)] IN
  IF m.conn # "open" THEN m1
  ELSE IF m.expect \in Violations THEN Fail(m, "P4", "message read while violation " \o m.expect \o " is unanswered")
  ELSE IF m.expect = "Terminate" THEN Fail(m, "P5", "message read after connection_terminate")
  ELSE CASE e.t = "init"  -> IF m.inits = 0 THEN [m1 EXCEPT !.inits = 1]
                             ELSE [m1 EXCEPT !.inits = @ + 1, !.expect = "TooManyInit"]
         [] e.t = "start" -> IF m.acks = 0 THEN [m1 EXCEPT !.expect = "Unauthorized"]
                             ELSE IF p = "GWS" /\ m.ops[e.id].st = "live"
                                  THEN [m1 EXCEPT !.expect = "Duplicate", !.dup = e.id]
                             ELSE [m1 EXCEPT !.want[e.id] = TRUE]
         [] e.t = "stop"  -> IF m.ops[e.id].st = "live" THEN [m1 EXCEPT !.ops[e.id].st = "stopped"] ELSE m1
         [] e.t = "term"  -> [m1 EXCEPT !.expect = "Terminate"]
         [] e.t = "bad"   -> [m1 EXCEPT !.expect = "BadMessage"]
         [] e.t \in {"ping", "pong", "eof"} -> m1
         [] OTHER -> Fail(m, "trace", "unknown client message")

MonExec(p, m, e) ==
  LET fresh == [st |-> "live", gen |-> e.n, fed |-> 0, sent |-> 0] IN
  IF m.conn # "open" THEN m
  ELSE IF m.acks = 0 THEN Fail(m, "P1", "operation run before connection_ack")
  ELSE IF m.expect = "Duplicate" /\ e.id = m.dup
       \* named deviation DevDupIdReplaces, offered only at its trigger: a subscribe whose id is live
       THEN [m EXCEPT !.expect = "", !.dup = "", !.used = @ \cup {"DevDupIdReplaces"}, !.ops[e.id] = fresh]
  ELSE IF m.expect # "" THEN Fail(m, "P4", "operation run instead of answering " \o m.expect)
  ELSE IF ~m.want[e.id] THEN Fail(m, "P1", "operation run without a subscribe message")
  ELSE [m EXCEPT !.want[e.id] = FALSE, !.ops[e.id] = fresh]

Closed(m)  == [m EXCEPT !.conn = "closeSent", !.expect = ""]
Errored(m) == [m EXCEPT !.conn = "errorSent", !.expect = ""]
PingErr(m)   == \E i \in 1..Len(m.pq) : m.pq[i] = "err"
PingWaits(m) == \E i \in 1..Len(m.pq) : m.pq[i] = "wait"
Cause(m)   == m.timer \/ m.init = "err" \/ PingErr(m)
RemoveAt(q, i) == SubSeq(q, 1, i - 1) \o SubSeq(q, i + 1, Len(q))
\* the gate opened by `pingres` belongs to the oldest callback that is still suspended
ResolveFirst(q, st) == IF \E i \in 1..Len(q) : q[i] = "wait"
                       THEN LET i == CHOOSE i \in 1..Len(q) : q[i] = "wait" /\ \A j \in 1..(i - 1) : q[j] # "wait" IN [q EXCEPT ![i] = st]
                       ELSE q
\* P6: a pong of rank e.n (see the head of the module)
MonPong(p, m, e) ==
  IF e.n = 0 THEN m
  ELSE IF p # "GWS" THEN [m EXCEPT !.pq = IF e.n <= Len(@) THEN RemoveAt(@, e.n) ELSE @]
  ELSE IF e.n > Len(m.pq) THEN Fail(m, "P6", "pong with the result of a ping callback that is not outstanding")
  ELSE IF e.n # 1 THEN Fail(m, "P6", "pong for a later ping while an earlier ping has no pong")
  ELSE IF m.pq[1] # "ok" THEN Fail(m, "P6", "pong although the ping callback has not finished successfully")
  ELSE [m EXCEPT !.pq = Tail(@)]

\* the answer to a protocol violation must be the very next thing the server says
MonAnswer(p, m, e) ==
  LET v == m.expect IN
  IF p = "GWS" THEN
       IF e.t = "close" /\ e.n = CodeOf(v) THEN Closed(m)
       ELSE IF e.t = "close" /\ e.n = 1011 /\ v = "Unauthorized" THEN [Closed(m) EXCEPT !.used = @ \cup {"DevUnauth1011"}]
       ELSE IF e.t = "close" /\ e.n = 1002 /\ v = "BadMessage" THEN [Closed(m) EXCEPT !.used = @ \cup {"DevInvalid1002"}]
       ELSE Fail(m, "P4", v \o " not answered by its close code")
  ELSE IF e.t = "close" THEN Closed(m)
       ELSE IF e.t = "error" THEN (IF v = "BadMessage" THEN [m EXCEPT !.expect = ""] ELSE Errored(m))
       ELSE Fail(m, "P4", v \o " not answered by connection_error or a close")

MonOut(p, m, e) ==
  IF m.conn = "over" THEN Fail(m, "P5", "output after the end of the stream")
  ELSE IF m.conn = "closeSent" THEN (IF e.t = "none" THEN [m EXCEPT !.conn = "over"]
                                     ELSE IF e.t = "pending" THEN m      \* nothing was sent
                                     ELSE Fail(m, "P5", "message after a close frame"))
  ELSE IF m.conn = "errorSent" THEN (IF e.t = "none" THEN [m EXCEPT !.conn = "over"] ELSE Fail(m, "P4", "connection_error not followed by closing"))
  ELSE IF m.expect \in Violations THEN MonAnswer(p, m, e)
  ELSE IF m.expect = "Terminate" THEN
         (IF e.t = "none" THEN [m EXCEPT !.conn = "over", !.expect = ""]
          ELSE IF e.t = "close" THEN Closed(m)
          ELSE Fail(m, "P5", "output after connection_terminate"))
  ELSE CASE e.t = "pending" ->
              IF m.init # "wait" /\ ~PingWaits(m) /\ m.inbox # <<>> /\ IsViolation(p, m, Head(m.inbox))
              THEN Fail(m, "P4", "violating message left unanswered although the server is idle")
              ELSE IF p = "GWS" /\ m.pq # <<>> /\ Head(m.pq) = "ok"
              THEN Fail(m, "P6", "the oldest unanswered ping's callback has finished but the server idles without its pong")
              ELSE m
         [] e.t = "none" -> [m EXCEPT !.conn = "over"]
         [] e.t = "ack"  -> IF m.acks > 0 THEN Fail(m, "P1", "second connection_ack")
                            ELSE IF m.init # "ok" THEN Fail(m, "P1", "connection_ack without an accepted connection_init")
                            ELSE [m EXCEPT !.acks = 1, !.init = "done"]
         [] e.t = "pong" -> MonPong(p, m, e)
         [] e.t = "next" ->
              LET o == m.ops[e.id] IN
              IF m.acks = 0 THEN Fail(m, "P1", "data before connection_ack")
              ELSE IF o.st = "live" /\ o.gen = e.n THEN
                     (IF o.sent < o.fed THEN [m EXCEPT !.ops[e.id].sent = @ + 1]
                      ELSE Fail(m, "P2", "data message without a source event"))
              ELSE IF o.st \in {"stopped", "done"} /\ o.gen = e.n THEN Fail(m, "P3", "data after complete")
              ELSE Fail(m, "P2", "data for an operation that is not live")
         [] e.t = "complete" ->
              IF m.ops[e.id].st \in {"live", "stopped"} THEN [m EXCEPT !.ops[e.id].st = "done"]
              ELSE Fail(m, "P3", "complete for an operation that is not live")
         [] e.t = "error" ->
              IF p = "GWS" THEN Fail(m, "P0", "connection_error is not a graphql-transport-ws message")
              ELSE IF Cause(m) THEN Errored(m) ELSE Fail(m, "P0", "connection_error without cause")
         [] e.t = "close" ->
              IF ~Cause(m) THEN Fail(m, "P0", "close without cause")
              ELSE IF p = "GWS" /\ e.n \in ViolationCodes THEN Fail(m, "P4", "violation close code without that violation")
              ELSE Closed(m)
         [] OTHER -> Fail(m, "P0", "message unknown to the protocol")

MonStep(p, m, e) ==
  IF m.bad # "" THEN m
  ELSE IF e.id \notin Ids /\ (e.k = "exec" \/ (e.k = "out" /\ e.t \in {"next", "complete"}))
       THEN Fail(m, "P2", "operation id that no client message introduced")
  ELSE CASE e.k = "in"       -> [m EXCEPT !.inbox = Append(@, [t |-> e.t, id |-> e.id])]
         [] e.k = "ev"       -> [m EXCEPT !.ops[e.id].fed = @ + 1]
         [] e.k = "end"      -> m
         [] e.k = "tick"     -> [m EXCEPT !.timer = TRUE]
         [] e.k = "initcall" -> [m EXCEPT !.init = "wait"]
         [] e.k = "pingcall" -> [m EXCEPT !.pq = Append(@, "wait")]
         [] e.k = "initres"  -> [m EXCEPT !.init = IF e.n = 1 THEN "ok" ELSE "err"]
         [] e.k = "pingres"  -> [m EXCEPT !.pq = ResolveFirst(@, IF e.n = 1 THEN "ok" ELSE "err")]
         [] e.k = "recv"     -> MonRecv(p, m, e)
         [] e.k = "exec"     -> MonExec(p, m, e)
         [] e.k = "out"      -> MonOut(p, m, e)
         [] OTHER -> Fail(m, "trace", "unknown event kind")

\* fold; stops at the first rejected event and records its index in `at`
RECURSIVE MonRun(_, _, _, _)
MonRun(p, m, evs, i) ==
  IF i > Len(evs) \/ m.bad # "" THEN m
  ELSE LET m2 == MonStep(p, m, evs[i]) IN
       IF m2.bad # "" THEN [m2 EXCEPT !.at = i] ELSE MonRun(p, m2, evs, i + 1)

DevList(u) == (IF "DevDupIdReplaces" \in u THEN <<"DevDupIdReplaces">> ELSE <<>>)
           \o (IF "DevUnauth1011" \in u THEN <<"DevUnauth1011">> ELSE <<>>)
           \o (IF "DevInvalid1002" \in u THEN <<"DevInvalid1002">> ELSE <<>>)
RECURSIVE JoinComma(_)
JoinComma(s) == IF Len(s) = 1 THEN s[1] ELSE s[1] \o "," \o JoinComma(Tail(s))
\* "ok" | "known:<Dev>[,<Dev>]" | "violation:<clause>"
VerdictOf(m) == IF m.bad # "" THEN "violation:" \o m.bad
                ELSE IF m.used = {} THEN "ok" ELSE "known:" \o JoinComma(DevList(m.used))

(***************************************************************************)
(* Part 2 -- the model of WebSocket::poll_next and its environment.        *)
(***************************************************************************)
VARIABLES proto,       \* the negotiated protocol (fixed for the session)
          keepAlive,   \* a keep-alive timeout is configured (fixed for the session)
          closed,      \* the `close` flag
          over,        \* poll_next has returned None; the stream is not polled again
          initTaken,   \* on_connection_init has been taken (Option::take)
          initFut,     \* init_fut:  none | wait | ok | err   (ok/err: resolved, not yet polled)
          pingFut,     \* ping_fut:  none | wait | ok | err
          acked,       \* `data` is Some
          streams,     \* id -> [live (in the map), gen, buf (events not yet sent), fed, ended]
          inbox,       \* the client message stream: messages not yet taken
          timerFired,  \* the armed keep-alive delay has elapsed
          nexec,       \* calls of Executor::execute_stream so far
          nin, gone,   \* environment bookkeeping: messages sent, client went away
          log,         \* events of the last step
          mon          \* monitor state of the whole history
vars == <<proto, keepAlive, closed, over, initTaken, initFut, pingFut, acked, streams, inbox, timerFired, nexec, nin, gone, log, mon>>
\* `log` only reports what the last step said; neither the next-state relation nor an invariant reads it,
\* so mode M may identify states that differ in `log` alone (VIEW MView in the configuration)
MView == <<proto, keepAlive, closed, over, initTaken, initFut, pingFut, acked, streams, inbox, timerFired, nexec, nin, gone, mon>>
srvVars == <<proto, keepAlive, closed, over, initTaken, initFut, pingFut, acked, streams, timerFired, nexec>>

NoStream == [live |-> FALSE, gen |-> 0, buf |-> 0, fed |-> 0, ended |-> FALSE]
Init == /\ proto \in Protos /\ keepAlive \in KeepAlives
        /\ closed = FALSE /\ over = FALSE /\ initTaken = FALSE /\ initFut = "none" /\ pingFut = "none"
        /\ acked = FALSE /\ streams = [i \in Ids |-> NoStream] /\ inbox = <<>> /\ timerFired = FALSE
        /\ nexec = 0 /\ nin = 0 /\ gone = FALSE /\ log = <<>> /\ mon = MonInit

Log(evs) == log' = evs /\ mon' = MonRun(proto, mon, evs, 1)

(* ---- environment -------------------------------------------------------- *)
Msg(t, id) == [t |-> t, id |-> id]
Messages == {Msg(t, "") : t \in {"init", "ping", "pong", "term", "bad", "eof"}}
            \cup {Msg(t, i) : t \in {"start", "stop"}, i \in Ids}
Client(m) == /\ ~over /\ ~gone /\ nin < MaxIn /\ Len(inbox) < MaxQ
             /\ inbox' = Append(inbox, m) /\ nin' = nin + 1 /\ gone' = (m.t = "eof")
             /\ Log(<<E("in", m.t, m.id, 0)>>)
             /\ UNCHANGED srvVars
StreamEvent(i) == /\ ~over /\ streams[i].live /\ ~streams[i].ended /\ streams[i].fed < MaxEv
                  /\ streams' = [streams EXCEPT ![i].buf = @ + 1, ![i].fed = @ + 1]
                  /\ Log(<<E("ev", "", i, streams[i].gen)>>)
                  /\ UNCHANGED <<proto, keepAlive, closed, over, initTaken, initFut, pingFut, acked, inbox, timerFired, nexec, nin, gone>>
StreamEnd(i) == /\ ~over /\ streams[i].live /\ ~streams[i].ended
                /\ streams' = [streams EXCEPT ![i].ended = TRUE]
                /\ Log(<<E("end", "", i, streams[i].gen)>>)
                /\ UNCHANGED <<proto, keepAlive, closed, over, initTaken, initFut, pingFut, acked, inbox, timerFired, nexec, nin, gone>>
InitResolves(ok) == /\ ~over /\ initFut = "wait"
                    /\ initFut' = IF ok THEN "ok" ELSE "err"
                    /\ Log(<<E("initres", "", "", IF ok THEN 1 ELSE 0)>>)
                    /\ UNCHANGED <<proto, keepAlive, closed, over, initTaken, pingFut, acked, streams, inbox, timerFired, nexec, nin, gone>>
PingResolves(ok) == /\ ~over /\ pingFut = "wait"
                    /\ pingFut' = IF ok THEN "ok" ELSE "err"
                    /\ Log(<<E("pingres", "", "", IF ok THEN 1 ELSE 0)>>)
                    /\ UNCHANGED <<proto, keepAlive, closed, over, initTaken, initFut, acked, streams, inbox, timerFired, nexec, nin, gone>>
KeepAliveExpires == /\ keepAlive /\ ~over /\ ~timerFired
                    /\ timerFired' = TRUE
                    /\ Log(<<E("tick", "", "", 0)>>)
                    /\ UNCHANGED <<proto, keepAlive, closed, over, initTaken, initFut, pingFut, acked, streams, inbox, nexec, nin, gone>>
Env == \/ \E m \in Messages : Client(m)
       \/ \E i \in Ids : StreamEvent(i) \/ StreamEnd(i)
       \/ \E ok \in BOOLEAN : InitResolves(ok) \/ PingResolves(ok)
       \/ KeepAliveExpires

(* ---- one call of poll_next ---------------------------------------------- *)
(* The call is atomic with respect to the environment (one thread; whatever *)
(* arrives during the call is seen by the next call).  s is the server      *)
(* state as a record; s.log collects the events of this call.               *)
Cur == [closed |-> closed, over |-> over, initTaken |-> initTaken, initFut |-> initFut, pingFut |-> pingFut,
        acked |-> acked, streams |-> streams, inbox |-> inbox, timerFired |-> timerFired, nexec |-> nexec,
        log |-> <<>>]
Say(s, e)        == [s EXCEPT !.log = Append(@, e)]
CloseWith(s, c)  == Say([s EXCEPT !.closed = TRUE], Out("close", "", c))
ErrorClose(s)    == Say([s EXCEPT !.closed = TRUE], Out("error", "", 0))
\* rejections that depend on the protocol only: connection_error (legacy) / close frame (new)
Reject(s, code)  == IF proto = "STWS" THEN ErrorClose(s) ELSE CloseWith(s, code)

\* today's code vs. the protocol (named deviations)
CodeInvalid == IF proto = "GWS" /\ "DevInvalid1002" \notin Dev THEN 4400 ELSE 1002
CodeUnauth  == IF proto = "GWS" /\ "DevUnauth1011" \notin Dev THEN 4401 ELSE 1011
RefuseDuplicate == proto = "GWS" /\ "DevDupIdReplaces" \notin Dev

\* `while let Poll::Ready(message) = stream.poll_next(cx)`: returns [s, done]; done = poll_next returned
RECURSIVE Drain(_)
Drain(s) ==
  IF s.inbox = <<>> THEN [s |-> s, done |-> FALSE]
  ELSE LET m  == Head(s.inbox)
           s1 == Say([s EXCEPT !.inbox = Tail(@)], E("recv", m.t, m.id, 0))
       IN CASE m.t = "eof"  -> [s |-> Say([s1 EXCEPT !.over = TRUE], Out("none", "", 0)), done |-> TRUE]
            [] m.t = "bad"  -> [s |-> CloseWith(s1, CodeInvalid), done |-> TRUE]
            [] m.t = "init" -> IF ~s1.initTaken
                               THEN [s |-> Say([s1 EXCEPT !.initTaken = TRUE, !.initFut = "wait"], E("initcall", "", "", 0)),
                                     done |-> FALSE]                                    \* break
                               ELSE [s |-> Reject(s1, 4429), done |-> TRUE]
            [] m.t = "start" -> IF ~s1.acked THEN [s |-> CloseWith(s1, CodeUnauth), done |-> TRUE]
                                ELSE IF s1.streams[m.id].live /\ RefuseDuplicate THEN [s |-> CloseWith(s1, 4409), done |-> TRUE]
                                ELSE Drain(Say([s1 EXCEPT !.nexec = @ + 1,
                                                          !.streams[m.id] = [NoStream EXCEPT !.live = TRUE, !.gen = s1.nexec + 1]],
                                               E("exec", "", m.id, s1.nexec + 1)))   \* HashMap::insert replaces
            [] m.t = "stop" -> IF s1.streams[m.id].live
                               THEN [s |-> Say([s1 EXCEPT !.streams[m.id].live = FALSE], Out("complete", m.id, 0)), done |-> TRUE]
                               ELSE Drain(s1)
            [] m.t = "term" -> [s |-> Say([s1 EXCEPT !.closed = TRUE, !.over = TRUE], Out("none", "", 0)), done |-> TRUE]
            [] m.t = "ping" -> [s |-> Say([s1 EXCEPT !.pingFut = "wait"], E("pingcall", "", "", 0)), done |-> FALSE]  \* break
            [] m.t = "pong" -> Drain(s1)

InitFuture(s) ==
  CASE s.initFut = "wait" -> Say(s, Out("pending", "", 0))
    [] s.initFut = "ok"   -> Say([s EXCEPT !.initFut = "none", !.acked = TRUE], Out("ack", "", 0))
    [] s.initFut = "err"  -> Reject([s EXCEPT !.initFut = "none"], 1002)
PingFuture(s) ==
  CASE s.pingFut = "wait" -> Say(s, Out("pending", "", 0))
    [] s.pingFut = "ok"   -> Say([s EXCEPT !.pingFut = "none"], Out("pong", "", 1))
    [] s.pingFut = "err"  -> Reject([s EXCEPT !.pingFut = "none"], 1002)
\* `for (id, stream) in &mut streams`: HashMap order, so any ready operation may be served
StreamOutputs(s) ==
  LET ready == {i \in Ids : s.streams[i].live /\ (s.streams[i].buf > 0 \/ s.streams[i].ended)} IN
  IF ready = {} THEN {Say(s, Out("pending", "", 0))}
  ELSE {IF s.streams[i].buf > 0 THEN Say([s EXCEPT !.streams[i].buf = @ - 1], Out("next", i, s.streams[i].gen))
        ELSE Say([s EXCEPT !.streams[i].live = FALSE], Out("complete", i, 0)) : i \in ready}

PollResults(s) ==
  IF s.closed THEN {Say([s EXCEPT !.over = TRUE], Out("none", "", 0))}
  ELSE IF keepAlive /\ s.timerFired THEN {Reject([s EXCEPT !.timerFired = FALSE], 3008)}
  ELSE LET d == IF s.initFut = "none" /\ s.pingFut = "none" THEN Drain(s) ELSE [s |-> s, done |-> FALSE] IN
       IF d.done THEN {d.s}
       ELSE IF d.s.initFut # "none" THEN {InitFuture(d.s)}
       ELSE IF d.s.pingFut # "none" THEN {PingFuture(d.s)}
       ELSE StreamOutputs(d.s)

Poll == /\ ~over
        /\ \E s \in PollResults(Cur) :
             /\ closed' = s.closed /\ over' = s.over /\ initTaken' = s.initTaken /\ initFut' = s.initFut
             /\ pingFut' = s.pingFut /\ acked' = s.acked /\ streams' = s.streams /\ inbox' = s.inbox
             /\ timerFired' = s.timerFired /\ nexec' = s.nexec /\ Log(s.log)
        /\ UNCHANGED <<proto, keepAlive, nin, gone>>

Next == Env \/ Poll
Spec == Init /\ [][Next]_vars /\ WF_vars(Poll) /\ WF_vars(\E ok \in BOOLEAN : InitResolves(ok) \/ PingResolves(ok))

(* ---- the property as invariants of the model ----------------------------- *)
TypeOK == /\ closed \in BOOLEAN /\ over \in BOOLEAN /\ acked \in BOOLEAN
          /\ initFut \in {"none", "wait", "ok", "err"} /\ pingFut \in {"none", "wait", "ok", "err"}
          /\ Len(inbox) <= MaxQ /\ mon.bad \in {"", "P0", "P1", "P2", "P3", "P4", "P5", "P6"}
P0_ProtocolAlphabet == mon.bad # "P0"
P1_AckBeforeRun     == mon.bad # "P1"
P2_DataIsLive       == mon.bad # "P2"
P3_CompleteOnce     == mon.bad # "P3"
P4_ViolationCodes   == mon.bad # "P4" /\ mon.used = {}
P5_SilentAfterClose == mon.bad # "P5"
P6_PongPerPing      == mon.bad # "P6"
\* the monitor's picture of the session agrees with the model (binding sanity)
MonitorInSync == mon.bad = "" /\ ~over =>
                   /\ mon.inbox = inbox /\ (mon.acks = 1) = acked
                   /\ \A i \in Ids : (mon.ops[i].st = "live") = streams[i].live
\* with deviations switched on the only failing clause is P4, through the named deviation
OnlyNamedDeviations == mon.bad = "" /\ mon.used \subseteq Dev
\* liveness: an idle, open server reads what the client sent
Drains == (inbox # <<>>) ~> (inbox = <<>> \/ over)
=============================================================================
