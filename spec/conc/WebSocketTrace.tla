--------------------------- MODULE WebSocketTrace ---------------------------
(* Mode V for C25.                                                           *)
(*  Verdict run (TInit/TNext): the recorded history of each session of the   *)
(*    real WebSocket stream is folded through the property monitor of        *)
(*    WebSocket.tla (pure fold, one verdict per trace, never blocks):        *)
(*    "ok" | "known:<Dev>[,<Dev>]" | "violation:<clause>".                   *)
(*  Drift run (DInit/DNext): each trace is replayed against the model: a     *)
(*    step of the model is taken only if the events it logs are the next     *)
(*    events of the trace.  A trace the model cannot follow to its end is    *)
(*    MODEL-DRIFT (informational), never a verdict.                          *)
EXTENDS WebSocket, Json, IOUtils

Traces == ndJsonDeserialize(IOEnv.TRACE)
VARIABLES tid, l

\* ---- verdict --------------------------------------------------------------
Final(tr) == MonRun(tr.proto, MonInit, tr.events, 1)
Report(id, f) == /\ PrintT(<<"VERDICT", id, VerdictOf(f), f.at>>)
                 /\ IF f.bad = "" THEN TRUE ELSE PrintT(<<"WHY", id, f.why>>)
TInit == Init /\ proto = "GWS" /\ keepAlive = FALSE /\ tid = 0 /\ l = 1
TNext == /\ l <= Len(Traces)
         /\ Report(Traces[l].id, Final(Traces[l]))
         /\ l' = l + 1 /\ UNCHANGED <<vars, tid>>

\* ---- drift ----------------------------------------------------------------
Ev == Traces[tid].events
DInit == /\ tid \in 1..Len(Traces) /\ l = 0
         /\ Init /\ proto = Traces[tid].proto /\ keepAlive = Traces[tid].keepalive
\* the next recorded event selects the action: environment events bind their action's parameters,
\* any server-side event (recv, exec, initcall, pingcall, out) can only come from a call of poll_next
Step(e) == CASE e.k = "in"      -> Client([t |-> e.t, id |-> e.id])
             [] e.k = "ev"      -> StreamEvent(e.id)
             [] e.k = "end"     -> StreamEnd(e.id)
             [] e.k = "initres" -> InitResolves(e.n = 1)
             [] e.k = "pingres" -> PingResolves(e.n = 1)
             [] e.k = "tick"    -> KeepAliveExpires
             [] OTHER           -> Poll
DNext == /\ l < Len(Ev)
         /\ Step(Ev[l + 1])
         /\ l + Len(log') <= Len(Ev)
         /\ \A i \in 1..Len(log') : log'[i] = Ev[l + i]
         /\ l' = l + Len(log')
         /\ UNCHANGED tid
\* progress register per trace (workers 1)
Track == TLCSet(tid, IF TLCGet(tid) > l THEN TLCGet(tid) ELSE l)
DPost == \A t \in 1..Len(Traces) : PrintT(<<"PROGRESS", Traces[t].id, TLCGet(t), Len(Traces[t].events)>>)
ASSUME \A t \in 1..Len(Traces) : TLCSet(t, 0)
=============================================================================
