CONSTANT MaxResp = 1000
CONSTANT MaxTicks = 1000
INIT DInit
NEXT DNext
CONSTRAINT Track
POSTCONDITION DPost
