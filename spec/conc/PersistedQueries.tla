-------------------------- MODULE PersistedQueries --------------------------
(***************************************************************************)
(* Automatic persisted queries (property C31).                             *)
(*                                                                         *)
(* Protocol transcribed: Apollo "Automatic Persisted Queries"              *)
(*   - a request carries extensions.persistedQuery = {version, sha256Hash} *)
(*   - with a query text: the server checks SHA-256(text) = sha256Hash,    *)
(*     stores the document under the hash and executes it;                 *)
(*   - without a query text: the server executes the document stored under *)
(*     the hash or answers the error "PersistedQueryNotFound" (the client  *)
(*     then repeats the request with the text);                            *)
(*   - only version 1 exists.                                              *)
(* Code bound: src/extensions/apollo_persisted_queries.rs                  *)
(*   ApolloPersistedQueriesExtension::prepare_request + CacheStorage, and  *)
(*   src/schema.rs prepare_request (which runs request.parsed_query).      *)
(*                                                                         *)
(* Abstractions.  A query text is an identifier; SHA-256 is an abstract    *)
(* injective function, so the hash of text t is named by t itself and      *)
(* "garbage" is a hash value that no text of the universe has (the harness *)
(* computes real SHA-256 values and maps them back to these names).  The   *)
(* universe of texts is split by what the GraphQL front end does with a    *)
(* text: Good (parses, validates, executes a marker field that identifies  *)
(* the text), Invalid (parses, fails validation), Unparseable.             *)
(*                                                                         *)
(* The module has two independent parts:                                   *)
(*  1. an implementation-shaped state machine (registry + Handle + Evict)  *)
(*     used for mode M, for generating histories (mode G) and for drift;   *)
(*  2. the property as a monitor over request/observation histories        *)
(*     (Mon...), which never looks at the registry of part 1.  Verdicts   *)
(*     come from the monitor only.                                         *)
(***************************************************************************)
EXTENDS Naturals, Integers, Sequences, FiniteSets, TLC

CONSTANTS Good, Invalid, Unparseable,   \* disjoint sets of text identifiers
          Versions,                     \* version numbers clients send (1 is the only supported one)
          MalformedKinds,               \* shapes of ill-formed persistedQuery payloads (see c31.rs)
          Dev                           \* deviation switches of the model (negative controls only)

Texts   == Good \cup Invalid \cup Unparseable
Garbage == "garbage"
None    == "none"
H(t)      == t                          \* abstract injective hash
Hashes    == Texts \cup {Garbage}
DocOf(h)  == h                          \* the text whose hash is h (h \in Texts)
Parses(t) == t \in Good \cup Invalid

AllVersions       == {1, 0, 2, -1, 2147483647}
AllMalformedKinds == {"null", "string", "list", "nohash", "noversion", "strversion", "inthash",
                      "floatversion", "bigversion"}
OkKinds        == {""}                  \* the harness also sends "extra": a well-formed payload with an unknown key

\* A request as the client sends it.  q = "" is the empty query text.
\*   ext = "absent"    : no persistedQuery extension            (h = "", v = 0, pk = "")
\*   ext = "ok"        : {version: v, sha256Hash: h}            (pk \in OkKinds)
\*   ext = "malformed" : a payload of kind pk that is not of that shape (h = hash placed in the payload, if any)
Requests ==
  [ext : {"absent"}, q : Texts \cup {""}, h : {""}, v : {0}, pk : {""}]
  \cup [ext : {"ok"}, q : Texts \cup {""}, h : Hashes, v : Versions, pk : OkKinds]
  \cup [ext : {"malformed"}, q : Texts \cup {""}, h : Hashes \cup {""}, v : {0}, pk : MalformedKinds]

\* What kind of request it is, from its fields only (APQ protocol).
Classify(r) ==
  IF r.ext = "absent" THEN "plain"
  ELSE IF r.ext = "malformed" THEN "malformed"
  ELSE IF r.v # 1 THEN "version"
  ELSE IF r.q = "" THEN "lookup"
  ELSE IF r.h = H(r.q) THEN "register"
  ELSE "mismatch"

\* An observation of one request:
\*   exec : the texts whose marker field was resolved, in order
\*   err  : "none" | "notfound" (an error with message PersistedQueryNotFound) | "other" | "panic"
\*   sets : CacheStorage::set calls  <<[k |-> hash, d |-> text of the stored document]>>
\*   gets : CacheStorage::get calls  <<hash>>
Obs(exec, err, sets, gets) == [exec |-> exec, err |-> err, sets |-> sets, gets |-> gets]

-----------------------------------------------------------------------------
(* Part 2 first (it is the contract): the property as a monitor.              *)
(* State: mayReg = texts for which a well-formed version-1 request carrying   *)
(* the text and its own hash was seen (an upper bound of what the cache may   *)
(* hold: the cache is allowed to forget, never to invent); bad = "" or the    *)
(* name of the clause that failed (absorbing).                                *)
MonInit == [mayReg |-> {}, bad |-> ""]

Registers(r) == Classify(r) = "register" /\ Parses(r.q)

\* Clause 1/2: "a document is executed only if it is the parse of a query text whose SHA-256 equals
\* the hash the request supplied; a hash-only request runs exactly the document registered under it".
RunOwn(t)        == IF t \in Good THEN {<<>>, <<t>>} ELSE {<<>>}
RunStored(s, h)  == IF h \in s.mayReg \cap Good THEN {<<>>, <<DocOf(h)>>} ELSE {<<>>}
ExecAllowed(s, r) ==
  LET c == Classify(r) IN
  CASE c = "plain"     -> RunOwn(r.q)              \* no extension: outside the property, runs its own text
    [] c = "register"  -> RunOwn(r.q)
    [] c = "lookup"    -> RunStored(s, r.h)
    [] c = "mismatch"  -> {<<>>}
    [] c = "malformed" -> {<<>>}                   \* no hash was supplied
    [] c = "version"   -> {<<>>}                   \* unsupported version: nothing runs, with a text or hash-only,
                                                  \* whether or not the hash is registered
    [] OTHER           -> {<<>>}

\* Clause 2: "... or fails with PersistedQueryNotFound".  A registered document that does not
\* validate fails with its own validation errors, which is "running" it.
MissOK(s, r, o) ==
  IF Classify(r) = "lookup" /\ o.exec = <<>>
  THEN o.err = "notfound" \/ (r.h \in s.mayReg \cap Invalid /\ o.err = "other")
  ELSE TRUE

\* Clause 3: "a request whose query does not match its hash or has an unsupported version changes
\* nothing" -- and the registry only ever maps a hash to the parse of a text with that hash:
\* every store must be (H(t), t) for a t registered by a valid registration (this request included).
\* A mismatching, wrong-version or malformed request stores nothing at all.
SetsOK(reg2, o) == \A i \in 1..Len(o.sets) : o.sets[i].d \in reg2 /\ o.sets[i].k = H(o.sets[i].d)
StoresNothing(r, o) == Classify(r) \in {"mismatch", "version", "malformed"} => o.sets = <<>>

MonStep(s, r, o) ==
  IF s.bad # "" THEN s
  ELSE LET reg2 == IF Registers(r) THEN s.mayReg \cup {r.q} ELSE s.mayReg IN
       IF o.exec \notin ExecAllowed(s, r) THEN [s EXCEPT !.bad = "executed"]
       ELSE IF ~MissOK(s, r, o) THEN [s EXCEPT !.bad = "notfound"]
       ELSE IF ~SetsOK(reg2, o) \/ ~StoresNothing(r, o) THEN [s EXCEPT !.bad = "changed"]
       ELSE [s EXCEPT !.mayReg = reg2]

-----------------------------------------------------------------------------
(* Part 1: implementation-shaped model.  registry : hash -> stored document.  *)
VARIABLES registry,   \* [Hashes -> Texts \cup {None}]
          mon,        \* monitor state after the history so far
          last        \* last request and its observation (for mode G / action properties)
vars == <<registry, mon, last>>

NoReq == [ext |-> "absent", q |-> "", h |-> "", v |-> 0, pk |-> ""]
Fail(gets) == Obs(<<>>, "other", <<>>, gets)
\* executing a parsed document: validation, then the marker resolver
RunDoc(t, sets, gets) == IF t \in Good THEN Obs(<<t>>, "none", sets, gets) ELSE Obs(<<>>, "other", sets, gets)

\* Deviations (never enabled in the real checks; MC_PersistedQueries_neg*.cfg turn one on each to
\* show that the monitor rejects them):
\*   "NoHashCheck"    the supplied hash is not compared with the text's hash
\*   "KeyBySupplied"  ... and the document is stored under the supplied hash
\*   "NoVersionCheck" the version is ignored
\*   "StoreUnchecked" the document is stored before the hash comparison fails
\*   "VersionOnRegisterOnly" the version is checked only when a query text is present (hash-only requests skip it)
EffClass(r) ==
  LET c == Classify(r) IN
  IF c = "version" /\ "NoVersionCheck" \in Dev
    THEN (IF r.q = "" THEN "lookup" ELSE IF r.h = H(r.q) THEN "register" ELSE "mismatch")
  ELSE IF c = "version" /\ "VersionOnRegisterOnly" \in Dev /\ r.q = "" THEN "lookup"
  ELSE c

\* Result of handling request r with registry reg: [o |-> observation, reg |-> new registry]
Handle(reg, r) ==
  LET c == EffClass(r)
      store(key) == [o   |-> RunDoc(r.q, <<[k |-> key, d |-> r.q]>>, <<>>),
                     reg |-> [reg EXCEPT ![key] = r.q]]
  IN
  CASE c = "plain" ->
         [o |-> IF r.q \in Texts /\ Parses(r.q) THEN RunDoc(r.q, <<>>, <<>>) ELSE Fail(<<>>), reg |-> reg]
    [] c \in {"malformed", "version"} -> [o |-> Fail(<<>>), reg |-> reg]
    [] c = "lookup" ->
         IF reg[r.h] = None THEN [o |-> Obs(<<>>, "notfound", <<>>, <<r.h>>), reg |-> reg]
         ELSE [o |-> RunDoc(reg[r.h], <<>>, <<r.h>>), reg |-> reg]
    [] c = "register" ->
         IF Parses(r.q) THEN store(H(r.q)) ELSE [o |-> Fail(<<>>), reg |-> reg]
    [] c = "mismatch" ->
         IF "KeyBySupplied" \in Dev /\ Parses(r.q) THEN store(r.h)
         ELSE IF "NoHashCheck" \in Dev /\ Parses(r.q) THEN store(H(r.q))
         ELSE IF "StoreUnchecked" \in Dev /\ Parses(r.q)
              THEN [o |-> Obs(<<>>, "other", <<[k |-> H(r.q), d |-> r.q]>>, <<>>), reg |-> [reg EXCEPT ![H(r.q)] = r.q]]
         ELSE [o |-> Fail(<<>>), reg |-> reg]
    [] OTHER -> [o |-> Fail(<<>>), reg |-> reg]

Init == /\ registry = [h \in Hashes |-> None]
        /\ mon = MonInit
        /\ last = [r |-> NoReq, o |-> Fail(<<>>)]

\* One request, handled atomically (prepare_request holds no lock across requests; the storage
\* is only touched by one get or one set per request).
Do(r) == LET res == Handle(registry, r) IN
         /\ registry' = res.reg
         /\ mon' = MonStep(mon, r, res.o)
         /\ last' = [r |-> r, o |-> res.o]

\* The cache may forget any entry at any time (LRU eviction, restart of a shared store).
Evict(h) == /\ registry[h] # None
            /\ registry' = [registry EXCEPT ![h] = None]
            /\ UNCHANGED <<mon, last>>

\* Requests by class (constant sets, evaluated once by TLC)
ReqsOf(c) == {r \in Requests : Classify(r) = c}
PlainReqs == ReqsOf("plain")          RegisterReqs == ReqsOf("register")    LookupReqs == ReqsOf("lookup")
MismatchReqs == ReqsOf("mismatch")    VersionReqs == ReqsOf("version")      MalformedReqs == ReqsOf("malformed")

Plain        == \E r \in PlainReqs : Do(r)        \* no extension
Register     == \E r \in RegisterReqs : Do(r)     \* text + its own hash
Lookup       == \E r \in LookupReqs : Do(r)       \* hash only
Mismatch     == \E r \in MismatchReqs : Do(r)     \* text + another hash
WrongVersion == \E r \in VersionReqs : Do(r)      \* version # 1
Malformed    == \E r \in MalformedReqs : Do(r)    \* payload of the wrong shape
Forget       == \E h \in Hashes : Evict(h)
ASSUME Versions \subseteq AllVersions /\ MalformedKinds \subseteq AllMalformedKinds /\ 1 \in Versions

Next == Plain \/ Register \/ Lookup \/ Mismatch \/ WrongVersion \/ Malformed \/ Forget
Spec == Init /\ [][Next]_vars

-----------------------------------------------------------------------------
(* Mode M: the model satisfies the property for histories of any length.      *)
TypeOK == /\ registry \in [Hashes -> Texts \cup {None}]
          /\ mon.mayReg \subseteq Texts
MonAccepts == mon.bad = ""
\* the registry maps a hash only to the text with that hash, and only after a valid registration
RegistrySound == \A h \in Hashes : registry[h] # None =>
                    /\ h \in Texts /\ registry[h] = DocOf(h) /\ Parses(h) /\ h \in mon.mayReg
\* a hash-only request on an entry that is present runs exactly that entry (the model is not "always fail")
HitRuns ==
  [][(Classify(last'.r) = "lookup" /\ last' # last /\ registry[last'.r.h] # None)
        => last'.o.exec = (IF registry[last'.r.h] \in Good THEN <<registry[last'.r.h]>> ELSE <<>>)]_vars
\* failed requests change nothing (action property over the model)
FailedChangeNothing ==
  [][(Classify(last'.r) \in {"mismatch", "version", "malformed", "plain", "lookup"} /\ last' # last)
        => registry' = registry]_vars
=============================================================================
