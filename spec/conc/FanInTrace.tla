----------------------------- MODULE FanInTrace -----------------------------
(***************************************************************************)
(* Mode V for C27: a monitor folded over each recorded trace               *)
(* (arrive / open / resp / end / single events).                           *)
(* The k-th response of root field f belongs to the k-th arrived event of  *)
(* f: its data must be {f: {id: k, bad: null iff the event is failing,     *)
(* slow: 7}} and its errors exactly {path [f, bad]} iff failing.           *)
(* Known deviation DevSharedErrors (static executor: request-wide error    *)
(* list): data correct, but errors of failing events are reported by       *)
(* another response of the same trace; every error still appears exactly   *)
(* once in the trace and never before its event arrived.                   *)
(***************************************************************************)
EXTENDS Naturals, Sequences, FiniteSets, TLC, Json, IOUtils

Traces == ndJsonDeserialize(IOEnv.TRACE)
VARIABLE l

IsBad(k) == k \in {"bad", "badslow", "badfatal"}
IsFatal(k) == k \in {"fatal", "badfatal"}
Null == [k |-> "null"]
Int(n) == [k |-> "int", v |-> ToString(n)]
ExpectedData(f, id, kind) ==
  IF IsFatal(kind) THEN Null          \* the non-null child failed: the event has no data
  ELSE [k |-> "obj", entries |-> <<[key |-> f, val |-> [k |-> "obj", entries |->
      <<[key |-> "id", val |-> Int(id)], [key |-> "bad", val |-> IF IsBad(kind) THEN Null ELSE Int(1)], [key |-> "slow", val |-> Int(7)],
        [key |-> "boom", val |-> Int(9)]>>]]>>]
\* the root field a response belongs to: from its data, or (no data) from the path of its `boom` error
BoomField(r) == IF \E i \in 1..Len(r.errors) : Len(r.errors[i].path) = 2 /\ r.errors[i].path[2] = "boom"
                THEN r.errors[CHOOSE i \in 1..Len(r.errors) : Len(r.errors[i].path) = 2 /\ r.errors[i].path[2] = "boom"].path[1] ELSE ""
RespField(r) == IF r.data.k = "obj" /\ Len(r.data.entries) = 1 THEN r.data.entries[1].key ELSE BoomField(r)
ErrPaths(r) == [i \in 1..Len(r.errors) |-> r.errors[i].path]

\* s: arrived kinds per field, responses seen per field, verdict state, pending = error paths expected but not yet reported (bag as seq)
MInit == [arr |-> [f \in {"s1", "s2"} |-> <<>>], seen |-> [f \in {"s1", "s2"} |-> 0], bad |-> 0, moved |-> FALSE, owed |-> <<>>,
          fatalAt |-> [f \in {"s1", "s2"} |-> 0]]
\* owed entries are [f, w, n] (root field, failing child, event number); an observed error only shows the path <<f, w>>
\* and is matched with the oldest owed entry of that path
Same(o, x) == Len(x) = 2 /\ o.f = x[1] /\ o.w = x[2]
RECURSIVE RemoveOne(_, _)
RemoveOne(s, x) == IF s = <<>> THEN <<>> ELSE IF Same(Head(s), x) THEN Tail(s) ELSE <<Head(s)>> \o RemoveOne(Tail(s), x)
RECURSIVE RemoveAll(_, _)
RemoveAll(s, xs) == IF xs = <<>> THEN s ELSE RemoveAll(RemoveOne(s, Head(xs)), Tail(xs))
SubBag(xs, s) == Len(RemoveAll(s, xs)) = Len(s) - Len(xs)

\* owed: errors of failing events that have arrived and have not been reported yet (a bag)
MStep(s, e, k) ==
  IF s.bad # 0 THEN s
  ELSE IF e.ev = "arrive" THEN
         [s EXCEPT !.arr[e.f] = Append(@, e.kind),
                   !.owed = s.owed \o (IF IsBad(e.kind) THEN <<[f |-> e.f, w |-> "bad", n |-> Len(s.arr[e.f]) + 1]>> ELSE <<>>)
                                   \o (IF IsFatal(e.kind) THEN <<[f |-> e.f, w |-> "boom", n |-> Len(s.arr[e.f]) + 1]>> ELSE <<>>),
                   !.fatalAt[e.f] = IF s.fatalAt[e.f] = 0 /\ IsFatal(e.kind) THEN Len(s.arr[e.f]) + 1 ELSE s.fatalAt[e.f]]
  ELSE IF e.ev \in {"open", "end"} THEN s
  ELSE IF e.ev = "single" THEN (IF e.id = 1 THEN s ELSE [s EXCEPT !.bad = k])
  ELSE \* resp
    LET f == RespField(e.resp) IN
    IF f \notin {"s1", "s2"} THEN [s EXCEPT !.bad = k]
    ELSE LET n == s.seen[f] + 1 IN
         IF n > Len(s.arr[f]) THEN [s EXCEPT !.bad = k]
         ELSE LET kind == s.arr[f][n]
                  own == (IF IsBad(kind) THEN <<<<f, "bad">>>> ELSE <<>>) \o (IF IsFatal(kind) THEN <<<<f, "boom">>>> ELSE <<>>)
                  got == ErrPaths(e.resp)
              IN IF e.resp.data # ExpectedData(f, n, kind) THEN [s EXCEPT !.bad = k]
                 ELSE IF ~(\A i \in 1..Len(e.resp.errors) : Len(e.resp.errors[i].locs) = 1) THEN [s EXCEPT !.bad = k]
                 ELSE IF ~SubBag(got, s.owed) THEN [s EXCEPT !.bad = k]          \* an error nobody raised (or raised twice)
                 ELSE LET rest == RemoveAll(s.owed, got) IN
                      \* the shared error list can hand an event's errors to a response that finishes *earlier*; when the
                      \* event's own response is out, nothing of it (or of earlier events of its field) may still be owed
                      IF \E i \in 1..Len(rest) : rest[i].f = f /\ rest[i].n <= n THEN [s EXCEPT !.bad = k]
                      ELSE [s EXCEPT !.seen[f] = n, !.owed = rest,
                                     !.moved = (s.moved \/ Len(got) # Len(own) \/ \E i \in 1..Len(got) : got[i][1] # f)]
RECURSIVE MRun(_, _, _)
MRun(s, evs, k) == IF k > Len(evs) THEN s ELSE MRun(MStep(s, evs[k], k), evs, k + 1)
Final(t) == MRun(MInit, t.events, 1)
\* a root field whose event failed as a whole may end its stream (dynamic schemas do): events after it may stay unanswered
AllAnswered(s) == \A f \in {"s1", "s2"} : s.seen[f] = Len(s.arr[f]) \/ (s.fatalAt[f] > 0 /\ s.seen[f] >= s.fatalAt[f])
RECURSIVE OwedBy(_, _, _, _)
OwedBy(f, kinds, i, acc) == IF i > Len(kinds) THEN acc
                            ELSE OwedBy(f, kinds, i + 1, acc + (IF IsBad(kinds[i]) THEN 1 ELSE 0) + (IF IsFatal(kinds[i]) THEN 1 ELSE 0))
\* at the end only errors of unanswered events (after a whole-event failure ended a stream) may still be owed
NothingLost(s) == \A i \in 1..Len(s.owed) : s.owed[i].n > s.seen[s.owed[i].f]
Verdict(t) ==
  IF t.problem # "" THEN "violation:problem"
  ELSE LET s == Final(t) IN
       IF s.bad # 0 THEN "violation:response"
       ELSE IF ~AllAnswered(s) THEN "violation:missing-response"
       ELSE IF ~NothingLost(s) THEN "violation:error-lost"
       ELSE IF s.moved THEN "known:DevSharedErrors"
       ELSE "ok"
BadAt(t) == Final(t).bad

TInit == l = 1
TNext == /\ l <= Len(Traces)
         /\ PrintT(<<"VERDICT", Traces[l].id, Verdict(Traces[l]), BadAt(Traces[l])>>)
         /\ l' = l + 1
=============================================================================
