----------------------------- MODULE SchedTrace -----------------------------
(***************************************************************************)
(* Mode V for C04: property monitors over the recorded resolver event log  *)
(* of one execution (start / finish events with response paths and         *)
(* monotone sequence numbers written by the harness's resolvers).          *)
(*   MergedOnce      no response position is resolved by two resolver      *)
(*                   invocations (6.3.2: fields with the same response key *)
(*                   are executed as one field)                            *)
(*   MutationSerial  (6.2.2) every event of root field i precedes every    *)
(*                   event of root field j > i, root fields taken in the   *)
(*                   document order that CollectFields gives               *)
(***************************************************************************)
EXTENDS Execution, Json, IOUtils

Cases == ndJsonDeserialize(IOEnv.TRACE)
TS == JsonDeserialize(IOEnv.SCHEMA)
CONSTANT Chunk
VARIABLE l

TsOf(c) == IF "ts" \in DOMAIN c THEN c.ts ELSE TS
Log(c) == c.obs.log
IsRes(e) == e.ev \in {"start", "finish"}

DupPairs(c) == {<<i, j>> \in (1..Len(Log(c))) \X (1..Len(Log(c))) :
                  i < j /\ Log(c)[i].ev = "start" /\ Log(c)[j].ev = "start" /\ Log(c)[i].path = Log(c)[j].path}

\* trigger of DevFieldPerOccurrence: the duplicated position's response key occurs at least twice in the document
RECURSIVE KeyCountSels(_, _, _)
KeyCountSels(sels, i, key) ==
  IF i > Len(sels) THEN 0
  ELSE LET s == sels[i] IN
       (IF s.k = "field" THEN (IF Key(s) = key THEN 1 ELSE 0) + KeyCountSels(s.sels, 1, key)
        ELSE IF s.k = "inline" THEN KeyCountSels(s.sels, 1, key) ELSE 0)
       + KeyCountSels(sels, i + 1, key)
RECURSIVE KeyCountFrags(_, _, _)
KeyCountFrags(frags, i, key) == IF i > Len(frags) THEN 0 ELSE KeyCountSels(frags[i].sels, 1, key) + KeyCountFrags(frags, i + 1, key)
KeyCount(c, key) == KeyCountSels(c.doc.ops[c.opIndex].sels, 1, key) + KeyCountFrags(c.doc.frags, 1, key)
IdxStrs == {"#" \o ToString(i) : i \in 0..64}
LastKey(path) == LET ks == SelectSeq(path, LAMBDA s : s \notin IdxStrs) IN ks[Len(ks)]
Excused(c, pr) == KeyCount(c, LastKey(Log(c)[pr[1]].path)) >= 2

\* document order of the root response keys
RootKeys(c) == LET C == Ctx(c, TsOf(c), {}) IN
               LET g == Collect(C, RootType(C), C.op.sels, 1, <<>>, {}).g IN [i \in 1..Len(g) |-> g[i].key]
RootIdx(c, e) == LET rk == RootKeys(c) IN
                 IF \E i \in 1..Len(rk) : rk[i] = e.path[1] THEN CHOOSE i \in 1..Len(rk) : rk[i] = e.path[1] ELSE 0
FirstCall(c, path) == Log(c)[CHOOSE i \in 1..Len(Log(c)) : Log(c)[i].ev = "start" /\ Log(c)[i].path = path
                                   /\ \A j \in 1..(i - 1) : ~(Log(c)[j].ev = "start" /\ Log(c)[j].path = path)].call
\* firstOnly: judge only the first invocation per response position (used to see whether a failure is
\* entirely due to the per-occurrence deviation)
MutationSerialOK(c, firstOnly) ==
  c.doc.ops[c.opIndex].ty = "mutation" =>
    \A i, j \in 1..Len(Log(c)) :
       (/\ IsRes(Log(c)[i]) /\ IsRes(Log(c)[j])
        /\ (firstOnly => (Log(c)[i].call = FirstCall(c, Log(c)[i].path) /\ Log(c)[j].call = FirstCall(c, Log(c)[j].path)))
        /\ RootIdx(c, Log(c)[i]) < RootIdx(c, Log(c)[j])) => Log(c)[i].seq < Log(c)[j].seq
RootsKnown(c) == \A i \in 1..Len(Log(c)) : IsRes(Log(c)[i]) => RootIdx(c, Log(c)[i]) > 0

Verdict(c) ==
  IF c.obs.problem # "" THEN "violation:problem"
  ELSE IF ~RootsKnown(c) THEN "violation:unknown-root"
  ELSE IF DupPairs(c) = {} THEN (IF MutationSerialOK(c, FALSE) THEN "ok" ELSE "violation:mutation-not-serial")
  ELSE IF ~(\A pr \in DupPairs(c) : Excused(c, pr)) THEN "violation:resolved-twice"
  ELSE IF MutationSerialOK(c, TRUE) THEN "known:DevFieldPerOccurrence"
  ELSE "violation:mutation-not-serial"

TInit == l \in {i \in 1..Len(Cases) : i % Chunk = 1 \/ Chunk = 1}
TNext == /\ l <= Len(Cases)
         /\ PrintT(<<"VERDICT", Cases[l].id, Verdict(Cases[l])>>)
         /\ l % Chunk # 0
         /\ l' = l + 1
=============================================================================
