CONSTANT PartOverhead = 150
CONSTANT Chunk = 500
INIT TInit
NEXT TNext
