------------------------------ MODULE JsonTree ------------------------------
(* JSON value trees shared by HttpDecode (C23) and Upload (C24).            *)
(* One record shape for every node so that sequences are uniform:           *)
(*   k: "str" "int" "bool" "null" "list" "obj" "broken" ("file" in Upload)  *)
(*   a: string atom (name of an entry of the harness's string table, or a   *)
(*      literal), n: integer, c: children (members [key, val] for objects). *)
(* "broken" stands for text that is not JSON (a = which kind).              *)
EXTENDS Naturals, Sequences

J(k, a, n, c) == [k |-> k, a |-> a, n |-> n, c |-> c]
JStr(a)    == J("str", a, 0, <<>>)
JInt(n)    == J("int", "", n, <<>>)
JTrue      == J("bool", "true", 0, <<>>)
JFalse     == J("bool", "false", 0, <<>>)
JNull      == J("null", "", 0, <<>>)
JList(c)   == J("list", "", 0, c)
JObj(ms)   == J("obj", "", 0, ms)          \* ms: sequence of members, keys unique
JBroken(a) == J("broken", a, 0, <<>>)
Mem(key, val) == [key |-> key, val |-> val]
EmptyObj == JObj(<<>>)

HasKey(o, key) == \E i \in 1..Len(o.c) : o.c[i].key = key
Get(o, key)    == o.c[CHOOSE i \in 1..Len(o.c) : o.c[i].key = key].val

RECURSIVE HasBroken(_)
HasBroken(x) ==
  IF x.k = "broken" THEN TRUE
  ELSE IF x.k = "list" THEN \E i \in 1..Len(x.c) : HasBroken(x.c[i])
  ELSE IF x.k = "obj"  THEN \E i \in 1..Len(x.c) : HasBroken(x.c[i].val)
  ELSE FALSE

\* JSON value equality: objects are unordered (RFC 8259 section 4), lists ordered.
RECURSIVE JEq(_, _)
JEq(x, y) ==
  IF x.k # y.k THEN FALSE
  ELSE IF x.k = "obj" THEN
         /\ Len(x.c) = Len(y.c)
         /\ \A i \in 1..Len(x.c) : \E j \in 1..Len(y.c) :
               IF x.c[i].key = y.c[j].key THEN JEq(x.c[i].val, y.c[j].val) ELSE FALSE
         /\ \A i, j \in 1..Len(y.c) : (y.c[i].key = y.c[j].key) => (i = j)
  ELSE IF x.k = "list" THEN
         /\ Len(x.c) = Len(y.c)
         /\ \A i \in 1..Len(x.c) : JEq(x.c[i], y.c[i])
  ELSE x.a = y.a /\ x.n = y.n
=============================================================================
