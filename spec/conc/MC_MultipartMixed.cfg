CONSTANT MaxResp = 3
CONSTANT MaxTicks = 3
SPECIFICATION Spec
INVARIANT WellFramed
INVARIANT NoBodyInvented
INVARIANT DoneIsComplete
PROPERTY Terminates
