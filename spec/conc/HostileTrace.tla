---------------------------- MODULE HostileTrace ----------------------------
(* Mode V for C12: every outcome the real library produced (recorded by the   *)
(* parent process of the harness: data / errors / reject / close / open /     *)
(* panic / abort / timeout) is judged against Allowed(case) of Hostile.tla;   *)
(* a crash is excused only by a named deviation whose trigger holds on the    *)
(* features of the bytes that were sent.  One step per case, never blocks.    *)
EXTENDS Hostile, Json, IOUtils

ASSUME TLCSet(7, ndJsonDeserialize(IOEnv.TRACE))
Obs == TLCGet(7)
VARIABLE l

RECURSIVE JoinSet(_)
JoinSet(S) == IF S = {} THEN "" ELSE LET x == CHOOSE y \in S : TRUE IN
              IF Cardinality(S) = 1 THEN x ELSE x \o "," \o JoinSet(S \ {x})

CaseOf(o) == [class |-> o.class, pos |-> o.pos, sub |-> o.sub, k |-> o.k, transport |-> o.transport]
Verdict(o) ==
  LET c == CaseOf(o) IN
  IF o.outcome \notin Answers \cup Crashes THEN "tool:" \o o.outcome
  ELSE IF o.outcome \in Allowed(c) THEN "ok"
  ELSE IF o.outcome \in Crashes
       THEN (IF Explains(o.feat, o.outcome) # {} THEN "known:" \o JoinSet(Explains(o.feat, o.outcome)) ELSE "violation:" \o o.outcome)
  ELSE IF Expect(c) = "error" THEN "violation:not-refused"      \* hostile input served as if it were fine
  ELSE "violation:refused"                                       \* harmless input not served

\* Drift (informational): the features the spec attributes to a structured case differ from those of the bytes sent.
Drift(o) == LET c == CaseOf(o) f == FeatOf(c) IN
  o.class # "mutation" /\ ((f.depth > 0 /\ o.feat.depth < f.depth) \/ (f.frags > 0 /\ o.feat.frags < f.frags))

TInit == case = [class |-> "", pos |-> "", sub |-> "", k |-> 0, transport |-> ""] /\ stage = "v" /\ level = 0 /\ answer = "none" /\ l = 1
TNext == /\ l <= Len(Obs)
         /\ PrintT(<<"VERDICT", Obs[l].id, Verdict(Obs[l]), Drift(Obs[l])>>)
         /\ l' = l + 1 /\ UNCHANGED vars
=============================================================================
