------------------------------ MODULE ExtTrace ------------------------------
(***************************************************************************)
(* Mode V for C30.  A case holds two executions of the same request: with  *)
(* no extension (obs0) and with K recording pass-through extensions (obs). *)
(*  (1) transparency: data, error multiset (path, locations), extensions   *)
(*      map and cache policy are equal;                                    *)
(*  (2) the hook events of obs.log are accepted by the life-cycle machine  *)
(*      of ExtensionLifecycle.tla (the same enabling conditions, folded    *)
(*      over the fully logged events; resolve instances are identified by  *)
(*      their response path);                                              *)
(*  (3) the resolve hook of every extension ran exactly once per resolver  *)
(*      invocation (harness resolver `start` events) and at most once per  *)
(*      list item (exactly once when the response has no error).           *)
(***************************************************************************)
EXTENDS Naturals, Sequences, FiniteSets, TLC, Json, IOUtils

Cases == ndJsonDeserialize(IOEnv.TRACE)
CONSTANT Chunk
VARIABLE l

PhaseIdx(h) == CASE h = "prepare_request" -> 1 [] h = "parse_query" -> 2 [] h = "validation" -> 3 [] h = "execute" -> 4 [] OTHER -> 0

\* ---- (2) life-cycle fold -------------------------------------------------------
LInit == [depth |-> 0, phase |-> 0, inPhase |-> FALSE, reqDepth |-> 0, failed |-> FALSE, res |-> <<>>, closed |-> FALSE, bad |-> 0]
OpenAt(s, path, n) == {r \in 1..Len(s.res) : s.res[r].open /\ s.res[r].path = path /\ s.res[r].n = n}
LStep(s, e, k, K) ==
  IF s.bad # 0 \/ e.ev \notin {"hook-enter", "hook-exit"} THEN s
  ELSE IF e.hook = "request" THEN
    IF e.ev = "hook-enter" THEN
      IF s.phase = 0 /\ s.reqDepth = e.ext - 1 /\ ~s.closed
      THEN [s EXCEPT !.reqDepth = e.ext, !.phase = IF e.ext = K THEN 1 ELSE 0] ELSE [s EXCEPT !.bad = k]
    ELSE IF s.reqDepth = e.ext /\ s.depth = 0 /\ ~s.inPhase /\ (\A r \in 1..Len(s.res) : ~s.res[r].open)
         THEN [s EXCEPT !.reqDepth = e.ext - 1, !.closed = (e.ext = 1), !.phase = 5] ELSE [s EXCEPT !.bad = k]
  ELSE IF e.hook = "resolve" THEN
    IF s.phase # 4 \/ ~s.inPhase \/ s.depth # K THEN [s EXCEPT !.bad = k]
    ELSE IF e.ev = "hook-enter" THEN
      IF e.ext = 1 THEN [s EXCEPT !.res = Append(s.res, [path |-> e.path, n |-> 1, open |-> TRUE, exiting |-> FALSE])]
      ELSE LET c == {r \in OpenAt(s, e.path, e.ext - 1) : ~s.res[r].exiting} IN
           IF c = {} THEN [s EXCEPT !.bad = k]
           ELSE LET r == CHOOSE x \in c : \A y \in c : x >= y IN [s EXCEPT !.res[r].n = e.ext]
    ELSE LET c == {r \in OpenAt(s, e.path, e.ext) : e.ext = K \/ s.res[r].exiting} IN
         IF c = {} THEN [s EXCEPT !.bad = k]
         ELSE LET r == CHOOSE x \in c : \A y \in c : x >= y IN
              [s EXCEPT !.res[r].n = e.ext - 1, !.res[r].exiting = TRUE, !.res[r].open = (e.ext - 1 > 0)]
  ELSE LET p == PhaseIdx(e.hook) IN
    IF p = 0 THEN [s EXCEPT !.bad = k]
    ELSE IF e.ev = "hook-enter" THEN
      IF s.reqDepth = K /\ s.phase = p /\ ~s.failed /\ s.depth = e.ext - 1 /\ (s.depth = 0 => ~s.inPhase)
      THEN [s EXCEPT !.depth = e.ext, !.inPhase = TRUE] ELSE [s EXCEPT !.bad = k]
    ELSE IF s.phase = p /\ s.inPhase /\ s.depth = e.ext /\ (p = 4 => \A r \in 1..Len(s.res) : ~s.res[r].open)
         THEN [s EXCEPT !.depth = e.ext - 1, !.inPhase = (e.ext - 1 > 0), !.failed = (s.failed \/ ~e.ok),
                        !.phase = IF e.ext - 1 = 0 THEN (IF e.ok /\ ~s.failed THEN p + 1 ELSE 5) ELSE p]
         ELSE [s EXCEPT !.bad = k]
RECURSIVE LRun(_, _, _, _)
LRun(s, evs, k, K) == IF k > Len(evs) THEN s ELSE LRun(LStep(s, evs[k], k, K), evs, k + 1, K)
LifeCycle(c) == LRun(LInit, c.obs.log, 1, c.exts)
LifeCycleOK(c) == LET s == LifeCycle(c) IN
  s.bad = 0 /\ s.closed /\ s.depth = 0 /\ (c.exts > 0 => s.reqDepth = 0)
  /\ (c.reached_execute => s.phase = 5)

\* ---- (3) resolve counts ---------------------------------------------------------
IdxStrs == {"#" \o ToString(i) : i \in 0..64}
IsItemPath(p) == Len(p) > 0 /\ p[Len(p)] \in IdxStrs
RECURSIVE FieldPath(_)
FieldPath(p) == IF IsItemPath(p) THEN FieldPath(SubSeq(p, 1, Len(p) - 1)) ELSE p
Count(c, P(_)) == Cardinality({i \in 1..Len(c.obs.log) : P(c.obs.log[i])})
ResolveCountsOK(c) ==
  \A x \in 1..c.exts :
    /\ \A i \in 1..Len(c.obs.log) :
         LET e == c.obs.log[i] IN
         \* every resolver invocation is wrapped by exactly one resolve hook of extension x
         (e.ev = "start" => Count(c, LAMBDA f : f.ev = "hook-enter" /\ f.hook = "resolve" /\ f.ext = x /\ f.path = e.path)
                              = Count(c, LAMBDA f : f.ev = "start" /\ f.path = e.path))
    /\ \A i \in 1..Len(c.obs.log) :
         LET e == c.obs.log[i] IN
         \* c.unlogged: fields with generated resolvers (derive(SimpleObject)), which record no start/finish event
         (e.ev = "hook-enter" /\ e.hook = "resolve" /\ e.ext = x /\ ~\E u \in 1..Len(c.unlogged) : c.unlogged[u] = e.field) =>
            IF IsItemPath(e.path)
            THEN LET parent == FieldPath(e.path) IN   \* nested lists: [f, #0, #1] belongs to the field at [f]
                 Count(c, LAMBDA f : f.ev = "hook-enter" /\ f.hook = "resolve" /\ f.ext = x /\ f.path = e.path)
                   <= Count(c, LAMBDA f : f.ev = "finish" /\ f.path = parent /\ f.items >= 0)
            ELSE Count(c, LAMBDA f : f.ev = "start" /\ f.path = e.path) >= 1
    /\ (c.obs.errors = <<>> =>
          \A i \in 1..Len(c.obs.log) :
            LET e == c.obs.log[i] IN
            (e.ev = "finish" /\ e.items > 0) =>
               \A j \in 0..(e.items - 1) :
                  Count(c, LAMBDA f : f.ev = "hook-enter" /\ f.hook = "resolve" /\ f.ext = x /\ f.path = Append(e.path, "#" \o ToString(j))) >= 1)

\* ---- (1) transparency -----------------------------------------------------------
ErrKey(e) == [path |-> e.path, locs |-> e.locs]
ErrBagEq(a, b) == /\ Len(a) = Len(b)
                  /\ \A i \in 1..Len(a) : Cardinality({j \in 1..Len(a) : ErrKey(a[j]) = ErrKey(a[i])})
                                          = Cardinality({j \in 1..Len(b) : ErrKey(b[j]) = ErrKey(a[i])})
Transparent(c) == /\ c.obs.data = c.obs0.data
                  /\ ErrBagEq(c.obs.errors, c.obs0.errors)
                  /\ c.obs.extensions = c.obs0.extensions
                  /\ c.obs.cache = c.obs0.cache

Verdict(c) ==
  IF c.obs.problem # "" \/ c.obs0.problem # "" THEN "violation:problem"
  ELSE IF ~Transparent(c) THEN "violation:not-transparent"
  ELSE IF ~LifeCycleOK(c) THEN "violation:lifecycle"
  ELSE IF ~ResolveCountsOK(c) THEN "violation:resolve-count"
  ELSE "ok"
BadAt(c) == LifeCycle(c).bad

TInit == l \in {i \in 1..Len(Cases) : i % Chunk = 1 \/ Chunk = 1}
TNext == /\ l <= Len(Cases)
         /\ PrintT(<<"VERDICT", Cases[l].id, Verdict(Cases[l]), BadAt(Cases[l])>>)
         /\ l % Chunk # 0
         /\ l' = l + 1
=============================================================================
