INIT TInit
NEXT TNext
