\* mode M, ideal handling: no deviation is switched on.  Depths are abstract (limit 100).
CONSTANT Depths = {50, 150, 450}
CONSTANT SelDepths = {50, 450}
CONSTANT LightDepths = {50}
CONSTANT Sizes = {1000}
CONSTANT Cuts = {0, 7, 19}
CONSTANT SafeDepth = 100
CONSTANT SafeSel = 200
CONSTANT SafeChain = 100
CONSTANT HeavyTransports = {"execute", "json", "ws"}
CONSTANT Wide = FALSE
CONSTANT Dev = {}
SPECIFICATION Spec
INVARIANT TypeOK
INVARIANT NoCrash
INVARIANT AnswerAllowed
PROPERTY Answered
