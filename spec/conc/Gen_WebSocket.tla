--------------------------- MODULE Gen_WebSocket ---------------------------
(* Mode G for C25, and the declarative reading of the property.             *)
(*                                                                          *)
(* The model of WebSocket.tla is run with the whole history as a variable.  *)
(*  - Emit prints every maximal bounded behaviour once, as the schedule of  *)
(*    harness commands it contains (environment events verbatim, one        *)
(*    "poll" per call of poll_next).                                        *)
(*  - D1..D5 state the five clauses of C25 directly as formulas over the    *)
(*    history (DESIGN.md appendix B).  DeclImpliesMonitor says the monitor  *)
(*    that decides verdicts is at least as strict as they are; it is        *)
(*    checked on every bounded history, also with today's deviations on,    *)
(*    where the clauses do fail.                                            *)
EXTENDS WebSocket, Json
CONSTANT Eager
VARIABLES hist,   \* every event so far
          idle    \* the last poll returned Pending and nothing happened since
gvars == <<vars, hist, idle>>

GInit == Init /\ hist = <<>> /\ idle = FALSE
\* Eager: the environment moves only when the server is quiescent (the last poll returned Pending);
\* otherwise environment events and polls interleave freely.
GNext == \/ ~closed /\ (Eager => idle) /\ Env /\ idle' = FALSE /\ hist' = hist \o log'
         \/ ~idle /\ Poll /\ idle' = (log'[Len(log')].t = "pending") /\ hist' = hist \o log'

EnvEnabled == \/ nin < MaxIn /\ ~gone /\ Len(inbox) < MaxQ
              \/ \E i \in Ids : streams[i].live /\ ~streams[i].ended
              \/ initFut = "wait" \/ pingFut = "wait"
              \/ keepAlive /\ ~timerFired
Maximal == over \/ (idle /\ ~closed /\ ~EnvEnabled)

Cmd(e) == IF e.k = "out" THEN E("poll", "", "", 0) ELSE e
Sched  == LET keep == SelectSeq(hist, LAMBDA e : e.k \in {"in", "ev", "end", "initres", "pingres", "tick", "out"})
          IN [i \in 1..Len(keep) |-> Cmd(keep[i])]
Emit == Maximal => PrintT(<<"REPLAY", proto, keepAlive, ToJson(Sched)>>)

-----------------------------------------------------------------------------
(* The five clauses, declaratively, over hist.                               *)
N == Len(hist)
IsOut(k, t)  == hist[k].k = "out" /\ hist[k].t = t
AckedAt(k)   == \E j \in 1..(k - 1) : IsOut(j, "ack")
\* operation (i, g) is live just before position k: it was run and has neither been completed,
\* stopped by the client nor replaced since
LiveAt(i, g, k) == \E j \in 1..(k - 1) :
                     /\ hist[j].k = "exec" /\ hist[j].id = i /\ hist[j].n = g
                     /\ \A x \in (j + 1)..(k - 1) :
                          ~(hist[x].id = i /\ (IsOut(x, "complete") \/ hist[x].k = "exec"
                                               \/ (hist[x].k = "recv" /\ hist[x].t = "stop")))
\* some execution of id i is live just before k (client stop does not count: the echo may still come)
RunningAt(i, k) == \E j \in 1..(k - 1) :
                     /\ hist[j].k = "exec" /\ hist[j].id = i
                     /\ \A x \in (j + 1)..(k - 1) : ~(hist[x].id = i /\ IsOut(x, "complete"))
ActiveAt(i, k)  == \E g \in 1..nexec : LiveAt(i, g, k)
InitsBefore(k)  == Cardinality({j \in 1..(k - 1) : hist[j].k = "recv" /\ hist[j].t = "init"})
ClosingAt(k)    == \E j \in 1..(k - 1) : IsOut(j, "close") \/ IsOut(j, "error") \/ IsOut(j, "none")

\* each clause as a statement about position k of the history
D1At(k) == /\ (IsOut(k, "next") \/ hist[k].k = "exec") => AckedAt(k)
           /\ IsOut(k, "ack") => /\ ~AckedAt(k)                                  \* a single acknowledgement
                                  /\ \E j \in 1..(k - 1) : hist[j].k = "initres" /\ hist[j].n = 1
D2At(k) == IsOut(k, "next") => LiveAt(hist[k].id, hist[k].n, k)
D3At(k) == IsOut(k, "complete") => RunningAt(hist[k].id, k)
\* the violations of graphql-transport-ws and the code each must be answered with, at once
ViolationAt(k) ==
  IF hist[k].k # "recv" \/ ClosingAt(k) THEN 0
  ELSE CASE hist[k].t = "bad" -> 4400
         [] hist[k].t = "init" /\ InitsBefore(k) >= 1 -> 4429
         [] hist[k].t = "start" /\ ~AckedAt(k) -> 4401
         [] hist[k].t = "start" /\ AckedAt(k) /\ ActiveAt(hist[k].id, k) -> 4409
         [] OTHER -> 0
\* position k answers the violation (if any) at position k - 1
D4At(k) == k > 1 /\ ViolationAt(k - 1) # 0 =>
             IF proto = "GWS" THEN IsOut(k, "close") /\ hist[k].n = ViolationAt(k - 1)
             ELSE ViolationAt(k - 1) = 4409 \/ IsOut(k, "close") \/ IsOut(k, "error")
D5At(k) == hist[k].k = "out" =>
             /\ (\E j \in 1..(k - 1) : IsOut(j, "close")) => hist[k].t \in {"none", "pending"}
             /\ ~\E j \in 1..(k - 1) : IsOut(j, "none")
DAt(k)  == D1At(k) /\ D2At(k) /\ D3At(k) /\ D4At(k) /\ D5At(k)
D1 == \A k \in 1..N : D1At(k)     D2 == \A k \in 1..N : D2At(k)     D3 == \A k \in 1..N : D3At(k)
D4 == \A k \in 1..N : D4At(k)     D5 == \A k \in 1..N : D5At(k)
Decl == D1 /\ D2 /\ D3 /\ D4 /\ D5
\* The clauses speak about each position relative to the positions before it, so along a behaviour it is
\* enough to check the positions the last step appended (the prefix was checked in the predecessor state).
DeclNew == \A k \in (N - Len(log) + 1)..N : DAt(k)

Strict == mon.bad = "" /\ mon.used = {}
DeclImpliesMonitor == Strict => DeclNew  \* whatever the clauses reject, the monitor rejects
IdealSatisfiesDecl == DeclNew            \* for Dev = {}: the protocol as written satisfies D1..D5
=============================================================================
