CONSTANT Keys = {1, 2, 3, 4, 5}
CONSTANT NReq = 1
CONSTANT MaxBatches = {1}
CONSTANT Modes = {"none"}
CONSTANT Prefeds = {{}}
CONSTANT HoleSets = {{}}
CONSTANT Errs = TRUE
CONSTANT Cancels = TRUE
CONSTANT Chunk = 250
INIT TInit
NEXT TNext
