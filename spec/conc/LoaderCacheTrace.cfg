CONSTANT Keys = {1}
CONSTANT Types = {"a"}
CONSTANT Kind = "none"
CONSTANT Cap = 1
CONSTANT Holes = {}
CONSTANT MaxOps = 0
CONSTANT Chunk = 500
INIT TInit
NEXT TNext
