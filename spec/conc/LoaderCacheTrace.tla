-------------------------- MODULE LoaderCacheTrace --------------------------
(* Mode V for C29.  Each case is one history of cache operations executed on *)
(* a real DataLoader, with the observation of every operation.  The verdict  *)
(* is a pure fold of the reference operators of LoaderCache over the history *)
(* (it never blocks): B is the set of reference states that explain all      *)
(* observations so far - a set, because the order in which one batch is      *)
(* written to an LRU cache is not specified.  An observation that no state   *)
(* in B admits empties B: violation at that operation.                       *)
EXTENDS LoaderCache, Json, IOUtils

Cases == ndJsonDeserialize(IOEnv.TRACE)
CONSTANT Chunk
VARIABLE l

CaseCfg(c) == [kind |-> c.kind, cap |-> c.cap, keys |-> Range(c.keys), types |-> Range(c.types), holes |-> Range(c.holes)]

Quiet(ob)    == ~ob.panic /\ ~ob.hang /\ ~ob.err
ObsPairs(ob) == {<<ob.res[j].k, ob.res[j].v>> : j \in 1..Len(ob.res)}
OnePerKey(ob) == Len(ob.res) = Cardinality({p[1] : p \in ObsPairs(ob)})
(* call numbers (= the value the loader returned) of this operation's loader calls that were given key k *)
Asked(ob, k) == {ob.calls[j].n : j \in {i \in 1..Len(ob.calls) : k \in Range(ob.calls[i].ks)}}

(* load_many / load_one: hits come from the cache, every other key was passed to the loader *)
(* during this operation and carries the value of such a call; keys unknown to the loader   *)
(* are absent from the result.                                                              *)
StepLoad(cfg, st, op, ob) ==
  LET r   == LoadRef(cfg, st, op.t, op.ks)
      got == ObsPairs(ob)
      ok  == /\ Quiet(ob) /\ OnePerKey(ob)
             /\ {p[1] : p \in got} = {p[1] : p \in r.hits} \cup r.ret
             /\ \A p \in got : IF p[1] \in r.ret THEN p[2] \in Asked(ob, p[1]) ELSE p \in r.hits
             /\ \A k \in r.miss : Asked(ob, k) # {}
  IN IF ~ok THEN {}
     ELSE LET fresh == [k \in r.ret |-> (CHOOSE p \in got : p[1] = k)[2]] IN
          {AfterLoad(st, op.t, cc) : cc \in Fills(cfg, r.c, r.ret, fresh, r.use)}

Step(cfg, st, op, ob, dev) ==
  IF op.op \in {"load", "load1"} THEN StepLoad(cfg, st, op, ob)
  ELSE IF op.op = "enable" /\ dev /\ DevEnableCacheUnusedPanicsTrigger(st, op.t)
       THEN (IF ob.panic THEN {st} ELSE {})                        \* today's code: panics, changes nothing
  ELSE IF ~Quiet(ob) THEN {}                                      \* no operation panics, hangs or fails
  ELSE IF op.op = "feed"      THEN {AfterFeed(cfg, st, op.t, op.ks, op.vs)}
  ELSE IF op.op = "clear"     THEN {AfterClear(cfg, st, op.t)}
  ELSE IF op.op = "clear1"    THEN {AfterClearOne(cfg, st, op.t, op.ks[1])}
  ELSE IF op.op = "enable"    THEN {AfterEnable(st, op.t, op.b)}
  ELSE IF op.op = "enableall" THEN {AfterEnableAll(st, op.b)}
  ELSE IF op.op = "peek"      THEN (IF OnePerKey(ob) /\ ObsPairs(ob) = Entries(cfg, st.ty[op.t].c) THEN {st} ELSE {})
  ELSE {}

RECURSIVE Run(_, _, _, _, _)
\* index of the first operation no reference state admits, 0 if the whole history is admitted
Run(c, cfg, B, i, dev) ==
  IF i > Len(c.ops) THEN 0
  ELSE LET B2 == UNION {Step(cfg, s0, c.ops[i], c.obs[i], dev) : s0 \in B} IN
       IF B2 = {} THEN i ELSE Run(c, cfg, B2, i + 1, dev)

BadAt(c, dev) == IF Len(c.obs) # Len(c.ops) THEN 1 ELSE Run(c, CaseCfg(c), {InitState(CaseCfg(c))}, 1, dev)
Verdict(c) == IF BadAt(c, FALSE) = 0 THEN "ok"
              ELSE IF BadAt(c, TRUE) = 0 THEN "known:DevEnableCacheUnusedPanics"
              ELSE "violation"

TInit == Init /\ l \in {i \in 1..Len(Cases) : i % Chunk = 1 \/ Chunk = 1}
TNext == /\ l <= Len(Cases)
         /\ PrintT(<<"VERDICT", Cases[l].id, Verdict(Cases[l]), BadAt(Cases[l], FALSE), BadAt(Cases[l], TRUE)>>)
         /\ l % Chunk # 0
         /\ l' = l + 1 /\ UNCHANGED vars
=============================================================================
