CONSTANT Keys = {1, 2, 3, 4, 5}
CONSTANT NReq = 6
CONSTANT MaxBatches = {1}
CONSTANT Modes = {"none"}
CONSTANT Prefeds = {{}}
CONSTANT HoleSets = {{}}
CONSTANT Errs = TRUE
CONSTANT Cancels = TRUE
CONSTANT Chunk = 1
INIT DInit
NEXT DNext
CONSTRAINT Track
POSTCONDITION DPost
