CONSTANT Fields = {"s1", "s2"}
CONSTANT MaxEvents = 2
CONSTANT Dev = {"SharedErrors"}
SPECIFICATION Spec
INVARIANT OwnErrorsOnly
