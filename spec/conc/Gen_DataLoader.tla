--------------------------- MODULE Gen_DataLoader ---------------------------
(* Mode G for C28: behaviours of DataLoader as schedules of harness commands  *)
(* (load r ks | run t | fire t | ret b ok | cancel r).  A schedule is emitted *)
(* when every request has completed or been cancelled and nothing is left at  *)
(* the loader; the harness drains what remains (unfired timers).  Used with   *)
(* BFS (every behaviour up to the bounds) and with -simulate (sampling of     *)
(* larger configurations).                                                    *)
EXTENDS DataLoader, Json
VARIABLE sched
Cmd(c, r, ks, t, b, ok) == [c |-> c, r |-> r, ks |-> ks, t |-> t, b |-> b, ok |-> ok]
Complete == /\ \A r \in Reqs : status[r] \in {"done", "cancelled"}
            /\ tasks = {} /\ inflight = {}
GInit == Init /\ sched = <<>>
GNext == /\ ~Complete
         /\ \/ \E r \in Reqs : \E ks \in (SUBSET Keys) \ {{}} :
                 LoadMany(r, ks) /\ sched' = Append(sched, Cmd("load", r, SortedSeq(ks), 0, 0, FALSE))
            \/ \E t \in tasks : RunTask(t) /\ sched' = Append(sched, Cmd("run", 0, <<>>, t.t, 0, FALSE))
            \/ \E t \in timers : TimerFire(t) /\ sched' = Append(sched, Cmd("fire", 0, <<>>, t, 0, FALSE))
            \/ \E bt \in inflight : \E ok \in BOOLEAN :
                 LoaderReturn(bt, ok) /\ sched' = Append(sched, Cmd("ret", 0, <<>>, 0, bt.b, ok))
            \/ \E r \in Reqs : Cancel(r) /\ sched' = Append(sched, Cmd("cancel", r, <<>>, 0, 0, FALSE))
Emit == Complete => PrintT(<<"REPLAY", ToJson([conf |-> [mb |-> conf.mb, mode |-> conf.mode, prefed |-> SortedSeq(conf.prefed)],
                                               holes |-> SortedSeq(conf.holes), sched |-> sched])>>)
=============================================================================
