CONSTANT Dev = {}
CONSTANT BatchLen = 2
INIT TInit
NEXT TNext
