------------------------------ MODULE DataLoader ------------------------------
(***************************************************************************)
(* DataLoader delivers correct batched results under every interleaving    *)
(* (property C28).  Model of async_graphql::dataloader::DataLoader for one  *)
(* key type (src/dataloader/mod.rs).                                        *)
(*                                                                         *)
(* One action per critical section / resumption point of the code:         *)
(*   LoadMany(r, ks)   first poll of load_many: the whole section under the *)
(*                     entry lock (cache split, early return, enqueue,      *)
(*                     ImmediateLoad | StartFetch | Delay) and the spawn    *)
(*   RunTask(t)        first poll of a spawned immediate_load task:         *)
(*                     do_load calls Loader::load with the batch it owns    *)
(*   TimerFire(t)      the delay of a start_fetch task elapses and the task *)
(*                     resumes: Requests::take, then Loader::load if any    *)
(*   LoaderReturn(b,ok) Loader::load of batch b resolves and do_load        *)
(*                     resumes: cache fill, fan-out to the waiters          *)
(*                     (the waiter's own next poll returns the value sent;  *)
(*                     it reads nothing else, so it is part of this step)   *)
(*   Cancel(r)         the waiting load_many future is dropped              *)
(* The entry lock of the per-type Requests makes each of these atomic.      *)
(* History that can no longer matter (finished requests, returned batches)  *)
(* is forgotten so that TLC can merge states; the clauses of the property   *)
(* that speak about a completion are therefore evaluated in the step that   *)
(* completes the request and latched in the flags `exact` and `bounded`.    *)
(*                                                                         *)
(* The loader stamps every value with its call number (batch id), values    *)
(* fed before the run are 100 + key, so the origin of a value is visible.   *)
(* Keys in conf.holes are unknown to the loader (no value returned).        *)
(***************************************************************************)
EXTENDS CacheRef, TLC

--------------------------------------------------------------------------------
(* The property as a predicate over observations only (shared with the trace     *)
(* module, which evaluates it on recorded histories).                            *)
(*   rq  = [ks: requested keys, snap: cache contents when the load was issued,   *)
(*          at: number of loader calls made before the load was issued]          *)
(*   res = [err: the load failed, vals: the set of <<key, value>> it returned]    *)
(*   B   = loader calls, a function b -> [keys, ret: "none"|"ok"|"err", vals]    *)
(*         from call numbers (all of them, or at least every call that has not   *)
(*         returned before the request completes)                                *)
(* "every load completes with exactly the values the loader returned, or the     *)
(*  cache held, for its requested keys, or with the loader's error for the batch *)
(*  it joined.  Every requested key not served from the cache is passed to the   *)
(*  loader."                                                                     *)
InSnap(rq, k) == \E p \in rq.snap : p[1] = k
Served(rq, rs, B) ==
  LET res == rs.vals IN
  IF rs.err
  THEN \E b \in {x \in DOMAIN B : x > rq.at} :
          /\ B[b].ret = "err" /\ B[b].keys \cap rq.ks # {}
          /\ \A k \in rq.ks : InSnap(rq, k) \/ k \in B[b].keys
  ELSE /\ \A p \in res : p[1] \in rq.ks
       /\ \A p, q \in res : p[1] = q[1] => p = q
       /\ \/ {p[1] : p \in res} = rq.ks /\ res \subseteq rq.snap            \* the cache held every key
          \/ \E b \in {x \in DOMAIN B : x > rq.at} :
               /\ B[b].ret = "ok"
               /\ \A k \in rq.ks :
                    \/ \E p \in res : p[1] = k /\ p \in rq.snap                  \* the cache held it
                    \/ k \in B[b].keys /\ {p \in res : p[1] = k} = {p \in B[b].vals : p[1] = k}   \* the joined batch
(* "a batch exceeds the maximum batch size by less than the size of the largest single request" *)
BoundOk(n, maxBatch, largest) == n < maxBatch + largest

--------------------------------------------------------------------------------
CONSTANTS Keys,        \* key universe (naturals)
          NReq,        \* number of load_many requests
          MaxBatches,  \* set of max_batch_size values to explore
          Modes,       \* subset of {"none", "map", "lru1", "lru2", "mapoff"}
          Prefeds,     \* set of key sets fed into the cache before the run
          HoleSets,    \* set of key sets unknown to the loader (it returns no value for them)
          Errs,        \* BOOLEAN: the loader may fail a batch
          Cancels      \* BOOLEAN: waiters may be dropped
Reqs == 1..NReq
NoRes == [err |-> FALSE, vals |-> {}]   OkRes(v) == [err |-> FALSE, vals |-> v]   ErrRes == [err |-> TRUE, vals |-> {}]
ModeCfg(m) == CASE m = "none"   -> [kind |-> "none", cap |-> 1, on |-> TRUE]
                [] m = "map"    -> [kind |-> "map",  cap |-> 1, on |-> TRUE]
                [] m = "lru1"   -> [kind |-> "lru",  cap |-> 1, on |-> TRUE]
                [] m = "lru2"   -> [kind |-> "lru",  cap |-> 2, on |-> TRUE]
                [] m = "lru3"   -> [kind |-> "lru",  cap |-> 3, on |-> TRUE]
                [] m = "mapoff" -> [kind |-> "map",  cap |-> 1, on |-> FALSE]   \* enable_all_cache(false)

VARIABLES conf,      \* [mb, mode, prefed, holes]: the configuration of this run (chosen in Init)
          keys,      \* Requests.keys: keys awaiting dispatch
          pending,   \* Requests.pending: Seq of [r, ks (keys it waits for), hits (values taken from the cache)]
          cache,     \* the cache storage
          timers,    \* ids of start_fetch tasks whose delay has not elapsed
          tasks,     \* spawned immediate_load tasks not yet run: [t, keys, waiters]
          inflight,  \* batches at the loader: [b, keys, waiters]
          status,    \* r -> "idle" | "waiting" | "done" | "cancelled"
          ncalls,    \* number of Loader::load calls so far; a batch id is its call number
          nextTask,  \* spawn counter
          req,       \* ghost: r -> [ks, snap, at] as the property sees a waiting request
          largest,   \* ghost: size of the largest single request so far
          exact,     \* latch: every completion so far satisfied Served
          bounded    \* latch: every batch so far was a non-empty key set within the bound
vars == <<conf, keys, pending, cache, timers, tasks, inflight, status, ncalls, nextTask, req, largest, exact, bounded>>

Cfg == [kind |-> ModeCfg(conf.mode).kind, cap |-> ModeCfg(conf.mode).cap, keys |-> Keys]
CacheOn == ModeCfg(conf.mode).on
RECURSIVE SortedSeq(_)
SortedSeq(S) == IF S = {} THEN <<>> ELSE LET m == CHOOSE x \in S : \A y \in S : x <= y IN <<m>> \o SortedSeq(S \ {m})
FedVal(k) == 100 + k
Vals(b, ks) == {<<k, b>> : k \in ks \ conf.holes}             \* what the loader returns for batch b
NoReq == [ks |-> {}, snap |-> {}, at |-> 0]

Init == /\ conf \in [mb : MaxBatches, mode : Modes, prefed : Prefeds, holes : HoleSets]
        /\ keys = {} /\ pending = <<>> /\ timers = {} /\ tasks = {} /\ inflight = {}
        /\ cache = LET c0 == [kind |-> ModeCfg(conf.mode).kind, cap |-> ModeCfg(conf.mode).cap, keys |-> Keys]
                       s  == SortedSeq(conf.prefed) IN
                   PutSeq(c0, EmptyCache(c0), s, [i \in 1..Len(s) |-> FedVal(s[i])], 1)
        /\ status = [r \in Reqs |-> "idle"] /\ ncalls = 0 /\ nextTask = 1
        /\ req = [r \in Reqs |-> NoReq] /\ largest = 0 /\ exact = TRUE /\ bounded = TRUE

(* The cache split of load_many: keys are looked up in the order given (ascending here). *)
Split(ks) == IF CacheOn THEN Lookup(Cfg, [c |-> cache, hits |-> {}, miss |-> {}], SortedSeq(ks), 1)
                        ELSE [c |-> cache, hits |-> {}, miss |-> ks]

(* load_many, first poll.  Requests are issued in the order 1, 2, .. (ids are only labels). *)
LoadMany(r, ks) ==
  /\ status[r] = "idle" /\ \A q \in Reqs : q < r => status[q] # "idle"
  /\ LET prev == Cardinality(keys)
         lk   == Split(ks)
         keys2 == keys \cup lk.miss
         pend2 == Append(pending, [r |-> r, ks |-> lk.miss, hits |-> lk.hits])
         rq    == [ks |-> ks, snap |-> Entries(Cfg, cache), at |-> ncalls]
     IN /\ cache' = lk.c
        /\ largest' = IF Cardinality(ks) > largest THEN Cardinality(ks) ELSE largest
        /\ IF lk.miss = {}
           THEN /\ status' = [status EXCEPT ![r] = "done"]                                  \* early return with lk.hits
                /\ exact' = (exact /\ Served(rq, OkRes(lk.hits), <<>>))
                /\ UNCHANGED <<keys, pending, timers, tasks, nextTask, req>>
           ELSE /\ status' = [status EXCEPT ![r] = "waiting"] /\ req' = [req EXCEPT ![r] = rq] /\ UNCHANGED exact
                /\ IF Cardinality(keys2) >= conf.mb
                   THEN /\ tasks' = tasks \cup {[t |-> nextTask, keys |-> keys2, waiters |-> pend2]}    \* ImmediateLoad(take())
                        /\ keys' = {} /\ pending' = <<>> /\ nextTask' = nextTask + 1 /\ UNCHANGED timers
                   ELSE IF prev = 0
                   THEN /\ timers' = timers \cup {nextTask} /\ nextTask' = nextTask + 1                  \* StartFetch
                        /\ keys' = keys2 /\ pending' = pend2 /\ UNCHANGED tasks
                   ELSE /\ keys' = keys2 /\ pending' = pend2 /\ UNCHANGED <<timers, tasks, nextTask>>    \* Delay
  /\ UNCHANGED <<conf, inflight, ncalls, bounded>>

(* do_load calls Loader::load(keys): "no batch contains a key twice" (a set), and the size bound *)
Dispatch(ks, ws) == /\ ncalls' = ncalls + 1
                    /\ inflight' = inflight \cup {[b |-> ncalls + 1, keys |-> ks, waiters |-> ws]}
                    /\ bounded' = (bounded /\ ks # {} /\ ks \subseteq Keys /\ BoundOk(Cardinality(ks), conf.mb, largest))

RunTask(t) ==
  /\ t \in tasks /\ tasks' = tasks \ {t} /\ Dispatch(t.keys, t.waiters)
  /\ UNCHANGED <<conf, keys, pending, cache, timers, status, nextTask, req, largest, exact>>

TimerFire(t) ==
  /\ t \in timers /\ timers' = timers \ {t}
  /\ IF keys = {} THEN UNCHANGED <<keys, pending, ncalls, inflight, bounded>>
     ELSE Dispatch(keys, pending) /\ keys' = {} /\ pending' = <<>>
  /\ UNCHANGED <<conf, cache, tasks, status, nextTask, req, largest, exact>>

(* What do_load sends to the waiters of batch bt that still listen (a dropped receiver makes tx.send fail; ignored). *)
Delivered(bt, ok) ==
  {[r |-> bt.waiters[i].r,
    res |-> IF ok THEN OkRes(bt.waiters[i].hits \cup Vals(bt.b, bt.waiters[i].ks)) ELSE ErrRes]
     : i \in {j \in 1..Len(bt.waiters) : status[bt.waiters[j].r] = "waiting"}}
(* The loader calls a completing request can still name: the batches at the loader, bt among them. *)
Live(bt, ok) == [b \in {x.b : x \in inflight} |->
                   LET x == CHOOSE y \in inflight : y.b = b IN
                   [keys |-> x.keys, vals |-> Vals(b, x.keys), ret |-> IF b # bt.b THEN "none" ELSE IF ok THEN "ok" ELSE "err"]]

LoaderReturn(bt, ok) ==
  /\ bt \in inflight /\ inflight' = inflight \ {bt} /\ (ok \/ Errs)
  /\ LET dl == Delivered(bt, ok) IN
     /\ status' = [r \in Reqs |-> IF \E d \in dl : d.r = r THEN "done" ELSE status[r]]
     /\ req' = [r \in Reqs |-> IF \E d \in dl : d.r = r THEN NoReq ELSE req[r]]
     /\ exact' = (exact /\ \A d \in dl : Served(req[d.r], d.res, Live(bt, ok)))
  /\ IF ok THEN cache' \in Fills(Cfg, cache, bt.keys \ conf.holes, [k \in bt.keys \ conf.holes |-> bt.b], CacheOn)
           ELSE UNCHANGED cache
  /\ UNCHANGED <<conf, keys, pending, timers, tasks, ncalls, nextTask, largest, bounded>>

Cancel(r)  == /\ Cancels /\ status[r] = "waiting" /\ status' = [status EXCEPT ![r] = "cancelled"]
              /\ req' = [req EXCEPT ![r] = NoReq]
              /\ UNCHANGED <<conf, keys, pending, cache, timers, tasks, inflight, ncalls, nextTask, largest, exact, bounded>>

Load     == \E r \in Reqs : \E ks \in (SUBSET Keys) \ {{}} : LoadMany(r, ks)
Run      == \E t \in tasks : RunTask(t)
Fire     == \E t \in timers : TimerFire(t)
Return   == \E bt \in inflight : \E ok \in BOOLEAN : LoaderReturn(bt, ok)
CancelA  == \E r \in Reqs : Cancel(r)
Next == Load \/ Run \/ Fire \/ Return \/ CancelA
(* "given that spawned tasks and timers run": weak fairness of tasks, timers and the loader *)
Spec == Init /\ [][Next]_vars /\ WF_vars(Run) /\ WF_vars(Fire) /\ WF_vars(Return)

--------------------------------------------------------------------------------
(* Invariants *)
ResultsExact == exact
(* every requested key not served from the cache is, at any time, on its way to the loader together with its waiter *)
Holders == {[keys |-> keys, waiters |-> pending]} \cup {[keys |-> t.keys, waiters |-> t.waiters] : t \in tasks}
             \cup {[keys |-> bt.keys, waiters |-> bt.waiters] : bt \in inflight}
EveryKeyLoaded ==
  \A r \in Reqs : status[r] = "waiting" =>
    \E hd \in Holders : \E i \in 1..Len(hd.waiters) :
       /\ hd.waiters[i].r = r /\ hd.waiters[i].ks \subseteq hd.keys
       /\ \A k \in req[r].ks : k \in hd.waiters[i].ks \/ \E p \in hd.waiters[i].hits : p[1] = k /\ p \in req[r].snap
(* batches are key sets by construction (HashSet); the latch adds: never empty, within the bound *)
NoDuplicateKeyInBatch == \A bt \in inflight : bt.keys # {} /\ bt.keys \subseteq Keys
BatchBound == bounded
TimerCoversPending == /\ keys # {} => timers # {}
                      /\ keys = UNION {pending[i].ks : i \in 1..Len(pending)}
                      /\ Cardinality(keys) < conf.mb \/ keys = {}
(* Liveness *)
Completes == \A r \in Reqs : (status[r] = "waiting") ~> (status[r] \in {"done", "cancelled"})
=============================================================================
