------------------------------ MODULE DataLoader ------------------------------
(***************************************************************************)
(* DataLoader delivers correct batched results under every interleaving    *)
(* (property C28).  Model of async_graphql::dataloader::DataLoader for one  *)
(* key type (src/dataloader/mod.rs).                                        *)
(*                                                                         *)
(* One action per critical section / resumption point of the code:         *)
(*   LoadMany(r, ks)   first poll of load_many: the whole section under the *)
(*                     entry lock (cache split, early return, enqueue,      *)
(*                     ImmediateLoad | StartFetch | Delay) and the spawn    *)
(*   RunTask(t)        first poll of a spawned immediate_load task:         *)
(*                     do_load calls Loader::load with the batch it owns    *)
(*   TimerFire(t)      the delay of a start_fetch task elapses and the task *)
(*                     resumes: Requests::take, then Loader::load if any    *)
(*   LoaderReturn(b,ok) Loader::load of batch b resolves and do_load        *)
(*                     resumes: cache fill, fan-out to the waiters          *)
(*   Deliver(r)        the waiting load_many future is polled and returns   *)
(*   Cancel(r)         the waiting load_many future is dropped              *)
(* The entry lock of the per-type Requests makes each of these atomic.      *)
(*                                                                         *)
(* The loader stamps every value with its call number (batch id), values    *)
(* fed before the run are 100 + key, so the origin of a value is visible.   *)
(* Keys in Holes are unknown to the loader (no value returned).             *)
(***************************************************************************)
EXTENDS CacheRef, TLC

--------------------------------------------------------------------------------
(* The property as a predicate over observations only (shared with the trace     *)
(* module, which evaluates it on recorded histories).                            *)
(*   rq  = [ks: requested keys, snap: cache contents when the load was issued,   *)
(*          at: number of loader calls made before the load was issued]          *)
(*   res = [err: the load failed, vals: the set of <<key, value>> it returned]    *)
(*   B   = loader calls so far, B[b] = [keys, ret: "none"|"ok"|"err", vals]      *)
(* "every load completes with exactly the values the loader returned, or the     *)
(*  cache held, for its requested keys, or with the loader's error for the batch *)
(*  it joined.  Every requested key not served from the cache is passed to the   *)
(*  loader."                                                                     *)
InSnap(rq, k) == \E p \in rq.snap : p[1] = k
Served(rq, rs, B) ==
  LET res == rs.vals IN
  IF rs.err
  THEN \E b \in (rq.at + 1)..Len(B) :
          /\ B[b].ret = "err" /\ B[b].keys \cap rq.ks # {}
          /\ \A k \in rq.ks : InSnap(rq, k) \/ k \in B[b].keys
  ELSE /\ \A p \in res : p[1] \in rq.ks
       /\ \A p, q \in res : p[1] = q[1] => p = q
       /\ \/ {p[1] : p \in res} = rq.ks /\ res \subseteq rq.snap            \* the cache held every key
          \/ \E b \in (rq.at + 1)..Len(B) :
               /\ B[b].ret = "ok"
               /\ \A k \in rq.ks :
                    \/ \E p \in res : p[1] = k /\ p \in rq.snap                  \* the cache held it
                    \/ k \in B[b].keys /\ {p \in res : p[1] = k} = {p \in B[b].vals : p[1] = k}   \* the joined batch
(* "a batch exceeds the maximum batch size by less than the size of the largest single request" *)
BoundOk(n, maxBatch, largest) == n < maxBatch + largest

--------------------------------------------------------------------------------
CONSTANTS Keys,        \* key universe (naturals)
          NReq,        \* number of load_many requests
          MaxBatches,  \* set of max_batch_size values to explore
          Modes,       \* subset of {"none", "map", "lru1", "lru2", "mapoff"}
          Prefeds,     \* set of key sets fed into the cache before the run
          Holes,       \* keys unknown to the loader
          Errs,        \* BOOLEAN: the loader may fail a batch
          Cancels      \* BOOLEAN: waiters may be dropped
Reqs == 1..NReq
NoRes == [err |-> FALSE, vals |-> {}]   OkRes(v) == [err |-> FALSE, vals |-> v]   ErrRes == [err |-> TRUE, vals |-> {}]
ModeCfg(m) == CASE m = "none"   -> [kind |-> "none", cap |-> 1, on |-> TRUE]
                [] m = "map"    -> [kind |-> "map",  cap |-> 1, on |-> TRUE]
                [] m = "lru1"   -> [kind |-> "lru",  cap |-> 1, on |-> TRUE]
                [] m = "lru2"   -> [kind |-> "lru",  cap |-> 2, on |-> TRUE]
                [] m = "lru3"   -> [kind |-> "lru",  cap |-> 3, on |-> TRUE]
                [] m = "mapoff" -> [kind |-> "map",  cap |-> 1, on |-> FALSE]   \* enable_all_cache(false)

VARIABLES conf,      \* [mb, mode, prefed]: the configuration of this run (chosen in Init)
          keys,      \* Requests.keys: keys awaiting dispatch
          pending,   \* Requests.pending: Seq of [r, ks (keys it waits for), hits (values taken from the cache)]
          cache,     \* the cache storage
          timers,    \* ids of start_fetch tasks whose delay has not elapsed
          tasks,     \* spawned immediate_load tasks not yet run: [t, keys, waiters]
          inflight,  \* batches at the loader: [b, keys, waiters]
          status,    \* r -> "idle" | "waiting" | "ready" (result sent, not yet polled) | "done" | "cancelled"
          result,    \* r -> [err, vals]: failed, or the set of <<key, value>> returned (NoRes until then)
          calls,     \* Loader::load call log: Seq of key sets; the batch id is the index
          nextTask,  \* spawn counter
          req,       \* ghost: r -> [ks, snap, at] as the property sees the request
          ret,       \* ghost: b -> "none" | "ok" | "err"
          largest    \* ghost: size of the largest single request so far
vars == <<conf, keys, pending, cache, timers, tasks, inflight, status, result, calls, nextTask, req, ret, largest>>

Cfg == [kind |-> ModeCfg(conf.mode).kind, cap |-> ModeCfg(conf.mode).cap, keys |-> Keys]
CacheOn == ModeCfg(conf.mode).on
RECURSIVE SortedSeq(_)
SortedSeq(S) == IF S = {} THEN <<>> ELSE LET m == CHOOSE x \in S : \A y \in S : x <= y IN <<m>> \o SortedSeq(S \ {m})
FedVal(k) == 100 + k
Vals(b, ks) == {<<k, b>> : k \in ks \ Holes}             \* what the loader returns for batch b
Batches == [b \in 1..Len(calls) |-> [keys |-> calls[b], ret |-> ret[b], vals |-> Vals(b, calls[b])]]

Init == /\ conf \in [mb : MaxBatches, mode : Modes, prefed : Prefeds]
        /\ keys = {} /\ pending = <<>> /\ timers = {} /\ tasks = {} /\ inflight = {}
        /\ cache = LET c0 == [kind |-> ModeCfg(conf.mode).kind, cap |-> ModeCfg(conf.mode).cap, keys |-> Keys]
                       s  == SortedSeq(conf.prefed) IN
                   PutSeq(c0, EmptyCache(c0), s, [i \in 1..Len(s) |-> FedVal(s[i])], 1)
        /\ status = [r \in Reqs |-> "idle"] /\ result = [r \in Reqs |-> NoRes]
        /\ calls = <<>> /\ nextTask = 1
        /\ req = [r \in Reqs |-> [ks |-> {}, snap |-> {}, at |-> 0]] /\ ret = <<>> /\ largest = 0

(* load_many, first poll.  Requests are issued in the order 1, 2, .. (ids are only labels). *)
LoadMany(r, ks) ==
  /\ status[r] = "idle" /\ \A q \in Reqs : q < r => status[q] # "idle"
  /\ LET prev == Cardinality(keys)
         lk   == IF CacheOn THEN Lookup(Cfg, [c |-> cache, hits |-> {}, miss |-> {}], SortedSeq(ks), 1)
                            ELSE [c |-> cache, hits |-> {}, miss |-> ks]
         keys2 == keys \cup lk.miss
         pend2 == Append(pending, [r |-> r, ks |-> lk.miss, hits |-> lk.hits])
     IN /\ cache' = lk.c
        /\ req' = [req EXCEPT ![r] = [ks |-> ks, snap |-> Entries(Cfg, cache), at |-> Len(calls)]]
        /\ largest' = IF Cardinality(ks) > largest THEN Cardinality(ks) ELSE largest
        /\ IF lk.miss = {}
           THEN /\ status' = [status EXCEPT ![r] = "done"] /\ result' = [result EXCEPT ![r] = OkRes(lk.hits)]   \* early return
                /\ UNCHANGED <<keys, pending, timers, tasks, nextTask>>
           ELSE /\ status' = [status EXCEPT ![r] = "waiting"] /\ UNCHANGED result
                /\ IF Cardinality(keys2) >= conf.mb
                   THEN /\ tasks' = tasks \cup {[t |-> nextTask, keys |-> keys2, waiters |-> pend2]}    \* ImmediateLoad(take())
                        /\ keys' = {} /\ pending' = <<>> /\ nextTask' = nextTask + 1 /\ UNCHANGED timers
                   ELSE IF prev = 0
                   THEN /\ timers' = timers \cup {nextTask} /\ nextTask' = nextTask + 1                  \* StartFetch
                        /\ keys' = keys2 /\ pending' = pend2 /\ UNCHANGED tasks
                   ELSE /\ keys' = keys2 /\ pending' = pend2 /\ UNCHANGED <<timers, tasks, nextTask>>    \* Delay
  /\ UNCHANGED <<conf, inflight, calls, ret>>

Dispatch(ks, ws) == /\ calls' = Append(calls, ks) /\ ret' = Append(ret, "none")
                    /\ inflight' = inflight \cup {[b |-> Len(calls) + 1, keys |-> ks, waiters |-> ws]}

RunTask(t) ==
  /\ t \in tasks /\ tasks' = tasks \ {t} /\ Dispatch(t.keys, t.waiters)
  /\ UNCHANGED <<conf, keys, pending, cache, timers, status, result, nextTask, req, largest>>

TimerFire(t) ==
  /\ t \in timers /\ timers' = timers \ {t}
  /\ IF keys = {} THEN UNCHANGED <<keys, pending, calls, ret, inflight>>
     ELSE Dispatch(keys, pending) /\ keys' = {} /\ pending' = <<>>
  /\ UNCHANGED <<conf, cache, tasks, status, result, nextTask, req, largest>>

Waiters(bt) == {bt.waiters[i].r : i \in 1..Len(bt.waiters)}
WaiterOf(bt, r) == bt.waiters[CHOOSE i \in 1..Len(bt.waiters) : bt.waiters[i].r = r]

LoaderReturn(bt, ok) ==
  /\ bt \in inflight /\ inflight' = inflight \ {bt} /\ (ok \/ Errs)
  /\ ret' = [ret EXCEPT ![bt.b] = IF ok THEN "ok" ELSE "err"]
  /\ LET live == {r \in Waiters(bt) : status[r] = "waiting"} IN      \* a dropped receiver makes tx.send fail, ignored
     /\ status' = [r \in Reqs |-> IF r \in live THEN "ready" ELSE status[r]]
     /\ result' = [r \in Reqs |-> IF r \notin live THEN result[r]
                                  ELSE IF ~ok THEN ErrRes
                                  ELSE OkRes(WaiterOf(bt, r).hits \cup Vals(bt.b, WaiterOf(bt, r).ks))]
  /\ IF ok THEN cache' \in Fills(Cfg, cache, bt.keys \ Holes, [k \in bt.keys \ Holes |-> bt.b], CacheOn)
           ELSE UNCHANGED cache
  /\ UNCHANGED <<conf, keys, pending, timers, tasks, calls, nextTask, req, largest>>

Deliver(r) == /\ status[r] = "ready" /\ status' = [status EXCEPT ![r] = "done"]
              /\ UNCHANGED <<conf, keys, pending, cache, timers, tasks, inflight, result, calls, nextTask, req, ret, largest>>
Cancel(r)  == /\ Cancels /\ status[r] \in {"waiting", "ready"} /\ status' = [status EXCEPT ![r] = "cancelled"]
              /\ UNCHANGED <<conf, keys, pending, cache, timers, tasks, inflight, result, calls, nextTask, req, ret, largest>>

Load     == \E r \in Reqs : \E ks \in (SUBSET Keys) \ {{}} : LoadMany(r, ks)
Run      == \E t \in tasks : RunTask(t)
Fire     == \E t \in timers : TimerFire(t)
Return   == \E bt \in inflight : \E ok \in BOOLEAN : LoaderReturn(bt, ok)
DeliverA == \E r \in Reqs : Deliver(r)
CancelA  == \E r \in Reqs : Cancel(r)
Next == Load \/ Run \/ Fire \/ Return \/ DeliverA \/ CancelA
(* "given that spawned tasks and timers run": weak fairness of tasks, timers, the loader and the waiter's own poll *)
Spec == Init /\ [][Next]_vars /\ WF_vars(Run) /\ WF_vars(Fire) /\ WF_vars(Return) /\ WF_vars(DeliverA)

--------------------------------------------------------------------------------
(* Invariants *)
ResultsExact == \A r \in Reqs : status[r] \in {"ready", "done"} => Served(req[r], result[r], Batches)
(* every requested key not served from the cache is, at any time, on its way to the loader together with its waiter *)
Holders == {[keys |-> keys, waiters |-> pending]} \cup {[keys |-> t.keys, waiters |-> t.waiters] : t \in tasks}
             \cup {[keys |-> bt.keys, waiters |-> bt.waiters] : bt \in inflight}
EveryKeyLoaded ==
  \A r \in Reqs : status[r] = "waiting" =>
    \E hd \in Holders : \E i \in 1..Len(hd.waiters) :
       /\ hd.waiters[i].r = r /\ hd.waiters[i].ks \subseteq hd.keys
       /\ \A k \in req[r].ks : k \in hd.waiters[i].ks \/ \E p \in hd.waiters[i].hits : p[1] = k /\ p \in req[r].snap
NoDuplicateKeyInBatch == \A b \in 1..Len(calls) : calls[b] # {} /\ calls[b] \subseteq Keys   \* batches are sets by construction; never empty
BatchBound == \A b \in 1..Len(calls) : BoundOk(Cardinality(calls[b]), conf.mb, largest)
TimerCoversPending == /\ keys # {} => timers # {}
                      /\ keys = UNION {pending[i].ks : i \in 1..Len(pending)}
                      /\ Cardinality(keys) < conf.mb \/ keys = {}
(* Liveness *)
Completes == \A r \in Reqs : (status[r] = "waiting") ~> (status[r] \in {"done", "cancelled"})
=============================================================================
