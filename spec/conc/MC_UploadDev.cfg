\* negative control: today's reader (whole-stream byte budget) must violate StreamConforms
CONSTANT L = 3
CONSTANT PartOverhead = 1
CONSTANT MaxNames = 1
CONSTANT MaxLim = 2
CONSTANT AllOrders = FALSE
SPECIFICATION USpecDev
INVARIANT StreamConforms
