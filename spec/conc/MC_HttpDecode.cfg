CONSTANT MaxBatch = 4
SPECIFICATION BSpec
INVARIANT BTypeOK
INVARIANT Aligned
INVARIANT NothingEarly
PROPERTY Returns
