----------------------------- MODULE Gen_Hostile -----------------------------
(* Mode G for C12: every initial state of Hostile.tla is one case (hostile    *)
(* class x position x size x transport); print it once, with what the         *)
(* property expects of it.  The constraint stops the search at the initial    *)
(* states.                                                                    *)
EXTENDS Hostile, Json
Emit == stage = "start" => PrintT(<<"REPLAY", ToJson([class |-> case.class, pos |-> case.pos, sub |-> case.sub, k |-> case.k,
                                                      transport |-> case.transport, expect |-> Expect(case)])>>)
OnlyInit == stage = "start"
=============================================================================
