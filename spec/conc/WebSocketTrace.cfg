\* verdict run: only the monitor is used; the model constants are irrelevant
CONSTANT Protos = {"GWS", "STWS"}
CONSTANT KeepAlives = {TRUE, FALSE}
CONSTANT Ids = {"a", "b", "c"}
CONSTANT MaxEv = 1000
CONSTANT MaxIn = 1000
CONSTANT MaxQ = 1000
CONSTANT Dev = {}
INIT TInit
NEXT TNext
