CONSTANT MaxResp = 1000
CONSTANT MaxTicks = 1000
INIT TInit
NEXT TNext
