CONSTANT Fields = {"s1", "s2"}
CONSTANT MaxEvents = 2
CONSTANT Dev = {}
SPECIFICATION Spec
INVARIANT OwnErrorsOnly
INVARIANT InOrder
