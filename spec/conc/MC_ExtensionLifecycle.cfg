CONSTANT K = 2
CONSTANT MaxResolves = 2
SPECIFICATION Spec
INVARIANT ResolveOnlyInExecute
INVARIANT PhasesInsideRequest
INVARIANT ClosedIsFinal
