CONSTANT MaxBatch = 3
CONSTANT Chunk = 500
INIT TInit
NEXT TNext
