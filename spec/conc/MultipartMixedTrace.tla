------------------------ MODULE MultipartMixedTrace ------------------------
(* Mode V for C26.                                                          *)
(*  Verdict run  (TInit/TNext): each recorded trace is folded through the   *)
(*    property monitor of MultipartMixed (framing of the chunk history,     *)
(*    bodies in order, nothing invented, complete at end, and the parts an  *)
(*    independent multipart reader found are exactly the monitor's parts).  *)
(*  Drift run (DInit/DNext): each trace is replayed against the coroutine   *)
(*    model's own actions; a rejection is MODEL-DRIFT, not a violation.     *)
EXTENDS MultipartMixed, Json, IOUtils

Traces == ndJsonDeserialize(IOEnv.TRACE)
VARIABLES tid, l

Chunk(e) == [t |-> e.got, i |-> e.i]
IsChunk(e) == e.ev = "poll" /\ e.got \in {"HDR", "BODY", "CRLF", "HB", "EOF", "OTHER"}

\* ---- verdict: pure fold, never blocks -----------------------------------------
\* s = [mon, fed, finished, bad, parts]
VInit == [mon |-> MonInit, fed |-> 0, finished |-> FALSE, bad |-> 0, parts |-> <<>>]
VStep(s, e, k) ==
  IF s.bad # 0 THEN s
  ELSE IF e.ev = "feed" THEN [s EXCEPT !.fed = s.fed + 1]
  ELSE IF e.ev \in {"end", "tick"} THEN s
  ELSE IF e.ev = "poll" /\ e.got = "NONE" THEN
         IF s.mon.m = "eof" /\ s.mon.n = s.fed THEN [s EXCEPT !.finished = TRUE] ELSE [s EXCEPT !.bad = k]
  ELSE IF e.ev = "poll" /\ e.got = "PENDING" THEN s
  ELSE IF IsChunk(e) THEN
         LET m == MonStep(s.mon, Chunk(e)) IN
         IF s.finished \/ m.m = "bad" \/ m.n > s.fed THEN [s EXCEPT !.bad = k]
         ELSE [s EXCEPT !.mon = m,
                        !.parts = IF e.got = "BODY" THEN Append(s.parts, e.i)
                                  ELSE IF e.got = "HB" THEN Append(s.parts, 0) ELSE s.parts]
  ELSE IF e.ev = "parts" THEN (IF e.parts = s.parts /\ s.finished THEN s ELSE [s EXCEPT !.bad = k])
  ELSE [s EXCEPT !.bad = k]
RECURSIVE VRun(_, _, _)
VRun(s, evs, k) == IF k > Len(evs) THEN s ELSE VRun(VStep(s, evs[k], k), evs, k + 1)
Verdict(tr) == LET s == VRun(VInit, tr.events, 1) IN IF s.bad = 0 THEN "ok" ELSE "violation"
BadAt(tr) == VRun(VInit, tr.events, 1).bad

TInit == Init /\ tid = 0 /\ l = 1
TNext == /\ l <= Len(Traces)
         /\ PrintT(<<"VERDICT", Traces[l].id, Verdict(Traces[l]), BadAt(Traces[l])>>)
         /\ l' = l + 1 /\ UNCHANGED <<vars, tid>>

\* ---- drift: implementation-shaped replay, one initial state per trace ----------
Ev == Traces[tid].events
YieldEnabled == pc # "done" /\ (pc # "select" \/ avail # <<>> \/ timerFired \/ inputEnded)
DInit == Init /\ tid \in 1..Len(Traces) /\ l = 1
DStep ==
  LET e == Ev[l] IN
  \/ e.ev = "feed" /\ Feed
  \/ e.ev = "end"  /\ End
  \/ e.ev = "tick" /\ Tick
  \/ IsChunk(e) /\ Yield /\ out' = Append(out, Chunk(e))
  \/ e.ev = "poll" /\ e.got = "PENDING" /\ ~YieldEnabled /\ UNCHANGED vars
  \/ e.ev = "poll" /\ e.got = "NONE" /\ pc = "done" /\ UNCHANGED vars
  \/ e.ev = "parts" /\ UNCHANGED vars
DNext == l <= Len(Ev) /\ DStep /\ l' = l + 1 /\ UNCHANGED tid
\* progress register per trace (workers 1)
Track == TLCSet(tid, IF TLCGet(tid) > l THEN TLCGet(tid) ELSE l)
DPost == \A t \in 1..Len(Traces) : PrintT(<<"PROGRESS", Traces[t].id, TLCGet(t) - 1, Len(Traces[t].events)>>)
ASSUME \A t \in 1..Len(Traces) : TLCSet(t, 0)
=============================================================================
