----------------------------- MODULE ExecSched -----------------------------
(***************************************************************************)
(* Scheduling of the resolvers of one operation (properties C04, C05).     *)
(*                                                                         *)
(* A task tree is given per case: task t has a parent task (0 = none) and  *)
(* a root index (the position of the root field it lives under).  Tasks    *)
(* are the *gated* resolvers of the case (asynchronous resolvers whose     *)
(* completion the environment controls).  One action per observable step:  *)
(*   Start(t)   the executor invokes resolver t: its parent resolver has   *)
(*              completed; for mutations additionally every task of all    *)
(*              earlier root fields has finished (6.2.2: serial execution) *)
(*   Finish(t)  the resolver completes (the environment opens its gate)    *)
(* Non-gated resolvers complete immediately and are not tasks.             *)
(* The behaviours of this machine are exactly the completion orders the    *)
(* executor can be driven through; mode G prints each as a gate schedule.  *)
(***************************************************************************)
EXTENDS Naturals, Sequences, FiniteSets, TLC, Json, IOUtils

Trees == ndJsonDeserialize(IOEnv.TREES)     \* [id, serial, parent: Seq(Nat), root: Seq(Nat), after: Seq(Seq(Nat))]
VARIABLES tree, st, order
vars == <<tree, st, order>>

T == Trees[tree]
Tasks == 1..Len(T.parent)

Init == /\ tree \in 1..Len(Trees)
        /\ st = [t \in 1..Len(Trees[tree].parent) |-> "idle"]
        /\ order = <<>>

ParentDone(t) == IF T.parent[t] = 0 THEN TRUE ELSE st[T.parent[t]] = "finished"
EarlierRootsDone(t) == \A u \in Tasks : T.root[u] < T.root[t] => st[u] = "finished"

\* dynamic schemas resolve the fields of a *nested* object one after the other (dynamic/resolve.rs
\* resolve_value passes serial = true): after[t] lists the tasks of earlier sibling subtrees.
EarlierSiblingsDone(t) == \A i \in 1..Len(T.after[t]) : st[T.after[t][i]] = "finished"
Start(t) == /\ st[t] = "idle" /\ ParentDone(t) /\ EarlierSiblingsDone(t)
            /\ (T.serial => EarlierRootsDone(t))
            /\ st' = [st EXCEPT ![t] = "started"]
            /\ UNCHANGED <<tree, order>>
Finish(t) == /\ st[t] = "started"
             /\ st' = [st EXCEPT ![t] = "finished"]
             /\ order' = Append(order, t)
             /\ UNCHANGED tree
Next == \E t \in Tasks : Start(t) \/ Finish(t)
Spec == Init /\ [][Next]_vars /\ WF_vars(Next)

\* 6.2.2: while a task of root field i is running, no task of a later root field has started
MutationSerial == T.serial => \A t, u \in Tasks : (st[t] = "started" /\ T.root[u] > T.root[t]) => st[u] = "idle"
\* a resolver never starts before its parent resolver completed
ParentFirst == \A t \in Tasks : st[t] # "idle" => ParentDone(t)
AllDone == \A t \in Tasks : st[t] = "finished"
Completes == <>AllDone

Emit == AllDone => PrintT(<<"REPLAY", T.id, ToJson(order)>>)
=============================================================================
