\* mode M, today's code: all named deviations on; a crash is reachable only where a deviation's trigger explains it.
CONSTANT Depths = {50, 150, 450}
CONSTANT SelDepths = {50, 450}
CONSTANT LightDepths = {50}
CONSTANT Sizes = {1000}
CONSTANT Cuts = {0, 7, 19}
CONSTANT SafeDepth = 100
CONSTANT SafeSel = 200
CONSTANT SafeChain = 100
CONSTANT HeavyTransports = {"execute", "json", "ws"}
CONSTANT Wide = FALSE
CONSTANT Dev = {"DevParserDepth", "DevFragmentChain"}
SPECIFICATION Spec
INVARIANT TypeOK
INVARIANT AnswerAllowed
INVARIANT CrashExplained
PROPERTY Answered
