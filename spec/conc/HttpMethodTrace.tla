-------------------------- MODULE HttpMethodTrace --------------------------
(* Mode V for C35: judges the observations the harness (harness/vh-http)     *)
(* recorded for every cell of the matrix of HttpMethod.tla.                  *)
(*                                                                           *)
(* observation = the cell (integ, entry, method, accept, qs, body) plus       *)
(*   status   HTTP status of the response                                    *)
(*   errs     one boolean per GraphQL response in the body: it has `errors`  *)
(*            (empty when the body is not JSON, e.g. a plain 4xx rejection;  *)
(*            for a multipart/mixed body: one per non-heartbeat part)        *)
(*   effects  delta of the mutation resolver's side-effect counter           *)
(*   reads    runs of the query resolver                                     *)
(*                                                                           *)
(* Verdicts come from the reference operators of HttpMethod (MayExecute,     *)
(* GetOperation, MustError, ExpectedEffects), not from its state machine:    *)
(*   GET cells  -- the property.  "ok", "known:DevGetMutation<I>" (exactly   *)
(*     today's behaviour on exactly the trigger -- the operation selected by *)
(*     the QUERY STRING is a mutation: it ran once and was answered as a     *)
(*     success), anything else "violation:<why>": in particular any effect   *)
(*     when the operationName selects nothing (empty / unknown name), any    *)
(*     effect of a JSON body sent along with a GET, any effect of a GET      *)
(*     without query string.                                                 *)
(*   POST cells and GET + pure query documents -- controls of the harness    *)
(*     (the property says nothing about them): "control:<why>" when the      *)
(*     side-effect counter / route does not behave, which the driver turns   *)
(*     into a tool error (the run would be vacuous), never into a violation. *)
(* DRIFT lines: the observation differs from the implementation-shaped model *)
(* with all deviations switched on (today's code) -- informational.          *)
EXTENDS HttpMethod, IOUtils

Obs == ndJsonDeserialize(IOEnv.TRACE)
VARIABLE l

AsCell(o) == [integ |-> o.integ, entry |-> o.entry, method |-> o.method, accept |-> o.accept,
              qs |-> o.qs, body |-> o.body]
\* "answered with an error": an HTTP error status, or a GraphQL response with `errors`
ErrorReported(o) == o.status >= 400 \/ (Len(o.errs) = 1 /\ o.errs[1])
AnyErr(o) == o.status >= 400 \/ \E k \in 1..Len(o.errs) : o.errs[k]
\* one plain success per request that had to be considered
PlainSuccess(o, n) == o.status = 200 /\ Len(o.errs) = n /\ ~AnyErr(o)

\* a mutation effect the deviation's trigger cannot excuse; "+body": a JSON body was sent along too
Blame(o, why) == IF Len(o.body) > 0 THEN why \o "+body" ELSE why

GetVerdict(o) ==
  IF o.qs = <<>> THEN                                \* GET without a query string: nothing may run
    (IF o.effects = 0 THEN "ok"
     ELSE IF Len(o.body) > 0 THEN "violation:get-body-executed" ELSE "violation:empty-get-ran-mutation")
  ELSE LET it == o.qs[1] IN
  IF NoSelection(it) THEN                            \* empty / unknown operationName, ambiguous document
    (IF o.effects = 0 THEN "ok" ELSE Blame(o, "violation:unselected-mutation-ran-over-get"))
  ELSE IF MustError("GET", it) THEN                  \* GET and the selected operation is a mutation
    IF o.effects = 0 /\ ErrorReported(o) THEN "ok"
    ELSE IF DevTrigger("GET", it) /\ o.effects = DevItemEffect(it) /\ o.reads = 0 /\ PlainSuccess(o, 1)
         THEN "known:" \o DevName(o.integ)
    ELSE IF o.effects = 0 THEN "violation:no-error-reported"
    ELSE IF o.effects = 1 THEN "violation:ran-and-error"
    ELSE Blame(o, "violation:ran-more-than-once")
  ELSE                                               \* GET and the selected operation is a query
    IF o.effects # 0 THEN Blame(o, "violation:query-over-get-ran-mutation")
    ELSE IF ~HasMutation(it.doc) /\ ~(o.reads = 1 /\ PlainSuccess(o, 1)) THEN "control:get-query-not-run"
    ELSE "ok"

\* POST: every selected operation of the body runs, a request that selects nothing is a request error
PostVerdict(o) ==
  LET c == AsCell(o) IN
  IF /\ o.effects = ExpectedEffects(c) /\ o.reads = ExpectedReads(c)
     /\ o.status = 200 /\ Len(o.errs) = Len(o.body)
     /\ \A k \in 1..Len(o.errs) : o.errs[k] <=> NoSelection(o.body[k])
  THEN "ok" ELSE "control:post-not-run"

Verdict(o) ==
  IF AsCell(o) \notin Cells THEN "control:not-a-cell"
  ELSE IF o.method = "GET" THEN GetVerdict(o) ELSE PostVerdict(o)

\* today's code as modelled (all deviations on): everything selected runs, nothing is rejected,
\* no selection / no request is an error
MatchesDevModel(o) ==
  LET c == AsCell(o) e == Effective(c) IN
  /\ o.effects = DevEffects(c) /\ o.reads = ExpectedReads(c)
  /\ IF e = <<>> THEN AnyErr(o)
     ELSE o.status = 200 /\ Len(o.errs) = Len(e) /\ \A k \in 1..Len(e) : o.errs[k] <=> NoSelection(e[k])

TInit == /\ cell = (CHOOSE c \in Cells : TRUE) /\ pc = "done" /\ pending = <<>> /\ sel = NoOp
         /\ effects = 0 /\ reads = 0 /\ outcome = <<>>
         /\ l = 1
TNext == /\ l <= Len(Obs)
         /\ PrintT(<<"VERDICT", Obs[l].id, Verdict(Obs[l])>>)
         /\ (IF MatchesDevModel(Obs[l]) THEN TRUE ELSE PrintT(<<"DRIFT", Obs[l].id>>))
         /\ l' = l + 1 /\ UNCHANGED vars
=============================================================================
