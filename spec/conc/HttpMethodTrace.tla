-------------------------- MODULE HttpMethodTrace --------------------------
(* Mode V for C35: judges the observations the harness (harness/vh-http)     *)
(* recorded for every cell of the matrix of HttpMethod.tla.                  *)
(*                                                                           *)
(* observation = the cell (integ, entry, method, frame, items) plus          *)
(*   status   HTTP status of the response                                    *)
(*   errs     one boolean per GraphQL response in the body: it has `errors`  *)
(*            (empty when the body is not JSON, e.g. a plain 4xx rejection;  *)
(*            for a multipart/mixed body: one per non-heartbeat part)        *)
(*   effects  delta of the mutation resolver's side-effect counter           *)
(*   reads    runs of the query resolver                                     *)
(*                                                                           *)
(* Verdicts come from the reference operators of HttpMethod (MayExecute,     *)
(* GetOperation, MustError, ExpectedEffects), not from its state machine:    *)
(*   GET cells  -- the property.  "ok", "known:DevGetMutation<I>" (exactly   *)
(*     today's behaviour on exactly the trigger: the mutation ran once and   *)
(*     was answered as a success), anything else "violation:<why>".          *)
(*   POST cells and GET + pure query documents -- controls of the harness    *)
(*     (the property says nothing about them): "control:<why>" when the      *)
(*     side-effect counter / route does not behave, which the driver turns   *)
(*     into a tool error (the run would be vacuous), never into a violation. *)
(* DRIFT lines: the observation differs from the implementation-shaped model *)
(* with all deviations switched on (today's code) -- informational.          *)
EXTENDS HttpMethod, IOUtils

Obs == ndJsonDeserialize(IOEnv.TRACE)
VARIABLE l

AsCell(o) == [integ |-> o.integ, entry |-> o.entry, method |-> o.method, accept |-> o.accept,
              frame |-> o.frame, items |-> o.items]
\* "answered with an error": an HTTP error status, or a GraphQL response with `errors`
ErrorReported(o) == o.status >= 400 \/ (Len(o.errs) = 1 /\ o.errs[1])
AnyErr(o) == o.status >= 400 \/ \E k \in 1..Len(o.errs) : o.errs[k]
PlainSuccess(o) == o.status = 200 /\ Len(o.errs) = Len(o.items) /\ ~AnyErr(o)

GetVerdict(o) ==
  LET it == o.items[1] IN
  IF MustError("GET", it) THEN                       \* GET and the selected operation is a mutation
    IF o.effects = 0 /\ ErrorReported(o) THEN "ok"
    ELSE IF DevTrigger("GET", it) /\ o.effects = DevItemEffect(it) /\ o.reads = 0 /\ PlainSuccess(o)
         THEN "known:" \o DevName(o.integ)
    ELSE IF o.effects = 0 THEN "violation:no-error-reported"
    ELSE IF o.effects = 1 THEN "violation:ran-and-error"
    ELSE "violation:ran-more-than-once"
  ELSE                                               \* GET and the selected operation is a query
    IF o.effects # 0 THEN "violation:query-over-get-ran-mutation"
    ELSE IF ~HasMutation(it.doc) /\ ~(o.reads = 1 /\ PlainSuccess(o)) THEN "control:get-query-not-run"
    ELSE "ok"

PostVerdict(o) ==
  LET c == AsCell(o) IN
  IF o.effects = ExpectedEffects(c) /\ o.reads = ExpectedReads(c) /\ PlainSuccess(o) THEN "ok"
  ELSE "control:post-not-run"

Verdict(o) ==
  IF AsCell(o) \notin Cells THEN "control:not-a-cell"
  ELSE IF o.method = "GET" THEN GetVerdict(o) ELSE PostVerdict(o)

\* today's code as modelled (all deviations on): everything selected runs, nothing is rejected
MatchesDevModel(o) ==
  LET c == AsCell(o) IN o.effects = DevEffects(c) /\ o.reads = ExpectedReads(c) /\ PlainSuccess(o)

TInit == /\ cell = (CHOOSE c \in Cells : TRUE) /\ pc = "done" /\ pending = <<>> /\ sel = NoOp
         /\ effects = 0 /\ reads = 0 /\ outcome = <<>>
         /\ l = 1
TNext == /\ l <= Len(Obs)
         /\ PrintT(<<"VERDICT", Obs[l].id, Verdict(Obs[l])>>)
         /\ (IF MatchesDevModel(Obs[l]) THEN TRUE ELSE PrintT(<<"DRIFT", Obs[l].id>>))
         /\ l' = l + 1 /\ UNCHANGED vars
=============================================================================
