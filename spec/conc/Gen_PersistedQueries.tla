------------------------ MODULE Gen_PersistedQueries ------------------------
(* Mode G for C31: every history of exactly MaxLen events of the model over  *)
(* a reduced request alphabet, as a list of harness commands.  A history is  *)
(* judged after every event, so histories of length MaxLen cover all shorter *)
(* ones.  Alphabet (GT = good texts, GX = texts used for registration and    *)
(* look-up only, e.g. an invalid and an unparseable one):                    *)
(*   plain(t)  register(t)  lookup(h)  mismatch(t, other hash | garbage)     *)
(*   wrong version with matching hash / hash only (any hash, registered or   *)
(*   not: nothing may run, nothing may be stored)                            *)
(*   malformed payload carrying the right hash / hash only                   *)
(*   evict(h) when the model's registry holds h                              *)
(* Symmetry: the texts of GT are interchangeable, so a history must mention  *)
(* GFirst before any other text of GT.                                       *)
EXTENDS PersistedQueries, Json
CONSTANTS MaxLen, GT, GX, GFirst,
          FirstRegisters     \* TRUE: only histories that start by registering GFirst (used for the longest bound)
VARIABLE hist

Rq(ext, q, h, v, pk) == [ext |-> ext, q |-> q, h |-> h, v |-> v, pk |-> pk]
GenReqs ==
  {Rq("absent", t, "", 0, "") : t \in GT}
  \cup {Rq("ok", t, H(t), 1, "") : t \in GT \cup GX}
  \cup {Rq("ok", "", h, 1, "") : h \in GT \cup GX \cup {Garbage}}
  \cup {Rq("ok", p[1], p[2], 1, "") : p \in {p \in GT \X (GT \cup {Garbage}) : p[2] # H(p[1])}}
  \cup {Rq("ok", t, H(t), 2, "") : t \in GT}
  \cup {Rq("ok", "", h, 2, "") : h \in GT \cup {Garbage}}      \* hash only, unsupported version (registered or not)
  \cup {Rq("malformed", t, H(t), 0, "strversion") : t \in GT}
  \cup {Rq("malformed", "", H(t), 0, "noversion") : t \in GT}

Mentioned(e) == {e.q, e.h} \cap GT
Seen == UNION {Mentioned(hist[i]) : i \in 1..Len(hist)}
Canon(e) == IF hist = <<>> /\ FirstRegisters THEN e = Rq("ok", GFirst, H(GFirst), 1, "")
            ELSE IF Seen = {} /\ Mentioned(e) # {} THEN GFirst \in Mentioned(e) ELSE TRUE

GInit == Init /\ hist = <<>>
GNext == /\ Len(hist) < MaxLen
         /\ \/ \E r \in GenReqs : Canon(r) /\ Do(r) /\ hist' = Append(hist, r)
            \/ \E h \in GT \cup GX : Evict(h) /\ hist' = Append(hist, Rq("evict", "", h, 0, ""))
Emit == Len(hist) = MaxLen => PrintT(<<"REPLAY", ToJson(hist)>>)
\* every generated history is accepted by the monitor when the model answers it
GenMonAccepts == mon.bad = ""
=============================================================================
