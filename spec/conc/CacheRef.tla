------------------------------ MODULE CacheRef ------------------------------
(***************************************************************************)
(* Pure reference operators for one DataLoader cache (CacheStorage in      *)
(* src/dataloader/cache.rs): NoCache, HashMapCache and LruCache(cap) as a  *)
(* recency sequence.  Shared by LoaderCache (C29) and DataLoader (C28).    *)
(* cfg is a record with at least [kind, cap, keys]; kind is "none", "map"  *)
(* or "lru".                                                               *)
(***************************************************************************)
EXTENDS Naturals, Sequences, FiniteSets

Range(s) == {s[i] : i \in 1..Len(s)}
Without(s, k) == SelectSeq(s, LAMBDA x : x # k)

(* A cache of one key type: val[k] = 0 means "absent" (all values are > 0); *)
(* ord lists the keys present, most recently used first (LRU only).         *)
EmptyCache(cfg) == [val |-> [k \in cfg.keys |-> 0], ord |-> <<>>]
Has(c, k) == c.val[k] # 0
Entries(cfg, c) == {<<k, c.val[k]>> : k \in {x \in cfg.keys : Has(c, x)}}

(* lru::LruCache::get moves the key to the head. *)
Touch(cfg, c, k) == IF cfg.kind = "lru" THEN [c EXCEPT !.ord = <<k>> \o Without(c.ord, k)] ELSE c

(* CacheStorage::insert.  NoCache: no effect.  HashMap: insert or overwrite.          *)
(* lru::LruCache::put: overwrite and move to head, or evict the tail when full.       *)
Put(cfg, c, k, v) ==
  IF cfg.kind = "none" THEN c
  ELSE IF cfg.kind = "map" THEN [c EXCEPT !.val[k] = v]
  ELSE IF Has(c, k) THEN [val |-> [c.val EXCEPT ![k] = v], ord |-> <<k>> \o Without(c.ord, k)]
  ELSE IF Len(c.ord) >= cfg.cap
       THEN LET victim == c.ord[Len(c.ord)]
                kept   == SubSeq(c.ord, 1, Len(c.ord) - 1) IN
            [val |-> [x \in cfg.keys |-> IF x = k THEN v ELSE IF x = victim THEN 0 ELSE c.val[x]],
             ord |-> <<k>> \o kept]
       ELSE [val |-> [c.val EXCEPT ![k] = v], ord |-> <<k>> \o c.ord]

(* CacheStorage::remove / clear *)
Remove(cfg, c, k) == [val |-> [c.val EXCEPT ![k] = 0], ord |-> Without(c.ord, k)]

RECURSIVE PutSeq(_, _, _, _, _)
PutSeq(cfg, c, ks, vs, i) == IF i > Len(ks) THEN c ELSE PutSeq(cfg, Put(cfg, c, ks[i], vs[i]), ks, vs, i + 1)

(* The cache look-up of one load, in the order the keys were given: a hit is a use. *)
RECURSIVE Lookup(_, _, _, _)
Lookup(cfg, acc, ks, i) ==
  IF i > Len(ks) THEN acc
  ELSE LET k == ks[i] IN
       IF Has(acc.c, k)
       THEN Lookup(cfg, [c |-> Touch(cfg, acc.c, k), hits |-> acc.hits \cup {<<k, acc.c.val[k]>>}, miss |-> acc.miss], ks, i + 1)
       ELSE Lookup(cfg, [acc EXCEPT !.miss = acc.miss \cup {k}], ks, i + 1)

(* All orders in which a set of keys can be written. *)
Perms(S) == {p \in [1..Cardinality(S) -> S] : \A i, j \in 1..Cardinality(S) : i # j => p[i] # p[j]}

(* The caches that can result from storing the loader's values fresh[k], k \in ret:      *)
(* nothing is stored while caching is off; the order inside one batch is not specified. *)
Fills(cfg, c, ret, fresh, use) ==
  IF ~use \/ ret = {} THEN {c}
  ELSE {PutSeq(cfg, c, p, [i \in 1..Cardinality(ret) |-> fresh[p[i]]], 1) : p \in Perms(ret)}
=============================================================================
