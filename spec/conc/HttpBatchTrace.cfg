CONSTANT MaxBatch = 3
CONSTANT Chunk = 1
INIT XInit
NEXT XNext
