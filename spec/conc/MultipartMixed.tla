--------------------------- MODULE MultipartMixed ---------------------------
(***************************************************************************)
(* multipart/mixed subscription bodies (property C26).                     *)
(* Implementation-shaped model of create_multipart_mixed_stream            *)
(* (src/http/multipart_subscribe.rs): a coroutine that selects between the *)
(* response stream and a heartbeat timer and yields byte chunks.  Each     *)
(* yield point of the coroutine is one action, because the consumer can    *)
(* stop polling between any two of them and the environment (responses     *)
(* arriving, timer firing, input ending) moves independently.              *)
(***************************************************************************)
EXTENDS Naturals, Sequences, TLC

CONSTANTS MaxResp, MaxTicks
VARIABLES avail,       \* responses fed to the input stream, not yet taken (ids in arrival order)
          fed,         \* number of responses fed so far
          inputEnded,  \* the input stream has finished
          timerFired,  \* the armed heartbeat delay has elapsed and has not been consumed
          ticks,       \* number of timer firings so far
          pc,          \* coroutine position: "select" "body" "crlf" "hb" "done"
          cur,         \* response being written
          out          \* chunks yielded so far
vars == <<avail, fed, inputEnded, timerFired, ticks, pc, cur, out>>

HDR == [t |-> "HDR", i |-> 0]   BODY(i) == [t |-> "BODY", i |-> i]   CRLF == [t |-> "CRLF", i |-> 0]
HB  == [t |-> "HB", i |-> 0]    EOF == [t |-> "EOF", i |-> 0]

Init == /\ avail = <<>> /\ fed = 0 /\ inputEnded = FALSE /\ timerFired = FALSE /\ ticks = 0
        /\ pc = "select" /\ cur = 0 /\ out = <<>>

(* environment *)
Feed == /\ ~inputEnded /\ fed < MaxResp
        /\ fed' = fed + 1 /\ avail' = Append(avail, fed + 1)
        /\ UNCHANGED <<inputEnded, timerFired, ticks, pc, cur, out>>
End  == /\ ~inputEnded /\ inputEnded' = TRUE
        /\ UNCHANGED <<avail, fed, timerFired, ticks, pc, cur, out>>
Tick == /\ ~timerFired /\ ticks < MaxTicks /\ pc # "done"
        /\ timerFired' = TRUE /\ ticks' = ticks + 1
        /\ UNCHANGED <<avail, fed, inputEnded, pc, cur, out>>

(* coroutine: select! may take either ready branch *)
TakeResponse == /\ pc = "select" /\ avail # <<>>
                /\ cur' = Head(avail) /\ avail' = Tail(avail)
                /\ out' = Append(out, HDR) /\ pc' = "body"
                /\ UNCHANGED <<fed, inputEnded, timerFired, ticks>>
TakeTimer    == /\ pc = "select" /\ timerFired
                /\ timerFired' = FALSE            \* re-armed
                /\ out' = Append(out, HDR) /\ pc' = "hb"
                /\ UNCHANGED <<avail, fed, inputEnded, ticks, cur>>
TakeEnd      == /\ pc = "select" /\ avail = <<>> /\ inputEnded
                /\ out' = Append(out, EOF) /\ pc' = "done"
                /\ UNCHANGED <<avail, fed, inputEnded, timerFired, ticks, cur>>
WriteBody    == /\ pc = "body" /\ out' = Append(out, BODY(cur)) /\ pc' = "crlf"
                /\ UNCHANGED <<avail, fed, inputEnded, timerFired, ticks, cur>>
WriteCrlf    == /\ pc = "crlf" /\ out' = Append(out, CRLF) /\ pc' = "select"
                /\ UNCHANGED <<avail, fed, inputEnded, timerFired, ticks, cur>>
WriteHb      == /\ pc = "hb" /\ out' = Append(out, HB) /\ pc' = "select"
                /\ UNCHANGED <<avail, fed, inputEnded, timerFired, ticks, cur>>

Yield == TakeResponse \/ TakeTimer \/ TakeEnd \/ WriteBody \/ WriteCrlf \/ WriteHb
Next == Feed \/ End \/ Tick \/ Yield
Spec == Init /\ [][Next]_vars /\ WF_vars(Yield)

--------------------------------------------------------------------------------
(* The property, as a monitor over the chunk history only (independent of the  *)
(* coroutine model): out is a prefix of (HDR BODY(k) CRLF | HDR HB)* EOF with   *)
(* bodies 1,2,3.. in order.  Monitor state: [m, n] with m the framing mode and  *)
(* n the number of bodies seen; m = "bad" is absorbing.                         *)
MonInit == [m |-> "top", n |-> 0]
MonStep(s, c) ==
  CASE s.m = "top"  /\ c.t = "HDR"  -> [s EXCEPT !.m = "hdr"]
    [] s.m = "top"  /\ c.t = "EOF"  -> [s EXCEPT !.m = "eof"]
    [] s.m = "hdr"  /\ c.t = "HB"   -> [s EXCEPT !.m = "top"]
    [] s.m = "hdr"  /\ c.t = "BODY" /\ c.i = s.n + 1 -> [m |-> "body", n |-> s.n + 1]
    [] s.m = "body" /\ c.t = "CRLF" -> [s EXCEPT !.m = "top"]
    [] OTHER -> [s EXCEPT !.m = "bad"]
RECURSIVE MonRun(_, _, _)
MonRun(s, chunks, i) == IF i > Len(chunks) THEN s ELSE MonRun(MonStep(s, chunks[i]), chunks, i + 1)
Mon(chunks) == MonRun(MonInit, chunks, 1)

WellFramed     == Mon(out).m # "bad"
NoBodyInvented == Mon(out).n <= fed
DoneIsComplete == pc = "done" => Mon(out).m = "eof" /\ Mon(out).n = fed
Terminates     == inputEnded ~> pc = "done"

\* mode G: a schedule is complete when the stream has ended; `sched` is carried by Gen_MultipartMixed.
=============================================================================
