------------------------- MODULE Gen_MultipartMixed -------------------------
(* Mode G for C26: every behaviour of MultipartMixed up to the bounds, as a  *)
(* schedule of harness commands (feed / end / tick / poll).                  *)
EXTENDS MultipartMixed, Json
VARIABLE sched
GInit == Init /\ sched = <<>>
GNext == \/ Feed  /\ sched' = Append(sched, "feed")
         \/ End   /\ sched' = Append(sched, "end")
         \/ Tick  /\ sched' = Append(sched, "tick")
         \/ Yield /\ sched' = Append(sched, "poll")
         \/ (pc = "select" /\ avail = <<>> /\ ~timerFired /\ ~inputEnded /\ (IF sched = <<>> THEN TRUE ELSE sched[Len(sched)] # "idle")
              /\ sched' = Append(sched, "idle") /\ UNCHANGED vars)      \* a poll that must return Pending
Emit == pc = "done" => PrintT(<<"REPLAY", ToJson(sched)>>)
=============================================================================
