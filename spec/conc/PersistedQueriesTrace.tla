----------------------- MODULE PersistedQueriesTrace -----------------------
(* Mode V for C31.  Each line of IOEnv.TRACE is one history executed against *)
(* one real Schema:  [id, storage, events], an event being a request with    *)
(* its observation (ext q h v exec err sets gets) or an eviction the harness *)
(* performed on its own storage (ext = "evict", h, err = "had"|"nothad").    *)
(*                                                                           *)
(* Verdict: pure fold of the property monitor (MonStep) over the events.     *)
(* Drift:   pure fold of the implementation-shaped model (Handle) with the   *)
(*          exact registry; for the LRU storage an unexpected miss is taken  *)
(*          as an eviction (the model re-synchronises), anything else that   *)
(*          differs is drift.  Drift never decides a verdict.                *)
EXTENDS PersistedQueries, Json, IOUtils

Traces == ndJsonDeserialize(IOEnv.TRACE)
CONSTANT Chunk
VARIABLE l

ReqOf(e) == [ext |-> e.ext, q |-> e.q, h |-> e.h, v |-> e.v]     \* the payload kind pk is not needed to classify
ObsOf(e) == [exec |-> e.exec, err |-> e.err, sets |-> e.sets, gets |-> e.gets]

\* ---- verdict ------------------------------------------------------------------
\* s = [mon, at]: at = index of the first rejected event (0 = none)
VStep(s, e, k) ==
  IF s.at # 0 \/ e.ext = "evict" THEN s
  ELSE LET m == MonStep(s.mon, ReqOf(e), ObsOf(e)) IN
       IF m.bad # "" THEN [mon |-> m, at |-> k] ELSE [mon |-> m, at |-> 0]
RECURSIVE VRun(_, _, _)
VRun(s, evs, k) == IF k > Len(evs) THEN s ELSE VRun(VStep(s, evs[k], k), evs, k + 1)
VResult(tr) == VRun([mon |-> MonInit, at |-> 0], tr.events, 1)

\* ---- drift --------------------------------------------------------------------
\* d = [reg, at]
KnownHash(h) == h \in Hashes
DStep(d, e, k, lru) ==
  IF d.at # 0 THEN d
  ELSE IF e.ext = "evict" THEN
         (IF KnownHash(e.h) /\ (d.reg[e.h] # None) = (e.err = "had") THEN [d EXCEPT !.reg[e.h] = None] ELSE [d EXCEPT !.at = k])
  ELSE LET r == ReqOf(e) IN
       IF ~(KnownHash(r.h) \/ r.h = "") \/ ~(r.q \in Texts \cup {""}) THEN [d EXCEPT !.at = k]
       ELSE LET reg0 == IF lru /\ Classify(r) = "lookup" /\ e.err = "notfound" THEN [d.reg EXCEPT ![r.h] = None] ELSE d.reg
                res  == Handle(reg0, r)
            IN IF res.o = ObsOf(e) THEN [reg |-> res.reg, at |-> 0] ELSE [d EXCEPT !.at = k]
RECURSIVE DRun(_, _, _, _)
DRun(d, evs, k, lru) == IF k > Len(evs) THEN d ELSE DRun(DStep(d, evs[k], k, lru), evs, k + 1, lru)
DResult(tr) == DRun([reg |-> [h \in Hashes |-> None], at |-> 0], tr.events, 1, tr.storage # "obs")

TInit == Init /\ l \in {i \in 1..Len(Traces) : i % Chunk = 1 \/ Chunk = 1}
TNext == /\ l <= Len(Traces)
         /\ LET v == VResult(Traces[l]) IN
            PrintT(<<"VERDICT", Traces[l].id, IF v.at = 0 THEN "ok" ELSE "violation:" \o v.mon.bad, v.at,
                     DResult(Traces[l]).at>>)
         /\ l % Chunk # 0
         /\ l' = l + 1 /\ UNCHANGED vars
=============================================================================
