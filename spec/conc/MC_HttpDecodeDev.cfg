\* negative control: with a completion-order combinator the alignment invariant must fail
CONSTANT MaxBatch = 4
INIT BInit
NEXT BNextUnordered
INVARIANT Aligned
