\* drift run: the model of today's code (all named deviations on), bounds lifted
CONSTANT Protos = {"GWS", "STWS"}
CONSTANT KeepAlives = {TRUE, FALSE}
CONSTANT Ids = {"a", "b", "c"}
CONSTANT MaxEv = 1000
CONSTANT MaxIn = 1000
CONSTANT MaxQ = 1000
CONSTANT Dev = {"DevUnauth1011"}
INIT DInit
NEXT DNext
CONSTRAINT Track
POSTCONDITION DPost
