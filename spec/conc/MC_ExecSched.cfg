SPECIFICATION Spec
INVARIANT MutationSerial
INVARIANT ParentFirst
INVARIANT Emit
PROPERTY Completes
