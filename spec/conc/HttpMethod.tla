----------------------------- MODULE HttpMethod -----------------------------
(* C35 -- a request received over HTTP GET never executes a mutation.        *)
(*                                                                           *)
(* The finite request matrix of the five bundled web-framework integrations  *)
(* and the handling of one HTTP request as a small state machine             *)
(*   recv -> (select -> gate -> [exec]) per request of the body -> done      *)
(* with the property as invariants.  "GraphQL over HTTP" (GET section): "GET *)
(* requests MUST NOT be used for executing mutation operations. If the       *)
(* values of {query} and {operationName} indicate that a mutation operation  *)
(* is to be executed, the server MUST respond with error status code 405     *)
(* (Method Not Allowed) and halt execution."  Operation selection is         *)
(* GetOperation() of the GraphQL specification, section 6.1.                 *)
(*                                                                           *)
(* Modes: M  MC_HttpMethod.cfg     (ideal: Dev = {})  all invariants + term. *)
(*           MC_HttpMethodDev.cfg  (today's code: Dev = all) must violate    *)
(*                                 GetNeverMutates (the deviation is real)   *)
(*        G  INVARIANT Emit        prints every cell of the matrix once      *)
(*        V  HttpMethodTrace.tla   judges the recorded observations          *)
EXTENDS Naturals, Sequences, FiniteSets, TLC, Json

CONSTANTS Dev,        \* integrations modelled with today's deviation (no method gate); ideal: {}
          BatchLen    \* number of requests in a batched (JSON array) POST body

Methods      == {"GET", "POST"}
Integrations == {"axum", "actix-web", "poem", "warp", "rocket"}

(* ---- how a request enters an integration --------------------------------- *)
(* "service": the ready-made service (axum / actix-web / poem  GraphQL::new)  *)
(* "single" : the single-request extractor / filter in a user handler that    *)
(*            calls Executor::execute  (GraphQLRequest, warp graphql(),       *)
(*            rocket GraphQLQuery for GET and GraphQLRequest for POST)        *)
(* "batch"  : the batch extractor / filter with Executor::execute_batch       *)
(*            (GraphQLBatchRequest, warp graphql_batch())                     *)
Entries(i) == IF i \in {"axum", "actix-web", "poem"} THEN {"service", "single", "batch"}
              ELSE {"single", "batch"}
\* a JSON array body is accepted (actix-web's GraphQL handler extracts a single request)
AcceptsBatch(i, e) == e = "batch" \/ (e = "service" /\ i \in {"axum", "poem"})
\* rocket decodes GET with one type (GraphQLQuery, FromForm); it is mounted once, under "single"
AcceptsGet(i, e) == ~(i = "rocket" /\ e = "batch")

(* ---- documents ----------------------------------------------------------- *)
(* A document is a sequence of operation definitions; only the operation type *)
(* and name matter here.  The harness renders  query Q(..) { ping(..) }  and  *)
(* mutation M(..) { bump(..) }.                                               *)
Ops == { [type |-> "query",    name |-> "Q"], [type |-> "mutation", name |-> "M"],
         [type |-> "query",    name |-> ""],  [type |-> "mutation", name |-> ""] }
NoOp == [type |-> "none", name |-> ""]
\* GraphQL 5.2.1.1 operation name uniqueness, 5.2.2.1 lone anonymous operation
ValidDoc(d) == /\ Len(d) >= 1
               /\ \A i, j \in 1..Len(d) : i # j => d[i].name # d[j].name
               /\ (\E i \in 1..Len(d) : d[i].name = "") => Len(d) = 1
RECURSIVE SeqsOf(_, _)
SeqsOf(S, n) == IF n = 0 THEN {<<>>} ELSE { Append(s, x) : s \in SeqsOf(S, n - 1), x \in S }
Docs == { d \in SeqsOf(Ops, 1) \cup SeqsOf(Ops, 2) : ValidDoc(d) }

\* GraphQL 6.1 GetOperation(document, operationName); "" is the absent operationName
GetOperation(d, n) ==
  IF n = "" THEN (IF Len(d) = 1 THEN d[1] ELSE NoOp)
  ELSE IF \E i \in 1..Len(d) : d[i].name = n
       THEN d[CHOOSE i \in 1..Len(d) : d[i].name = n]
       ELSE NoOp

\* one GraphQL request: document + operationName; generated only where an operation can be selected
Items == { it \in [doc : Docs, op : {"", "Q", "M"}] : GetOperation(it.doc, it.op) # NoOp }
Selected(it) == GetOperation(it.doc, it.op)
HasMutation(d) == \E i \in 1..Len(d) : d[i].type = "mutation"

(* ---- the matrix ---------------------------------------------------------- *)
(* GET carries exactly one request in the query string (every integration     *)
(* builds BatchRequest::Single from it); POST carries a JSON object or, where *)
(* the entry accepts it, a JSON array of BatchLen requests.                   *)
(* accept = "mixed": the request asks for multipart/mixed (Accept: multipart/ *)
(* mixed; boundary="graphql"; subscriptionSpec="1.0"); the ready-made services *)
(* then extract a single request and run it through Executor::execute_stream   *)
(* instead of execute_batch -- a second path to the executor behind the same   *)
(* GET branch.  The property does not depend on it.                            *)
SingleCells == { c \in [integ : Integrations, entry : {"service", "single", "batch"}, method : Methods,
                        accept : {"json", "mixed"}, frame : {"single"}, items : SeqsOf(Items, 1)] :
                   /\ c.entry \in Entries(c.integ)
                   /\ c.method = "GET" => AcceptsGet(c.integ, c.entry)
                   /\ c.accept = "mixed" => c.entry = "service" }
BatchCells  == { c \in [integ : Integrations, entry : {"service", "batch"}, method : {"POST"},
                        accept : {"json"}, frame : {"batch"}, items : SeqsOf(Items, BatchLen)] :
                   c.entry \in Entries(c.integ) /\ AcceptsBatch(c.integ, c.entry) }
Cells == SingleCells \cup BatchCells

(* ---- the property as reference operators ---------------------------------- *)
MayExecute(method, opType) == ~(method = "GET" /\ opType = "mutation")

\* mutation resolver runs demanded / allowed for one request
ItemEffect(method, it) == IF Selected(it).type = "mutation" /\ MayExecute(method, "mutation") THEN 1 ELSE 0
ItemReads(method, it)  == IF Selected(it).type = "query" THEN 1 ELSE 0
MustError(method, it)  == ~MayExecute(method, Selected(it).type)
ExpectedEffects(c) == Cardinality({ k \in 1..Len(c.items) : ItemEffect(c.method, c.items[k]) = 1 })
ExpectedReads(c)   == Cardinality({ k \in 1..Len(c.items) : ItemReads(c.method, c.items[k]) = 1 })

\* today's code (named deviations, one per integration): no gate, a selected mutation always runs
DevName(i) == CASE i = "axum"      -> "DevGetMutationAxum"
                [] i = "actix-web" -> "DevGetMutationActix"
                [] i = "poem"      -> "DevGetMutationPoem"
                [] i = "warp"      -> "DevGetMutationWarp"
                [] i = "rocket"    -> "DevGetMutationRocket"
\* trigger: the only requests on which the deviation can show
DevTrigger(method, it) == method = "GET" /\ Selected(it).type = "mutation"
DevItemEffect(it)  == IF Selected(it).type = "mutation" THEN 1 ELSE 0
DevEffects(c)      == Cardinality({ k \in 1..Len(c.items) : DevItemEffect(c.items[k]) = 1 })

(* ---- handling of one HTTP request ----------------------------------------- *)
VARIABLES cell, pc, pending, sel, effects, reads, outcome
vars == <<cell, pc, pending, sel, effects, reads, outcome>>

Init == /\ cell \in Cells
        /\ pc = "recv" /\ pending = <<>> /\ sel = NoOp
        /\ effects = 0 /\ reads = 0 /\ outcome = <<>>

\* the extractor: query string (GET) or JSON body (POST) -> the requests to execute
Decode == /\ pc = "recv"
          /\ pending' = cell.items /\ pc' = "select"
          /\ UNCHANGED <<cell, sel, effects, reads, outcome>>

\* operation selection (prepare_request)
Select == /\ pc = "select" /\ pending # <<>>
          /\ sel' = Selected(Head(pending)) /\ pc' = "gate"
          /\ UNCHANGED <<cell, pending, effects, reads, outcome>>

\* the method gate: a mutation selected by a GET request is answered with an error, nothing runs
Reject == /\ pc = "gate" /\ ~MayExecute(cell.method, sel.type) /\ cell.integ \notin Dev
          /\ outcome' = Append(outcome, "error") /\ pending' = Tail(pending) /\ pc' = "select"
          /\ UNCHANGED <<cell, sel, effects, reads>>
Admit  == /\ pc = "gate" /\ MayExecute(cell.method, sel.type)
          /\ pc' = "exec" /\ UNCHANGED <<cell, pending, sel, effects, reads, outcome>>
\* DevGetMutation<Integration>: the GET-decoded request goes straight to the executor
DevGetMutation == /\ pc = "gate" /\ ~MayExecute(cell.method, sel.type) /\ cell.integ \in Dev
                  /\ pc' = "exec" /\ UNCHANGED <<cell, pending, sel, effects, reads, outcome>>

Execute == /\ pc = "exec"
           /\ effects' = effects + (IF sel.type = "mutation" THEN 1 ELSE 0)
           /\ reads'   = reads   + (IF sel.type = "query" THEN 1 ELSE 0)
           /\ outcome' = Append(outcome, "data") /\ pending' = Tail(pending) /\ pc' = "select"
           /\ UNCHANGED <<cell, sel>>

Respond == /\ pc = "select" /\ pending = <<>>
           /\ pc' = "done" /\ UNCHANGED <<cell, pending, sel, effects, reads, outcome>>

Next == Decode \/ Select \/ Reject \/ Admit \/ DevGetMutation \/ Execute \/ Respond
Spec == Init /\ [][Next]_vars /\ WF_vars(Next)

(* ---- invariants ------------------------------------------------------------ *)
TypeOK == /\ cell \in Cells
          /\ pc \in {"recv", "select", "gate", "exec", "done"}
          /\ effects \in 0..BatchLen /\ reads \in 0..BatchLen
          /\ Len(outcome) + Len(pending) = (IF pc = "recv" THEN 0 ELSE Len(cell.items))
\* the property, at every step of the handling: no mutation resolver runs for a GET request
GetNeverMutates == cell.method = "GET" => effects = 0
\* ... and it is answered with an error
GetMutationAnswered ==
  pc = "done" => \A k \in 1..Len(cell.items) : MustError(cell.method, cell.items[k]) => outcome[k] = "error"
\* the machine agrees with the reference operators the verdicts are computed from
DoneMatchesReference ==
  pc = "done" => /\ effects = ExpectedEffects(cell) /\ reads = ExpectedReads(cell)
                 /\ \A k \in 1..Len(cell.items) : (outcome[k] = "error") <=> MustError(cell.method, cell.items[k])
\* the gate touches nothing but GET + mutation: POST runs everything, queries run on both methods
PostUnaffected == pc = "done" /\ cell.method = "POST" =>
                    /\ effects = DevEffects(cell) /\ \A k \in 1..Len(outcome) : outcome[k] = "data"
\* statements about the matrix / reference operators themselves
CellDemands == /\ cell.method = "GET" => ExpectedEffects(cell) = 0 /\ Len(cell.items) = 1
               /\ (cell.method = "GET" /\ DevTrigger("GET", cell.items[1])) => MustError("GET", cell.items[1])
               /\ cell.method = "POST" => ExpectedEffects(cell) = DevEffects(cell)
               /\ \A k \in 1..Len(cell.items) : DevTrigger(cell.method, cell.items[k]) <=> MustError(cell.method, cell.items[k])
Terminates == <>(pc = "done")

(* ---- mode G ----------------------------------------------------------------- *)
\* every initial state is one cell of the matrix; the generator needs no steps (NEXT GNext)
Emit  == pc = "recv" => PrintT(<<"REPLAY", ToJson(cell)>>)
GNext == FALSE /\ UNCHANGED vars
=============================================================================
