----------------------------- MODULE HttpMethod -----------------------------
(* C35 -- a request received over HTTP GET never executes a mutation.        *)
(*                                                                           *)
(* The finite request matrix of the five bundled web-framework integrations  *)
(* and the handling of one HTTP request as a small state machine             *)
(*   recv -> (select -> gate -> [exec]) per request of the body -> done      *)
(* with the property as invariants.  "GraphQL over HTTP" (GET section): "GET *)
(* requests MUST NOT be used for executing mutation operations. If the       *)
(* values of {query} and {operationName} indicate that a mutation operation  *)
(* is to be executed, the server MUST respond with error status code 405     *)
(* (Method Not Allowed) and halt execution."  Operation selection is         *)
(* GetOperation() of the GraphQL specification, section 6.1.                 *)
(*                                                                           *)
(* Modes: M  MC_HttpMethod.cfg     (ideal: Dev = {})  all invariants + term. *)
(*           MC_HttpMethodDev.cfg  (today's code: Dev = all) must violate    *)
(*                                 GetNeverMutates (the deviation is real)   *)
(*        G  INVARIANT Emit        prints every cell of the matrix once      *)
(*        V  HttpMethodTrace.tla   judges the recorded observations          *)
EXTENDS Naturals, Sequences, FiniteSets, TLC, Json

CONSTANTS Dev,        \* integrations modelled with today's deviation (no method gate); ideal: {}
          BatchLen    \* number of requests in a batched (JSON array) POST body

Methods      == {"GET", "POST"}
Integrations == {"axum", "actix-web", "poem", "warp", "rocket"}

(* ---- how a request enters an integration --------------------------------- *)
(* "service": the ready-made service (axum / actix-web / poem  GraphQL::new)  *)
(* "single" : the single-request extractor / filter in a user handler that    *)
(*            calls Executor::execute  (GraphQLRequest, warp graphql(),       *)
(*            rocket GraphQLQuery for GET and GraphQLRequest for POST)        *)
(* "batch"  : the batch extractor / filter with Executor::execute_batch       *)
(*            (GraphQLBatchRequest, warp graphql_batch())                     *)
Entries(i) == IF i \in {"axum", "actix-web", "poem"} THEN {"service", "single", "batch"}
              ELSE {"single", "batch"}
\* a JSON array body is accepted (actix-web's GraphQL handler extracts a single request)
AcceptsBatch(i, e) == e = "batch" \/ (e = "service" /\ i \in {"axum", "poem"})
\* rocket decodes GET with one type (GraphQLQuery, FromForm); it is mounted once, under "single"
AcceptsGet(i, e) == ~(i = "rocket" /\ e = "batch")

(* ---- documents ----------------------------------------------------------- *)
(* A document is a sequence of operation definitions; only the operation type *)
(* and name matter here ("" = anonymous).  The harness renders                *)
(*   query Q(..) { ping(..) }   and   mutation M(..) { bump(..) }.            *)
Ops == { [type |-> "query",    name |-> "Q"], [type |-> "mutation", name |-> "M"],
         [type |-> "query",    name |-> ""],  [type |-> "mutation", name |-> ""] }
NoOp == [type |-> "none", name |-> ""]
\* GraphQL 5.2.1.1 operation name uniqueness, 5.2.2.1 lone anonymous operation
ValidDoc(d) == /\ Len(d) >= 1
               /\ \A i, j \in 1..Len(d) : i # j => d[i].name # d[j].name
               /\ (\E i \in 1..Len(d) : d[i].name = "") => Len(d) = 1
RECURSIVE SeqsOf(_, _)
SeqsOf(S, n) == IF n = 0 THEN {<<>>} ELSE { Append(s, x) : s \in SeqsOf(S, n - 1), x \in S }
Docs == { d \in SeqsOf(Ops, 1) \cup SeqsOf(Ops, 2) : ValidDoc(d) }

(* GraphQL 6.1 GetOperation(document, operationName).  The operationName of a  *)
(* request is  absent (null)  |  present but empty  |  given (a name).  Only an *)
(* absent name selects the sole operation; a present name -- the empty string   *)
(* included: no operation is *named* "", an anonymous operation has no name --  *)
(* must be the name of an operation of the document, otherwise nothing is       *)
(* selected and the request is answered with a request error.                   *)
GetOperation(d, k, n) ==
  IF k = "absent" THEN (IF Len(d) = 1 THEN d[1] ELSE NoOp)
  ELSE IF k = "given" /\ n # "" /\ \E i \in 1..Len(d) : d[i].name = n
       THEN d[CHOOSE i \in 1..Len(d) : d[i].name = n]
       ELSE NoOp

\* one GraphQL request: document + operationName in {absent, empty, Q, M, X (unknown)}
Items == { it \in [doc : Docs, opk : {"absent", "empty", "given"}, op : {"", "Q", "M", "X"}] :
             (it.opk = "given") <=> (it.op # "") }
Selected(it) == GetOperation(it.doc, it.opk, it.op)
SelItems == { it \in Items : Selected(it) # NoOp }
HasMutation(d) == \E i \in 1..Len(d) : d[i].type = "mutation"
\* the request put into the JSON body of a GET (which must be ignored): a plain mutation
Probe == [doc |-> << [type |-> "mutation", name |-> "M"] >>, opk |-> "absent", op |-> ""]

(* ---- the matrix ---------------------------------------------------------- *)
(* A cell: integ, entry, method, accept, qs, body.                            *)
(*  qs    the request carried in the query string (query, operationName,      *)
(*        variables): <<>> = no query string at all, else one request         *)
(*  body  the requests of the JSON body: <<>> none, one = a JSON object,      *)
(*        two or more = a JSON array (batch)                                  *)
(* GET: the request is the one of the query string (every integration builds  *)
(* BatchRequest::Single from it); a body sent along -- one mutation, or a     *)
(* batch of two -- is not part of a GET request and must be ignored, with and *)
(* without a query string.  POST: the request(s) of the body; batches of      *)
(* BatchLen requests where the entry accepts a JSON array.                    *)
(* accept = "mixed": the request asks for multipart/mixed (Accept: multipart/ *)
(* mixed; boundary="graphql"; subscriptionSpec="1.0"); the ready-made services *)
(* then extract a single request and run it through Executor::execute_stream   *)
(* instead of execute_batch -- a second path to the executor behind the same   *)
(* GET branch.  The property does not depend on it.                            *)
AllEntries == {"service", "single", "batch"}
GetCells  == { c \in [integ : Integrations, entry : AllEntries, method : {"GET"}, accept : {"json", "mixed"},
                      qs : SeqsOf(Items, 0) \cup SeqsOf(Items, 1),
                      body : {<<>>, <<Probe>>, <<Probe, Probe>>}] :
                 /\ c.entry \in Entries(c.integ) /\ AcceptsGet(c.integ, c.entry)
                 /\ c.accept = "mixed" => (c.entry = "service" /\ c.body = <<>> /\ c.qs # <<>>) }
PostCells == { c \in [integ : Integrations, entry : AllEntries, method : {"POST"}, accept : {"json", "mixed"},
                      qs : {<<>>}, body : SeqsOf(Items, 1) \cup SeqsOf(SelItems, BatchLen)] :
                 /\ c.entry \in Entries(c.integ)
                 /\ Len(c.body) > 1 => (AcceptsBatch(c.integ, c.entry) /\ c.accept = "json")
                 /\ c.accept = "mixed" => c.entry = "service" }
Cells == GetCells \cup PostCells

\* the requests a server has to consider: the query string for GET, the body for POST
Effective(c) == IF c.method = "GET" THEN c.qs ELSE c.body

(* ---- the property as reference operators ---------------------------------- *)
MayExecute(method, opType) == ~(method = "GET" /\ opType = "mutation")

\* mutation resolver runs demanded / allowed for one request
ItemEffect(method, it) == IF Selected(it).type = "mutation" /\ MayExecute(method, "mutation") THEN 1 ELSE 0
ItemReads(method, it)  == IF Selected(it).type = "query" THEN 1 ELSE 0
MustError(method, it)  == ~MayExecute(method, Selected(it).type)      \* the gate
NoSelection(it)        == Selected(it) = NoOp                          \* 6.1: request error
ExpectedEffects(c) == Cardinality({ k \in 1..Len(Effective(c)) : ItemEffect(c.method, Effective(c)[k]) = 1 })
ExpectedReads(c)   == Cardinality({ k \in 1..Len(Effective(c)) : ItemReads(c.method, Effective(c)[k]) = 1 })

\* today's code (named deviations, one per integration): no gate, a selected mutation always runs
DevName(i) == CASE i = "axum"      -> "DevGetMutationAxum"
                [] i = "actix-web" -> "DevGetMutationActix"
                [] i = "poem"      -> "DevGetMutationPoem"
                [] i = "warp"      -> "DevGetMutationWarp"
                [] i = "rocket"    -> "DevGetMutationRocket"
\* trigger: the only requests on which the deviation can show -- the operation selected by the
\* QUERY STRING's query/operationName is a mutation (never: nothing selected, never: the body)
DevTrigger(method, it) == method = "GET" /\ Selected(it).type = "mutation"
DevItemEffect(it)  == IF Selected(it).type = "mutation" THEN 1 ELSE 0
DevEffects(c)      == Cardinality({ k \in 1..Len(Effective(c)) : DevItemEffect(Effective(c)[k]) = 1 })

(* ---- handling of one HTTP request ----------------------------------------- *)
VARIABLES cell, pc, pending, sel, effects, reads, outcome
vars == <<cell, pc, pending, sel, effects, reads, outcome>>

Init == /\ cell \in Cells
        /\ pc = "recv" /\ pending = <<>> /\ sel = NoOp
        /\ effects = 0 /\ reads = 0 /\ outcome = <<>>

\* the extractor: query string (GET) or JSON body (POST) -> the requests to execute.
\* A GET without a query string is an empty request: an error, whatever its body says.
Decode == /\ pc = "recv"
          /\ pending' = Effective(cell) /\ pc' = "select"
          /\ outcome' = IF Effective(cell) = <<>> THEN <<"error">> ELSE <<>>
          /\ UNCHANGED <<cell, sel, effects, reads>>

\* operation selection (prepare_request)
Select == /\ pc = "select" /\ pending # <<>>
          /\ sel' = Selected(Head(pending)) /\ pc' = "gate"
          /\ UNCHANGED <<cell, pending, effects, reads, outcome>>

\* GetOperation found nothing (unknown / empty operationName, ambiguous document): request error
Unselected == /\ pc = "gate" /\ sel = NoOp
              /\ outcome' = Append(outcome, "error") /\ pending' = Tail(pending) /\ pc' = "select"
              /\ UNCHANGED <<cell, sel, effects, reads>>
\* the method gate: a mutation selected by a GET request is answered with an error, nothing runs
Reject == /\ pc = "gate" /\ sel # NoOp /\ ~MayExecute(cell.method, sel.type) /\ cell.integ \notin Dev
          /\ outcome' = Append(outcome, "error") /\ pending' = Tail(pending) /\ pc' = "select"
          /\ UNCHANGED <<cell, sel, effects, reads>>
Admit  == /\ pc = "gate" /\ sel # NoOp /\ MayExecute(cell.method, sel.type)
          /\ pc' = "exec" /\ UNCHANGED <<cell, pending, sel, effects, reads, outcome>>
\* DevGetMutation<Integration>: the GET-decoded request goes straight to the executor
DevGetMutation == /\ pc = "gate" /\ sel # NoOp /\ ~MayExecute(cell.method, sel.type) /\ cell.integ \in Dev
                  /\ pc' = "exec" /\ UNCHANGED <<cell, pending, sel, effects, reads, outcome>>

Execute == /\ pc = "exec"
           /\ effects' = effects + (IF sel.type = "mutation" THEN 1 ELSE 0)
           /\ reads'   = reads   + (IF sel.type = "query" THEN 1 ELSE 0)
           /\ outcome' = Append(outcome, "data") /\ pending' = Tail(pending) /\ pc' = "select"
           /\ UNCHANGED <<cell, sel>>

Respond == /\ pc = "select" /\ pending = <<>>
           /\ pc' = "done" /\ UNCHANGED <<cell, pending, sel, effects, reads, outcome>>

Next == Decode \/ Select \/ Unselected \/ Reject \/ Admit \/ DevGetMutation \/ Execute \/ Respond
Spec == Init /\ [][Next]_vars /\ WF_vars(Next)

(* ---- invariants ------------------------------------------------------------ *)
Answers(c) == IF Effective(c) = <<>> THEN 1 ELSE Len(Effective(c))
TypeOK == /\ cell \in Cells
          /\ pc \in {"recv", "select", "gate", "exec", "done"}
          /\ effects \in 0..BatchLen /\ reads \in 0..BatchLen
          /\ Len(outcome) + Len(pending) = (IF pc = "recv" THEN 0 ELSE Answers(cell))
\* the property, at every step of the handling: no mutation resolver runs for a GET request
GetNeverMutates == cell.method = "GET" => effects = 0
\* ... and it is answered with an error
GetMutationAnswered ==
  pc = "done" => \A k \in 1..Len(Effective(cell)) : MustError(cell.method, Effective(cell)[k]) => outcome[k] = "error"
\* the machine agrees with the reference operators the verdicts are computed from
DoneMatchesReference ==
  pc = "done" => /\ effects = ExpectedEffects(cell) /\ reads = ExpectedReads(cell)
                 /\ \A k \in 1..Len(Effective(cell)) :
                      (outcome[k] = "error") <=> (MustError(cell.method, Effective(cell)[k]) \/ NoSelection(Effective(cell)[k]))
                 /\ Effective(cell) = <<>> => outcome = <<"error">>
\* the gate touches nothing but GET + mutation: POST runs everything that is selected
PostUnaffected == pc = "done" /\ cell.method = "POST" =>
                    /\ effects = DevEffects(cell)
                    /\ \A k \in 1..Len(outcome) : (outcome[k] = "data") <=> ~NoSelection(cell.body[k])
\* statements about the matrix / reference operators themselves: a GET demands 'no effect' whatever
\* its body and operationName are; the deviation's trigger is exactly the gate's domain
CellDemands == /\ cell.method = "GET" => (ExpectedEffects(cell) = 0 /\ Len(cell.qs) <= 1)
               /\ cell.method = "POST" => ExpectedEffects(cell) = DevEffects(cell)
               /\ \A k \in 1..Len(Effective(cell)) :
                     /\ DevTrigger(cell.method, Effective(cell)[k]) <=> MustError(cell.method, Effective(cell)[k])
                     /\ NoSelection(Effective(cell)[k]) => (~DevTrigger(cell.method, Effective(cell)[k])
                                                            /\ DevItemEffect(Effective(cell)[k]) = 0)
Terminates == <>(pc = "done")

(* ---- mode G ----------------------------------------------------------------- *)
\* every initial state is one cell of the matrix; the generator needs no steps (NEXT GNext)
Emit  == pc = "recv" => PrintT(<<"REPLAY", ToJson(cell)>>)
GNext == FALSE /\ UNCHANGED vars
=============================================================================
