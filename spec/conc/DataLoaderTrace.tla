--------------------------- MODULE DataLoaderTrace ---------------------------
(* Mode V for C28.  A trace is the event log of one schedule replayed through *)
(* a real DataLoader (see harness/vh/src/bin/c28.rs for the event fields).    *)
(*  Verdict run (TInit/TNext): pure fold of the property monitor over the     *)
(*    events - it only uses what is observable: loads (keys, cache contents   *)
(*    when issued), loader calls (batch id, keys), loader returns, deliveries *)
(*    (values / error), cancellations and the final quiescent state.          *)
(*  Drift run (DInit/DNext): each trace is replayed against the actions of    *)
(*    the DataLoader model (unlogged choices, e.g. the LRU fill order, are    *)
(*    explored); a rejection is MODEL-DRIFT, not a violation.                 *)
EXTENDS DataLoader, Json, IOUtils

Traces == ndJsonDeserialize(IOEnv.TRACE)
CONSTANT Chunk
VARIABLES tid, l

Pairs(s)  == {<<s[i].k, s[i].v>> : i \in 1..Len(s)}
ResOf(e)  == [err |-> e.err, vals |-> Pairs(e.res)]
NoDupSeq(s) == Len(s) = Cardinality(Range(s))

\* ---- verdict: the property monitor ---------------------------------------------
\* m = [rq: r -> [ks, snap, at], st: r -> "waiting"|"done"|"cancelled", B: Seq of batches, largest, bad]
MInit == [rq |-> <<>>, st |-> <<>>, B |-> <<>>, largest |-> 0, bad |-> 0]
Known(m, r) == r \in DOMAIN m.st
\* a delivery: the request was waiting and the value it got is one the property admits
Deliveries(m, dels) ==
  LET ok == \A i \in 1..Len(dels) :
               /\ Known(m, dels[i].r) /\ m.st[dels[i].r] = "waiting"
               /\ \A j \in 1..Len(dels) : dels[j].r = dels[i].r => i = j
               /\ Served(m.rq[dels[i].r], ResOf(dels[i]), m.B)
      done == {dels[i].r : i \in 1..Len(dels)}
  IN [ok |-> ok, st |-> [r \in DOMAIN m.st |-> IF r \in done THEN "done" ELSE m.st[r]]]

\* a loader call: ids count up, "no batch contains a key twice", the size bound
CallOk(m, tr, e) == /\ e.b = Len(m.B) + 1 /\ e.extra_calls = 0
                    /\ NoDupSeq(e.ks)
                    /\ BoundOk(Len(e.ks), tr.conf.mb, m.largest)
WithCall(m, e) == [m EXCEPT !.B = Append(m.B, [keys |-> Range(e.ks), ret |-> "none", vals |-> {}])]

MStep(m, tr, e, k) ==
  IF m.bad # 0 THEN m
  ELSE IF e.panic THEN [m EXCEPT !.bad = k]
  ELSE
  LET m1 ==
    IF e.ev = "load" THEN
      LET rq == [ks |-> Range(e.ks), snap |-> Pairs(e.snap), at |-> Len(m.B)]
          big == IF Cardinality(rq.ks) > m.largest THEN Cardinality(rq.ks) ELSE m.largest IN
      IF Known(m, e.r) THEN [m EXCEPT !.bad = k]
      ELSE IF e.fin
           THEN IF Served(rq, ResOf(e), m.B)
                THEN [m EXCEPT !.rq = Append(m.rq, rq), !.st = Append(m.st, "done"), !.largest = big]
                ELSE [m EXCEPT !.bad = k]
           ELSE [m EXCEPT !.rq = Append(m.rq, rq), !.st = Append(m.st, "waiting"), !.largest = big]
    ELSE IF e.ev \in {"run", "fire"} THEN
      IF e.b = 0 THEN (IF e.extra_calls = 0 THEN m ELSE [m EXCEPT !.bad = k])
      ELSE IF CallOk(m, tr, e) THEN WithCall(m, e) ELSE [m EXCEPT !.bad = k]
    ELSE IF e.ev = "ret" THEN
      IF e.b \in 1..Len(m.B) /\ m.B[e.b].ret = "none" /\ e.extra_calls = 0
      THEN [m EXCEPT !.B[e.b].ret = IF e.ok THEN "ok" ELSE "err",
                     !.B[e.b].vals = IF e.ok THEN {<<x, e.b>> : x \in m.B[e.b].keys \ Range(tr.holes)} ELSE {}]
      ELSE [m EXCEPT !.bad = k]
    ELSE IF e.ev = "cancel" THEN
      IF Known(m, e.r) /\ m.st[e.r] = "waiting" THEN [m EXCEPT !.st[e.r] = "cancelled"] ELSE [m EXCEPT !.bad = k]
    ELSE IF e.ev = "end" THEN
      \* "every load completes (given that spawned tasks and timers run)": nothing is left waiting
      IF e.waiting = <<>> /\ \A r \in DOMAIN m.st : m.st[r] # "waiting" \/ \E i \in 1..Len(e.dels) : e.dels[i].r = r
      THEN m ELSE [m EXCEPT !.bad = k]
    ELSE IF e.ev \in {"arm", "skip"} THEN m
    ELSE [m EXCEPT !.bad = k]
  IN IF m1.bad # 0 THEN m1
     ELSE LET d == Deliveries(m1, e.dels) IN
          IF d.ok THEN [m1 EXCEPT !.st = d.st] ELSE [m1 EXCEPT !.bad = k]

RECURSIVE MRun(_, _, _)
MRun(m, tr, k) == IF k > Len(tr.events) THEN m ELSE MRun(MStep(m, tr, tr.events[k], k), tr, k + 1)
\* requests are numbered 1, 2, .. in the order they are issued (the monitor stores them in sequences)
Numbered(tr) == LET ld == SelectSeq(tr.events, LAMBDA e : e.ev = "load") IN \A i \in 1..Len(ld) : ld[i].r = i
EndsQuiescent(tr) == tr.events # <<>> /\ tr.events[Len(tr.events)].ev = "end"
BadAt(tr) == IF ~Numbered(tr) THEN 1 ELSE LET m == MRun(MInit, tr, 1) IN
             IF m.bad # 0 THEN m.bad ELSE IF EndsQuiescent(tr) THEN 0 ELSE Len(tr.events)
Verdict(tr) == IF BadAt(tr) = 0 THEN "ok" ELSE "violation"

TInit == Init /\ tid = 0 /\ l \in {i \in 1..Len(Traces) : i % Chunk = 1 \/ Chunk = 1}
TNext == /\ l <= Len(Traces)
         /\ PrintT(<<"VERDICT", Traces[l].id, Verdict(Traces[l]), BadAt(Traces[l])>>)
         /\ l % Chunk # 0
         /\ l' = l + 1 /\ UNCHANGED <<vars, tid>>

\* ---- drift: implementation-shaped replay, one initial state per trace ------------
Tr == Traces[tid]
Ev == Tr.events
DelSet(dels) == {[r |-> dels[i].r, res |-> ResOf(dels[i])] : i \in 1..Len(dels)}
DInit == /\ tid \in 1..Len(Traces) /\ l = 1
         /\ conf = [mb |-> Traces[tid].conf.mb, mode |-> Traces[tid].conf.mode,
                    prefed |-> Range(Traces[tid].conf.prefed), holes |-> Range(Traces[tid].holes)]
         /\ keys = {} /\ pending = <<>> /\ timers = {} /\ tasks = {} /\ inflight = {}
         /\ cache = LET c0 == [kind |-> ModeCfg(conf.mode).kind, cap |-> ModeCfg(conf.mode).cap, keys |-> Keys]
                        s  == SortedSeq(conf.prefed) IN
                    PutSeq(c0, EmptyCache(c0), s, [i \in 1..Len(s) |-> FedVal(s[i])], 1)
         /\ status = [r \in Reqs |-> "idle"] /\ ncalls = 0 /\ nextTask = 1
         /\ req = [r \in Reqs |-> NoReq] /\ largest = 0 /\ exact = TRUE /\ bounded = TRUE
DStep ==
  LET e == Ev[l] IN
  \/ /\ e.ev = "load" /\ e.dels = <<>>
     /\ Entries(Cfg, cache) = Pairs(e.snap)
     /\ LoadMany(e.r, Range(e.ks))
     /\ e.fin = (status'[e.r] = "done")
     /\ e.fin => ResOf(e) = OkRes(Split(Range(e.ks)).hits)
     /\ IF e.spawn = 0 THEN nextTask' = nextTask ELSE e.spawn = nextTask /\ nextTask' = nextTask + 1
  \/ /\ e.ev = "run" /\ e.dels = <<>>
     /\ \E t \in tasks : t.t = e.t /\ RunTask(t) /\ Range(e.ks) = t.keys
     /\ e.b = ncalls + 1
  \/ /\ e.ev = "arm" /\ e.dels = <<>> /\ e.t \in timers /\ UNCHANGED vars
  \/ /\ e.ev = "fire" /\ e.dels = <<>>
     /\ (e.b = 0) = (keys = {})
     /\ e.b # 0 => e.b = ncalls + 1 /\ Range(e.ks) = keys
     /\ TimerFire(e.t)
  \/ /\ e.ev = "ret"
     /\ \E bt \in inflight : bt.b = e.b /\ Delivered(bt, e.ok) = DelSet(e.dels) /\ LoaderReturn(bt, e.ok)
  \/ /\ e.ev = "cancel" /\ e.dels = <<>> /\ Cancel(e.r)
  \/ /\ e.ev = "skip" /\ e.dels = <<>> /\ UNCHANGED vars
  \/ /\ e.ev = "end" /\ e.dels = <<>> /\ e.waiting = <<>>
     /\ Entries(Cfg, cache) = Pairs(e.snap)
     /\ \A r \in Reqs : status[r] # "waiting"
     /\ timers = {} /\ tasks = {} /\ inflight = {} /\ keys = {}
     /\ UNCHANGED vars
DNext == l <= Len(Ev) /\ DStep /\ l' = l + 1 /\ UNCHANGED tid
\* progress register per trace (workers 1)
Track == TLCSet(tid, IF TLCGet(tid) > l THEN TLCGet(tid) ELSE l)
DPost == \A t \in 1..Len(Traces) : PrintT(<<"PROGRESS", Traces[t].id, TLCGet(t) - 1, Len(Traces[t].events)>>)
ASSUME \A t \in 1..Len(Traces) : TLCSet(t, 0)
=============================================================================
