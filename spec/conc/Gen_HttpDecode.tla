--------------------------- MODULE Gen_HttpDecode ---------------------------
(* Mode G for C23.                                                           *)
(*  (a) decode cases  (GInit/GNext, INVARIANTS Emit RoundTripLaw MalformedLaw):*)
(*      every abstract request of the bounded domain x transport x variant,   *)
(*      batches of 1..3 over a pool, and malformed wire forms; TLC checks the *)
(*      reference laws on every case it emits.                                *)
(*  (b) execution schedules (SInit/SNext, INVARIANT SEmit): every behaviour   *)
(*      of the batch machine of HttpDecode as a schedule of harness commands  *)
(*      (open gate i / poll), as complete exec cases with their wire forms.   *)
EXTENDS HttpDecode, Integers, Json

CONSTANT MaxSet      \* decode cases: requests with at most MaxSet fields present (4 = whole domain)

Atoms == {"EMPTY", "PLAIN", "QUOTE", "BSLASH", "AMP", "EQ", "PCT", "PLUS", "UNI", "NL", "CTRL", "HASH", "LOOKNULL", "QDOC"}

V1 == JObj(<<Mem("m", JInt(1))>>)
V2 == JObj(<<Mem("s", JStr("QUOTE")), Mem("t", JStr("AMP"))>>)
V3 == JObj(<<Mem("o", JObj(<<Mem("k", JStr("PCT")), Mem("l", JList(<<JStr("UNI"), JNull, JTrue, JInt(2)>>))>>))>>)
V4 == JObj(<<Mem("PLUS", JStr("EQ"))>>)
V5 == EmptyObj
V6 == JObj(<<Mem("n", JNull), Mem("b", JFalse), Mem("e", JStr("EMPTY")), Mem("z", JInt(-7))>>)
V7 == JObj(<<Mem("l", JList(<<>>)), Mem("o", EmptyObj), Mem("ll", JList(<<JList(<<JInt(1)>>), JList(<<>>)>>))>>)
V8 == JObj(<<Mem("x", JStr("NL")), Mem("y", JStr("CTRL")), Mem("w", JStr("BSLASH")), Mem("EMPTY", JStr("LOOKNULL"))>>)
VarsPool == {V1, V2, V3, V4, V5, V6, V7, V8}
E1 == JObj(<<Mem("persistedQuery", JObj(<<Mem("version", JInt(1)), Mem("sha256Hash", JStr("PLAIN"))>>))>>)
E2 == JObj(<<Mem("UNI", JList(<<JStr("QUOTE")>>))>>)
E3 == EmptyObj
E4 == JObj(<<Mem("a", JNull), Mem("HASH", JStr("PLUS"))>>)
ExtPool == {E1, E2, E3, E4}

QF == {Absent} \cup {Val(JStr(a)) : a \in Atoms}                 \* `query: null` is not generated (not judged)
OF == {Absent, Null} \cup {Val(JStr(a)) : a \in Atoms}
VF == {Absent, Null} \cup {Val(v) : v \in VarsPool}
EF == {Absent, Null} \cup {Val(e) : e \in ExtPool}
B2N(b) == IF b THEN 1 ELSE 0
NumSet(r) == B2N(Present(r.query)) + B2N(Present(r.op)) + B2N(Present(r.vars)) + B2N(Present(r.ext))
Diagonal == { AReq(Val(JStr("QDOC")), Val(JStr("PLAIN")), Val(V2), Val(E1)),
              AReq(Val(JStr("UNI")), Val(JStr("QUOTE")), Val(V3), Val(E2)),
              AReq(Val(JStr("AMP")), Val(JStr("EQ")), Val(V8), Val(E4)),
              AReq(Val(JStr("PCT")), Val(JStr("PLUS")), Val(V4), Null),
              AReq(Val(JStr("EMPTY")), Val(JStr("EMPTY")), Val(V5), Val(E3)),
              AReq(Val(JStr("NL")), Null, Null, Null) }
Requests == {r \in [query : QF, op : OF, vars : VF, ext : EF] : NumSet(r) <= MaxSet} \cup Diagonal

\* the second and third variant also carry insignificant JSON whitespace (leading, interior, trailing)
V0 == [rev |-> FALSE, extra |-> "none", ws |-> "none"]
V1r == [rev |-> TRUE, extra |-> "unknown", ws |-> "mix"]
V2s == [rev |-> FALSE, extra |-> "snake", ws |-> "lf"]
Variants == {V0, V1r, V2s}
WsKinds == {"sp", "tab", "cr", "lf", "mix"}
WsVariants == {[rev |-> FALSE, extra |-> "none", ws |-> k] : k \in WsKinds}
\* small runs (MaxSet < 3) give the "snake" variant only to requests with at most one field present (and the diagonal)
VariantsFor(r) == IF MaxSet >= 3 \/ NumSet(r) <= 1 \/ r \in Diagonal THEN Variants ELSE {V0, V1r}

BatchPool == << AReq(Val(JStr("QDOC")), Val(JStr("PLAIN")), Val(V2), Val(E1)),
                AReq(Val(JStr("AMP")), Absent, Null, Absent),
                AReq(Absent, Null, Val(V3), Val(E4)),
                AReq(Val(JStr("UNI")), Val(JStr("QUOTE")), Absent, Null),
                AReq(Absent, Absent, Absent, Absent) >>
Batches == UNION { [1..k -> 1..Len(BatchPool)] : k \in 1..3 }
WsBatches == { <<1>>, <<5>>, <<1, 2>>, <<3, 1, 4>> }

Case(enc, mal, wire) == [kind |-> "decode", enc |-> enc, mal |-> mal, wire |-> wire]

GoodCases ==
  UNION { { Case(enc, FALSE, Encode(enc, <<r>>, v)) : enc \in {"json", "get", "multipart"}, v \in VariantsFor(r) } : r \in Requests }
  \cup
  { Case(enc, FALSE, Encode(enc, [i \in DOMAIN b |-> BatchPool[b[i]]], v)) :
       enc \in {"json-batch", "multipart-batch"}, b \in Batches, v \in {V0, V1r} }
  \cup  \* each kind of whitespace on its own, around full requests and batches, in every transport
  { Case(enc, FALSE, Encode(enc, <<r>>, v)) : enc \in {"json", "get", "multipart"}, r \in Diagonal, v \in WsVariants }
  \cup
  { Case(enc, FALSE, Encode(enc, [i \in DOMAIN b |-> BatchPool[b[i]]], v)) :
       enc \in {"json-batch", "multipart-batch"}, b \in WsBatches, v \in WsVariants }

\* ---- malformed wire forms --------------------------------------------------------
Base == AReq(Val(JStr("QDOC")), Val(JStr("PLAIN")), Val(V2), Val(E1))
BaseObj == JsonReq(Base, V0)
SetMem(o, key, val) == JObj([i \in 1..Len(o.c) |-> IF o.c[i].key = key THEN Mem(key, val) ELSE o.c[i]])
WrongStr == {JInt(1), JTrue, JList(<<>>), JList(<<JStr("PLAIN")>>), EmptyObj}
WrongMap == {JStr("PLAIN"), JInt(1), JFalse, JList(<<>>), JList(<<EmptyObj>>)}
BrokenTexts == {JBroken("trunc"), JBroken("garbage"), JBroken("empty"), JBroken("trailing")}
BadObjs == {SetMem(BaseObj, "query", x) : x \in WrongStr}
           \cup {SetMem(BaseObj, "operationName", x) : x \in WrongStr}
           \cup {SetMem(BaseObj, "variables", x) : x \in WrongMap}
           \cup {SetMem(BaseObj, "extensions", x) : x \in WrongMap}
           \cup {SetMem(BaseObj, "variables", JObj(<<Mem("a", JBroken("trunc"))>>))}
BadScalars == {JNull, JInt(3), JStr("QDOC"), JTrue}
\* arrays in request position (class of DevSeqAsRequest)
SeqBodies == { JList(<<>>), JList(<<JStr("QDOC")>>), JList(<<JStr("QDOC"), JStr("PLAIN")>>),
               JList(<<JStr("QDOC"), JNull, V1, E1>>), JList(<<JStr("QDOC"), JNull, V1, E1, JInt(1)>>),
               JList(<<JStr("QDOC"), JInt(1)>>), JList(<<JInt(1)>>),
               JList(<<BaseObj, JList(<<JStr("AMP")>>)>>), JList(<<JList(<<>>)>>), JList(<<JList(<<JStr("UNI")>>), BaseObj>>) }
BadBatches == {JList(<<BaseObj, x>>) : x \in BadScalars \cup BadObjs} \cup {JList(<<x, BaseObj>>) : x \in BadScalars \cup BadObjs}
BadBodies == BrokenTexts \cup BadScalars \cup BadObjs \cup SeqBodies \cup BadBatches
BadGetVals == BrokenTexts \cup WrongMap \cup {JObj(<<Mem("a", JBroken("garbage"))>>)}
SetParam(ps, key, j) == [i \in 1..Len(ps) |-> IF ps[i].key = key THEN Param(key, "json", "", j) ELSE ps[i]]

MalformedCases ==
  { Case("json", TRUE, Wire("json", ws, j, <<>>, <<>>)) : j \in BadBodies, ws \in {"none", "mix"} }
  \cup { Case("multipart", TRUE, Wire("multipart", v.ws, JNull, <<>>, MpParts(j, v))) : j \in BadBodies, v \in {V0, [rev |-> TRUE, extra |-> "none", ws |-> "lf"]} }
  \cup { Case("get", TRUE, Wire("get", ws, JNull, SetParam(GetParams(Base), key, j), <<>>)) : key \in {"variables", "extensions"}, j \in BadGetVals, ws \in {"none", "sp"} }

AllCases == GoodCases \cup MalformedCases

VARIABLES case, sched
GInit == case \in AllCases /\ BInit /\ sched = <<>>
GNext == FALSE /\ UNCHANGED <<case, bvars, sched>>
Emit == PrintT(<<"REPLAY", ToJson(case)>>)

\* reference laws, checked on the generated domain
RoundTripLaw ==
  /\ \A r \in Requests, v \in Variants \cup WsVariants, enc \in {"json", "get", "multipart"} :
        Decode(Encode(enc, <<r>>, v)) = Ok("single", <<Denote(r)>>)
  /\ \A b \in Batches, enc \in {"json-batch", "multipart-batch"}, v \in {V0, V1r} \cup WsVariants :
        LET rs == [i \in DOMAIN b |-> BatchPool[b[i]]] IN
        Decode(Encode(enc, rs, v)) = Ok("batch", [i \in DOMAIN b |-> Denote(rs[i])])
MalformedLaw == \A c \in MalformedCases : Decode(c.wire) = Err
\* the deviations change nothing outside their trigger classes
DevLocality == \A c \in AllCases : ~DevSeqTrigger(c.wire) => DevSeqDecode(c.wire) = Decode(c.wire)
ASSUME RoundTripLaw
ASSUME MalformedLaw
ASSUME DevLocality

--------------------------------------------------------------------------------
(* (b) schedules.  sched: sequence of gate numbers to open; 0 = poll.          *)
svars == <<bvars, sched, case>>
ExecAtoms == <<"QUOTE", "UNI", "AMP", "PCT">>
ExecReq(i) == AReq(Val(JStr("QDOC")),
                   IF i = 1 THEN Val(JStr("OPQ")) ELSE IF i = 2 THEN Absent ELSE Null,
                   Val(JObj(<<Mem("m", JInt(i)), Mem("s", JStr(ExecAtoms[i]))>>)), Absent)
ExecEncs(sh) == IF sh = "single" THEN {"json", "get", "multipart"} ELSE {"json-batch", "multipart-batch"}
WithPoll(s) == IF s = <<>> THEN <<0>> ELSE IF s[Len(s)] = 0 THEN s ELSE Append(s, 0)

SInit == BInit /\ sched = <<>> /\ case = 0
SNext == /\ UNCHANGED case
         /\ \/ (\E k \in 1..MaxBatch, sh \in {"single", "batch"} : Submit(k, sh)) /\ UNCHANGED sched
            \/ \E i \in 1..MaxBatch : OpenGate(i) /\ sched' = Append(sched, i)
            \/ Internal /\ sched' = WithPoll(sched)
SEmit == phase = "returned" =>
           \A enc \in ExecEncs(shape), api \in {"schema", "executor"} :
             PrintT(<<"REPLAY", ToJson([kind |-> "exec", enc |-> enc, api |-> api, n |-> n, sched |-> sched,
                                       wire |-> Encode(enc, [i \in 1..n |-> ExecReq(i)], IF api = "executor" THEN V1r ELSE V0)])>>)
=============================================================================
