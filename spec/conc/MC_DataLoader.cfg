CONSTANT Keys = {1, 2, 3}
CONSTANT NReq = 3
CONSTANT MaxBatches = {1, 2, 3}
CONSTANT Modes = {"none", "map", "lru1", "lru2", "mapoff"}
CONSTANT Prefeds = {{}, {1}}
CONSTANT HoleSets = {{}}
CONSTANT Errs = TRUE
CONSTANT Cancels = TRUE
INIT Init
NEXT Next
INVARIANT ResultsExact
INVARIANT EveryKeyLoaded
INVARIANT NoDuplicateKeyInBatch
INVARIANT BatchBound
INVARIANT TimerCoversPending
