\* Mode M for C28 (the driver checks/C28.py writes its own variants of this file per tier).
CONSTANT Keys = {1, 2}
CONSTANT NReq = 3
CONSTANT MaxBatches = {1, 2, 3}
CONSTANT Modes = {"none", "map", "lru1", "lru2", "mapoff"}
CONSTANT Prefeds = {{}, {1}}
CONSTANT HoleSets = {{}}
CONSTANT Errs = TRUE
CONSTANT Cancels = TRUE
SPECIFICATION Spec
INVARIANT ResultsExact
INVARIANT EveryKeyLoaded
INVARIANT NoDuplicateKeyInBatch
INVARIANT BatchBound
INVARIANT TimerCoversPending
PROPERTY Completes
