CONSTANT Depths = {}
CONSTANT SelDepths = {}
CONSTANT LightDepths = {}
CONSTANT Sizes = {}
CONSTANT Cuts = {}
CONSTANT SafeDepth = 1000
CONSTANT SafeSel = 3000
CONSTANT SafeChain = 3000
CONSTANT HeavyTransports = {}
CONSTANT Wide = FALSE
CONSTANT Dev = {}
INIT TInit
NEXT TNext
