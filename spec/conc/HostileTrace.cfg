CONSTANT Depths = {}
CONSTANT LightDepths = {}
CONSTANT Sizes = {}
CONSTANT Cuts = {}
CONSTANT SafeDepth = 1000
CONSTANT SafeChain = 3000
CONSTANT HeavyTransports = {}
CONSTANT Wide = FALSE
CONSTANT Dev = {}
INIT TInit
NEXT TNext
