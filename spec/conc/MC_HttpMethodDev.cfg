CONSTANT Dev = {"axum", "actix-web", "poem", "warp", "rocket"}
CONSTANT BatchLen = 2
SPECIFICATION Spec
INVARIANT TypeOK
INVARIANT GetNeverMutates
