---------------------------- MODULE UploadTrace ----------------------------
(* Mode V for C24: the harness rendered each case to multipart bytes and    *)
(* decoded it with receive_batch_body (and receive_body for single          *)
(* operations) under the case's MultipartOptions.  Each recorded outcome    *)
(* is judged by Upload!Judge: conformance to the declarative reference      *)
(* (Causes / Optional / Bound), or a named deviation inside its trigger.    *)
EXTENDS Upload, TLC, Json, IOUtils

Rows == ndJsonDeserialize(IOEnv.TRACE)
CONSTANT Chunk
VARIABLE l

\* r.obs: sequence of [api, out]
Verdicts(r) == {Judge(r.case, r.obs[i].out, r.stream_len) : i \in 1..Len(r.obs)}
Verdict(r) ==
  LET vs == Verdicts(r) IN
  IF Len(r.obs) = 0 THEN "violation"
  ELSE IF vs = {"ok"} THEN "ok"
  ELSE IF "violation" \in vs THEN "violation"
  ELSE IF Cardinality(vs \ {"ok"}) = 1 THEN CHOOSE v \in vs \ {"ok"} : TRUE
  ELSE "violation"
\* for the evidence: what the reference demands ("error" | "either" | "ok")
Expect(r) == IF Causes(r.case) # {} THEN "error" ELSE IF Optional(r.case) # {} THEN "either" ELSE "ok"
\* drift (informational): the streaming reader model of today's code predicts the observed class
DevPredicts(r) == IF DevRejects(r.case, r.stream_len) THEN "error" ELSE "ok"

TInit == /\ l \in {i \in 1..Len(Rows) : i % Chunk = 1 \/ Chunk = 1}
         /\ UInitFor(Rows[1].case)
TNext == /\ l <= Len(Rows)
         /\ PrintT(<<"VERDICT", Rows[l].id, Verdict(Rows[l]), Expect(Rows[l]), DevPredicts(Rows[l])>>)
         /\ l % Chunk # 0
         /\ l' = l + 1 /\ UNCHANGED uvars
=============================================================================
