\* mode M, liveness: under weak fairness of poll_next and of the callbacks' resolution an open server
\* eventually reads every client message (Drains).  Small bounds; the safety clauses are in MC_WebSocket.cfg.
CONSTANT Protos = {"GWS", "STWS"}
CONSTANT KeepAlives = {TRUE}
CONSTANT Ids = {"a"}
CONSTANT MaxEv = 1
CONSTANT MaxIn = 3
CONSTANT MaxQ = 2
CONSTANT Dev = {}
SPECIFICATION Spec
PROPERTY Drains
