----------------------------- MODULE LoaderCache -----------------------------
(***************************************************************************)
(* DataLoader cache operations behave like the documented cache (C29).     *)
(*                                                                         *)
(* Sequential reference model of the cache face of                         *)
(* async_graphql::dataloader::DataLoader (src/dataloader/mod.rs,           *)
(* src/dataloader/cache.rs):                                               *)
(*   one cache per key type, created lazily; NoCache / HashMapCache /      *)
(*   LruCache(cap); a per-type switch (enable_cache::<K>) and a global     *)
(*   switch (enable_all_cache); load_many / load_one, feed_many, clear,    *)
(*   clear_one, get_cached_values.                                         *)
(*                                                                         *)
(* The property, clause by clause:                                         *)
(*   "a load returns a cached value exactly when caching is enabled and    *)
(*    the cache holds the key"                      -> LoadRef (hits)      *)
(*   "(honouring the LRU capacity and recency order)" -> Put / Touch       *)
(*   "and the loader's value otherwise"             -> LoadRef (miss, ret) *)
(*   "none of these operations panics, including on a loader that has not  *)
(*    been used yet"                                -> every operator is   *)
(*    total on InitState; the trace module rejects a panic observation.    *)
(*                                                                         *)
(* The first half (with module CacheRef) is a set of PURE operators over a *)
(* configuration record cfg = [kind, cap, keys, types, holes] so that      *)
(* the trace module (LoaderCacheTrace) can evaluate them on recorded       *)
(* histories of any configuration.  The second half is a state machine     *)
(* over them (mode M: sanity theorems of the reference; mode G with        *)
(* Gen_LoaderCache: every history up to a bound).                          *)
(***************************************************************************)
EXTENDS CacheRef, TLC

(* Global reference state: the global switch and, per key type, the cache, the per-type *)
(* switch and whether the loader has seen the type (only the deviation reads `seen`).   *)
InitState(cfg) == [allOn |-> TRUE,
                   ty |-> [t \in cfg.types |-> [c |-> EmptyCache(cfg), on |-> TRUE, seen |-> FALSE]]]

(* What a load of keys ks (a sequence, duplicates allowed) of type t does, up to the    *)
(* loader's values:  use  - caching is in force;  hits - served from the cache;         *)
(* miss - must be passed to the loader;  ret - keys the loader has a value for          *)
(* (cfg.holes are keys unknown to the loader);  c - the cache after the look-ups.       *)
LoadRef(cfg, g, t, ks) ==
  LET ts  == g.ty[t]
      use == ts.on /\ g.allOn
      lk  == IF use THEN Lookup(cfg, [c |-> ts.c, hits |-> {}, miss |-> {}], ks, 1)
                    ELSE [c |-> ts.c, hits |-> {}, miss |-> Range(ks)]
  IN [use |-> use, c |-> lk.c, hits |-> lk.hits, miss |-> lk.miss, ret |-> lk.miss \ cfg.holes]

AfterLoad(g, t, cc)   == [g EXCEPT !.ty[t] = [c |-> cc, on |-> g.ty[t].on, seen |-> TRUE]]
AfterFeed(cfg, g, t, ks, vs) == [g EXCEPT !.ty[t] = [c |-> PutSeq(cfg, g.ty[t].c, ks, vs, 1), on |-> g.ty[t].on, seen |-> TRUE]]
AfterClear(cfg, g, t) == [g EXCEPT !.ty[t] = [c |-> EmptyCache(cfg), on |-> g.ty[t].on, seen |-> TRUE]]
AfterClearOne(cfg, g, t, k) == [g EXCEPT !.ty[t] = [c |-> Remove(cfg, g.ty[t].c, k), on |-> g.ty[t].on, seen |-> TRUE]]
AfterEnable(g, t, b)  == [g EXCEPT !.ty[t] = [c |-> g.ty[t].c, on |-> b, seen |-> TRUE]]
AfterEnableAll(g, b)  == [g EXCEPT !.allOn = b]

(* Named deviation of today's code (known finding): enable_cache::<K> looks the type up   *)
(* with get_async(..).unwrap() and panics when the loader has not seen K yet; nothing is *)
(* changed.  Trigger: the type has not been seen.                                        *)
DevEnableCacheUnusedPanicsTrigger(g, t) == ~g.ty[t].seen

--------------------------------------------------------------------------------
(* State machine over the reference (mode M / G).                                 *)
CONSTANTS Keys, Types, Kind, Cap, Holes, MaxOps
Cfg == [kind |-> Kind, cap |-> Cap, keys |-> Keys, types |-> Types, holes |-> Holes]

VARIABLES g,      \* reference state
          n,      \* loader calls so far (the loader stamps every value it returns with its call number)
          steps,  \* operations so far
          src,    \* ghost: every <<type, key, value>> ever fed or returned by the loader
          last    \* ghost: the last operation and what it returned
vars == <<g, n, steps, src, last>>

LoadSeqs == UNION {[1..m -> Keys] : m \in 0..2}
FeedSeqs == UNION {[1..m -> Keys] : m \in 1..2}
FeedVal(i) == 100 + 10 * steps + i

Init == g = InitState(Cfg) /\ n = 0 /\ steps = 0 /\ src = {} /\ last = [op |-> "none"]

Load(t, ks) ==
  LET r == LoadRef(Cfg, g, t, ks)
      stamp == n + 1
      fresh == [k \in r.ret |-> stamp] IN
  /\ \E cc \in Fills(Cfg, r.c, r.ret, fresh, r.use) : g' = AfterLoad(g, t, cc)
  /\ n' = IF r.miss = {} THEN n ELSE stamp
  /\ src' = src \cup {<<t, k, stamp>> : k \in r.ret}
  /\ last' = [op |-> "load", t |-> t, ks |-> ks, use |-> r.use, hits |-> r.hits, miss |-> r.miss,
              res |-> r.hits \cup {<<k, stamp>> : k \in r.ret}, stamp |-> stamp]
Feed(t, ks) ==
  LET vs == [i \in 1..Len(ks) |-> FeedVal(i)] IN
  /\ g' = AfterFeed(Cfg, g, t, ks, vs)
  /\ src' = src \cup {<<t, ks[i], vs[i]>> : i \in 1..Len(ks)}
  /\ last' = [op |-> "feed", t |-> t, ks |-> ks, vs |-> vs] /\ UNCHANGED n
Clear(t)       == g' = AfterClear(Cfg, g, t) /\ last' = [op |-> "clear", t |-> t] /\ UNCHANGED <<n, src>>
ClearOne(t, k) == g' = AfterClearOne(Cfg, g, t, k) /\ last' = [op |-> "clear1", t |-> t, k |-> k] /\ UNCHANGED <<n, src>>
EnableCache(t, b) == g' = AfterEnable(g, t, b) /\ last' = [op |-> "enable", t |-> t, b |-> b] /\ UNCHANGED <<n, src>>
EnableAll(b)   == g' = AfterEnableAll(g, b) /\ last' = [op |-> "enableall", b |-> b] /\ UNCHANGED <<n, src>>
Peek(t)        == last' = [op |-> "peek", t |-> t, res |-> Entries(Cfg, g.ty[t].c)] /\ UNCHANGED <<g, n, src>>

Bump == steps < MaxOps /\ steps' = steps + 1
LoadOp      == Bump /\ \E t \in Types : \E ks \in LoadSeqs : Load(t, ks)
FeedOp      == Bump /\ \E t \in Types : \E ks \in FeedSeqs : Feed(t, ks)
ClearOp     == Bump /\ \E t \in Types : Clear(t)
ClearOneOp  == Bump /\ \E t \in Types : \E k \in Keys : ClearOne(t, k)
EnableOp    == Bump /\ \E t \in Types : \E b \in BOOLEAN : EnableCache(t, b)
EnableAllOp == Bump /\ \E b \in BOOLEAN : EnableAll(b)
PeekOp      == Bump /\ \E t \in Types : Peek(t)
Next == LoadOp \/ FeedOp \/ ClearOp \/ ClearOneOp \/ EnableOp \/ EnableAllOp \/ PeekOp
Spec == Init /\ [][Next]_vars

--------------------------------------------------------------------------------
(* Sanity theorems of the reference (mode M).                                     *)
NoDup(s) == \A i, j \in 1..Len(s) : i # j => s[i] # s[j]
WellFormed ==
  \A t \in Types : LET c == g.ty[t].c IN
    /\ Kind = "none" => \A k \in Keys : ~Has(c, k)
    /\ Kind = "lru"  => /\ NoDup(c.ord) /\ Range(c.ord) = {k \in Keys : Has(c, k)} /\ Len(c.ord) <= Cap
    /\ Kind # "lru"  => c.ord = <<>>
(* A cache never invents a value: whatever it holds for a key was fed for, or loaded for, that key. *)
Provenance == \A t \in Types : \A e \in Entries(Cfg, g.ty[t].c) : <<t, e[1], e[2]>> \in src
(* A load answers exactly its keys (minus those unknown to the loader), each once. *)
LoadAnswersItsKeys ==
  last.op = "load" =>
    /\ {p[1] : p \in last.res} = Range(last.ks) \ (last.miss \cap Holes)
    /\ \A p, q \in last.res : p[1] = q[1] => p = q
(* With caching off (either switch) or NoCache every value of a load is the loader's fresh value. *)
FreshWhenOff == (last.op = "load" /\ (~last.use \/ Kind = "none")) => \A p \in last.res : p[2] = last.stamp
(* A hit is a value that was put there earlier; the loader is consulted iff something missed. *)
HitsAreOld == last.op = "load" => /\ \A p \in last.hits : p[2] # last.stamp /\ <<last.t, p[1], p[2]>> \in src
                                  /\ (n = last.stamp) = (last.miss # {})
(* Read your own feed: directly after a feed, with caching on, the last fed key is held with its value. *)
FeedIsHeld == (last.op = "feed" /\ Kind # "none") =>
                 g.ty[last.t].c.val[last.ks[Len(last.ks)]] = last.vs[Len(last.vs)]
(* After clear nothing is held; after clear_one that key is not held. *)
ClearForgets == /\ last.op = "clear" => Entries(Cfg, g.ty[last.t].c) = {}
                /\ last.op = "clear1" => ~Has(g.ty[last.t].c, last.k)
(* LRU: the key used last is held (capacity >= 1) and is the most recent. *)
LastUsedIsHeld == (Kind = "lru" /\ last.op = "load" /\ last.use /\ last.res # {} ) =>
                     \E p \in last.res : g.ty[last.t].c.ord # <<>> /\ g.ty[last.t].c.ord[1] = p[1]
=============================================================================
