------------------------- MODULE ExtensionLifecycle -------------------------
(***************************************************************************)
(* Extension hooks of one request (property C30).                          *)
(* K registered extensions; hook h of extension i is entered (the hook     *)
(* function is called) and exited (it returns).  The hooks delegate to the *)
(* next extension in the chain, the innermost one to the library, so:      *)
(*   - hooks nest in registration order: enter(1,h) .. enter(K,h) <body>   *)
(*     exit(K,h) .. exit(1,h);                                             *)
(*   - life cycle: request encloses prepare_request, parse_query,          *)
(*     validation, execute -- each once, in that order, a later phase only *)
(*     if the earlier ones succeeded (a rejected request shows a prefix);  *)
(*   - resolve hooks occur only inside execute; they may interleave (the   *)
(*     executor resolves sibling fields concurrently), but per resolved    *)
(*     field / list item they nest in registration order.                  *)
(* State machine: actions Enter/Exit per (extension, hook instance).       *)
(***************************************************************************)
EXTENDS Naturals, Sequences, FiniteSets, TLC

CONSTANTS K, MaxResolves
Phases == <<"prepare_request", "parse_query", "validation", "execute">>

VARIABLES depth,     \* phase hook nesting: number of extensions that entered the current phase hook
          phase,     \* 0 = before request hook; 1..4 index into Phases being run; 5 = all done
          inPhase,   \* TRUE between enter(1,phase) and exit(1,phase)
          reqDepth,  \* extensions that entered `request`
          failed,    \* the current phase ended in an error: no later phase may start
          res,       \* resolve instances: id -> number of extensions entered (0..K), or K+1.. when exiting
          nres,      \* resolve instances started
          closed     \* request hook fully exited
vars == <<depth, phase, inPhase, reqDepth, failed, res, nres, closed>>

Init == depth = 0 /\ phase = 0 /\ inPhase = FALSE /\ reqDepth = 0 /\ failed = FALSE /\ res = <<>> /\ nres = 0 /\ closed = FALSE

EnterRequest == /\ phase = 0 /\ reqDepth < K /\ ~closed
                /\ reqDepth' = reqDepth + 1
                /\ phase' = IF reqDepth + 1 = K THEN 1 ELSE 0
                /\ UNCHANGED <<depth, inPhase, failed, res, nres, closed>>
EnterPhase == /\ phase \in 1..4 /\ ~failed /\ depth < K /\ (depth = 0 => ~inPhase) /\ (depth > 0 => inPhase)
              /\ ~(\E r \in 1..Len(res) : res[r].open)
              /\ depth' = depth + 1 /\ inPhase' = TRUE
              /\ UNCHANGED <<phase, reqDepth, failed, res, nres, closed>>
\* the innermost body ran; hooks return in reverse order; ok = FALSE models a rejected phase
ExitPhase(ok) == /\ phase \in 1..4 /\ inPhase /\ depth > 0
                 /\ (phase = 4 => \A r \in 1..Len(res) : ~res[r].open)
                 /\ (depth < K => TRUE)
                 /\ depth' = depth - 1
                 /\ inPhase' = (depth - 1 > 0)
                 /\ failed' = (failed \/ ~ok)
                 /\ phase' = IF depth - 1 = 0 THEN (IF ok /\ ~failed THEN phase + 1 ELSE 5) ELSE phase
                 /\ UNCHANGED <<reqDepth, res, nres, closed>>
\* a resolve instance (one resolved field or list item)
StartResolve == /\ phase = 4 /\ inPhase /\ depth = K /\ nres < MaxResolves
                /\ res' = Append(res, [n |-> 1, open |-> TRUE, exiting |-> FALSE])
                /\ nres' = nres + 1
                /\ UNCHANGED <<depth, phase, inPhase, reqDepth, failed, closed>>
EnterResolve(r) == /\ res[r].open /\ ~res[r].exiting /\ res[r].n < K
                   /\ res' = [res EXCEPT ![r].n = @ + 1]
                   /\ UNCHANGED <<depth, phase, inPhase, reqDepth, failed, nres, closed>>
ExitResolve(r) == /\ res[r].open /\ (res[r].n = K \/ res[r].exiting)
                  /\ res' = [res EXCEPT ![r].n = @ - 1, ![r].exiting = TRUE, ![r].open = (res[r].n - 1 > 0)]
                  /\ UNCHANGED <<depth, phase, inPhase, reqDepth, failed, nres, closed>>
ExitRequest == /\ phase = 5 /\ reqDepth > 0
               /\ reqDepth' = reqDepth - 1 /\ closed' = (reqDepth - 1 = 0)
               /\ UNCHANGED <<depth, phase, inPhase, failed, res, nres>>

Next == \/ EnterRequest \/ EnterPhase \/ ExitPhase(TRUE) \/ ExitPhase(FALSE) \/ StartResolve
        \/ (\E r \in 1..Len(res) : EnterResolve(r) \/ ExitResolve(r)) \/ ExitRequest
Spec == Init /\ [][Next]_vars

\* design-level properties of the life cycle
ResolveOnlyInExecute == (\E r \in 1..Len(res) : res[r].open) => (phase = 4 /\ inPhase /\ depth = K)
PhasesInsideRequest == (inPhase \/ depth > 0) => reqDepth = K
ClosedIsFinal == closed => (reqDepth = 0 /\ depth = 0 /\ ~inPhase /\ \A r \in 1..Len(res) : ~res[r].open)
=============================================================================
