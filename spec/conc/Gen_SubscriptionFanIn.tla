----------------------- MODULE Gen_SubscriptionFanIn -----------------------
(* Mode G for C27: environment command sequences (arrive f kind / open f) of  *)
(* SubscriptionFanIn under an eagerly polled library: the harness polls the   *)
(* response stream to quiescence after every command, so library steps        *)
(* (Begin, Finish) take priority over environment steps.                      *)
EXTENDS SubscriptionFanIn, Json
CONSTANT MaxCmds
VARIABLE sched
LibEnabled == \E f \in Fields : (cur[f] = NoEvent /\ q[f] # <<>>) \/ (cur[f] # NoEvent /\ ~cur[f].waiting)
GInit == Init /\ sched = <<>>
GNext == \/ (LibEnabled /\ (\E f \in Fields : Begin(f) \/ Finish(f)) /\ UNCHANGED sched)
         \/ (~LibEnabled /\ Len(sched) < MaxCmds /\
               \E f \in Fields :
                  \/ (\E k \in Kinds : Arrive(f, k) /\ sched' = Append(sched, <<"arrive", f, k>>))
                  \/ (Open(f) /\ sched' = Append(sched, <<"open", f, "">>)))
Quiet == ~LibEnabled /\ \A f \in Fields : cur[f] = NoEvent
Emit == (Quiet /\ sched # <<>>) => PrintT(<<"REPLAY", ToJson(sched)>>)
=============================================================================
