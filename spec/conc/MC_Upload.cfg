CONSTANT L = 3
CONSTANT PartOverhead = 1
CONSTANT MaxNames = 2
CONSTANT MaxLim = 3
CONSTANT AllOrders = TRUE
SPECIFICATION USpec
INVARIANT UTypeOK
INVARIANT StreamConforms
PROPERTY Terminates
