CONSTANT Chunk = 200
INIT TInit
NEXT TNext
