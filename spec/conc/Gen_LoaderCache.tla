--------------------------- MODULE Gen_LoaderCache ---------------------------
(* Mode G for C29: every history of exactly MaxOps cache operations over the  *)
(* model's alphabet (shorter histories are prefixes of these and are judged   *)
(* operation by operation), printed as a list of harness commands.            *)
EXTENDS LoaderCache, Json
VARIABLE h
Cmd(op, t, ks, vs, b) == [op |-> op, t |-> t, ks |-> ks, vs |-> vs, b |-> b]
GInit == Init /\ h = <<>>
GOp == \/ \E t \in Types :
            \/ \E ks \in LoadSeqs : Load(t, ks) /\ h' = Append(h, Cmd("load", t, ks, <<>>, FALSE))
            \/ \E ks \in FeedSeqs : Feed(t, ks) /\ h' = Append(h, Cmd("feed", t, ks, [i \in 1..Len(ks) |-> FeedVal(i)], FALSE))
            \/ Clear(t) /\ h' = Append(h, Cmd("clear", t, <<>>, <<>>, FALSE))
            \/ \E k \in Keys : ClearOne(t, k) /\ h' = Append(h, Cmd("clear1", t, <<k>>, <<>>, FALSE))
            \/ \E b \in BOOLEAN : EnableCache(t, b) /\ h' = Append(h, Cmd("enable", t, <<>>, <<>>, b))
            \/ Peek(t) /\ h' = Append(h, Cmd("peek", t, <<>>, <<>>, FALSE))
       \/ \E b \in BOOLEAN : EnableAll(b) /\ h' = Append(h, Cmd("enableall", "", <<>>, <<>>, b))
GNext == Bump /\ GOp
Emit == steps = MaxOps => PrintT(<<"REPLAY", ToJson(h)>>)
=============================================================================
