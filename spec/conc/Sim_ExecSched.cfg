INIT Init
NEXT Next
INVARIANT MutationSerial
INVARIANT ParentFirst
INVARIANT Emit
