------------------------------- MODULE Upload -------------------------------
(***************************************************************************)
(* GraphQL multipart request uploads (property C24).                       *)
(* (GraphQL multipart request specification: form fields `operations`      *)
(* (the request or batch, with null at every file position), `map`          *)
(* (file field name -> list of object paths into operations) and one form   *)
(* field per file.)                                                         *)
(*                                                                          *)
(* A case is  [ops, map, body, opts]:                                       *)
(*   ops  = [kind |-> "single" | "batch", reqs |-> <<variables object>>]    *)
(*   map  = [kind |-> "ok" | "broken", entries |-> <<[name, paths]>>];      *)
(*          a path is a sequence of segments, e.g. <<"variables","files",   *)
(*          "1">> or, in a batch, <<"0","variables","x">>                   *)
(*   body = the ordered list of parts  [t |-> "ops" | "map" | "file",       *)
(*          name, size]                                                     *)
(*   opts = [maxSize, maxFiles]   (0 = not configured)                      *)
(*                                                                          *)
(* Part 1: the declarative reference -- which error causes apply            *)
(*   (Causes), which causes the property text leaves open (Optional), and   *)
(*   the bound requests (Bound) : variables with a file node at exactly the *)
(*   mapped paths.                                                          *)
(* Part 2: a streaming reader as a state machine (one action per part, in   *)
(*   body order, early rejection at the limits) that mode M checks against  *)
(*   the declarative reference for every part order; the reader of today's  *)
(*   code (a byte budget maxSize*maxFiles on the whole stream) is the named *)
(*   deviation / negative control.                                          *)
(* The bounded case domain for modes M and G is in MC_Upload.tla.           *)
(***************************************************************************)
EXTENDS JsonTree, FiniteSets

JFile(name, size) == J("file", name, size, <<>>)

\* list indices are decimal segments, 0-based on the wire; position 0 = "not an index"
IdxOf(s) == CASE s = "0" -> 1 [] s = "1" -> 2 [] s = "2" -> 3 [] s = "3" -> 4 [] OTHER -> 0

RECURSIVE Exists(_, _, _)
Exists(x, p, i) ==
  IF i > Len(p) THEN TRUE
  ELSE IF x.k = "obj"  THEN (IF HasKey(x, p[i]) THEN Exists(Get(x, p[i]), p, i + 1) ELSE FALSE)
  ELSE IF x.k = "list" THEN (IF IdxOf(p[i]) \in 1..Len(x.c) THEN Exists(x.c[IdxOf(p[i])], p, i + 1) ELSE FALSE)
  ELSE FALSE
\* "the file replaces the value at the path" (multipart request spec: the map lists the object paths of the file
\* in operations; `null` is only the customary placeholder): Put replaces whatever value stands at the path --
\* null, "", 0, false, {} , [] or anything else -- and touches nothing else.
RECURSIVE Put(_, _, _, _)
Put(x, p, i, v) ==
  IF i > Len(p) THEN v
  ELSE IF x.k = "obj" THEN JObj([j \in 1..Len(x.c) |-> IF x.c[j].key = p[i] THEN Mem(p[i], Put(x.c[j].val, p, i + 1, v)) ELSE x.c[j]])
  ELSE JList([j \in 1..Len(x.c) |-> IF j = IdxOf(p[i]) THEN Put(x.c[j], p, i + 1, v) ELSE x.c[j]])

\* object-path of the map: `variables.<...>` for a single request, `<index>.variables.<...>` in a batch
PathReq(ops, p) == IF ops.kind = "single" THEN 1 ELSE IdxOf(p[1])
PathFrom(ops)   == IF ops.kind = "single" THEN 2 ELSE 3
PathOk(ops, p) ==
  IF ops.kind = "single"
  THEN Len(p) >= 2 /\ p[1] = "variables" /\ Exists(ops.reqs[1], p, 2)
  ELSE Len(p) >= 3 /\ IdxOf(p[1]) \in 1..Len(ops.reqs) /\ p[2] = "variables" /\ Exists(ops.reqs[IdxOf(p[1])], p, 3)

--------------------------------------------------------------------------------
(* Part 1: declarative reference                                              *)
HasPart(body, t)   == \E i \in 1..Len(body) : body[i].t = t
FileParts(body)    == {i \in 1..Len(body) : body[i].t = "file"}
HasFile(body, nm)  == \E i \in FileParts(body) : body[i].name = nm
FileOf(body, nm)   == body[CHOOSE i \in FileParts(body) : body[i].name = nm]
MapUsable(c)       == HasPart(c.body, "map") /\ c.map.kind = "ok"
IsMapped(c, nm)    == \E e \in 1..Len(c.map.entries) : c.map.entries[e].name = nm
MappedParts(c)     == {i \in FileParts(c.body) : IsMapped(c, c.body[i].name)}

\* causes for which the property demands rejection
Causes(c) ==
  (IF ~HasPart(c.body, "ops") THEN {"no-operations"} ELSE {}) \cup
  (IF ~HasPart(c.body, "map") THEN {"no-map"} ELSE {}) \cup
  (IF HasPart(c.body, "map") /\ c.map.kind = "broken" THEN {"bad-map"} ELSE {}) \cup
  (IF MapUsable(c) /\ \E e \in 1..Len(c.map.entries) : ~HasFile(c.body, c.map.entries[e].name) THEN {"missing-file"} ELSE {}) \cup
  (IF MapUsable(c) /\ c.opts.maxSize > 0 /\ \E i \in MappedParts(c) : c.body[i].size > c.opts.maxSize THEN {"too-large"} ELSE {}) \cup
  \* "maximum number of files": every file part received is a file of the request, whether or not the map
  \* mentions it and wherever it stands in the body (the limit bounds what the server has to buffer; the map
  \* may arrive after the files, so a reader cannot know which parts are mapped when it has to stop reading)
  (IF c.opts.maxFiles > 0 /\ Cardinality(FileParts(c.body)) > c.opts.maxFiles THEN {"too-many"} ELSE {})
\* situations the property text does not decide (rejecting and accepting are both allowed):
\* a file that no map entry mentions exceeds the size limit; a map path that does not exist in operations
Optional(c) ==
  (IF c.opts.maxSize > 0 /\ \E i \in FileParts(c.body) \ MappedParts(c) : c.body[i].size > c.opts.maxSize THEN {"unmapped-too-large"} ELSE {}) \cup
  (IF MapUsable(c) /\ HasPart(c.body, "ops") /\ \E e \in 1..Len(c.map.entries) : \E k \in 1..Len(c.map.entries[e].paths) :
        ~PathOk(c.ops, c.map.entries[e].paths[k]) THEN {"bad-path"} ELSE {})

\* the bound requests: fold over map entries and their paths (entries whose file is present, paths that exist)
RECURSIVE BindPaths(_, _, _, _, _)
BindPaths(reqs, ops, paths, k, f) ==
  IF k > Len(paths) THEN reqs
  ELSE LET p == paths[k] IN
       IF PathOk(ops, p)
       THEN BindPaths([i \in 1..Len(reqs) |-> IF i = PathReq(ops, p) THEN Put(reqs[i], p, PathFrom(ops), f) ELSE reqs[i]], ops, paths, k + 1, f)
       ELSE BindPaths(reqs, ops, paths, k + 1, f)
\* Several file parts may carry the same field name.  Every map entry needs *a* file part of its name (HasFile);
\* a second part of another name never stands in for a missing one (Causes: "missing-file" is per entry name).
\* The multipart request specification does not say which of several same-named parts an entry denotes, so a
\* binding is correct for any *pick*: a function from map entries to body positions that gives every entry
\* whose name occurs one of the parts of that name (0 = the name does not occur); all paths of an entry
\* receive the picked part.
Cands(c, e) == LET S == {i \in FileParts(c.body) : c.body[i].name = c.map.entries[e].name} IN IF S = {} THEN {0} ELSE S
Picks(c) == {f \in [1..Len(c.map.entries) -> 0..Len(c.body)] : \A e \in 1..Len(c.map.entries) : f[e] \in Cands(c, e)}
RECURSIVE BindEntries(_, _, _, _)
BindEntries(reqs, c, e, pick) ==
  IF e > Len(c.map.entries) THEN reqs
  ELSE LET en == c.map.entries[e] IN
       IF pick[e] # 0
       THEN BindEntries(BindPaths(reqs, c.ops, en.paths, 1, JFile(en.name, c.body[pick[e]].size)), c, e + 1, pick)
       ELSE BindEntries(reqs, c, e + 1, pick)
BoundWith(c, pick) == BindEntries(c.ops.reqs, c, 1, pick)
\* the binding that takes the first part of each name (what a reader that keeps the first one produces)
FirstPick(c) == [e \in 1..Len(c.map.entries) |-> LET S == Cands(c, e) IN CHOOSE i \in S : \A j \in S : i <= j]
Bound(c) == BoundWith(c, FirstPick(c))
\* number of uploads attached to request i = number of (entry, path) pairs bound into it
NumBound(c, i) ==
  Cardinality({<<e, k>> \in (1..Len(c.map.entries)) \X (1..4) :
                 /\ k <= Len(c.map.entries[e].paths) /\ HasFile(c.body, c.map.entries[e].name)
                 /\ PathOk(c.ops, c.map.entries[e].paths[k]) /\ PathReq(c.ops, c.map.entries[e].paths[k]) = i})

\* does a final status ("ok" | "error") conform to the property?
Conforms(c, st) == IF Causes(c) # {} THEN st = "error" ELSE IF Optional(c) # {} THEN TRUE ELSE st = "ok"

\* an observed outcome  [k |-> "ok" | "error" | "panic", shape, reqs |-> <<[vars, nup]>>]
ObsBound(c, out) ==
  /\ out.k = "ok" /\ out.shape = c.ops.kind /\ Len(out.reqs) = Len(c.ops.reqs)
  /\ \E pick \in Picks(c) : \A i \in 1..Len(out.reqs) : JEq(BoundWith(c, pick)[i], out.reqs[i].vars)
  /\ \A i \in 1..Len(out.reqs) : out.reqs[i].nup = NumBound(c, i)

\* Named deviations of today's reader (known_findings/C24.json):
\*  (DevNoFileCount -- the number of files was never counted -- was fixed in /repo and its switch deleted;
\*   today's reader counts every file part, mapped or not)
\*  DevStreamBudget -- when both limits are configured the *whole stream* (all parts, headers, boundaries)
\*                     is limited to maxSize * maxFiles bytes, so requests within both limits are rejected.
DevRejects(c, streamLen) ==
  \/ Causes(c) \cap {"no-operations", "no-map", "bad-map", "missing-file"} # {}
  \/ c.opts.maxSize > 0 /\ \E i \in FileParts(c.body) : c.body[i].size > c.opts.maxSize
  \/ c.opts.maxFiles > 0 /\ Cardinality(FileParts(c.body)) > c.opts.maxFiles
  \/ c.opts.maxSize > 0 /\ c.opts.maxFiles > 0 /\ streamLen > c.opts.maxSize * c.opts.maxFiles
Judge(c, out, streamLen) ==
  IF out.k = "ok" THEN
       IF ~ObsBound(c, out) THEN "violation"
       ELSE IF Conforms(c, "ok") THEN "ok"
       ELSE "violation"
  ELSE IF out.k = "error" THEN
       IF Conforms(c, "error") THEN "ok"
       ELSE IF c.opts.maxSize > 0 /\ c.opts.maxFiles > 0 /\ streamLen > c.opts.maxSize * c.opts.maxFiles THEN "known:DevStreamBudget"
       ELSE "violation"
  ELSE "violation"

--------------------------------------------------------------------------------
(* Part 2: the streaming reader                                               *)
CONSTANT PartOverhead     \* bytes of framing per part, only used by the deviation's byte budget in mode M
VARIABLES cs,       \* the case being read (constant along a behaviour)
          pos,      \* next part of cs.body
          gotOps, gotMap,
          kept,     \* file parts accepted so far (indices into body)
          bytes,    \* stream bytes consumed so far (deviation only)
          status    \* "reading" | "ok" | "error"
uvars == <<cs, pos, gotOps, gotMap, kept, bytes, status>>

UInitFor(c) == /\ cs = c /\ pos = 1 /\ gotOps = FALSE /\ gotMap = FALSE /\ kept = {} /\ bytes = 0 /\ status = "reading"
Cur == cs.body[pos]
Advance == pos' = pos + 1 /\ bytes' = bytes + Cur.size + PartOverhead /\ UNCHANGED cs

ReadOps  == /\ status = "reading" /\ pos <= Len(cs.body) /\ Cur.t = "ops"
            /\ gotOps' = TRUE /\ Advance /\ UNCHANGED <<gotMap, kept, status>>
ReadMap  == /\ status = "reading" /\ pos <= Len(cs.body) /\ Cur.t = "map"
            /\ gotMap' = TRUE /\ Advance
            /\ status' = IF cs.map.kind = "broken" THEN "error" ELSE status
            /\ UNCHANGED <<gotOps, kept>>
\* a file part: enforce the size limit on the part and the count limit on the parts seen so far
ReadFile == /\ status = "reading" /\ pos <= Len(cs.body) /\ Cur.t = "file"
            /\ Advance /\ UNCHANGED <<gotOps, gotMap>>
            /\ IF cs.opts.maxSize > 0 /\ Cur.size > cs.opts.maxSize THEN status' = "error" /\ kept' = kept
               ELSE IF cs.opts.maxFiles > 0 /\ Cardinality(kept) + 1 > cs.opts.maxFiles THEN status' = "error" /\ kept' = kept
               ELSE status' = status /\ kept' = kept \cup {pos}
\* today's reader: per-part size limit, part count, and a byte budget on the whole stream when both limits are set
ReadFileDev == /\ status = "reading" /\ pos <= Len(cs.body) /\ Cur.t = "file"
               /\ Advance /\ UNCHANGED <<gotOps, gotMap>>
               /\ kept' = kept \cup {pos}
               /\ status' = IF cs.opts.maxSize > 0 /\ Cur.size > cs.opts.maxSize THEN "error"
                            ELSE IF cs.opts.maxFiles > 0 /\ Cardinality(kept) + 1 > cs.opts.maxFiles THEN "error"
                            ELSE IF cs.opts.maxSize > 0 /\ cs.opts.maxFiles > 0 /\ bytes' > cs.opts.maxSize * cs.opts.maxFiles THEN "error"
                            ELSE status
Finish == /\ status = "reading" /\ pos > Len(cs.body)
          /\ status' = IF ~gotOps \/ ~gotMap THEN "error"
                       ELSE IF \E e \in 1..Len(cs.map.entries) : ~\E i \in kept : cs.body[i].name = cs.map.entries[e].name THEN "error"
                       ELSE "ok"
          /\ UNCHANGED <<cs, pos, gotOps, gotMap, kept, bytes>>
UNext    == ReadOps \/ ReadMap \/ ReadFile \/ Finish
UNextDev == ReadOps \/ ReadMap \/ ReadFileDev \/ Finish

\* mode M: whatever the part order, the streaming reader ends in a status the property allows
StreamConforms == status # "reading" => Conforms(cs, status)
UTypeOK == /\ pos \in 1..(Len(cs.body) + 1) /\ kept \subseteq FileParts(cs.body) /\ status \in {"reading", "ok", "error"}
Terminates == <>(status # "reading")
=============================================================================
