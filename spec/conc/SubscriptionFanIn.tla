------------------------- MODULE SubscriptionFanIn -------------------------
(***************************************************************************)
(* One subscription operation with several root fields (property C27).     *)
(* Every root field has its own source stream; the library resolves each   *)
(* event's sub-selection (a failing nullable child `bad`, then a child     *)
(* `slow` whose completion the environment controls) and yields one        *)
(* response per event; the per-field streams are merged (select_all).      *)
(*                                                                         *)
(* One action per observable step:                                         *)
(*   Arrive(f, k)  the source of field f produces an event of kind k       *)
(*   Begin(f)      the library takes the next event of f and starts        *)
(*                 resolving it: a failing `bad` child is captured now     *)
(*   Open(f)       the environment lets the `slow` child of f's current    *)
(*                 event complete                                          *)
(*   Finish(f)     the event is resolved; its response is yielded          *)
(* Dev = {"SharedErrors"} models today's static executor: captured errors  *)
(* go to one request-wide list that whichever event finishes next drains.  *)
(***************************************************************************)
EXTENDS Naturals, Sequences, FiniteSets, TLC

CONSTANTS Fields, MaxEvents, Dev
\* does the nullable child `bad` fail / does `slow` wait for its gate / does the non-null child `boom` fail
\* (a failing non-null child fails the event as a whole: its response has no data)
Kinds == {"plain", "bad", "slow", "badslow", "fatal", "badfatal"}
IsBad(k) == k \in {"bad", "badslow", "badfatal"}
IsSlow(k) == k \in {"slow", "badslow"}
IsFatal(k) == k \in {"fatal", "badfatal"}

VARIABLES q,       \* f -> sequence of arrived, not yet begun events [id, kind]
          cur,     \* f -> [id, kind, waiting] or NoEvent
          nextId,  \* f -> number of events arrived so far
          errs,    \* request-wide list of captured, not yet reported errors (only used when shared)
          own,     \* f -> errors captured for f's current event (ideal bookkeeping)
          out      \* yielded responses [f, id, errors]
vars == <<q, cur, nextId, errs, own, out>>
NoEvent == [id |-> 0, kind |-> "none", waiting |-> FALSE]
E(f, id) == [f |-> f, id |-> id, w |-> "bad"]
EF(f, id) == [f |-> f, id |-> id, w |-> "boom"]

Init == /\ q = [f \in Fields |-> <<>>] /\ cur = [f \in Fields |-> NoEvent] /\ nextId = [f \in Fields |-> 0]
        /\ errs = <<>> /\ own = [f \in Fields |-> {}] /\ out = <<>>

Arrive(f, k) == /\ nextId[f] < MaxEvents
                /\ nextId' = [nextId EXCEPT ![f] = @ + 1]
                /\ q' = [q EXCEPT ![f] = Append(@, [id |-> nextId[f] + 1, kind |-> k])]
                /\ UNCHANGED <<cur, errs, own, out>>
Begin(f) == /\ cur[f] = NoEvent /\ q[f] # <<>>
            /\ LET e == Head(q[f]) IN
               /\ cur' = [cur EXCEPT ![f] = [id |-> e.id, kind |-> e.kind, waiting |-> IsSlow(e.kind)]]
               /\ q' = [q EXCEPT ![f] = Tail(@)]
               /\ errs' = IF IsBad(e.kind) THEN Append(errs, E(f, e.id)) ELSE errs
               /\ own' = [own EXCEPT ![f] = IF IsBad(e.kind) THEN {E(f, e.id)} ELSE {}]
            /\ UNCHANGED <<nextId, out>>
Open(f) == /\ cur[f] # NoEvent /\ cur[f].waiting
           /\ cur' = [cur EXCEPT ![f].waiting = FALSE]
           /\ UNCHANGED <<q, nextId, errs, own, out>>
Finish(f) == /\ cur[f] # NoEvent /\ ~cur[f].waiting
             /\ LET captured == IF "SharedErrors" \in Dev THEN {errs[i] : i \in 1..Len(errs)} ELSE own[f]
                    reported == captured \cup (IF IsFatal(cur[f].kind) THEN {EF(f, cur[f].id)} ELSE {})
                IN out' = Append(out, [f |-> f, id |-> cur[f].id, errors |-> reported])
             /\ errs' = IF "SharedErrors" \in Dev THEN <<>> ELSE SelectSeq(errs, LAMBDA x : x \notin own[f])
             /\ cur' = [cur EXCEPT ![f] = NoEvent]
             /\ own' = [own EXCEPT ![f] = {}]
             /\ UNCHANGED <<q, nextId>>
Next == \E f \in Fields : (\E k \in Kinds : Arrive(f, k)) \/ Begin(f) \/ Open(f) \/ Finish(f)
Spec == Init /\ [][Next]_vars /\ WF_vars(Next)

\* ---- the property -----------------------------------------------------------------
\* each response holds exactly the errors raised while resolving its own event
OwnErrorsOnly == \A i \in 1..Len(out) : \A x \in out[i].errors : x.f = out[i].f /\ x.id = out[i].id
\* responses of one field come in event order, each event at most once
InOrder == \A i, j \in 1..Len(out) : (i < j /\ out[i].f = out[j].f) => out[i].id < out[j].id
\* (with the kind history one could also state "a failing event reports its error"; the trace monitor does)
=============================================================================
