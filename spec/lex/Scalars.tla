------------------------------- MODULE Scalars -------------------------------
(***************************************************************************)
(* Domains of async-graphql's built-in scalar mappings (property C07).     *)
(*                                                                         *)
(* GraphQL spec (October 2021) sections transcribed:                       *)
(*   3.5.1 Int     input coercion: only integer input values; a value      *)
(*                 outside the representable range raises an error         *)
(*                 (the range here is the range of the *Rust* type);       *)
(*   3.5.2 Float   input coercion: integer and float input values; result  *)
(*                 coercion: non-finite values raise an error;             *)
(*   3.5.3 String  only string input values;                               *)
(*   3.5.4 Boolean only boolean input values;                              *)
(*   3.5.5 ID      string and integer input values, result is a string;    *)
(*   3.9   Enums   the name of a member; at the InputType::parse level the *)
(*                 name arrives as an enum value (literal) or as a string  *)
(*                 (JSON variables have no enum kind).                     *)
(*                                                                         *)
(* GraphQL values are flat tagged records (the same fields on every value  *)
(* so that TLC can hold them in one set):                                  *)
(*   k   \in {"null","int","float","str","bool","enum","list","obj"}       *)
(*   neg, d   sign and decimal digits of an "int" (BigNat)                 *)
(*   cls, rep "float": value class and index of the representative literal *)
(*            (its text is in cp); "list"/"obj": cls is a fixed shape id   *)
(*   cp       code points (Unicode scalar values) of a "str" / "enum" name *)
(*   b        the "bool"                                                   *)
(* Rust values use the same encoding (an ID is its string, a char a string *)
(* of one scalar value, an enum its GraphQL item name); non-finite floats  *)
(* exist only on the Rust side (cls "nan", "inf", "ninf").                 *)
(*                                                                         *)
(* Not modelled: IEEE-754 bits.  Floats are classes; numeric equality of   *)
(* floats is computed by the harness (field `same`) and only asserted.     *)
(* Platform assumption: 64-bit (isize = i64, usize = u64).                 *)
(***************************************************************************)
EXTENDS BigNat, FiniteSets

Blank == [k |-> "null", neg |-> FALSE, d |-> <<>>, cls |-> "", rep |-> 0, cp |-> <<>>, b |-> FALSE]
NullV        == Blank
IntV(x)      == [Blank EXCEPT !.k = "int", !.neg = x.neg, !.d = x.d]
FloatV(c, r, lit) == [Blank EXCEPT !.k = "float", !.cls = c, !.rep = r, !.cp = lit]
StrV(s)      == [Blank EXCEPT !.k = "str", !.cp = s]
BoolV(x)     == [Blank EXCEPT !.k = "bool", !.b = x]
EnumV(s)     == [Blank EXCEPT !.k = "enum", !.cp = s]
ListV(shape) == [Blank EXCEPT !.k = "list", !.cls = shape]
ObjV(shape)  == [Blank EXCEPT !.k = "obj", !.cls = shape]
Kinds == {"null", "int", "float", "str", "bool", "enum", "list", "obj"}

-----------------------------------------------------------------------------
(* Types                                                                    *)
SignedBase   == {"i8", "i16", "i32", "i64", "isize"}
UnsignedBase == {"u8", "u16", "u32", "u64", "usize"}
BaseInts     == SignedBase \cup UnsignedBase
NzOf == [nz_i8 |-> "i8", nz_i16 |-> "i16", nz_i32 |-> "i32", nz_i64 |-> "i64", nz_isize |-> "isize",
         nz_u8 |-> "u8", nz_u16 |-> "u16", nz_u32 |-> "u32", nz_u64 |-> "u64", nz_usize |-> "usize"]
NonZeroInts == DOMAIN NzOf
IntLike     == BaseInts \cup NonZeroInts
FloatTypes  == {"f32", "f64"}
Types       == IntLike \cup FloatTypes \cup {"bool", "String", "char", "ID", "enum"}
Base(T)     == IF T \in NonZeroInts THEN NzOf[T] ELSE T

MinOf(b) == CASE b = "i8" -> I8Min [] b = "i16" -> I16Min [] b = "i32" -> I32Min
              [] b \in {"i64", "isize"} -> I64Min [] OTHER -> Zero
MaxOf(b) == CASE b = "i8" -> I8Max [] b = "i16" -> I16Max [] b = "i32" -> I32Max [] b \in {"i64", "isize"} -> I64Max
              [] b = "u8" -> U8Max [] b = "u16" -> U16Max [] b = "u32" -> U32Max [] b \in {"u64", "usize"} -> U64Max

\* the derived enum of the harness:  enum Color { Red, Green, DarkBlue }  =>  RED GREEN DARK_BLUE
EnumItems == { <<82, 69, 68>>, <<71, 82, 69, 69, 78>>, <<68, 65, 82, 75, 95, 66, 76, 85, 69>> }

\* float classes.  A GraphQL float literal is always finite.
InFloatClasses  == {"integral", "fractional", "f32max", "above_f32", "subnormal"}
NonFinite       == {"nan", "inf", "ninf"}
FitsF32(cls)    == cls \in {"integral", "fractional", "f32max", "subnormal"}   \* rounds to a finite f32

-----------------------------------------------------------------------------
(* Reference semantics                                                      *)
IntInRange(T, x) == Between(MinOf(Base(T)), x, MaxOf(Base(T))) /\ (T \in NonZeroInts => ~IsZero(x))

\* input coercion accepts v for Rust type T
Accepts(T, v) ==
  CASE T \in IntLike -> v.k = "int" /\ IntInRange(T, v)
    [] T = "f64"     -> v.k = "int" \/ (v.k = "float" /\ v.cls \in InFloatClasses)
    [] T = "f32"     -> v.k = "int" \/ (v.k = "float" /\ FitsF32(v.cls))
    [] T = "bool"    -> v.k = "bool"
    [] T = "String"  -> v.k = "str"
    [] T = "char"    -> v.k = "str" /\ Len(v.cp) = 1
    [] T = "ID"      -> v.k \in {"str", "int"}
    [] T = "enum"    -> v.k \in {"enum", "str"} /\ v.cp \in EnumItems

\* decimal text of an integer as code points
DecText(x0) == LET x == Canon(x0) IN (IF x.neg THEN <<45>> ELSE <<>>) \o [i \in 1..Len(x.d) |-> 48 + x.d[i]]

\* p (harness rendering of the Rust value that parse returned) is the value v denotes.
\* Float results carry cls \in {"finite","inf","nan"} and `same` (bit equality with an
\* independent conversion of the literal, computed by the harness) in field b.
Denoted(T, v, p) ==
  CASE T \in IntLike    -> p.k = "int" /\ Eq(p, v)
    [] T \in FloatTypes -> p.k = "float" /\ p.cls = "finite" /\ p.b
    [] T = "bool"       -> p.k = "bool" /\ p.b = v.b
    [] T \in {"String", "char"} -> p.k = "str" /\ p.cp = v.cp
    [] T = "ID"         -> p.k = "str" /\ p.cp = (IF v.k = "str" THEN v.cp ELSE DecText(v))
    [] T = "enum"       -> p.k = "enum" /\ p.cp = v.cp

\* x (abstract Rust value) is a value of Rust type T
InDomain(T, x) ==
  CASE T \in IntLike -> x.k = "int" /\ IntInRange(T, x)
    [] T = "f64"     -> x.k = "float" /\ x.cls \in InFloatClasses \cup NonFinite
    [] T = "f32"     -> x.k = "float" /\ (FitsF32(x.cls) \/ x.cls \in NonFinite)
    [] T = "bool"    -> x.k = "bool"
    [] T \in {"String", "ID"} -> x.k = "str"
    [] T = "char"    -> x.k = "str" /\ Len(x.cp) = 1
    [] T = "enum"    -> x.k = "enum" /\ x.cp \in EnumItems

\* tv (harness rendering of to_value(x)) is the GraphQL value that serialising x must produce
Serialised(T, x, tv) ==
  CASE T \in IntLike    -> tv.k = "int" /\ Eq(tv, x)
    [] T \in FloatTypes -> x.cls \notin NonFinite /\ tv.k \in {"float", "int"}   \* 3.5.2: non-finite must raise an error
    [] T = "bool"       -> tv.k = "bool" /\ tv.b = x.b
    [] T \in {"String", "char", "ID"} -> tv.k = "str" /\ tv.cp = x.cp
    [] T = "enum"       -> tv.k = "enum" /\ tv.cp = x.cp

\* y (rendering of Parse(ToValue(x))) is x again
SameRust(T, x, y) ==
  CASE T \in IntLike    -> y.k = "int" /\ Eq(y, x)
    [] T \in FloatTypes -> y.k = "float" /\ y.b            \* bit equality computed by the harness
    [] T = "bool"       -> y.k = "bool" /\ y.b = x.b
    [] T \in {"String", "char", "ID"} -> y.k = "str" /\ y.cp = x.cp
    [] T = "enum"       -> y.k = "enum" /\ y.cp = x.cp

-----------------------------------------------------------------------------
(* Observations and verdicts.  A case is                                    *)
(*   [T, dir, v, panic, acc, valid, parsed, built, tv, back_ok, back,       *)
(*    calls, errs]                                                          *)
(* dir = "in":  v offered to <T as InputType>::parse; acc = accepted,       *)
(*              parsed = rendering of the result, valid = is_valid(v).      *)
(* dir = "lit": v written as a literal argument of a field whose argument   *)
(*              has Rust type T, request run by Schema::execute; calls =    *)
(*              resolver invocations, errs = number of response errors,     *)
(*              parsed = rendering of the value the resolver received.      *)
(* dir = "var": the same with v passed as the value of a variable.          *)
(* dir = "out": v is a Rust value x; built = the harness could construct it *)
(*              in the Rust type, tv = to_value(x), back_ok/back = result   *)
(*              of parsing tv again.                                        *)
Offers  == {"in", "lit", "var"}
Reached(c) == c.calls = 1 /\ c.errs = 0          \* the resolver ran once, the response has no error
Refused(c) == c.calls = 0 /\ c.errs > 0          \* the resolver did not run, the request reports an error
ObsAccepted(c) == IF c.dir = "in" THEN c.acc ELSE Reached(c)
ObsRejected(c) == IF c.dir = "in" THEN ~c.acc ELSE Refused(c)

\* 3.9 Enums, input coercion: a string *literal* must not be accepted as an enum value
\* (a string arriving through a variable is how JSON spells an enum value).
AcceptsVia(dir, T, v) == Accepts(T, v) /\ (dir = "lit" /\ T = "enum" => v.k = "enum")

\* is_valid is the validation-phase pre-filter: it must not refuse a value that coercion accepts
OfferOk(c) == /\ ~c.panic
              /\ IF AcceptsVia(c.dir, c.T, c.v)
                   THEN ObsAccepted(c) /\ Denoted(c.T, c.v, c.parsed) /\ (c.dir = "in" => c.valid)
                   ELSE ObsRejected(c)
OutOk(c) == /\ ~c.panic
            /\ c.built = InDomain(c.T, c.v)
            /\ (c.built => Serialised(c.T, c.v, c.tv) /\ c.back_ok /\ SameRust(c.T, c.v, c.back))

(* Named deviations of today's code (known_findings/C07.json).  Each has a  *)
(* trigger (the inputs on which it can show) and reproduces exactly today's *)
(* behaviour there; anything else stays a violation.                        *)

\* Every Rust integer type registers the GraphQL scalar "Int"; the registry keeps the first
\* registration, which is i32's (Registry::add_system_types), so the validation phase tests
\* `n.is_i64()` for all of them: u64 / usize values above i64::MAX never reach the resolver.
U64Like == {"u64", "usize", "nz_u64", "nz_usize"}
TrigIntValidatorI64(c) == c.dir \in {"lit", "var"} /\ c.T \in U64Like /\ c.v.k = "int" /\ Lt(I64Max, c.v) /\ Leq(c.v, U64Max)
DevIntValidatorI64(c)  == TrigIntValidatorI64(c) /\ ~c.panic /\ Refused(c)

\* ID::parse / is_valid take integers only when serde_json holds them as i64 (`n.is_i64()`):
\* integers above i64::MAX (u64) or outside 64 bits (held as f64) are refused.
TrigIdIntRange(c) == c.dir \in Offers /\ c.T = "ID" /\ c.v.k = "int" /\ ~Between(I64Min, c.v, I64Max)
DevIdIntRange(c)  == TrigIdIntRange(c) /\ ~c.panic /\ ObsRejected(c) /\ (c.dir = "in" => ~c.valid)

\* The integer literal "-0" is turned into the float -0.0 by Number's FromStr (parser and JSON alike),
\* so integer scalars and ID refuse it.
TrigNegZeroInt(c) == c.dir \in Offers /\ c.T \in BaseInts \cup {"ID"} /\ c.v.k = "int" /\ IsNegZero(c.v)
DevNegZeroInt(c)  == TrigNegZeroInt(c) /\ ~c.panic /\ ObsRejected(c) /\ (c.dir = "in" => ~c.valid)

\* f32::parse narrows with `as`: a finite double beyond f32's range is accepted as +-infinity.
TrigF32Overflow(c) == c.dir \in Offers /\ c.T = "f32" /\ c.v.k = "float" /\ c.v.cls = "above_f32"
DevF32Overflow(c)  == /\ TrigF32Overflow(c) /\ ~c.panic /\ ObsAccepted(c) /\ (c.dir = "in" => c.valid)
                      /\ c.parsed.k = "float" /\ c.parsed.cls = "inf"

\* to_value of NaN / +-infinity is Null (to_value cannot fail), which does not parse back.
TrigNonFiniteNull(c) == c.dir = "out" /\ c.T \in FloatTypes /\ c.v.k = "float" /\ c.v.cls \in NonFinite
DevNonFiniteNull(c)  == TrigNonFiniteNull(c) /\ ~c.panic /\ c.built /\ c.tv.k = "null" /\ ~c.back_ok

\* is_valid of the unsigned NonZero types tests `n.is_i64()`: values above i64::MAX that parse
\* accepts are refused by ScalarType::is_valid.  (Latent: see DevIntValidatorI64 -- the registry
\* never consults these functions because i32 registers "Int" first.)
TrigNzUnsignedIsValid(c) == c.dir = "in" /\ c.T \in {"nz_u64", "nz_usize"} /\ c.v.k = "int" /\ Lt(I64Max, c.v) /\ Leq(c.v, U64Max)
DevNzUnsignedIsValid(c)  == TrigNzUnsignedIsValid(c) /\ ~c.panic /\ c.acc /\ Denoted(c.T, c.v, c.parsed) /\ ~c.valid

\* The validation phase (validation/utils.rs is_valid_input_value) lets a string *literal* that spells
\* a member stand for an enum value; 3.9 requires a request error.
TrigEnumStringLiteral(c) == c.dir = "lit" /\ c.T = "enum" /\ c.v.k = "str" /\ c.v.cp \in EnumItems
DevEnumStringLiteral(c)  == TrigEnumStringLiteral(c) /\ ~c.panic /\ Reached(c) /\ Denoted(c.T, c.v, c.parsed)

Verdict(c) ==
  IF c.dir \in Offers /\ OfferOk(c) THEN "ok"
  ELSE IF c.dir = "out" /\ OutOk(c) THEN "ok"
  ELSE IF DevIntValidatorI64(c) THEN "known:DevIntValidatorI64"
  ELSE IF DevIdIntRange(c) THEN "known:DevIdIntRange"
  ELSE IF DevNegZeroInt(c) THEN "known:DevNegZeroInt"
  ELSE IF DevF32Overflow(c) THEN "known:DevF32Overflow"
  ELSE IF DevNonFiniteNull(c) THEN "known:DevNonFiniteNull"
  ELSE IF DevNzUnsignedIsValid(c) THEN "known:DevNzUnsignedIsValid"
  ELSE IF DevEnumStringLiteral(c) THEN "known:DevEnumStringLiteral"
  ELSE "violation"
=============================================================================
