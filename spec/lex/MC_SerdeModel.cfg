CONSTANT Depth = 2
CONSTANT Types = {"Ints", "Uints", "Floats", "UnitS", "Wrap", "Pair", "E", "Opt2", "OptUnit", "Tup", "MapE", "MapOpt", "Keyed", "SeqE", "SeqOpt", "HasBytes", "Outer", "Un", "It", "Nest", "One", "Arr", "MapUnit", "MapOpt2", "Skip", "Flat", "Adj"}
INIT Init
NEXT Next
INVARIANT InvLaw
INVARIANT InvCanon
INVARIANT InvValue
