------------------------------- MODULE Printer -------------------------------
(***************************************************************************)
(* Property C15: a GraphQL value printed as GraphQL text denotes the same  *)
(* value, and a value converted to JSON and back is the same value with    *)
(* enum values turned into strings.                                        *)
(*                                                                         *)
(* The oracle of the printing law is this module's own reader of the       *)
(* Value sub-grammar (GraphQL spec 2.9 "Input Values": IntValue 2.9.1,     *)
(* FloatValue 2.9.2, BooleanValue 2.9.3, StringValue 2.9.4 (StringLit),    *)
(* NullValue 2.9.5, EnumValue 2.9.6, ListValue 2.9.7, ObjectValue 2.9.8,   *)
(* Variable 2.10; ignored tokens 2.1.1-2.1.7) applied to the printed code  *)
(* points: the language of acceptable literals of v is everything that     *)
(* reads back to v, not one blessed spelling.                              *)
(*                                                                         *)
(* Values are trees of uniform nodes [k, t, xs, fs]:                       *)
(*   k \in {"null","true","false","int","float","str","enum","var",        *)
(*          "list","obj"};  t = code points (the decimal text of a number, *)
(*   the characters of a string, a name); xs = list items; fs = object     *)
(*   fields [key, val] in order.                                           *)
(* TLC has neither big integers nor floats: an int is its decimal text     *)
(* (IntValue has a unique spelling per integer up to -0), a float is a     *)
(* decimal text compared as an exact decimal (digits, exponent) - see      *)
(* DecOf.  Whether the decimal nearest-rounds to the same IEEE double is   *)
(* outside TLC's reach (assumption recorded by the driver).                *)
(*                                                                         *)
(* The module is also a state machine: a pre-order builder of all values   *)
(* up to a bound plus a string grower.  Mode M checks on every built value *)
(* that the reader inverts the reference printers ("ref", "esc") and that  *)
(* the named deviation "dev" (today's write_quoted) is wrong exactly on    *)
(* its trigger set.  Mode G prints every built value as a REPLAY line.     *)
(***************************************************************************)
EXTENDS StringLit, FiniteSets, TLC, Json

MkAtom(k, t) == [k |-> k, t |-> t, xs |-> <<>>, fs |-> <<>>]
MkList(xs)   == [k |-> "list", t |-> <<>>, xs |-> xs, fs |-> <<>>]
MkObj(fs)    == [k |-> "obj", t |-> <<>>, xs |-> <<>>, fs |-> fs]
MkStr(s)     == MkAtom("str", s)

nNULL  == <<110, 117, 108, 108>>
nTRUE  == <<116, 114, 117, 101>>
nFALSE == <<102, 97, 108, 115, 101>>

--------------------------------------------------------------------------------
(* Lexical pieces.                                                            *)
IsNameStart(c) == c = 95 \/ (c >= 65 /\ c <= 90) \/ (c >= 97 /\ c <= 122)
IsNameCont(c)  == IsNameStart(c) \/ IsDigit(c)

RECURSIVE NameEnd(_, _)
NameEnd(t, i) == IF IsNameCont(At(t, i)) THEN NameEnd(t, i + 1) ELSE i
RECURSIVE DigitsEnd(_, _)
DigitsEnd(t, i) == IF IsDigit(At(t, i)) THEN DigitsEnd(t, i + 1) ELSE i

\* Ignored tokens (2.1.1-2.1.7): BOM, white space, line terminators, comments, commas.
RECURSIVE SkipComment(_, _)
SkipComment(t, i) == IF At(t, i) < 0 \/ At(t, i) = cLF \/ At(t, i) = cCR THEN i ELSE SkipComment(t, i + 1)
RECURSIVE SkipIgn(_, _)
SkipIgn(t, i) ==
  LET c == At(t, i) IN
  IF c = 9 \/ c = 10 \/ c = 13 \/ c = 32 \/ c = 44 \/ c = 65279 THEN SkipIgn(t, i + 1)
  ELSE IF c = 35 THEN SkipIgn(t, SkipComment(t, i + 1))
  ELSE i

(* IntValue / FloatValue (2.9.1, 2.9.2):                                      *)
(*   IntegerPart :: -? 0 | -? NonZeroDigit Digit*                             *)
(*   FloatValue  :: IntegerPart FractionalPart? ExponentPart? (one of the two)*)
(*   neither may be followed by a Digit, `.` or NameStart.                    *)
NumShape(t, i) ==
  LET neg == At(t, i) = 45
      s   == IF neg THEN i + 1 ELSE i
      ie  == IF At(t, s) = 48 THEN s + 1 ELSE DigitsEnd(t, s)
      hasFrac == At(t, ie) = 46
      fe  == IF hasFrac THEN DigitsEnd(t, ie + 1) ELSE ie
      hasExp == At(t, fe) = 69 \/ At(t, fe) = 101
      es  == IF ~hasExp THEN fe ELSE IF At(t, fe + 1) = 43 \/ At(t, fe + 1) = 45 THEN fe + 2 ELSE fe + 1
      ee  == IF hasExp THEN DigitsEnd(t, es) ELSE fe
      nx  == At(t, ee)
  IN [neg |-> neg, s |-> s, ie |-> ie, hasFrac |-> hasFrac, fe |-> fe, hasExp |-> hasExp,
      eneg |-> hasExp /\ At(t, fe + 1) = 45, es |-> es, ee |-> ee,
      ok |-> ie > s /\ (hasFrac => fe > ie + 1) /\ (hasExp => ee > es)
             /\ ~(IsDigit(nx) \/ nx = 46 \/ IsNameStart(nx))]

RFail(why, i) == [ok |-> FALSE, v |-> MkAtom("null", <<>>), next |-> i, err |-> why]
ROk(v, i)     == [ok |-> TRUE, v |-> v, next |-> i, err |-> ""]

ReadNumber(t, i) ==
  LET sh == NumShape(t, i) IN
  IF ~sh.ok THEN RFail("malformed number", i)
  ELSE ROk(MkAtom(IF sh.hasFrac \/ sh.hasExp THEN "float" ELSE "int", SubSeq(t, i, sh.ee - 1)), sh.ee)

\* -0 and 0 are the same integer; every other integer has one IntValue spelling.
NormInt(tx) == IF tx = <<45, 48>> THEN <<48>> ELSE tx

\* The exact decimal denoted by a number text: digits without leading/trailing zeros and the
\* power of ten of the last digit (value = d * 10^e); zero has no digits and no sign
\* (IEEE -0.0 = 0.0, and so says serde_json's Number equality).
RECURSIVE NatVal(_, _, _)
NatVal(ds, i, acc) == IF i > Len(ds) THEN acc ELSE NatVal(ds, i + 1, IF acc > 99999 THEN acc ELSE acc * 10 + (ds[i] - 48))
RECURSIVE LeadZeros(_, _)
LeadZeros(ds, i) == IF i <= Len(ds) /\ ds[i] = 48 THEN LeadZeros(ds, i + 1) ELSE i - 1
RECURSIVE TrailZeros(_, _)
TrailZeros(ds, i) == IF i >= 1 /\ ds[i] = 48 THEN TrailZeros(ds, i - 1) ELSE Len(ds) - i
DecOf(tx) ==
  LET sh == NumShape(tx, 1)
      I  == SubSeq(tx, sh.s, sh.ie - 1)
      F  == IF sh.hasFrac THEN SubSeq(tx, sh.ie + 1, sh.fe - 1) ELSE <<>>
      ev == IF sh.hasExp THEN NatVal(SubSeq(tx, sh.es, sh.ee - 1), 1, 0) ELSE 0
      e  == IF sh.eneg THEN 0 - ev ELSE ev
      D  == I \o F
      D1 == SubSeq(D, LeadZeros(D, 1) + 1, Len(D))
      tz == TrailZeros(D1, Len(D1))
      D2 == SubSeq(D1, 1, Len(D1) - tz)
  IN IF ~sh.ok \/ sh.ee # Len(tx) + 1 THEN [neg |-> FALSE, d |-> <<0 - 1>>, e |-> 0]     \* not a number text
     ELSE IF D2 = <<>> THEN [neg |-> FALSE, d |-> <<>>, e |-> 0]
     ELSE [neg |-> sh.neg, d |-> D2, e |-> e - Len(F) + tz]

--------------------------------------------------------------------------------
(* The reader: recursive descent over the Value sub-grammar.                  *)
(* `kw` = FALSE is the GraphQL reading.  `kw` = TRUE is the named deviation   *)
(* DevKeywordPrefix of today's parser (graphql.pest: `boolean`, `null` are    *)
(* tried before `enum_value` and match a mere prefix of a longer Name), kept  *)
(* here because the property's second clause re-parses with that parser.      *)
StartsWith(t, i, w) == \A j \in 1..Len(w) : At(t, i + j - 1) = w[j]

RECURSIVE ReadValue(_, _, _), ReadListItems(_, _, _, _), ReadObjFields(_, _, _, _)
ReadValue(t, i0, kw) ==
  LET i == SkipIgn(t, i0)
      c == At(t, i) IN
  IF c < 0 THEN RFail("value expected", i)
  ELSE IF c = 91 THEN ReadListItems(t, i + 1, <<>>, kw)
  ELSE IF c = 123 THEN ReadObjFields(t, i + 1, <<>>, kw)
  ELSE IF c = cQUOTE THEN
       (IF At(t, i + 1) = cQUOTE /\ At(t, i + 2) = cQUOTE THEN RFail("unsupported: block string", i)
        ELSE LET r == ReadStr(t, i + 1, <<>>) IN IF r.ok THEN ROk(MkStr(r.val), r.next) ELSE RFail(r.err, r.next))
  ELSE IF c = 36 THEN
       (LET j == SkipIgn(t, i + 1) IN
        IF IsNameStart(At(t, j)) THEN ROk(MkAtom("var", SubSeq(t, j, NameEnd(t, j) - 1)), NameEnd(t, j))
        ELSE RFail("variable name expected", j))
  ELSE IF c = 45 \/ IsDigit(c) THEN ReadNumber(t, i)
  ELSE IF IsNameStart(c) THEN
       (IF kw /\ StartsWith(t, i, nTRUE) THEN ROk(MkAtom("true", <<>>), i + 4)
        ELSE IF kw /\ StartsWith(t, i, nFALSE) THEN ROk(MkAtom("false", <<>>), i + 5)
        ELSE IF kw /\ StartsWith(t, i, nNULL) THEN ROk(MkAtom("null", <<>>), i + 4)
        ELSE LET e == NameEnd(t, i)
                 nm == SubSeq(t, i, e - 1) IN
             ROk(IF nm = nNULL THEN MkAtom("null", <<>>) ELSE IF nm = nTRUE THEN MkAtom("true", <<>>)
                 ELSE IF nm = nFALSE THEN MkAtom("false", <<>>) ELSE MkAtom("enum", nm), e))
  ELSE RFail("unexpected character", i)

ReadListItems(t, i0, acc, kw) ==
  LET i == SkipIgn(t, i0) IN
  IF At(t, i) = 93 THEN ROk(MkList(acc), i + 1)
  ELSE LET r == ReadValue(t, i, kw) IN IF ~r.ok THEN r ELSE ReadListItems(t, r.next, Append(acc, r.v), kw)

ReadObjFields(t, i0, acc, kw) ==
  LET i == SkipIgn(t, i0) IN
  IF At(t, i) = 125 THEN ROk(MkObj(acc), i + 1)
  ELSE IF ~IsNameStart(At(t, i)) THEN RFail("field name expected", i)
  ELSE LET e == NameEnd(t, i)
           j == SkipIgn(t, e) IN
       IF At(t, j) # 58 THEN RFail("colon expected", j)
       ELSE LET r == ReadValue(t, j + 1, kw) IN
            IF ~r.ok THEN r ELSE ReadObjFields(t, r.next, Append(acc, [key |-> SubSeq(t, i, e - 1), val |-> r.v]), kw)

\* A complete text: one value surrounded by ignored tokens.
ReadTopM(t, kw) ==
  LET r == ReadValue(t, 1, kw) IN
  IF ~r.ok THEN r ELSE IF SkipIgn(t, r.next) = Len(t) + 1 THEN r ELSE RFail("trailing text", r.next)
ReadTop(t)   == ReadTopM(t, FALSE)
ReadTopKw(t) == ReadTopM(t, TRUE)

--------------------------------------------------------------------------------
(* Equality of values as the property means it: numbers by denotation (an     *)
(* IntValue and a FloatValue are different kinds, as in serde_json::Number),  *)
(* lists in order, objects as maps (input objects are unordered, and so is    *)
(* ConstValue's ==).  `a` is the source (unique keys), `b` the observed.      *)
RECURSIVE Eq(_, _)
Eq(a, b) ==
  IF a.k # b.k THEN FALSE
  ELSE CASE a.k \in {"null", "true", "false"} -> TRUE
         [] a.k = "int" -> NormInt(a.t) = NormInt(b.t)
         [] a.k = "float" -> DecOf(a.t) = DecOf(b.t)
         [] a.k \in {"str", "enum", "var"} -> a.t = b.t
         [] a.k = "list" -> Len(a.xs) = Len(b.xs) /\ \A i \in 1..Len(a.xs) : Eq(a.xs[i], b.xs[i])
         [] a.k = "obj" -> Len(a.fs) = Len(b.fs)
                           /\ \A i \in 1..Len(a.fs) : \E j \in 1..Len(b.fs) :
                                 a.fs[i].key = b.fs[j].key /\ Eq(a.fs[i].val, b.fs[j].val)
         [] OTHER -> FALSE

\* Same, but a float only has to stay a float of the same sign class (used to tell "only the
\* digits of a float differ" apart from every other difference).
RECURSIVE EqModFloatDigits(_, _)
EqModFloatDigits(a, b) ==
  IF a.k # b.k THEN FALSE
  ELSE CASE a.k = "float" -> (DecOf(a.t).d = <<>>) = (DecOf(b.t).d = <<>>) /\ DecOf(a.t).neg = DecOf(b.t).neg
                             /\ DecOf(b.t).d # <<0 - 1>>
         [] a.k = "list" -> Len(a.xs) = Len(b.xs) /\ \A i \in 1..Len(a.xs) : EqModFloatDigits(a.xs[i], b.xs[i])
         [] a.k = "obj" -> Len(a.fs) = Len(b.fs)
                           /\ \A i \in 1..Len(a.fs) : \E j \in 1..Len(b.fs) :
                                 a.fs[i].key = b.fs[j].key /\ EqModFloatDigits(a.fs[i].val, b.fs[j].val)
         [] OTHER -> Eq(a, b)

\* Deviation DevFloatParseUlp: today's number parsing (serde_json without `float_roundtrip`) may
\* return a neighbouring double.  TLC has no doubles; "neighbouring" is rendered on exact decimals:
\* same sign, and the two decimals, aligned and cut to 17 significant digits, differ by at most 50
\* units of the 17th digit (1 ulp is at most 22 such units, and each shortest decimal is within
\* one ulp of its double).  Zero is only close to zero.
Mag(d) == d.e + Len(d.d)                                  \* power of ten above the first digit
DigitAt(d, p) == LET idx == d.e + Len(d.d) - p IN IF idx >= 1 /\ idx <= Len(d.d) THEN d.d[idx] - 48 ELSE 0
RECURSIVE NumOf(_, _, _, _)
NumOf(d, p, cnt, acc) == IF cnt = 0 THEN acc ELSE NumOf(d, p - 1, cnt - 1, acc * 10 + DigitAt(d, p))
Near(a, b) ==
  IF a.d = <<>> \/ b.d = <<>> THEN a = b
  ELSE IF a.neg # b.neg \/ a.d = <<0 - 1>> \/ b.d = <<0 - 1>> THEN FALSE
  ELSE LET m  == IF Mag(a) > Mag(b) THEN Mag(a) ELSE Mag(b)
           dh == NumOf(a, m - 1, 8, 0) - NumOf(b, m - 1, 8, 0)
           dl == NumOf(a, m - 9, 9, 0) - NumOf(b, m - 9, 9, 0)
           df == dh * 1000000000 + dl
       IN IF dh > 1 \/ dh < 0 - 1 THEN FALSE ELSE df <= 50 /\ df >= 0 - 50

RECURSIVE EqUlp(_, _)
EqUlp(a, b) ==
  IF a.k # b.k THEN FALSE
  ELSE CASE a.k = "float" -> Near(DecOf(a.t), DecOf(b.t))
         [] a.k = "list" -> Len(a.xs) = Len(b.xs) /\ \A i \in 1..Len(a.xs) : EqUlp(a.xs[i], b.xs[i])
         [] a.k = "obj" -> Len(a.fs) = Len(b.fs)
                           /\ \A i \in 1..Len(a.fs) : \E j \in 1..Len(b.fs) :
                                 a.fs[i].key = b.fs[j].key /\ EqUlp(a.fs[i].val, b.fs[j].val)
         [] OTHER -> Eq(a, b)

\* The JSON image: enum values become strings (JSON has no enums); everything else is itself.
RECURSIVE JsonImage(_)
JsonImage(v) ==
  CASE v.k = "enum" -> MkStr(v.t)
    [] v.k = "list" -> MkList([i \in 1..Len(v.xs) |-> JsonImage(v.xs[i])])
    [] v.k = "obj"  -> MkObj([i \in 1..Len(v.fs) |-> [key |-> v.fs[i].key, val |-> JsonImage(v.fs[i].val)]])
    [] OTHER -> v

RECURSIVE HasKind(_, _)
HasKind(v, k) == v.k = k \/ (\E i \in 1..Len(v.xs) : HasKind(v.xs[i], k)) \/ (\E i \in 1..Len(v.fs) : HasKind(v.fs[i].val, k))

--------------------------------------------------------------------------------
(* Printers.  "ref" and "esc" are two members of the language of acceptable   *)
(* literals (used in mode M to validate the reader); "dev" reproduces today's *)
(* Display implementation including its defect.                               *)
Sep(st) == IF st = "esc" THEN <<32, 35, 120, 34, 10, 65279, 9>> ELSE <<44, 32>>      \* esc: ` #x"<LF><BOM><TAB>`
RECURSIVE PrintV(_, _), PrintList(_, _, _), PrintFields(_, _, _)
PrintV(v, st) ==
  CASE v.k = "null" -> nNULL [] v.k = "true" -> nTRUE [] v.k = "false" -> nFALSE
    [] v.k \in {"int", "float", "enum"} -> v.t
    [] v.k = "str" -> PrintStr(v.t, st)
    [] v.k = "var" -> <<36>> \o v.t
    [] v.k = "list" -> <<91>> \o PrintList(v.xs, 1, st) \o <<93>>
    [] v.k = "obj" -> <<123>> \o PrintFields(v.fs, 1, st) \o <<125>>
PrintList(xs, i, st) ==
  IF i > Len(xs) THEN <<>> ELSE (IF i > 1 THEN Sep(st) ELSE <<>>) \o PrintV(xs[i], st) \o PrintList(xs, i + 1, st)
PrintFields(fs, i, st) ==
  IF i > Len(fs) THEN <<>>
  ELSE (IF i > 1 THEN Sep(st) ELSE <<>>) \o fs[i].key \o (IF st = "esc" THEN <<58>> ELSE <<58, 32>>)
       \o PrintV(fs[i].val, st) \o PrintFields(fs, i + 1, st)

\* Trigger of the deviation DevDecimalEscape: the value contains a string with a control
\* character other than U+0000..U+0009, LF, CR.
RECURSIVE HasTrigger(_)
HasTrigger(v) ==
  CASE v.k = "str" -> DevTriggerStr(v.t)
    [] v.k = "list" -> \E i \in 1..Len(v.xs) : HasTrigger(v.xs[i])
    [] v.k = "obj" -> \E i \in 1..Len(v.fs) : HasTrigger(v.fs[i].val)
    [] OTHER -> FALSE


\* Trigger of the deviation DevKeywordPrefix: an enum value whose name begins with true, false or null.
IsKwPrefixed(nm) == StartsWith(nm, 1, nTRUE) \/ StartsWith(nm, 1, nFALSE) \/ StartsWith(nm, 1, nNULL)
RECURSIVE HasKwEnum(_)
HasKwEnum(v) ==
  CASE v.k = "enum" -> IsKwPrefixed(v.t)
    [] v.k = "list" -> \E i \in 1..Len(v.xs) : HasKwEnum(v.xs[i])
    [] v.k = "obj" -> \E i \in 1..Len(v.fs) : HasKwEnum(v.fs[i].val)
    [] OTHER -> FALSE

--------------------------------------------------------------------------------
(* Atoms of the generator.                                                    *)
Digs(ds) == [i \in 1..Len(ds) |-> 48 + ds[i]]
IntAtom(neg, ds) == MkAtom("int", (IF neg THEN <<45>> ELSE <<>>) \o Digs(ds))
\* a float in its shortest round-trip decimal spelling: I.F or I.FeX / IeX (F may be empty only with an exponent)
FloatAtom(neg, I, F, hasExp, eneg, E) ==
  MkAtom("float", (IF neg THEN <<45>> ELSE <<>>) \o Digs(I) \o (IF F = <<>> THEN <<>> ELSE <<46>> \o Digs(F))
                  \o (IF hasExp THEN <<101>> \o (IF eneg THEN <<45>> ELSE <<>>) \o Digs(E) ELSE <<>>))

IntAtoms == <<
  IntAtom(FALSE, <<0>>), IntAtom(FALSE, <<1>>), IntAtom(TRUE, <<1>>), IntAtom(FALSE, <<1, 0>>),
  IntAtom(FALSE, <<2,1,4,7,4,8,3,6,4,7>>), IntAtom(FALSE, <<2,1,4,7,4,8,3,6,4,8>>),
  IntAtom(TRUE, <<2,1,4,7,4,8,3,6,4,8>>), IntAtom(TRUE, <<2,1,4,7,4,8,3,6,4,9>>),
  IntAtom(FALSE, <<9,0,0,7,1,9,9,2,5,4,7,4,0,9,9,3>>),
  IntAtom(FALSE, <<9,2,2,3,3,7,2,0,3,6,8,5,4,7,7,5,8,0,7>>), IntAtom(FALSE, <<9,2,2,3,3,7,2,0,3,6,8,5,4,7,7,5,8,0,8>>),
  IntAtom(TRUE, <<9,2,2,3,3,7,2,0,3,6,8,5,4,7,7,5,8,0,8>>), IntAtom(FALSE, <<1,8,4,4,6,7,4,4,0,7,3,7,0,9,5,5,1,6,1,5>>) >>

FloatAtoms == <<
  FloatAtom(FALSE, <<0>>, <<0>>, FALSE, FALSE, <<>>),                      \* 0.0
  FloatAtom(TRUE, <<0>>, <<0>>, FALSE, FALSE, <<>>),                       \* -0.0
  FloatAtom(FALSE, <<1>>, <<0>>, FALSE, FALSE, <<>>),                      \* 1.0  (integral: must stay a float)
  FloatAtom(TRUE, <<1>>, <<5>>, FALSE, FALSE, <<>>),                       \* -1.5
  FloatAtom(FALSE, <<0>>, <<1>>, FALSE, FALSE, <<>>),                      \* 0.1
  FloatAtom(FALSE, <<0>>, <<3,0,0,0,0,0,0,0,0,0,0,0,0,0,0,0,4>>, FALSE, FALSE, <<>>),   \* 0.30000000000000004
  FloatAtom(FALSE, <<1,2,3,4,5,6,7,8,9>>, <<1,2,5>>, FALSE, FALSE, <<>>),  \* 123456789.125
  FloatAtom(FALSE, <<1,0,0,0,0,0>>, <<0>>, FALSE, FALSE, <<>>),            \* 100000.0
  FloatAtom(FALSE, <<9,0,0,7,1,9,9,2,5,4,7,4,0,9,9,2>>, <<0>>, FALSE, FALSE, <<>>),     \* 2^53
  FloatAtom(FALSE, <<1>>, <<>>, TRUE, FALSE, <<1,6>>),                     \* 1e16
  FloatAtom(FALSE, <<1>>, <<>>, TRUE, FALSE, <<2,1>>),                     \* 1e21
  FloatAtom(FALSE, <<1>>, <<>>, TRUE, FALSE, <<3,0,0>>),                   \* 1e300
  FloatAtom(TRUE, <<1>>, <<>>, TRUE, TRUE, <<7>>),                         \* -1e-7
  FloatAtom(FALSE, <<5>>, <<>>, TRUE, TRUE, <<3,2,4>>),                    \* 5e-324 (smallest subnormal)
  FloatAtom(FALSE, <<2>>, <<2,2,5,0,7,3,8,5,8,5,0,7,2,0,1,4>>, TRUE, TRUE, <<3,0,8>>),  \* f64::MIN_POSITIVE
  FloatAtom(FALSE, <<1>>, <<7,9,7,6,9,3,1,3,4,8,6,2,3,1,5,7>>, TRUE, FALSE, <<3,0,8>>)  \* f64::MAX
  >>

EnumAtoms == << MkAtom("enum", <<65>>), MkAtom("enum", <<82, 69, 68, 95, 49>>), MkAtom("enum", <<95, 120>>),
                MkAtom("enum", <<110, 117, 108, 108, 120>>), MkAtom("enum", <<116, 114, 117, 101, 95>>),
                MkAtom("enum", <<78, 97, 78>>), MkAtom("enum", <<101, 49>>) >>     \* A RED_1 _x nullx true_ NaN e1
VarAtoms  == << MkAtom("var", <<118>>), MkAtom("var", <<95, 118, 49>>) >>          \* $v $_v1
StrAtoms  == << MkStr(<<>>), MkStr(<<97>>), MkStr(<<34>>), MkStr(<<92>>), MkStr(<<10>>), MkStr(<<27>>),
                MkStr(<<233, 128512>>), MkStr(<<92, 117, 48, 48, 52, 49>>) >>      \* "" a " \ LF ESC e-acute+emoji  the six characters A
ConstAtoms == << MkAtom("null", <<>>), MkAtom("true", <<>>), MkAtom("false", <<>>) >>

AtomsFull  == ConstAtoms \o IntAtoms \o FloatAtoms \o EnumAtoms \o VarAtoms \o StrAtoms
AtomsSmall == << MkAtom("null", <<>>), MkAtom("true", <<>>), IntAtoms[3], FloatAtoms[4], EnumAtoms[2],
                 VarAtoms[1], StrAtoms[2], StrAtoms[6] >>

\* field names by position (any Name is a legal field name, also `null`)
Keys == << <<97>>, <<110, 117, 108, 108>>, <<95, 98, 49>>, <<90, 122>> >>          \* a null _b1 Zz

--------------------------------------------------------------------------------
(* The generator state machine.                                               *)
CONSTANTS MaxNodes,     \* nodes (atoms + containers) of a built value
          MaxDepth,     \* nesting depth of containers
          MaxWidth,     \* items per container (<= Len(Keys))
          AtomSel,      \* "full" | "small" | "mixed" (full at top level and as first item of a top-level container)
          Alphabet,     \* code points the string grower draws from, for strings up to MaxStr
          MaxStr,
          AlphabetLong, \* a subset of Alphabet: strings over it grow up to MaxStrLong
          MaxStrLong
VARIABLES stack,        \* open containers, outermost first: [k, items]
          done,         \* the completed value, or NoVal
          n,            \* nodes used
          str           \* the grown string (string mode: no value building)
vars == <<stack, done, n, str>>

NoVal == MkAtom("none", <<>>)
Atoms == IF AtomSel = "full" THEN AtomsFull
         ELSE IF AtomSel = "mixed" /\ (stack = <<>> \/ (Len(stack) = 1 /\ stack[1].items = <<>>)) THEN AtomsFull
         ELSE AtomsSmall

Init == stack = <<>> /\ done = NoVal /\ n = 0 /\ str = <<>>

Top == stack[Len(stack)]
Room == IF stack = <<>> THEN TRUE ELSE Len(Top.items) < MaxWidth
Place(val, stk) ==      \* put a finished value into the innermost open container of stk, or finish
  IF stk = <<>> THEN done' = val /\ stack' = stk
  ELSE done' = done /\ stack' = [stk EXCEPT ![Len(stk)].items = Append(@, val)]

PutAtom(a) == done = NoVal /\ str = <<>> /\ n < MaxNodes /\ Room
              /\ Place(a, stack) /\ n' = n + 1 /\ UNCHANGED str
Open(k)    == done = NoVal /\ str = <<>> /\ n < MaxNodes /\ Room /\ Len(stack) < MaxDepth
              /\ stack' = Append(stack, [k |-> k, items |-> <<>>]) /\ n' = n + 1 /\ UNCHANGED <<done, str>>
Close      == stack # <<>>
              /\ LET c == Top
                     val == IF c.k = "list" THEN MkList(c.items)
                            ELSE MkObj([i \in 1..Len(c.items) |-> [key |-> Keys[i], val |-> c.items[i]]])
                 IN Place(val, SubSeq(stack, 1, Len(stack) - 1))
              /\ UNCHANGED <<n, str>>
GrowStr(c) == stack = <<>> /\ done = NoVal /\ n = 0
              /\ \/ Len(str) < MaxStr
                 \/ Len(str) < MaxStrLong /\ c \in AlphabetLong /\ \A i \in 1..Len(str) : str[i] \in AlphabetLong
              /\ str' = Append(str, c) /\ UNCHANGED <<stack, done, n>>

Next == \/ \E i \in 1..Len(Atoms) : PutAtom(Atoms[i])
        \/ Open("list") \/ Open("obj") \/ Close
        \/ \E c \in Alphabet : GrowStr(c)
Spec == Init /\ [][Next]_vars

\* The values a state contributes: the built value, or the grown string alone and inside containers.
Complete ==
  IF str # <<>> THEN << MkStr(str), MkList(<< MkObj(<< [key |-> Keys[1], val |-> MkStr(str)] >>), MkStr(str) >>) >>
  ELSE IF done # NoVal THEN << done >> ELSE << >>

TypeOK == n <= MaxNodes /\ Len(stack) <= MaxDepth /\ (Len(str) <= MaxStr \/ Len(str) <= MaxStrLong)

\* Mode M invariants.
ReadsBack(v, st) == LET r == ReadTop(PrintV(v, st)) IN r.ok /\ Eq(v, r.v) /\ Eq(r.v, v)
InvRefReadsBack == \A i \in 1..Len(Complete) : ReadsBack(Complete[i], "ref")
InvEscReadsBack == \A i \in 1..Len(Complete) : ReadsBack(Complete[i], "esc")
\* the deviation is wrong exactly on its trigger set, and identical to "ref" elsewhere
InvDevExact == \A i \in 1..Len(Complete) :
                  LET v == Complete[i]
                      r == ReadTop(PrintV(v, "dev")) IN
                  /\ r.ok
                  /\ (Eq(v, r.v) <=> ~HasTrigger(v))
                  /\ (~HasTrigger(v) => PrintV(v, "dev") = PrintV(v, "ref"))
\* the parser deviation reads every "ref" literal correctly except those with a keyword-prefixed enum
InvKwExact == \A i \in 1..Len(Complete) :
                  LET v == Complete[i]
                      r == ReadTopKw(PrintV(v, "ref")) IN
                  (r.ok /\ Eq(v, r.v)) <=> ~HasKwEnum(v)
\* Negative control (expected to be VIOLATED): today's printer does not satisfy the printing law.
InvDevReadsBack == \A i \in 1..Len(Complete) : ReadsBack(Complete[i], "dev")
InvJsonImage == \A i \in 1..Len(Complete) :
                  LET v == Complete[i] IN
                  /\ JsonImage(JsonImage(v)) = JsonImage(v)
                  /\ ~HasKind(JsonImage(v), "enum")
                  /\ (~HasKind(v, "enum") => JsonImage(v) = v)
                  /\ (HasKind(v, "enum") => ~Eq(v, JsonImage(v)))

\* Mode G.
Emit == \A i \in 1..Len(Complete) : PrintT(<<"REPLAY", ToJson(Complete[i])>>)

--------------------------------------------------------------------------------
(* Unit facts about the reader (evaluated by TLC at start-up in every mode).  *)
ASSUME ~ReadTop(<<34, 10, 34>>).ok                                   \* raw LF in a string
ASSUME ~ReadTop(<<34, 92, 120, 34>>).ok                              \* \x
ASSUME ~ReadTop(<<34, 92, 117, 68, 56, 48, 48, 34>>).ok              \* lone \uD800
ASSUME ReadTop(<<34, 92, 117, 68, 56, 51, 68, 92, 117, 68, 69, 48, 48, 34>>).v = MkStr(<<128512>>)   \* 😀
ASSUME ReadTop(<<34, 92, 117, 123, 49, 102, 54, 48, 48, 125, 34>>).v = MkStr(<<128512>>)             \* \u{1f600}
ASSUME ReadTop(<<34, 92, 117, 48, 48, 50, 55, 34>>).v = MkStr(<<39>>)                               \* ' is an apostrophe
ASSUME ~ReadTop(<<48, 49>>).ok /\ ~ReadTop(<<49, 46>>).ok /\ ~ReadTop(<<49, 101>>).ok /\ ~ReadTop(<<49, 97>>).ok   \* 01  1.  1e  1a
ASSUME ~ReadTop(<<45>>).ok /\ ~ReadTop(<<46, 53>>).ok /\ ~ReadTop(<<49, 32, 50>>).ok                \* -  .5  1 2
ASSUME ReadTop(<<49, 46, 48>>).v.k = "float" /\ ReadTop(<<49>>).v.k = "int" /\ ~Eq(ReadTop(<<49, 46, 48>>).v, ReadTop(<<49>>).v)
ASSUME DecOf(<<49, 46, 53, 48, 101, 51>>) = DecOf(<<49, 53, 48, 48, 46, 48>>)                        \* 1.50e3 = 1500.0
ASSUME DecOf(<<49, 46, 53>>) # DecOf(<<49, 46, 53, 49>>) /\ DecOf(<<45, 48, 46, 48>>) = DecOf(<<48, 101, 48>>)
ASSUME ReadTop(<<34, 34, 34, 34, 34, 34>>).err = "unsupported: block string"
ASSUME Eq(ReadTop(<<123, 97, 58, 49, 44, 98, 58, 91, 93, 125>>).v, ReadTop(<<123, 98, 58, 91, 93, 32, 97, 58, 49, 125>>).v)   \* {a:1,b:[]} = {b:[] a:1}
ASSUME Near(DecOf(<<50, 46, 49, 101, 50, 57>>), DecOf(<<50, 46, 48, 57, 57, 57, 57, 57, 57, 57, 57, 57, 57, 57, 57, 57, 57, 56, 101, 50, 57>>))   \* 2.1e29 ~ 2.0999999999999998e29
ASSUME Near(DecOf(<<49, 46, 48>>), DecOf(<<48, 46, 57, 57, 57, 57, 57, 57, 57, 57, 57, 57, 57, 57, 57, 57, 57, 57>>))     \* 1.0 ~ 0.9999999999999999
ASSUME ~Near(DecOf(<<50, 46, 49, 101, 50, 57>>), DecOf(<<50, 46, 49, 48, 48, 48, 48, 48, 48, 48, 48, 48, 48, 48, 49, 101, 50, 57>>))              \* 2.1e29 !~ 2.1000000000001e29
ASSUME ~Near(DecOf(<<49, 46, 48>>), DecOf(<<49, 48, 46, 48>>)) /\ ~Near(DecOf(<<49, 46, 48>>), DecOf(<<45, 49, 46, 48>>)) /\ ~Near(DecOf(<<48, 46, 48>>), DecOf(<<53, 101, 45, 51, 50, 52>>))
ASSUME ReadTopKw(<<91, 110, 117, 108, 108, 120, 93>>).v = MkList(<<MkAtom("null", <<>>), MkAtom("enum", <<120>>)>>)       \* [nullx] read as [null, x]
ASSUME ~ReadTopKw(<<123, 97, 58, 110, 117, 108, 108, 120, 125>>).ok /\ ReadTop(<<123, 97, 58, 110, 117, 108, 108, 120, 125>>).ok   \* {a:nullx}
ASSUME ~ReadTop(<<123, 97, 32, 49, 125>>).ok /\ ~ReadTop(<<91, 49>>).ok /\ ~ReadTop(<<36, 49>>).ok      \* {a 1}  [1  $1
=============================================================================
