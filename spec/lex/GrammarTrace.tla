---------------------------- MODULE GrammarTrace ----------------------------
(***************************************************************************)
(* Mode V for C13.  Every recorded case is (what was fed to the parser,     *)
(* what parse_query / parse_schema answered).  TLC decides with the         *)
(* recogniser of Grammar.tla (and, for "lex" cases, the lexer of            *)
(* StringLitP.tla) whether the document is in the language, which tree it   *)
(* denotes, and compares:                                                   *)
(*   accepted  <=>  member of the grammar and well formed in the sense of   *)
(*                  parse_query / parse_schema (unique names, roots)        *)
(*   tree      =    the tree built by the push-down machine                 *)
(* with the property's documented deviations as part of the contract:       *)
(* selection sets nested more than 64 levels must be rejected (at most 64   *)
(* must be accepted); \u escapes must be scalar values.                     *)
(* An observation that only today's grammar (AllDevs) explains is           *)
(* "known:<deviations exercised>"; anything else is a violation.            *)
(*                                                                         *)
(* case: [id, mode, toks, gaps, text, acc, ast]                             *)
(*   mode "exec" / "sdl": toks = [[k, s] | [k, s, raw]], gaps[i] = ignored   *)
(*         tokens between token i and i+1 ("" | "w" | "c")                  *)
(*   mode "lex": text = code-point classes X rendered as `{f(a:[` X `])}`   *)
(*   acc  "yes" | "no" | "panic";  ast = list of definitions, each a list of *)
(*         entries [k, s] | [k, "", code points]                            *)
(***************************************************************************)
EXTENDS Grammar, Json, IOUtils

Cases == ndJsonDeserialize(IOEnv.TRACE)
CONSTANT Chunk
VARIABLE l

TokOf(j, g) == [k |-> j[1], s |-> j[2], raw |-> IF Len(j) > 2 THEN j[3] ELSE <<>>, g |-> g]
CaseToks(c) == [i \in 1..Len(c.toks) |-> TokOf(c.toks[i], IF i = 1 THEN "w" ELSE c.gaps[i - 1])]

LexPrefix == <<P("{"), Nm("f"), P("("), Nm("a"), P(":"), P("[")>>
LexSuffix == <<P("]"), P(")"), P("}")>>

NormE(e) == IF Len(e) = 2 THEN <<e[1], e[2], <<>>>> ELSE <<e[1], e[2], e[3]>>
ObsDefs(c) == [i \in 1..Len(c.ast) |-> [j \in 1..Len(c.ast[i]) |-> NormE(c.ast[i][j])]]

\* FloatVal "?" : the denotation of that float literal is not tabulated in the spec, only the kind is compared
EntryEq(x, o) == x[1] = o[1] /\ x[3] = o[3] /\ (x[2] = o[2] \/ (x[1] = "float" /\ x[2] = "?"))
DefEq(xd, od) == Len(xd) = Len(od) /\ \A j \in 1..Len(xd) : EntryEq(xd[j], od[j])
\* type-system definitions are a list; operations and fragments are maps keyed by (unique) name
TreeEq(mode, xast, od) ==
  LET xd == Defs(xast) IN
    /\ Len(xd) = Len(od)
    /\ IF mode = "sdl" THEN \A i \in 1..Len(xd) : DefEq(xd[i], od[i])
       ELSE \A i \in 1..Len(xd) : \E j \in 1..Len(od) : DefEq(xd[i], od[j])

\* the expectation under deviation set dev: [ok, ast, used]
Expect(c, dev) ==
  IF c.mode = "lex"
  THEN LET lx == Lex(c.text, dev)
           lu == LexDevsUsed(c.text, dev)
       IN IF ~lx.ok THEN [ok |-> FALSE, ast |-> <<>>, used |-> lu]
          ELSE LET r == TLCEval(Parse(LexPrefix \o lx.toks \o LexSuffix, "Doc", dev))
               IN [ok |-> r.ok, ast |-> r.ast, used |-> r.used \cup lu]
  ELSE LET r == TLCEval(Parse(CaseToks(c), IF c.mode = "sdl" THEN "SDoc" ELSE "Doc", dev))
       IN [ok |-> r.ok, ast |-> r.ast, used |-> r.used]

Agrees(c, x) ==
  LET wf == x.ok /\ (IF c.mode = "sdl" THEN SdlWellFormed(x.ast) ELSE ExecWellFormed(x.ast)) IN   \* = WellFormed(c, x)
    IF c.acc \notin {"yes", "no"} THEN FALSE                                  \* a panic is never allowed
    ELSE IF ~wf THEN c.acc = "no"
    ELSE IF SelNesting(x.ast) > NestingLimit THEN c.acc = "no"                     \* documented deviation: must be rejected
    ELSE c.acc = "yes" /\ TreeEq(c.mode, x.ast, ObsDefs(c))

RECURSIVE JoinDevs(_, _, _)
JoinDevs(used, i, acc) ==
  IF i > Len(DevOrder) THEN acc
  ELSE JoinDevs(used, i + 1, IF DevOrder[i] \in used THEN (IF acc = "" THEN DevOrder[i] ELSE acc \o "," \o DevOrder[i]) ELSE acc)

\* the harness renderer is trusted but re-checked: empty gaps only where the lexical grammar allows, string bodies well formed
RenderOk(c) ==
  c.mode = "lex" \/
  LET ts == CaseToks(c) IN
    /\ \A i \in 1..(Len(ts) - 1) : ts[i + 1].g = "" => ~NeedsSep(ts[i], ts[i + 1])
    /\ \A i \in 1..Len(ts) : (ts[i].k = "s" => ValidQuotedBody(ts[i].raw)) /\ (ts[i].k = "b" => ValidBlockBody(ts[i].raw))

WellFormed(c, x) == x.ok /\ (IF c.mode = "sdl" THEN SdlWellFormed(x.ast) ELSE ExecWellFormed(x.ast))
\* <<verdict, what the GraphQL grammar says about the input: "member" | "illformed" | "nonmember">>
Judge(c) ==
  IF ~RenderOk(c) THEN <<"tool:renderer", "">>
  ELSE LET ideal == TLCEval(Expect(c, {}))
           class == IF ~ideal.ok THEN "nonmember" ELSE IF WellFormed(c, ideal) THEN "member" ELSE "illformed"
       IN IF Agrees(c, ideal) THEN <<"ok", class>>
          ELSE LET today == TLCEval(Expect(c, AllDevs)) IN
            IF today.used # {} /\ Agrees(c, today) THEN <<"known:" \o JoinDevs(today.used, 1, ""), class>>
            ELSE <<"violation", class>>

TInit == stack = <<>> /\ toks = <<>> /\ ast = <<>> /\ run = <<>> /\ LIdle /\ l \in {i \in 1..Len(Cases) : i % Chunk = 1 \/ Chunk = 1}
TNext == /\ l <= Len(Cases)
         /\ LET j == TLCEval(Judge(Cases[l])) IN PrintT(<<"VERDICT", Cases[l].id, j[1], j[2]>>)
         /\ l % Chunk # 0
         /\ l' = l + 1 /\ UNCHANGED <<gvars, lvars>>
\* replay of single cases (./check C13 --replay f): also print what the grammar and today's model expect
TExplain ==
  /\ l <= Len(Cases)
  /\ LET c == Cases[l]
         j == TLCEval(Judge(c))
         ideal == TLCEval(Expect(c, {}))
         today == TLCEval(Expect(c, AllDevs))
     IN /\ PrintT(<<"VERDICT", c.id, j[1], j[2]>>)
        /\ PrintT(<<"EXPECT", c.id, ToJson([grammar |-> [member |-> ideal.ok, wellformed |-> WellFormed(c, ideal), tree |-> ideal.ast],
                                            today |-> [member |-> today.ok, tree |-> today.ast, deviations |-> today.used]])>>)
  /\ l % Chunk # 0
  /\ l' = l + 1 /\ UNCHANGED <<gvars, lvars>>
=============================================================================
