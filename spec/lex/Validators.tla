------------------------------ MODULE Validators ------------------------------
(***************************************************************************)
(* The predicates of async-graphql's built-in input validators (property   *)
(* C08), under exact arithmetic, as documented in                          *)
(* docs/en/src/input_value_validators.md:                                  *)
(*   maximum = N        the number cannot be greater than N                *)
(*   minimum = N        the number cannot be less than N                   *)
(*   multiple_of = N    the number must be a multiple of N  (k * N, k an   *)
(*                      integer; 0 = 0 * N is a multiple of every N)       *)
(*   max_length / min_length = N        length of the string (UTF-8 bytes; *)
(*                      the chars_ forms exist for the other reading)      *)
(*   chars_max_length / chars_min_length = N   count of Unicode scalar     *)
(*                      values                                             *)
(*   max_items / min_items = N          length of the list                 *)
(*   regex = RE         the string matches RE; only three patterns are     *)
(*                      covered, their languages are written out below     *)
(*   list               the element validators apply to every member       *)
(* A null for an optional argument carries no value: no predicate applies. *)
(* A position with a default (`default`, `default = ..`, `default_with`)   *)
(* may be omitted (value kind "omitted"): its value is then the default,   *)
(* `dflt` of the annotation (read back from the compiled schema).  An      *)
(* explicit value is judged exactly as without a default.  Whether a       *)
(* default that violates its own validators must be refused is not stated  *)
(* by the property; such an omission is accepted either way.               *)
(*                                                                         *)
(* Numbers are exact decimals [neg, d, scale] = +-d * 10^-scale (BigNat    *)
(* digits); `lit` says whether the literal is an IntValue or a FloatValue. *)
(* Float values are restricted by the generator to decimals that are exact *)
(* binary floats (k/4, powers of two), so decimal arithmetic is the truth  *)
(* about them (assumption: IEEE arithmetic on such values is exact).       *)
(*                                                                         *)
(* Values: [k, lit, neg, d, scale, cp, items], k \in {"num","str","list",  *)
(* "null","omitted"}; list members are records without `items`.            *)
(* An annotation (from the harness's family table): [name, site, T, cont,  *)
(* list, vals, dflt], vals a sequence of [kind, b, n, re], dflt a value    *)
(* (k = "none": the position has no default).                              *)
(***************************************************************************)
EXTENDS BigNat, FiniteSets

Max2(a, b) == IF a > b THEN a ELSE b
Zeros(n) == [i \in 1..n |-> 0]
\* the integer x * 10^max(0, y.scale - x.scale): x and y brought to the same scale
Aligned(x, y) == [neg |-> x.neg, d |-> x.d \o Zeros(Max2(y.scale - x.scale, 0))]
DecCmp(x, y)  == Cmp(Aligned(x, y), Aligned(y, x))
DecIsZero(x)  == MagIsZero(x.d)
\* x = k * b for an integer k (b = 0: only 0 is a multiple of 0)
DecMultipleOf(x, b) == IF DecIsZero(b) THEN DecIsZero(x) ELSE Divides(Aligned(b, x), Aligned(x, b))
\* integer part (towards zero) as a scale-0 decimal
DecTrunc(x) == IF x.scale = 0 THEN x
               ELSE IF Len(x.d) <= x.scale THEN [x EXCEPT !.d = <<0>>, !.scale = 0, !.neg = FALSE]
               ELSE [x EXCEPT !.d = SubSeq(x.d, 1, Len(x.d) - x.scale), !.scale = 0]
DecIsIntegral(x) == DecCmp(x, DecTrunc(x)) = 0
DecOfBig(n, x)   == [x EXCEPT !.neg = n.neg, !.d = n.d, !.scale = 0]      \* a BigNat as a decimal (other fields of x kept)
BigOfDec(x)      == Canon([neg |-> x.neg, d |-> x.d])                      \* only for scale 0

Utf8Len1(c) == IF c < 128 THEN 1 ELSE IF c < 2048 THEN 2 ELSE IF c < 65536 THEN 3 ELSE 4
RECURSIVE Utf8LenFrom(_, _)
Utf8LenFrom(s, i) == IF i > Len(s) THEN 0 ELSE Utf8Len1(s[i]) + Utf8LenFrom(s, i + 1)
Utf8Len(s) == Utf8LenFrom(s, 1)

\* The three covered patterns (Rust regex crate: unanchored search, `$` only at the very end, [0-9] ASCII).
Patterns == {"^a+$", "^[0-9]{2}$", "b"}
InLang(re, s) ==
  CASE re = "^a+$"        -> Len(s) >= 1 /\ \A i \in 1..Len(s) : s[i] = 97
    [] re = "^[0-9]{2}$"  -> Len(s) = 2 /\ \A i \in 1..Len(s) : 48 <= s[i] /\ s[i] <= 57
    [] re = "b"           -> \E i \in 1..Len(s) : s[i] = 98

NumKinds  == {"maximum", "minimum", "multiple_of"}
StrKinds  == {"max_length", "min_length", "chars_max_length", "chars_min_length", "regex"}
ListKinds == {"max_items", "min_items"}
FloatT    == {"f32", "f64"}
IntT      == {"i8", "i16", "i32", "i64", "isize", "u8", "u16", "u32", "u64", "usize"}

TMin(T) == CASE T = "i8" -> I8Min [] T = "i16" -> I16Min [] T = "i32" -> I32Min [] T \in {"i64", "isize"} -> I64Min [] OTHER -> Zero
TMax(T) == CASE T = "i8" -> I8Max [] T = "i16" -> I16Max [] T = "i32" -> I32Max [] T \in {"i64", "isize"} -> I64Max
             [] T = "u8" -> U8Max [] T = "u16" -> U16Max [] T = "u32" -> U32Max [] T \in {"u64", "usize"} -> U64Max

\* the value is one of the declared Rust type (the property's antecedent; coercion itself is C07's subject)
ElemInDomain(T, x) ==
  CASE T \in IntT   -> x.k = "num" /\ x.lit = "int" /\ x.scale = 0 /\ ~IsNegZero(x) /\ Between(TMin(T), BigOfDec(x), TMax(T))
    [] T \in FloatT -> x.k = "num"
    [] OTHER        -> x.k = "str"
\* the value the position has: the default when omitted
Eff(f, v) == IF v.k = "omitted" THEN f.dflt ELSE v
InDomain(f, v0) ==
  LET v == Eff(f, v0) IN
  IF v0.k = "omitted" /\ f.dflt.k = "none" THEN FALSE
  ELSE IF v.k = "null" THEN f.cont \in {"opt", "optlist"}
  ELSE IF f.cont \in {"list", "optlist"} THEN v.k = "list" /\ \A i \in 1..Len(v.items) : ElemInDomain(f.T, v.items[i])
  ELSE ElemInDomain(f.T, v)

-----------------------------------------------------------------------------
(* Reference semantics                                                      *)
ElemHolds(val, x) ==
  CASE val.kind = "maximum"          -> DecCmp(x, val.b) <= 0
    [] val.kind = "minimum"          -> DecCmp(x, val.b) >= 0
    [] val.kind = "multiple_of"      -> DecMultipleOf(x, val.b)
    [] val.kind = "max_length"       -> Utf8Len(x.cp) <= val.n
    [] val.kind = "min_length"       -> Utf8Len(x.cp) >= val.n
    [] val.kind = "chars_max_length" -> Len(x.cp) <= val.n
    [] val.kind = "chars_min_length" -> Len(x.cp) >= val.n
    [] val.kind = "regex"            -> InLang(val.re, x.cp)
ListHolds(val, v) == IF val.kind = "max_items" THEN Len(v.items) <= val.n ELSE Len(v.items) >= val.n

\* every stated predicate holds: the value reaches the resolver
AllHold(E(_, _), f, v) ==
  \/ v.k = "null"
  \/ \A i \in 1..Len(f.vals) :
       LET val == f.vals[i]
       IN IF val.kind \in ListKinds THEN ListHolds(val, v)
          ELSE IF f.list THEN \A j \in 1..Len(v.items) : E(val, v.items[j])
          ELSE E(val, v)
Reaches(f, v) == AllHold(ElemHolds, f, v)

-----------------------------------------------------------------------------
(* Today's arithmetic (src/validators/{maximum,minimum,multiple_of}.rs):    *)
(* `value.as_()` converts the value to the *bound's* type -- i64 for an     *)
(* integer bound, f64 for a float bound -- before comparing.  Each effect   *)
(* is a named deviation that can be switched on separately.                 *)
Two53 == Pow2(53)
Two63 == Pow2(63)
Two64 == Pow2(64)
RECURSIVE MulPow2(_, _)
MulPow2(m, k) == IF k = 0 THEN m ELSE MulPow2(Add(m, m), k - 1)
RECURSIVE BitLen(_, _)
BitLen(m, p) == IF Lt(m, Pow2(p)) THEN p ELSE BitLen(m, p + 1)        \* smallest p >= start with m < 2^p
\* u64 -> f64 / i64 -> f64: round to nearest, ties to even, 53-bit significand
RoundF64(n) ==
  LET m == Abs(n)
  IN IF Leq(m, Two53) THEN n
     ELSE LET k    == BitLen(m, 54) - 53
              q    == Pow2(k)
              qr   == MagDivMod(m.d, q.d)
              lo   == Pos(qr.q)
              r    == Pos(qr.r)
              half == Pow2(k - 1)
              up   == Lt(half, r) \/ (Eq(half, r) /\ ~IsEven(lo))
              res  == MulPow2(IF up THEN Succ(lo) ELSE lo, k)
          IN IF n.neg THEN Negate(res) ELSE res
\* float -> i64: towards zero, saturating
SatI64(n) == IF Lt(n, I64Min) THEN I64Min ELSE IF Lt(I64Max, n) THEN I64Max ELSE n

Devs == {"DevMultipleOfZero", "DevU64Wrap", "DevFloatTruncation", "DevF64BoundRounding"}
Wide == {"i64", "isize", "u64", "usize"}
\* the number today's code compares with the bound, with the deviations in D switched on
Converted(D, T, val, x) ==
  IF val.b.lit = "int"
  THEN IF "DevU64Wrap" \in D /\ T \in {"u64", "usize"} /\ Lt(I64Max, BigOfDec(x)) THEN DecOfBig(Sub(BigOfDec(x), Two64), x)
       ELSE IF "DevFloatTruncation" \in D /\ T \in FloatT THEN DecOfBig(SatI64(BigOfDec(DecTrunc(x))), x)
       ELSE x
  ELSE IF "DevF64BoundRounding" \in D /\ T \in Wide THEN DecOfBig(RoundF64(BigOfDec(x)), x)
       ELSE x
ElemHoldsDev(D, T, val, x) ==
  IF val.kind \notin NumKinds THEN ElemHolds(val, x)
  ELSE LET y == Converted(D, T, val, x)
       IN CASE val.kind = "maximum" -> DecCmp(y, val.b) <= 0
            [] val.kind = "minimum" -> DecCmp(y, val.b) >= 0
            [] val.kind = "multiple_of" -> ("DevMultipleOfZero" \in D => ~DecIsZero(y)) /\ DecMultipleOf(y, val.b)
ReachesDev(D, f, v) == LET E(val, x) == ElemHoldsDev(D, f.T, val, x) IN AllHold(E, f, v)

\* triggers: the inputs on which a deviation can show
Elems(f, v) == IF v.k = "null" THEN {} ELSE IF f.list THEN {v.items[j] : j \in 1..Len(v.items)} ELSE {v}
HasVal(f, P(_)) == \E i \in 1..Len(f.vals) : P(f.vals[i])
IsNumInt(val)   == val.kind \in NumKinds /\ val.b.lit = "int"
IsNumFloat(val) == val.kind \in NumKinds /\ val.b.lit = "float"
IsMultipleOf(val) == val.kind = "multiple_of"
Trig(d, f, v) ==
  CASE d = "DevMultipleOfZero"   -> HasVal(f, IsMultipleOf) /\ \E x \in Elems(f, v) : x.k = "num" /\ DecIsZero(x)
    [] d = "DevU64Wrap"          -> f.T \in {"u64", "usize"} /\ HasVal(f, IsNumInt) /\ \E x \in Elems(f, v) : Lt(I64Max, BigOfDec(x))
    [] d = "DevFloatTruncation"  -> f.T \in FloatT /\ HasVal(f, IsNumInt)
                                    /\ \E x \in Elems(f, v) : ~DecIsIntegral(x) \/ ~Between(I64Min, BigOfDec(DecTrunc(x)), I64Max)
    [] d = "DevF64BoundRounding" -> f.T \in Wide /\ HasVal(f, IsNumFloat) /\ \E x \in Elems(f, v) : Lt(Two53, Abs(BigOfDec(x)))
\* C07's finding, visible here in strict mode: validation refuses u64 / usize values above i64::MAX
TrigIntValidatorI64(f, v, mode) == mode = "strict" /\ f.T \in {"u64", "usize"} /\ \E x \in Elems(f, v) : Lt(I64Max, BigOfDec(x))

-----------------------------------------------------------------------------
(* Observations and verdicts.  A case is [field, site, route, mode, v, ann,  *)
(* panic, calls, errs, on_field]: `ann` is the annotation, calls = resolver  *)
(* invocations, errs = response errors, on_field = no error names a         *)
(* different field.                                                          *)
Reached(c) == ~c.panic /\ c.calls = 1 /\ c.errs = 0
Refused(c) == ~c.panic /\ c.calls = 0 /\ c.errs > 0 /\ c.on_field
Matches(c, reach) == IF reach THEN Reached(c) ELSE Refused(c)

\* a smallest set of triggered deviations that explains the observation
Explaining(c) ==
  LET T == {d \in Devs : Trig(d, c.ann, c.v)}
      S == {D \in SUBSET T : D # {} /\ Matches(c, ReachesDev(D, c.ann, c.v))}
  IN IF S = {} THEN {} ELSE CHOOSE D \in S : \A E \in S : Cardinality(D) <= Cardinality(E)

\* judged on the value the position has (c0: the recorded case; c: the same with the default substituted)
Verdict(c0) ==
  LET c == [c0 EXCEPT !.v = Eff(c0.ann, c0.v)] IN
  IF ~InDomain(c0.ann, c0.v) THEN <<"violation", {"case outside the property's antecedent"}>>
  ELSE IF Matches(c, Reaches(c.ann, c.v)) THEN <<"ok", {}>>
  ELSE IF c0.v.k = "omitted" /\ ~Reaches(c.ann, c.v) /\ (Reached(c) \/ Refused(c)) THEN <<"ok", {}>>   \* a violating default: not stated
  ELSE IF TrigIntValidatorI64(c.ann, c.v, c.mode) /\ Refused(c) THEN <<"known", {"DevIntValidatorI64"}>>
  ELSE IF Explaining(c) # {} THEN <<"known", Explaining(c)>>
  ELSE <<"violation", {}>>
=============================================================================
