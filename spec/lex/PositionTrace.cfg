CONSTANT MaxLen = 0
CONSTANT Chunk = 500
INIT TInit
NEXT TNext
