---------------------------- MODULE CursorTrace ----------------------------
(* Mode V for C32: TLC judges every recorded case with the operators of      *)
(* Cursor.tla.                                                               *)
(*  rt   : decode_cursor(encode_cursor(x)) must be x (floats: the harness's  *)
(*         bit comparison must also hold).  An opaque value that JSON cannot *)
(*         carry (Lossy) and that comes back exactly as today's serde_json   *)
(*         model predicts is a known deviation.                              *)
(*  dec  : the result must be admissible for the string (DecodeSet).         *)
(*  qw   : the closure is not called and an error is reported exactly when   *)
(*         QueryWith says so; otherwise it is called once with the decoded   *)
(*         values unchanged, and pageInfo / edge cursors are the encodings   *)
(*         (as the CursorType API gives them) of the edges' cursors.         *)
(*  Drift (informational): encodings differ from the model's Encode.         *)
EXTENDS Cursor, Json, IOUtils

Cases == ndJsonDeserialize(IOEnv.TRACE)
CONSTANT Chunk
VARIABLE l

Panicked(cs) == "panic" \in DOMAIN cs.obs
DevOrder == <<"DevOpaqueKeyNotString", "DevOpaqueSomeNull", "DevOpaqueNonFinite", "DevOpaqueFloatInexact">>
RECURSIVE Join(_, _, _)
Join(D, i, acc) == IF i > Len(DevOrder) THEN acc
                   ELSE IF DevOrder[i] \in D THEN Join(D, i + 1, IF acc = "" THEN DevOrder[i] ELSE acc \o "," \o DevOrder[i])
                   ELSE Join(D, i + 1, acc)

VerdictRt(cs) ==
  IF cs.obs.dec = cs.x THEN (IF cs.obs.ulps = 0 THEN "ok" ELSE "violation:float-bits")
  ELSE IF cs.ty \in OpaqueTypes /\ Lossy(cs.x) /\ cs.obs.dec = TodayRT(cs.ty, cs.x) THEN "known:" \o Join(DevsOf(cs.x), 1, "")
  ELSE IF cs.ty \in OpaqueTypes /\ ~Lossy(cs.x) /\ cs.obs.dec # Err /\ EqModFloat(cs.x, cs.obs.dec) /\ cs.obs.ulps \in 1..2
       THEN "known:DevOpaqueFloatInexact"
  ELSE "violation:roundtrip"

VerdictDec(cs) ==
  LET s == IF cs.ty \in OpaqueTypes THEN cs.obs.sv ELSE cs.s IN
  IF cs.ty \in OpaqueTypes /\ cs.s.enc = "b64json" /\ cs.obs.sv # cs.s THEN "tool:json-writer-reader"
  ELSE IF InDecode(cs.ty, s, cs.obs.dec) THEN "ok"
  ELSE IF MustReject(cs.ty, s) THEN "violation:decoded-garbage" ELSE "violation:decode"

ArgMatch(e, got) == e = got \/ (e = AnyFloat /\ got.k = "float") \/ (e = AnyStr /\ got.k = "str") \/ (e = AnyOpq /\ got.k = "opq")
VerdictQw(cs) ==
  LET exp == QueryWith(cs.ty, cs.after, cs.before, cs.first, cs.last)
      o   == cs.obs
      n   == Len(o.calls)
      pageOK == /\ o.page.has /\ Len(o.encs) = Len(cs.edges) /\ o.page.edges = o.encs
                /\ o.page.start = (IF o.encs = <<>> THEN NullCursor ELSE o.encs[1])
                /\ o.page.end = (IF o.encs = <<>> THEN NullCursor ELSE o.encs[Len(o.encs)])
  IN IF n = 0 THEN (IF NoCall \notin exp THEN "violation:rejected-valid-arguments"
                    ELSE IF ~o.error \/ o.page.has THEN "violation:no-error" ELSE "ok")
     ELSE IF n > 1 THEN "violation:closure-called-twice"
     ELSE LET cl == o.calls[1] IN
          IF exp = {NoCall} THEN "violation:closure-called-with-invalid-arguments"
          ELSE IF ~\E e \in exp : e.k = "call" /\ ArgMatch(e.a, cl.a) /\ ArgMatch(e.b, cl.b) /\ e.f = cl.f /\ e.l = cl.l
               THEN "violation:arguments-changed"
          ELSE IF o.error THEN "violation:error-after-call"
          ELSE IF ~pageOK THEN "violation:page-info" ELSE "ok"

Verdict(cs) ==
  IF Panicked(cs) THEN "violation:panic"
  ELSE CASE cs.kind = "rt" -> VerdictRt(cs)
         [] cs.kind = "dec" -> VerdictDec(cs)
         [] cs.kind = "qw" -> VerdictQw(cs)
         [] cs.kind = "shape" -> (IF cs.obs.shape = ShapeOf(cs.ty) THEN "ok" ELSE "tool:shape-mirror")
         [] OTHER -> "tool:unknown-kind"

Drift(cs) ==
  IF Panicked(cs) THEN FALSE
  ELSE CASE cs.kind = "rt" -> cs.obs.enc # Encode(cs.ty, cs.x)
         [] cs.kind = "qw" -> \E i \in 1..Len(cs.edges) : i <= Len(cs.obs.encs) /\ cs.obs.encs[i] # Encode(cs.ty, cs.edges[i])
         [] OTHER -> FALSE

TInit == c = [kind |-> "none"] /\ l \in {i \in 1..Len(Cases) : i % Chunk = 1 \/ Chunk = 1}
TNext == /\ l <= Len(Cases)
         /\ PrintT(<<"VERDICT", Cases[l].id, Verdict(Cases[l]), Drift(Cases[l])>>)
         /\ l % Chunk # 0
         /\ l' = l + 1 /\ UNCHANGED c
=============================================================================
