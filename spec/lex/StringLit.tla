------------------------------ MODULE StringLit ------------------------------
(***************************************************************************)
(* The GraphQL StringValue (quoted form) over Unicode code points.         *)
(*                                                                         *)
(* Transcribes GraphQL spec section 2.9.4 "String Value" (October 2021     *)
(* edition, which is a superset of June 2018):                             *)
(*   StringValue     :: `"` StringCharacter* `"`                           *)
(*   StringCharacter :: SourceCharacter but not `"` or `\` or LineTerminator*)
(*                    | \u EscapedUnicode   | \ EscapedCharacter           *)
(*   EscapedUnicode  :: HexDigit HexDigit HexDigit HexDigit | { HexDigit+ }*)
(*   EscapedCharacter:: one of  " \ / b f n r t                            *)
(* and its semantics: \uXXXX denotes the code point XXXX (hexadecimal); a  *)
(* leading surrogate escape followed by a trailing surrogate escape        *)
(* denotes one supplementary code point; any other surrogate value and any *)
(* value above U+10FFFF is an error.  SourceCharacter is read as "any      *)
(* Unicode scalar value" (2021); the 2018 edition forbids raw control      *)
(* characters, so accepting them here can only accept more printers.       *)
(*                                                                         *)
(* Text is a sequence of code points (TLC strings are atomic).             *)
(* Block strings are not transcribed: printing never needs them; the value *)
(* reader in Printer.tla reports them as unsupported (a tool condition).   *)
(***************************************************************************)
EXTENDS Integers, Sequences

cQUOTE  == 34    \* "
cBSLASH == 92    \* \
cLF     == 10
cCR     == 13
cTAB    == 9

IsDigit(c) == c >= 48 /\ c <= 57
IsHex(c)   == IsDigit(c) \/ (c >= 65 /\ c <= 70) \/ (c >= 97 /\ c <= 102)
HexVal(c)  == IF IsDigit(c) THEN c - 48 ELSE IF c <= 70 THEN c - 55 ELSE c - 87

IsHighSur(n) == n >= 55296 /\ n <= 56319       \* D800..DBFF
IsLowSur(n)  == n >= 56320 /\ n <= 57343       \* DC00..DFFF
IsScalar(n)  == (n >= 0 /\ n <= 55295) \/ (n >= 57344 /\ n <= 1114111)

\* EscapedCharacter -> code point ( " \ / b f n r t )
IsSimpleEsc(e) == e \in {34, 92, 47, 98, 102, 110, 114, 116}
SimpleEscVal(e) ==
  CASE e = 34 -> 34 [] e = 92 -> 92 [] e = 47 -> 47 [] e = 98 -> 8
    [] e = 102 -> 12 [] e = 110 -> 10 [] e = 114 -> 13 [] e = 116 -> 9

SFail(why, i) == [ok |-> FALSE, val |-> <<>>, next |-> i, err |-> why]

At(t, i) == IF i >= 1 /\ i <= Len(t) THEN t[i] ELSE 0 - 1      \* -1 = end of text

Has4Hex(t, i) == i + 3 <= Len(t) /\ IsHex(t[i]) /\ IsHex(t[i + 1]) /\ IsHex(t[i + 2]) /\ IsHex(t[i + 3])
Hex4(t, i) == HexVal(t[i]) * 4096 + HexVal(t[i + 1]) * 256 + HexVal(t[i + 2]) * 16 + HexVal(t[i + 3])

\* HexDigit+ of the braced form; at most 7 digits are evaluated (TLC integers are 32-bit).
RECURSIVE HexRun(_, _, _, _)
HexRun(t, i, n, cnt) ==
  IF IsHex(At(t, i)) /\ cnt < 8 THEN HexRun(t, i + 1, IF cnt < 7 THEN n * 16 + HexVal(t[i]) ELSE n, cnt + 1)
  ELSE [n |-> n, next |-> i, cnt |-> cnt]

\* Reads StringCharacter* and the closing quote; `i` is the index after the opening quote.
\* Result: [ok, val (decoded code points), next (index after the closing quote), err].
RECURSIVE ReadStr(_, _, _)
ReadStr(t, i, acc) ==
  LET c == At(t, i) IN
  IF c < 0 THEN SFail("unterminated string", i)
  ELSE IF c = cQUOTE THEN [ok |-> TRUE, val |-> acc, next |-> i + 1, err |-> ""]
  ELSE IF c = cLF \/ c = cCR THEN SFail("line terminator in string", i)
  ELSE IF c # cBSLASH THEN
       (IF IsScalar(c) THEN ReadStr(t, i + 1, Append(acc, c)) ELSE SFail("not a scalar value", i))
  ELSE LET e == At(t, i + 1) IN
       IF e < 0 THEN SFail("backslash at end", i)
       ELSE IF IsSimpleEsc(e) THEN ReadStr(t, i + 2, Append(acc, SimpleEscVal(e)))
       ELSE IF e # 117 THEN SFail("unknown escape", i)
       ELSE IF At(t, i + 2) = 123 THEN                                   \* \u{ HexDigit+ }
            LET r == HexRun(t, i + 3, 0, 0) IN
            IF r.cnt = 0 \/ r.cnt > 7 \/ At(t, r.next) # 125 THEN SFail("bad braced escape", i)
            ELSE IF ~IsScalar(r.n) THEN SFail("escape is not a scalar value", i)
            ELSE ReadStr(t, r.next + 1, Append(acc, r.n))
       ELSE IF ~Has4Hex(t, i + 2) THEN SFail("bad \\u escape", i)
       ELSE LET n == Hex4(t, i + 2) IN
            IF IsHighSur(n) THEN
                 (IF At(t, i + 6) = cBSLASH /\ At(t, i + 7) = 117 /\ Has4Hex(t, i + 8) /\ IsLowSur(Hex4(t, i + 8))
                  THEN ReadStr(t, i + 12, Append(acc, 65536 + (n - 55296) * 1024 + (Hex4(t, i + 8) - 56320)))
                  ELSE SFail("lone leading surrogate", i))
            ELSE IF IsLowSur(n) THEN SFail("lone trailing surrogate", i)
            ELSE ReadStr(t, i + 6, Append(acc, n))

(***************************************************************************)
(* Character classes used by printers.  `IsCtl` is Unicode general         *)
(* category Cc (what Rust's char::is_control tests): C0, DEL and C1.       *)
(***************************************************************************)
IsCtl(c) == c < 32 \/ (c >= 127 /\ c <= 159)

HexDigitCp(d, upper) == IF d < 10 THEN 48 + d ELSE IF upper THEN 55 + d ELSE 87 + d
Hex4Cps(n, upper) == << HexDigitCp(n \div 4096, upper), HexDigitCp((n \div 256) % 16, upper),
                        HexDigitCp((n \div 16) % 16, upper), HexDigitCp(n % 16, upper) >>
Dec4Cps(n) == << 48 + ((n \div 1000) % 10), 48 + ((n \div 100) % 10), 48 + ((n \div 10) % 10), 48 + (n % 10) >>

\* Escape sequence \uXXXX for a BMP code point / a surrogate pair for a supplementary one.
EscU(c) == IF c < 65536 THEN <<cBSLASH, 117>> \o Hex4Cps(c, TRUE)
           ELSE <<cBSLASH, 117>> \o Hex4Cps(55296 + ((c - 65536) \div 1024), TRUE)
                \o <<cBSLASH, 117>> \o Hex4Cps(56320 + ((c - 65536) % 1024), FALSE)

\* One character of a printed string, in three styles:
\*  "ref" the canonical printer (short escapes for " \ LF CR TAB, \u00xx for other controls, raw otherwise)
\*  "esc" a maximally escaping printer (legal too: exercises every escape form of the reader)
\*  "dev" today's write_quoted: like "ref" but the code point of a control is written in DECIMAL
PrintChar(c, style) ==
  IF style = "esc" THEN
       (CASE c = 34 -> <<cBSLASH, 34>> [] c = 92 -> <<cBSLASH, 92>> [] c = 47 -> <<cBSLASH, 47>>
          [] c = 8 -> <<cBSLASH, 98>> [] c = 12 -> <<cBSLASH, 102>> [] c = 10 -> <<cBSLASH, 110>>
          [] c = 13 -> <<cBSLASH, 114>> [] c = 9 -> <<cBSLASH, 116>>
          [] OTHER -> IF c >= 65536 /\ (c % 2) = 0
                      THEN <<cBSLASH, 117, 123, HexDigitCp((c \div 1048576) % 16, FALSE), HexDigitCp((c \div 65536) % 16, FALSE)>>
                           \o Hex4Cps(c % 65536, TRUE) \o <<125>>
                      ELSE EscU(c))
  ELSE CASE c = 34 -> <<cBSLASH, 34>> [] c = 92 -> <<cBSLASH, 92>> [] c = 10 -> <<cBSLASH, 110>>
         [] c = 13 -> <<cBSLASH, 114>> [] c = 9 -> <<cBSLASH, 116>>
         [] OTHER -> IF IsCtl(c) THEN <<cBSLASH, 117>> \o (IF style = "dev" THEN Dec4Cps(c) ELSE Hex4Cps(c, FALSE))
                     ELSE <<c>>

RECURSIVE PrintChars(_, _, _)
PrintChars(s, i, style) == IF i > Len(s) THEN <<>> ELSE PrintChar(s[i], style) \o PrintChars(s, i + 1, style)
PrintStr(s, style) == <<cQUOTE>> \o PrintChars(s, 1, style) \o <<cQUOTE>>

\* A control character whose decimal and hexadecimal numerals differ: exactly the characters
\* on which the "dev" style prints an escape denoting another character.
DevTriggerCp(c) == IsCtl(c) /\ c > 9 /\ c # 10 /\ c # 13
DevTriggerStr(s) == \E i \in 1..Len(s) : DevTriggerCp(s[i])
=============================================================================
