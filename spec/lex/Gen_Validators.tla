---------------------------- MODULE Gen_Validators ----------------------------
(***************************************************************************)
(* Mode G for C08: for every annotated argument / input-object field of    *)
(* the harness's family (read from IOEnv.FAMILY, printed by `c08 family`   *)
(* from the text the derive macros compiled) TLC enumerates values at,     *)
(* below and above every bound and at the extremes of the declared Rust    *)
(* type:                                                                   *)
(*   integers  b-2..b+2 around every bound b (its integer part for a float *)
(*             bound), 0, multiples of a multiple_of bound and their       *)
(*             neighbours up to the largest one the type holds, MIN,       *)
(*             MIN+1, MAX-1, MAX of the type, i64::MAX-2..i64::MAX+4,      *)
(*             2^53-1..2^53+4, 2^64-4..2^64-1 (kept when in range);        *)
(*   floats    every multiple of 1/4 in -13..16 as a float literal, the    *)
(*             integers of that range as integer literals, +-2^53, +-2^63, *)
(*             3*2^62, 2^64 (all exact in f32 and f64), -0.0;              *)
(*   strings   every string up to MaxStr code points over {a, U+20AC (3    *)
(*             bytes), U+1F600 (4 bytes)} and a few with U+00E9 (2 bytes)  *)
(*             for the length validators; every string up to MaxRe points  *)
(*             over {a, b, 0, 9, '/', ':', LF, U+0663 (a non-ASCII digit)} *)
(*             for the regex validators;                                   *)
(*   lists     every list up to MaxList members over a small pool of       *)
(*             members on both sides of the member bound; null for         *)
(*             optional positions; omission for positions with a default.  *)
(* Only values of the declared type are emitted (Validators!InDomain).     *)
(* The same run checks the reference semantics against itself:             *)
(* NoDevIsReference, DevOnlyOnTrigger, NativeAgreement.                    *)
(***************************************************************************)
EXTENDS Validators, TLC, Json, IOUtils
CONSTANTS MaxStr, MaxRe, MaxList

ASSUME TLCSet(8, JsonDeserialize(IOEnv.FAMILY))
Family == TLCGet(8)

VARIABLES fi, v, ph
vars == <<fi, v, ph>>

Elem0 == [k |-> "null", lit |-> "", neg |-> FALSE, d |-> <<>>, scale |-> 0, cp |-> <<>>]
Top(e) == [k |-> e.k, lit |-> e.lit, neg |-> e.neg, d |-> e.d, scale |-> e.scale, cp |-> e.cp, items |-> <<>>]
NullV  == Top(Elem0)
NumE(lit, n, s) == [Elem0 EXCEPT !.k = "num", !.lit = lit, !.neg = n.neg, !.d = n.d, !.scale = s]
IntE(n)  == NumE("int", n, 0)
StrE(s)  == [Elem0 EXCEPT !.k = "str", !.cp = s]
ListV(items) == [Top(Elem0) EXCEPT !.k = "list", !.items = items]

-----------------------------------------------------------------------------
Vals(f) == {f.vals[i] : i \in 1..Len(f.vals)}
NumVals(f) == {val \in Vals(f) : val.kind \in NumKinds}
BoundInt(val) == BigOfDec(DecTrunc(val.b))            \* integer part of the bound
Span(n, lo, hi) == {Add(n, FromInt(k)) : k \in lo..hi}
RECURSIVE Mul(_, _)
Mul(n, k) == IF k = 0 THEN Zero ELSE Add(n, Mul(n, k - 1))     \* n * k for a small natural k
LargestMultiple(b, top) == Sub(top, Rem(top, b))               \* largest multiple of b (> 0) that is <= top (>= 0)

IntAround(T, val) ==
  LET b == BoundInt(val)
  IN Span(b, -2, 2)
     \cup (IF val.kind = "multiple_of" /\ ~IsZero(b)
           THEN UNION {Span(Mul(b, k), -1, 1) : k \in 0..3} \cup {Negate(b), Negate(Mul(b, 2)), Succ(Negate(b))}
                \cup Span(LargestMultiple(b, TMax(T)), -1, 1)
                \cup (IF Lt(I64Max, TMax(T)) THEN Span(LargestMultiple(b, I64Max), -1, 1) \cup Span(Add(LargestMultiple(b, I64Max), b), -1, 1) ELSE {})
           ELSE {})
IntGlobal(T) == Span(Zero, -1, 12) \cup {FromInt(15), FromInt(50), FromInt(99), FromInt(100), FromInt(101)}
                \cup Span(TMin(T), 0, 1) \cup Span(TMax(T), -3, 0)
                \cup Span(I64Max, -2, 4) \cup Span(Two53, -1, 4)
IntPool(f) == {n \in IntGlobal(f.T) \cup UNION {IntAround(f.T, val) : val \in NumVals(f)} : Between(TMin(f.T), n, TMax(f.T))}

\* m / 4 as a decimal
Quarter(m) ==
  LET a == IF m < 0 THEN 0 - m ELSE m
      n == CASE a % 4 = 0 -> FromInt(a \div 4) [] a % 2 = 0 -> FromInt((a \div 2) * 5) [] OTHER -> FromInt(a * 25)
      s == CASE a % 4 = 0 -> 0 [] a % 2 = 0 -> 1 [] OTHER -> 2
  IN NumE("float", [neg |-> m < 0, d |-> n.d], s)
FloatPool ==
  {Quarter(m) : m \in -52..64} \cup {IntE(FromInt(n)) : n \in -13..16}
  \cup {NumE("float", n, 0) : n \in {Two53, Negate(Two53), Two63, Negate(Two63), Mul(Pow2(62), 3), Two64}}
  \cup {NumE("float", [neg |-> TRUE, d |-> <<0>>], 0), IntE(Two53)}

RECURSIVE Strings(_, _)
Strings(A, n) == IF n = 0 THEN {<<>>} ELSE LET S == Strings(A, n - 1) IN S \cup {Append(s, a) : s \in S, a \in A}
LenAlphabet == {97, 8364, 128512}
LenStrings  == Strings(LenAlphabet, MaxStr) \cup {<<233>>, <<233, 233>>, <<233, 97>>, <<233, 233, 233>>, <<97, 97, 97, 97, 97, 97>>,
                                                  <<97, 97, 97, 97, 97, 97, 97>>, <<8364, 8364, 233>>, <<128512, 233, 97>>}
ReAlphabet  == {97, 98, 48, 57, 47, 58, 10, 1635}
ReStrings   == Strings(ReAlphabet, MaxRe) \cup {<<98, 98, 98, 98>>, <<97, 97, 97, 97>>, <<97, 98, 97, 98>>, <<97, 97, 97>>, <<97, 97, 10>>,
                                                 <<49, 50, 10>>, <<48, 57, 48>>, <<97, 98, 97>>, <<1635, 1635, 1635>>, <<57, 57, 98>>}
HasRegex(f) == \E val \in Vals(f) : val.kind = "regex"
StrPool(f)  == IF HasRegex(f) THEN ReStrings ELSE LenStrings

ListMembers(f) ==
  CASE f.T \in {"u64", "usize"} -> {IntE(x) : x \in {Zero, FromInt(3), FromInt(4), Add(Two63, One), Add(Two63, FromInt(2))}}
    [] f.T \in IntT             -> {IntE(FromInt(n)) : n \in {-1, 0, 3, 4}}
    [] f.T \in FloatT           -> {Quarter(12), Quarter(13), Quarter(16)}
    [] HasRegex(f)              -> {StrE(s) : s \in {<<49, 50>>, <<49, 97>>, <<49, 50, 51>>, <<>>}}
    [] OTHER                    -> {StrE(s) : s \in {<<97, 98>>, <<97, 98, 99>>, <<97, 98, 99, 100>>, <<8364>>, <<8364, 97>>}}
RECURSIVE Lists(_, _)
Lists(M, n) == IF n = 0 THEN {<<>>} ELSE LET S == Lists(M, n - 1) IN S \cup {Append(s, m) : s \in S, m \in M}

OmittedV == [NullV EXCEPT !.k = "omitted"]
ValuesFor(f) ==
  (IF f.cont \in {"opt", "optlist"} THEN {NullV} ELSE {})
  \cup (IF f.dflt.k # "none" THEN {OmittedV} ELSE {})
  \cup (IF f.cont \in {"list", "optlist"} THEN {ListV(l) : l \in Lists(ListMembers(f), MaxList)}
        ELSE IF f.T \in IntT THEN {Top(IntE(n)) : n \in IntPool(f)}
        ELSE IF f.T \in FloatT THEN {Top(x) : x \in FloatPool}
        ELSE {Top(StrE(s)) : s \in StrPool(f)})

GInit == fi \in 1..Len(Family) /\ v = NullV /\ ph = 0
GNext == ph = 0 /\ ph' = 1 /\ UNCHANGED fi /\ v' \in {x \in ValuesFor(Family[fi]) : InDomain(Family[fi], x)}
Emit  == ph = 1 => PrintT(<<"REPLAY", ToJson([field |-> Family[fi].name, v |-> v])>>)

-----------------------------------------------------------------------------
(* The specification checked against itself on every generated case.        *)
F == Family[fi]
\* with no deviation switched on, the implementation-shaped operator is the reference
W == Eff(F, v)
NoDevIsReference == ph = 1 => ReachesDev({}, F, W) = Reaches(F, W)
\* a deviation changes the outcome only on inputs in its trigger
DevOnlyOnTrigger == ph = 1 => \A d \in Devs : (ReachesDev({d}, F, W) # Reaches(F, W)) => Trig(d, F, W)
\* the reference arithmetic against TLC's native integers for small integer cases
SmallInt(x) == x.k = "num" /\ x.scale = 0 /\ Len(x.d) <= 8
NativeHolds(val, n) == LET b == ToInt(BigOfDec(val.b))
                       IN CASE val.kind = "maximum" -> n <= b [] val.kind = "minimum" -> n >= b
                            [] val.kind = "multiple_of" -> (IF n < 0 THEN 0 - n ELSE n) % (IF b < 0 THEN 0 - b ELSE b) = 0
NativeAgreement == (ph = 1 /\ F.cont = "plain" /\ F.T \in IntT /\ SmallInt(v)) =>
                     \A val \in NumVals(F) : (val.b.lit = "int" /\ Len(val.b.d) <= 8) =>
                        (ElemHolds(val, v) <=> NativeHolds(val, ToInt(BigOfDec(v))))
\* byte length against the definition of UTF-8
Utf8Ok == (ph = 1 /\ v.k = "str") => Utf8Len(v.cp) = Cardinality({i \in 1..Len(v.cp) : TRUE})
                                       + Cardinality({i \in 1..Len(v.cp) : v.cp[i] >= 128})
                                       + Cardinality({i \in 1..Len(v.cp) : v.cp[i] >= 2048})
                                       + Cardinality({i \in 1..Len(v.cp) : v.cp[i] >= 65536})
\* i64 / u64 -> f64 conversion (round to nearest, ties to even) at hand-computed points
ASSUME /\ RoundF64(Succ(Two53)) = Two53 /\ RoundF64(Add(Two53, FromInt(2))) = Add(Two53, FromInt(2))
       /\ RoundF64(Add(Two53, FromInt(3))) = Add(Two53, FromInt(4))
       /\ RoundF64(U64Max) = Two64 /\ RoundF64(I64Max) = Two63 /\ RoundF64(I64Min) = I64Min
       /\ RoundF64(Add(Two63, FromInt(1024))) = Two63 /\ RoundF64(Add(Two63, FromInt(1025))) = Add(Two63, FromInt(2048))
       /\ RoundF64(Add(Two63, FromInt(3072))) = Add(Two63, FromInt(4096))
       /\ RoundF64(Negate(Add(Two53, FromInt(3)))) = Negate(Add(Two53, FromInt(4))) /\ RoundF64(FromInt(12345)) = FromInt(12345)
=============================================================================
