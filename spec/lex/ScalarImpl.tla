----------------------------- MODULE ScalarImpl -----------------------------
(***************************************************************************)
(* Implementation-shaped operators for the built-in scalars: what today's  *)
(* is_valid / parse functions compute, transcribed from                    *)
(* src/types/external/*.rs, src/types/id.rs, src/resolver_utils/enum.rs    *)
(* and validation/utils.rs.  Used by ScalarRegistry (mode M) and for drift *)
(* reporting in ScalarsTrace; verdicts never use them.                     *)
(***************************************************************************)
EXTENDS Scalars

GqlName(T) == CASE T \in IntLike -> "Int" [] T \in FloatTypes -> "Float" [] T = "bool" -> "Boolean"
                [] T = "String" -> "String" [] T = "char" -> "Char" [] T = "ID" -> "ID" [] T = "enum" -> "Color"
Names == {GqlName(T) : T \in Types}

\* how serde_json holds a number (Number::is_i64 / is_u64); "-0" and integers outside 64 bits are floats
IsI64(v) == v.k = "int" /\ ~IsNegZero(v) /\ Between(I64Min, v, I64Max)
IsU64(v) == v.k = "int" /\ ~IsNegZero(v) /\ Between(Zero, v, U64Max)
Numeric(v) == v.k \in {"int", "float"}

\* ScalarType::is_valid as written in src/types/external/*.rs, src/types/id.rs; enums: validation/utils.rs
ValidImpl(T, v) ==
  CASE T \in SignedBase \cup NonZeroInts -> IsI64(v)         \* all NonZero types test is_i64, also the unsigned ones
    [] T \in UnsignedBase -> IsU64(v)
    [] T \in FloatTypes   -> Numeric(v)
    [] T = "bool"         -> v.k = "bool"
    [] T \in {"String", "char"} -> v.k = "str"
    [] T = "ID"           -> v.k = "str" \/ IsI64(v)
    [] T = "enum"         -> v.k \in {"enum", "str"} /\ v.cp \in EnumItems
\* ScalarType::parse / parse_enum as written
ParseImpl(T, v) ==
  CASE Base(T) \in SignedBase /\ T \in IntLike   -> IsI64(v) /\ IntInRange(T, v)
    [] Base(T) \in UnsignedBase /\ T \in IntLike -> IsU64(v) /\ IntInRange(T, v)
    [] T \in FloatTypes   -> Numeric(v)                     \* f32: `as f32`, no range check
    [] T = "bool"         -> v.k = "bool"
    [] T = "String"       -> v.k = "str"
    [] T = "char"         -> v.k = "str" /\ Len(v.cp) = 1
    [] T = "ID"           -> v.k = "str" \/ IsI64(v)
    [] T = "enum"         -> v.k \in {"enum", "str"} /\ v.cp \in EnumItems

\* registry contents after Registry::add_system_types (name -> Rust type whose is_valid is stored)
System == [n \in Names |-> CASE n = "Boolean" -> "bool" [] n = "Int" -> "i32" [] n = "Float" -> "f32"
                             [] n = "String" -> "String" [] n = "ID" -> "ID" [] OTHER -> "none"]
\* a value reaches the resolver of an argument of Rust type T under registry r
Pipeline(r, T, v) == ValidImpl(r[GqlName(T)], v) /\ ParseImpl(T, v)
\* the registry any static schema ends with (ScalarRegistry!RegistryFixed: independent of the order)
FinalReg == [System EXCEPT !["Char"] = "char", !["Color"] = "enum"]
=============================================================================
