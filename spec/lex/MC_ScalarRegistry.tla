-------------------------- MODULE MC_ScalarRegistry --------------------------
EXTENDS ScalarRegistry
NegZero == [neg |-> TRUE, d |-> <<0>>]
MCUserTypes == {"u64", "i8", "nz_u64", "usize", "f32", "ID", "enum", "char"}
MCProbe ==
  {IntV(x) : x \in {Pred(I64Min), I64Min, FromInt(-129), FromInt(-1), NegZero, Zero, One, FromInt(256),
                    I64Max, Succ(I64Max), U64Max, Succ(U64Max)}}
  \cup {FloatV(c, 1, <<>>) : c \in InFloatClasses} \cup {StrV(s) : s \in {<<82, 69, 68>>, <<>>, <<97>>}}
  \cup {EnumV(s) : s \in {<<82, 69, 68>>, <<78>>}} \cup {NullV, BoolV(TRUE), ListV("empty"), ObjV("empty")}
=============================================================================
