CONSTANT MaxLen = 5
INIT Init
NEXT Next
INVARIANT TypeOK
INVARIANT LineIsTerminators
INVARIANT ColIsDistance
