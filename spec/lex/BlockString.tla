---------------------------- MODULE BlockString ----------------------------
(***************************************************************************)
(* BlockStringValue(rawValue) of the GraphQL specification (October 2021,  *)
(* section 2.9.4 "String Value", algorithm BlockStringValue), over         *)
(* sequences of code-point classes (property C13).                         *)
(*                                                                         *)
(* A raw block-string body is a sequence of class names.  Only these       *)
(* classes matter here: "Q" (quotation mark), "BS" (backslash), "LF",      *)
(* "CR", "SP", "TAB"; every other class is an ordinary character.          *)
(* The result is again a sequence of classes (the caller maps classes to   *)
(* code points).                                                           *)
(*                                                                         *)
(* parse/utils.rs block_string_value used to deviate (\""" kept verbatim;   *)
(* blanks of a white-space-only line shorter than the common indent kept); *)
(* both were repaired in /repo (0f9d8c5), their switches are deleted and   *)
(* the check demands the algorithm below.  `dev` is kept as a parameter so *)
(* that a future deviation can be named here; BlockDevs is empty.          *)
(***************************************************************************)
EXTENDS Naturals, Sequences, FiniteSets

Blank == {"SP", "TAB"}

\* BlockStringCharacter :: \""" evaluates to """ ; everything else to itself.
RECURSIVE Unescape(_, _, _)
Unescape(r, i, acc) ==
  IF i > Len(r) THEN acc
  ELSE IF r[i] = "BS" /\ i + 3 <= Len(r) /\ r[i + 1] = "Q" /\ r[i + 2] = "Q" /\ r[i + 3] = "Q"
       THEN Unescape(r, i + 4, acc \o <<"Q", "Q", "Q">>)
       ELSE Unescape(r, i + 1, Append(acc, r[i]))

HasEscapedTriple(r) ==
  \E i \in 1..Len(r) : r[i] = "BS" /\ i + 3 <= Len(r) /\ r[i + 1] = "Q" /\ r[i + 2] = "Q" /\ r[i + 3] = "Q"

\* step 1: "Let lines be the result of splitting rawValue by LineTerminator" (LF, CR, CRLF)
RECURSIVE SplitLines(_, _, _, _)
SplitLines(r, i, cur, acc) ==
  IF i > Len(r) THEN Append(acc, cur)
  ELSE IF r[i] = "LF" THEN SplitLines(r, i + 1, <<>>, Append(acc, cur))
  ELSE IF r[i] = "CR" THEN SplitLines(r, IF i < Len(r) /\ r[i + 1] = "LF" THEN i + 2 ELSE i + 1, <<>>, Append(acc, cur))
  ELSE SplitLines(r, i + 1, Append(cur, r[i]), acc)

RECURSIVE Indent(_, _)
Indent(line, i) == IF i <= Len(line) /\ line[i] \in Blank THEN Indent(line, i + 1) ELSE i - 1
IsBlankLine(line) == Indent(line, 1) = Len(line)

\* steps 2-3: commonIndent over all lines but the first that contain a non-blank character ("null" = 0 here:
\* removing 0 characters is the same as not removing anything)
CommonIndent(lines) ==
  LET cand == {Indent(lines[i], 1) : i \in {j \in 2..Len(lines) : ~IsBlankLine(lines[j])}}
  IN IF cand = {} THEN 0 ELSE CHOOSE m \in cand : \A x \in cand : m <= x

Min(a, b) == IF a < b THEN a ELSE b
Dedent(line, ci, dev) == SubSeq(line, Min(ci, Len(line)) + 1, Len(line))

\* steps 4-5: remove leading and trailing blank lines
RECURSIVE DropLeading(_)
DropLeading(ls) == IF ls # <<>> /\ IsBlankLine(ls[1]) THEN DropLeading(Tail(ls)) ELSE ls
RECURSIVE DropTrailing(_)
DropTrailing(ls) == IF ls # <<>> /\ IsBlankLine(ls[Len(ls)]) THEN DropTrailing(SubSeq(ls, 1, Len(ls) - 1)) ELSE ls

\* step 6-7: join with U+000A
RECURSIVE Join(_, _, _)
Join(ls, i, acc) ==
  IF i > Len(ls) THEN acc
  ELSE Join(ls, i + 1, IF i = 1 THEN ls[i] ELSE acc \o <<"LF">> \o ls[i])

BlockStringValueDev(raw, dev) ==
  LET r     == Unescape(raw, 1, <<>>)
      lines == SplitLines(r, 1, <<>>, <<>>)
      ci    == CommonIndent(lines)
      ded   == [i \in 1..Len(lines) |-> IF i = 1 THEN lines[i] ELSE Dedent(lines[i], ci, dev)]
  IN Join(DropTrailing(DropLeading(ded)), 1, <<>>)

BlockStringValue(raw) == BlockStringValueDev(raw, {})

BlockDevs == {}
\* The deviations that show on this raw value (trigger predicates).
BlockDevsUsed(raw, dev) == {d \in dev \cap BlockDevs : BlockStringValueDev(raw, {d}) # BlockStringValue(raw)}

(* Declarative properties of the result, checked by TLC for every block string the lexer     *)
(* automaton of StringLitP can complete (mode M).                                            *)
ValueProps(raw) ==
  LET v  == BlockStringValue(raw)
      ls == SplitLines(v, 1, <<>>, <<>>)
  IN /\ Len(v) <= Len(raw)
     /\ \A i \in 1..Len(v) : v[i] # "CR"                          \* line terminators are normalised
     /\ (v # <<>> => ~IsBlankLine(ls[1]) /\ ~IsBlankLine(ls[Len(ls)]))   \* no blank first / last line
     /\ ~HasEscapedTriple(raw) => (\A i \in 1..Len(v) : v[i] \in {raw[j] : j \in 1..Len(raw)} \cup {"LF"})
=============================================================================
