CONSTANT Runs = {}
CONSTANT LRuns = {}
CONSTANT Chunk = 250
INIT TInit
NEXT TNext
