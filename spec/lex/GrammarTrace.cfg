CONSTANT Alphabet = {}
CONSTANT MaxToks = 0
CONSTANT MaxDefs = 0
CONSTANT Start = "Doc"
CONSTANT Sigma = {}
CONSTANT MaxLen = 0
CONSTANT First = {}
CONSTANT Chunk = 250
INIT TInit
NEXT TNext
