CONSTANT MaxNodes = 3
CONSTANT MaxDepth = 2
CONSTANT MaxWidth = 2
CONSTANT AtomSel = "mixed"
CONSTANT Alphabet = {0, 8, 9, 10, 11, 12, 13, 27, 31, 34, 47, 48, 92, 117, 127, 133, 159, 160, 233, 8232, 65279, 65535, 65536, 128512, 128513, 1114111}
CONSTANT MaxStr = 2
CONSTANT AlphabetLong = {27, 34, 92, 10, 48, 117, 128512, 0}
CONSTANT MaxStrLong = 3
INIT Init
NEXT Next
INVARIANT TypeOK
INVARIANT InvRefReadsBack
INVARIANT InvEscReadsBack
INVARIANT InvDevExact
INVARIANT InvJsonImage
INVARIANT InvKwExact
