------------------------------ MODULE Grammar ------------------------------
(***************************************************************************)
(* The token-level grammar of GraphQL executable documents and type-system  *)
(* documents (October 2021: sections 2.2-2.12 "Document" ... "Directives",  *)
(* 3.x type-system definitions and extensions) as a deterministic push-down *)
(* machine that also builds the syntax tree the document denotes            *)
(* (property C13).                                                          *)
(*                                                                         *)
(* State = prediction stack of grammar items + tokens read so far + flat    *)
(* pre-order syntax tree under construction.  One action = one token.  A    *)
(* state whose stack can be emptied on end-of-input is a valid document     *)
(* together with its tree.  The same transition function `Drive` is used    *)
(*  - mode M/G: as the Next relation of a generator (TLC's BFS enumerates    *)
(*    every valid token sequence up to MaxToks over Alphabet exactly once), *)
(*  - mode V : folded over recorded token sequences as a recogniser         *)
(*    (`Parse`), which decides membership and the expected tree.            *)
(*                                                                         *)
(* Token  : [k, s, raw, g]   (StringLitP.Tok)  k = "p" punctuator, "n" name, *)
(*          "i" int, "f" float, "s" string, "b" block string; g = ignored   *)
(*          tokens before it ("" none, "w" white space, "c" with a comment) *)
(* Item   : <<kind, arg, code>>                                             *)
(*          "N"  nonterminal arg                                            *)
(*          "p"  punctuator arg          "pg" same, inside a Type           *)
(*          "n"  any name (arg = restriction: "", "noton", "nottfn", "loc") *)
(*          "ng" name inside a Type      "nc" the name after `on`           *)
(*          "kw" the name arg            "lit" arg = token kind i / f / str *)
(*          "use" records that deviation arg was exercised                  *)
(*          "act" arg = tree rewrite without a token                        *)
(*          code = what is appended to the tree when the item matches       *)
(* Runs   : one TLC run serves several generator runs <<id, start            *)
(*          nonterminal, MaxToks, MaxDefs>> (whole documents and the         *)
(*          sub-grammars variable definitions / field definition / value /  *)
(*          selection, which the driver wraps into a document).             *)
(* Tree   : sequence of <<k, s, cp>> (kind, name/number text, code points   *)
(*          of a string value), pre-order, with bracket entries.            *)
(*                                                                         *)
(* Deviations of today's parser are named; `dev` is the set switched on.    *)
(* Parse(.., {}) is the GraphQL grammar; Parse(.., AllDevs) is today's       *)
(* graphql.pest + parse/*.rs.  `used` collects the deviations a parse       *)
(* actually exercised (the trigger predicate of each known finding).        *)
(*   DevEmptyVarDefs      `query () { a }` accepted                         *)
(*   DevVarDefOrder       directives before the default value               *)
(*   DevVarDefDirConst    variables inside variable-definition directives   *)
(*   DevTypeAtomic        ignored tokens inside a Type rejected             *)
(*   DevTypeCondAtomic    comment between `on` and the type name            *)
(*   DevFragmentNameOn    `on` accepted as a fragment name                  *)
(*   DevKwPrefix          keyword literals match a prefix of a longer name  *)
(*   DevSchemaDesc        description before `schema` rejected              *)
(*   DevExtIfaceImpl      `extend interface A implements B` rejected        *)
(*   DevNegZero           the IntValue -0 becomes the float -0.0            *)
(* plus BlockString!BlockDevs and StringLitP!LexDevs.                       *)
(***************************************************************************)
EXTENDS StringLitP

GrammarDevs == {"DevEmptyVarDefs", "DevVarDefOrder", "DevVarDefDirConst", "DevTypeAtomic", "DevTypeCondAtomic",
                "DevFragmentNameOn", "DevKwPrefix", "DevSchemaDesc", "DevExtIfaceImpl", "DevNegZero"}
AllDevs == GrammarDevs \cup BlockDevs \cup LexDevs
\* fixed order used to print the deviations of a verdict
DevOrder == <<"DevBlockOpenFallback", "DevLeadingZero", "DevNegZero",
              "DevEmptyVarDefs", "DevVarDefOrder", "DevVarDefDirConst", "DevTypeAtomic", "DevTypeCondAtomic",
              "DevFragmentNameOn", "DevKwPrefix", "DevSchemaDesc", "DevExtIfaceImpl">>

\* ---- tokens -----------------------------------------------------------------------------------------
P(s)      == Tok("p", s, <<>>, "w")
Nm(s)     == Tok("n", s, <<>>, "w")
EOF       == Tok("eof", "", <<>>, "w")
IsP(t, p) == t.k = "p" /\ t.s = p
IsName(t) == t.k = "n"
IsKw(t, w) == t.k = "n" /\ t.s = w
IsStr(t)  == t.k \in {"s", "b"}

OpTypes  == {"query", "mutation", "subscription"}
TFN      == {"true", "false", "null"}
Locations == {"QUERY", "MUTATION", "SUBSCRIPTION", "FIELD", "FRAGMENT_DEFINITION", "FRAGMENT_SPREAD", "INLINE_FRAGMENT",
              "VARIABLE_DEFINITION", "SCHEMA", "SCALAR", "OBJECT", "FIELD_DEFINITION", "ARGUMENT_DEFINITION", "INTERFACE",
              "UNION", "ENUM", "ENUM_VALUE", "INPUT_OBJECT", "INPUT_FIELD_DEFINITION"}
TypeKw   == {"scalar", "type", "interface", "union", "enum", "input"}
SdlKw    == TypeKw \cup {"schema", "directive", "extend"}

\* Names (used by the harness as spellings) that start with a keyword: name |-> <<keyword, rest>>.
\* TLC strings are atomic, so the prefix structure of the test names is tabulated here.
KwSplit == [truex |-> <<"true", "x">>, nullable |-> <<"null", "able">>, falsey |-> <<"false", "y">>,
            queryx |-> <<"query", "x">>, typeT |-> <<"type", "T">>]
HasSplit(t) == t.k = "n" /\ t.s \in DOMAIN KwSplit

\* value denoted by number tokens
IntCanon(s) == IF s = "-0" THEN "0" ELSE s
\* FloatValue denotations are outside TLC's arithmetic: tabulated for the literals of the alphabets, "?" = not compared
FloatVal(s) == CASE s = "1.5" -> "1.5" [] s = "-0.5e1" -> "-5.0" [] s = "1e2" -> "100.0" [] s = "0.0" -> "0.0" [] OTHER -> "?"

\* ---- items ------------------------------------------------------------------------------------------
FAIL       == <<"fail", "", "">>
NT(x)      == <<"N", x, "">>
T(p, code) == <<"p", p, code>>
TG(p, code) == <<"pg", p, code>>
NM(r, code) == <<"n", r, code>>
KW(w, code) == <<"kw", w, code>>
DUSE(d)     == <<"use", d, "">>
ACT(a)     == <<"act", a, "">>

E(k, s) == <<k, s, <<>>>>

\* ---- productions: Prod(X, t, dev) = the items that replace nonterminal X when the next token is t ----
\* (LL(1); "otherwise <<>>" = the optional part is absent; <<FAIL>> = syntax error)
SelSetBody(open) == <<T("{", open), NT("Selection"), NT("SelRest")>>
DirBody(args)    == <<T("@", ""), NM("", "dir"), NT(args)>>
RootBlock        == <<T("{", ""), NT("RootDef"), NT("RootRest")>>
FieldsBody       == <<T("{", "fields{"), NT("FieldDef"), NT("FieldDefRest")>>
MembersBody      == <<T("=", ""), NT("BarOpt"), NM("", "member"), NT("MemberRest")>>
EnumValsBody     == <<T("{", "values{"), NT("EnumVal"), NT("EnumValRest")>>
InFieldsBody     == <<T("{", "infields{"), NT("IVDef"), NT("IVRestBrace")>>
ImplBody         == <<KW("implements", ""), NT("AmpOpt"), NM("", "impl"), NT("ImplRest")>>

ValueProd(t, c, dev) ==     \* c = "" (Value) or "C" (Value[Const])
  CASE IsP(t, "$") /\ c = "" -> <<T("$", ""), NM("", "varref")>>
    [] t.k = "i" -> <<<<"lit", "i", "int">>>>
    [] t.k = "f" -> <<<<"lit", "f", "float">>>>
    [] IsStr(t)  -> <<<<"lit", "str", "str">>>>
    [] IsName(t) /\ t.s \in {"true", "false"} -> <<KW(t.s, "bool")>>
    [] IsKw(t, "null") -> <<KW("null", "null")>>
    [] IsName(t) -> <<NM("", "enum")>>
    [] IsP(t, "[") -> <<T("[", "["), NT(c \o "ListRest")>>
    [] IsP(t, "{") -> <<T("{", "{"), NT(c \o "ObjRest")>>
    [] OTHER -> <<FAIL>>

\* type definitions after an optional description (code = what the keyword appends)
TypeDefProd(t, code, dev, afterDesc) ==
  CASE IsKw(t, "schema") -> IF afterDesc /\ "DevSchemaDesc" \in dev THEN <<DUSE("DevSchemaDesc"), FAIL>>
                            ELSE <<KW("schema", code), NT("CDirsOpt")>> \o RootBlock
    [] IsKw(t, "scalar") -> <<KW("scalar", code), NM("", "name"), NT("CDirsOpt")>>
    [] IsKw(t, "type") \/ IsKw(t, "interface") -> <<KW(t.s, code), NM("", "name"), NT("ImplOpt"), NT("CDirsOpt"), NT("FieldsOpt")>>
    [] IsKw(t, "union") -> <<KW("union", code), NM("", "name"), NT("CDirsOpt"), NT("MembersOpt")>>
    [] IsKw(t, "enum") -> <<KW("enum", code), NM("", "name"), NT("CDirsOpt"), NT("EnumValsOpt")>>
    [] IsKw(t, "input") -> <<KW("input", code), NM("", "name"), NT("CDirsOpt"), NT("InFieldsOpt")>>
    [] IsKw(t, "directive") -> <<KW("directive", code), T("@", ""), NM("", "name"), NT("ArgDefsOpt"), NT("RepeatableOpt"),
                                 KW("on", ""), NT("BarOpt"), NM("loc", "loc"), NT("LocRest")>>
    [] OTHER -> <<FAIL>>

ProdExec(X, t, dev) ==
  CASE
  \* ---------------- executable documents (2.2 Document .. 2.12 Directives); types, values, directives ----------------
       X = "Doc"     -> <<NT("Def"), NT("DocRest")>>
    [] X = "DocRest" -> IF t.k = "eof" THEN <<>> ELSE <<NT("Def"), NT("DocRest")>>
    [] X = "Def" ->
         CASE IsP(t, "{") -> SelSetBody("defop{")
           [] IsName(t) /\ t.s \in OpTypes -> <<KW(t.s, "defop"), NT("OpNameOpt"), NT("VarDefsOpt"), NT("DirsOpt"), NT("SelSet")>>
           [] IsKw(t, "fragment") -> <<KW("fragment", "def"), NM("noton", "frag"), KW("on", ""), <<"nc", "frag", "on">>, NT("DirsOpt"), NT("SelSet")>>
           [] OTHER -> <<FAIL>>
    [] X = "OpNameOpt" -> IF IsName(t) THEN <<NM("", "opname")>> ELSE <<>>
    [] X = "VarDefsOpt" ->
         IF IsP(t, "(") THEN (IF "DevEmptyVarDefs" \in dev THEN <<T("(", ""), NT("VarDefRest0")>> ELSE <<T("(", ""), NT("VarDef"), NT("VarDefRest")>>)
         ELSE <<>>
    [] X = "VarDefRest0" -> IF IsP(t, ")") THEN <<DUSE("DevEmptyVarDefs"), T(")", "")>> ELSE <<NT("VarDef"), NT("VarDefRest")>>
    [] X = "VarDefRest" -> IF IsP(t, ")") THEN <<T(")", "")>> ELSE <<NT("VarDef"), NT("VarDefRest")>>
    \* VariableDefinition : Variable : Type DefaultValue? Directives[Const]?
    [] X = "VarDef" ->
         IF IsP(t, "$") THEN <<T("$", ""), NM("", "var"), T(":", ""), NT("Type"), NT("VDTail")>> ELSE <<FAIL>>
    [] X = "VDTail" ->
         IF IsP(t, "=") THEN <<T("=", "default"), NT("CValue"), NT(IF "DevVarDefOrder" \in dev THEN "VDNoDirs" ELSE "VDDirs")>>
         ELSE IF IsP(t, "@") THEN <<NT("VDDirs"), NT("VDLateDefault")>>
         ELSE <<>>
    [] X = "VDDirs" ->     \* directives of a variable definition (after the default value in the grammar)
         IF ~IsP(t, "@") THEN <<>>
         ELSE IF "DevVarDefDirConst" \in dev THEN DirBody("ArgsOptV") \o <<NT("VDDirs")>>
         ELSE DirBody("CArgsOpt") \o <<NT("VDDirs")>>
    [] X = "VDNoDirs" -> IF IsP(t, "@") THEN <<DUSE("DevVarDefOrder"), FAIL>> ELSE <<>>
    [] X = "VDLateDefault" ->  \* today: `$a: Int @d = 1` is accepted and `$a: Int = 1 @d` is not
         IF IsP(t, "=") THEN (IF "DevVarDefOrder" \in dev THEN <<DUSE("DevVarDefOrder"), ACT("default-before-dirs"), T("=", ""), NT("CValue"), ACT("default-done")>> ELSE <<FAIL>>)
         ELSE <<>>
    [] X = "Type" ->
         CASE IsName(t) -> <<NM("", "named"), NT("BangOpt")>>
           [] IsP(t, "[") -> <<T("[", "list"), NT("TypeIn"), TG("]", "endlist"), NT("BangOpt")>>
           [] OTHER -> <<FAIL>>
    [] X = "TypeIn" ->
         CASE IsName(t) -> <<<<"ng", "", "named">>, NT("BangOpt")>>
           [] IsP(t, "[") -> <<TG("[", "list"), NT("TypeIn"), TG("]", "endlist"), NT("BangOpt")>>
           [] OTHER -> <<FAIL>>
    [] X = "BangOpt" -> IF IsP(t, "!") THEN <<TG("!", "nonnull")>> ELSE <<>>
    [] X = "DefaultOpt" -> IF IsP(t, "=") THEN <<T("=", "default"), NT("CValue")>> ELSE <<>>
    [] X = "DirsOpt"  -> IF IsP(t, "@") THEN DirBody("ArgsOpt") \o <<NT("DirsOpt")>> ELSE <<>>
    [] X = "CDirsOpt" -> IF IsP(t, "@") THEN DirBody("CArgsOpt") \o <<NT("CDirsOpt")>> ELSE <<>>
    [] X = "CDirs1"   -> IF IsP(t, "@") THEN DirBody("CArgsOpt") \o <<NT("CDirsOpt")>> ELSE <<FAIL>>
    [] X = "ArgsOpt"  -> IF IsP(t, "(") THEN <<T("(", ""), NT("Arg"), NT("ArgRest")>> ELSE <<>>
    [] X = "ArgRest"  -> IF IsP(t, ")") THEN <<T(")", "")>> ELSE <<NT("Arg"), NT("ArgRest")>>
    [] X = "Arg"      -> IF IsName(t) THEN <<NM("", "arg"), T(":", ""), NT("Value")>> ELSE <<FAIL>>
    [] X = "CArgsOpt" -> IF IsP(t, "(") THEN <<T("(", ""), NT("CArg"), NT("CArgRest")>> ELSE <<>>
    [] X = "CArgRest" -> IF IsP(t, ")") THEN <<T(")", "")>> ELSE <<NT("CArg"), NT("CArgRest")>>
    [] X = "CArg"     -> IF IsName(t) THEN <<NM("", "arg"), T(":", ""), NT("CValue")>> ELSE <<FAIL>>
    \* today's variable-definition directives take non-constant arguments
    [] X = "ArgsOptV" -> IF IsP(t, "(") THEN <<T("(", ""), NT("ArgV"), NT("ArgRestV")>> ELSE <<>>
    [] X = "ArgRestV" -> IF IsP(t, ")") THEN <<T(")", "")>> ELSE <<NT("ArgV"), NT("ArgRestV")>>
    [] X = "ArgV"     -> IF IsName(t) THEN <<NM("", "arg"), T(":", ""), NT("ValueV")>> ELSE <<FAIL>>
    [] X = "ValueV"   -> IF IsP(t, "$") THEN <<DUSE("DevVarDefDirConst"), T("$", ""), NM("", "varref")>>
                         ELSE IF IsP(t, "[") THEN <<T("[", "["), NT("VListRest")>>
                         ELSE IF IsP(t, "{") THEN <<T("{", "{"), NT("VObjRest")>>
                         ELSE ValueProd(t, "C", dev)
    [] X = "VListRest" -> IF IsP(t, "]") THEN <<T("]", "]")>> ELSE <<NT("ValueV"), NT("VListRest")>>
    [] X = "VObjRest"  -> IF IsP(t, "}") THEN <<T("}", "}")>> ELSE IF IsName(t) THEN <<NM("", "key"), T(":", ""), NT("ValueV"), NT("VObjRest")>> ELSE <<FAIL>>
    [] X = "Value"    -> ValueProd(t, "", dev)
    [] X = "CValue"   -> ValueProd(t, "C", dev)
    [] X = "ListRest"  -> IF IsP(t, "]") THEN <<T("]", "]")>> ELSE <<NT("Value"), NT("ListRest")>>
    [] X = "CListRest" -> IF IsP(t, "]") THEN <<T("]", "]")>> ELSE <<NT("CValue"), NT("CListRest")>>
    [] X = "ObjRest"   -> IF IsP(t, "}") THEN <<T("}", "}")>> ELSE IF IsName(t) THEN <<NM("", "key"), T(":", ""), NT("Value"), NT("ObjRest")>> ELSE <<FAIL>>
    [] X = "CObjRest"  -> IF IsP(t, "}") THEN <<T("}", "}")>> ELSE IF IsName(t) THEN <<NM("", "key"), T(":", ""), NT("CValue"), NT("CObjRest")>> ELSE <<FAIL>>
    [] X = "SelSet"    -> IF IsP(t, "{") THEN SelSetBody("sel{") ELSE <<FAIL>>
    [] X = "SelSetOpt" -> IF IsP(t, "{") THEN SelSetBody("sel{") ELSE <<>>
    [] X = "SelRest"   -> IF IsP(t, "}") THEN <<T("}", "}sel")>> ELSE <<NT("Selection"), NT("SelRest")>>
    \* Field : Alias? Name Arguments? Directives? SelectionSet?     (Alias : Name `:`)
    [] X = "Selection" ->
         CASE IsName(t) -> <<NM("", "field"), NT("AliasOpt"), NT("ArgsOpt"), NT("DirsOpt"), NT("SelSetOpt")>>
           [] IsP(t, "...") -> <<T("...", ""), NT("FragTail")>>
           [] OTHER -> <<FAIL>>
    [] X = "AliasOpt" -> IF IsP(t, ":") THEN <<T(":", ""), NM("", "realias")>> ELSE <<>>
    \* FragmentSpread : ... FragmentName Directives?   (FragmentName : Name but not `on`)
    \* InlineFragment : ... TypeCondition? Directives? SelectionSet
    [] X = "FragTail" ->
         CASE IsKw(t, "on") -> IF "DevFragmentNameOn" \in dev \/ "DevTypeCondAtomic" \in dev
                               THEN <<KW("on", "inline"), NT("AfterOnDev")>>
                               ELSE <<KW("on", "inline"), NM("", "on"), NT("DirsOpt"), NT("SelSet")>>
           [] IsName(t) -> <<NM("", "spread"), NT("DirsOpt")>>
           [] IsP(t, "@") -> <<T("@", "inline"), NM("", "dir"), NT("ArgsOpt"), NT("DirsOpt"), NT("SelSet")>>
           [] IsP(t, "{") -> SelSetBody("inline{")
           [] OTHER -> <<FAIL>>
    \* today: type_condition = ${ "on" ~ WHITESPACE+ ~ name }; when it does not match, `on` is a fragment name
    [] X = "AfterOnDev" ->
         IF IsName(t) /\ ~(t.g = "c" /\ "DevTypeCondAtomic" \in dev) THEN <<NM("", "on"), NT("DirsOpt"), NT("SelSet")>>
         ELSE IF IsName(t) THEN <<DUSE("DevTypeCondAtomic"), ACT("unspread"), NT("DirsOpt")>>
         ELSE IF "DevFragmentNameOn" \in dev THEN <<DUSE("DevFragmentNameOn"), ACT("unspread"), NT("DirsOpt")>>
         ELSE <<FAIL>>

ProdSdl(X, t, dev) ==
  CASE
  \* ---------------- type-system documents (3 Type System, 3.3 .. 3.13) ----------------
       X = "SDoc"     -> <<NT("SDef"), NT("SDocRest")>>
    [] X = "SDocRest" -> IF t.k = "eof" THEN <<>> ELSE <<NT("SDef"), NT("SDocRest")>>
    [] X = "SDef" ->
         CASE IsStr(t) -> <<<<"lit", "str", "defdesc">>, NT("SDefAfterDesc")>>
           [] IsKw(t, "extend") -> <<KW("extend", "defextend"), NT("SExt")>>
           [] OTHER -> TypeDefProd(t, "defkind", dev, FALSE)
    [] X = "SDefAfterDesc" -> TypeDefProd(t, "kind", dev, TRUE)
    [] X = "SExt" ->
         CASE IsKw(t, "schema") -> <<KW("schema", "kind"), NT("ExtSchemaTail")>>
           [] IsKw(t, "scalar") -> <<KW("scalar", "kind"), NM("", "name"), NT("CDirs1")>>
           [] IsKw(t, "type")   -> <<KW("type", "kind"), NM("", "name"), NT("ExtObjTail")>>
           [] IsKw(t, "interface") -> <<KW("interface", "kind"), NM("", "name"), NT("ExtIfaceTail")>>
           [] IsKw(t, "union")  -> <<KW("union", "kind"), NM("", "name"), NT("ExtUnionTail")>>
           [] IsKw(t, "enum")   -> <<KW("enum", "kind"), NM("", "name"), NT("ExtEnumTail")>>
           [] IsKw(t, "input")  -> <<KW("input", "kind"), NM("", "name"), NT("ExtInTail")>>
           [] OTHER -> <<FAIL>>
    [] X = "ExtSchemaTail" -> IF IsP(t, "@") THEN <<NT("CDirs1"), NT("RootBlockOpt")>> ELSE IF IsP(t, "{") THEN RootBlock ELSE <<FAIL>>
    [] X = "RootBlockOpt"  -> IF IsP(t, "{") THEN RootBlock ELSE <<>>
    [] X = "RootDef" -> IF IsName(t) /\ t.s \in OpTypes
                        THEN <<KW(t.s, ""), T(":", ""), NM("", CASE t.s = "query" -> "rootq" [] t.s = "mutation" -> "rootm" [] OTHER -> "roots")>>
                        ELSE <<FAIL>>
    [] X = "RootRest" -> IF IsP(t, "}") THEN <<T("}", "")>> ELSE <<NT("RootDef"), NT("RootRest")>>
    \* ObjectTypeExtension / InterfaceTypeExtension: at least one of implements / directives / fields
    [] X = "ExtObjTail" ->
         CASE IsKw(t, "implements") -> ImplBody \o <<NT("ExtObjTail2")>>
           [] IsP(t, "@") -> <<NT("CDirs1"), NT("FieldsOpt")>>
           [] IsP(t, "{") -> FieldsBody
           [] OTHER -> <<FAIL>>
    [] X = "ExtObjTail2" ->
         CASE IsP(t, "@") -> <<NT("CDirs1"), NT("FieldsOpt")>>
           [] IsP(t, "{") -> FieldsBody
           [] OTHER -> <<>>
    [] X = "ExtIfaceTail" ->
         CASE IsKw(t, "implements") -> ImplBody \o <<NT("ExtIfaceTail2")>>
           [] IsP(t, "@") -> <<NT("CDirs1"), NT("FieldsOpt")>>
           [] IsP(t, "{") -> FieldsBody
           [] OTHER -> <<FAIL>>
    [] X = "ExtIfaceTail2" ->   \* today: `extend interface A implements B` needs directives or fields as well
         CASE IsP(t, "@") -> <<NT("CDirs1"), NT("FieldsOpt")>>
           [] IsP(t, "{") -> FieldsBody
           [] OTHER -> IF "DevExtIfaceImpl" \in dev THEN <<DUSE("DevExtIfaceImpl"), FAIL>> ELSE <<>>
    [] X = "ExtUnionTail" -> IF IsP(t, "@") THEN <<NT("CDirs1"), NT("MembersOpt")>> ELSE IF IsP(t, "=") THEN MembersBody ELSE <<FAIL>>
    [] X = "ExtEnumTail"  -> IF IsP(t, "@") THEN <<NT("CDirs1"), NT("EnumValsOpt")>> ELSE IF IsP(t, "{") THEN EnumValsBody ELSE <<FAIL>>
    [] X = "ExtInTail"    -> IF IsP(t, "@") THEN <<NT("CDirs1"), NT("InFieldsOpt")>> ELSE IF IsP(t, "{") THEN InFieldsBody ELSE <<FAIL>>
    [] X = "ImplOpt"  -> IF IsKw(t, "implements") THEN ImplBody ELSE <<>>
    [] X = "AmpOpt"   -> IF IsP(t, "&") THEN <<T("&", "")>> ELSE <<>>
    [] X = "ImplRest" -> IF IsP(t, "&") THEN <<T("&", ""), NM("", "impl"), NT("ImplRest")>> ELSE <<>>
    [] X = "FieldsOpt" -> IF IsP(t, "{") THEN FieldsBody ELSE <<>>
    [] X = "FieldDef" ->
         IF IsStr(t) THEN <<<<"lit", "str", "desc">>, NT("FieldDef1")>>
         ELSE IF IsName(t) THEN <<NM("", "fdef"), NT("ArgDefsOpt"), T(":", ""), NT("Type"), NT("CDirsOpt")>> ELSE <<FAIL>>
    [] X = "FieldDef1" -> IF IsName(t) THEN <<NM("", "fdef"), NT("ArgDefsOpt"), T(":", ""), NT("Type"), NT("CDirsOpt")>> ELSE <<FAIL>>
    [] X = "FieldDefRest" -> IF IsP(t, "}") THEN <<T("}", "}fields")>> ELSE <<NT("FieldDef"), NT("FieldDefRest")>>
    [] X = "ArgDefsOpt" -> IF IsP(t, "(") THEN <<T("(", "args("), NT("IVDef"), NT("IVRestParen")>> ELSE <<>>
    [] X = "IVDef" ->
         IF IsStr(t) THEN <<<<"lit", "str", "desc">>, NT("IVDef1")>>
         ELSE IF IsName(t) THEN <<NM("", "ivdef"), T(":", ""), NT("Type"), NT("DefaultOpt"), NT("CDirsOpt")>> ELSE <<FAIL>>
    [] X = "IVDef1" -> IF IsName(t) THEN <<NM("", "ivdef"), T(":", ""), NT("Type"), NT("DefaultOpt"), NT("CDirsOpt")>> ELSE <<FAIL>>
    [] X = "IVRestParen" -> IF IsP(t, ")") THEN <<T(")", ")args")>> ELSE <<NT("IVDef"), NT("IVRestParen")>>
    [] X = "IVRestBrace" -> IF IsP(t, "}") THEN <<T("}", "}infields")>> ELSE <<NT("IVDef"), NT("IVRestBrace")>>
    [] X = "MembersOpt" -> IF IsP(t, "=") THEN MembersBody ELSE <<>>
    [] X = "BarOpt"     -> IF IsP(t, "|") THEN <<T("|", "")>> ELSE <<>>
    [] X = "MemberRest" -> IF IsP(t, "|") THEN <<T("|", ""), NM("", "member"), NT("MemberRest")>> ELSE <<>>
    [] X = "EnumValsOpt" -> IF IsP(t, "{") THEN EnumValsBody ELSE <<>>
    \* EnumValue : Name but not true, false or null
    [] X = "EnumVal" ->
         IF IsStr(t) THEN <<<<"lit", "str", "desc">>, NM("nottfn", "evalue"), NT("CDirsOpt")>>
         ELSE IF IsName(t) THEN <<NM("nottfn", "evalue"), NT("CDirsOpt")>> ELSE <<FAIL>>
    [] X = "EnumValRest" -> IF IsP(t, "}") THEN <<T("}", "}values")>> ELSE <<NT("EnumVal"), NT("EnumValRest")>>
    [] X = "InFieldsOpt" -> IF IsP(t, "{") THEN InFieldsBody ELSE <<>>
    [] X = "RepeatableOpt" -> IF IsKw(t, "repeatable") THEN <<KW("repeatable", "repeatable")>> ELSE <<>>
    [] X = "LocRest" -> IF IsP(t, "|") THEN <<T("|", ""), NM("loc", "loc"), NT("LocRest")>> ELSE <<>>

ExecNT == {"Doc", "DocRest", "Def", "OpNameOpt", "VarDefsOpt", "VarDefRest0", "VarDefRest", "VarDef", "VDTail", 
           "VDDirs", "VDNoDirs", "VDLateDefault", "Type", "TypeIn", "BangOpt", "DefaultOpt", "DirsOpt", "CDirsOpt", 
           "CDirs1", "ArgsOpt", "ArgRest", "Arg", "CArgsOpt", "CArgRest", "CArg", "ArgsOptV", "ArgRestV", "ArgV", 
           "ValueV", "VListRest", "VObjRest", "Value", "CValue", "ListRest", "CListRest", "ObjRest", "CObjRest", 
           "SelSet", "SelSetOpt", "SelRest", "Selection", "AliasOpt", "FragTail", "AfterOnDev"}
\* nonterminals shared by both grammars (types, constant values, constant directives) are in ProdExec
Prod(X, t, dev) == IF X \in ExecNT THEN ProdExec(X, t, dev) ELSE ProdSdl(X, t, dev)

\* keyword literals that today's grammar matches without a word boundary, per nonterminal
KwAt(X) ==
  CASE X \in {"Value", "CValue", "ValueV"} -> TFN
    [] X = "Def" -> OpTypes \cup {"fragment"}
    [] X \in {"SDef", "SDefAfterDesc", "SExt"} -> SdlKw
    [] OTHER -> {}

\* ---- tree construction ---------------------------------------------------------------------------------
Roots == {"rootq", "rootm", "roots"}
RECURSIVE TrailingRoots(_, _)
TrailingRoots(ast, i) == IF i >= 1 /\ ast[i][1] \in Roots THEN TrailingRoots(ast, i - 1) ELSE i   \* index before the run
\* root operation types of one schema definition form a set: kept in the order query, mutation, subscription
InsertRoot(ast, e) ==
  LET b   == TrailingRoots(ast, Len(ast))
      run == Append(SubSeq(ast, b + 1, Len(ast)), e)
      pick(k) == SelectSeq(run, LAMBDA x : x[1] = k)
  IN SubSeq(ast, 1, b) \o pick("rootq") \o pick("rootm") \o pick("roots")

LastIdx(ast, k) == CHOOSE i \in 1..Len(ast) : ast[i][1] = k /\ \A j \in (i + 1)..Len(ast) : ast[j][1] # k

EmitTree(item, t, ast, dev) ==
  LET code == item[3]
      s == IF item[1] \in {"n", "ng", "nc"} THEN t.s
           ELSE IF item[1] = "kw" /\ code \in {"bool", "kind", "defkind"} THEN t.s
           ELSE IF code = "int" THEN IntCanon(t.s)
           ELSE IF code = "float" THEN FloatVal(t.s) ELSE ""
      cp == IF IsStr(t) THEN StrTokVal(t, dev) ELSE <<>>
  IN CASE code = "" -> ast
       [] code = "realias" -> SubSeq(ast, 1, Len(ast) - 1) \o <<E("field", t.s), E("alias", ast[Len(ast)][2])>>
       [] code = "opname"  -> [ast EXCEPT ![Len(ast)] = E("opname", t.s)]
       [] code = "defop"   -> ast \o <<E("def", ""), E("op", t.s), E("opname", "")>>
       [] code = "defop{"  -> ast \o <<E("def", ""), E("op", "query"), E("opname", ""), E("sel{", "")>>
       [] code = "defdesc" -> ast \o <<E("def", ""), <<"desc", "", cp>>>>
       [] code = "defextend" -> ast \o <<E("def", ""), E("extend", "")>>
       [] code = "defkind" -> ast \o <<E("def", ""), E("kind", t.s)>>
       [] code = "inline{" -> ast \o <<E("inline", ""), E("sel{", "")>>
       [] code \in Roots   -> InsertRoot(ast, E(code, t.s))
       [] code = "int" /\ t.s = "-0" /\ "DevNegZero" \in dev -> Append(ast, E("float", "-0.0"))
       [] OTHER -> Append(ast, <<code, s, cp>>)

\* tree rewrites that need no token
Act(a, ast) ==
  CASE a = "unspread" -> [ast EXCEPT ![Len(ast)] = E("spread", "on")]      \* `... on` was a spread of the fragment named on
    \* today's order `$a: T @d = v`: the tree is the same as for `$a: T = v @d` (default before directives);
    \* the directives already emitted are moved behind the default value
    [] a = "default-before-dirs" -> Append(ast, E("default-mark", ""))
    [] a = "default-done" ->
         LET m  == LastIdx(ast, "default-mark")
             v  == LastIdx(ast, "var")
             \* entries of this variable: var, type..., dirs..., mark, value...
             firstDir == CHOOSE i \in (v + 1)..m : (ast[i][1] = "dir" \/ i = m) /\ \A j \in (v + 1)..(i - 1) : ast[j][1] # "dir"
         IN SubSeq(ast, 1, firstDir - 1) \o <<E("default", "")>> \o SubSeq(ast, m + 1, Len(ast)) \o SubSeq(ast, firstDir, m - 1)

\* ---- the transition function -----------------------------------------------------------------------------
Reject(used) == [ok |-> FALSE, stack |-> <<>>, ast |-> <<>>, used |-> used, item |-> FAIL]

NameAllowed(r, t, dev) ==
  CASE r = "noton"  -> t.s # "on" \/ "DevFragmentNameOn" \in dev
    [] r = "nottfn" -> t.s \notin TFN
    [] r = "loc"    -> t.s \in Locations
    [] OTHER        -> TRUE

Matches(item, t, dev) ==
  CASE item[1] \in {"p", "pg"} -> IsP(t, item[2])
    [] item[1] = "n"  -> IsName(t) /\ NameAllowed(item[2], t, dev)
    [] item[1] \in {"ng", "nc"} -> IsName(t)
    [] item[1] = "kw" -> IsKw(t, item[2])
    [] item[1] = "lit" -> IF item[2] = "str" THEN IsStr(t) ELSE t.k = item[2]
    [] OTHER -> FALSE

\* deviations exercised by matching this item with this token (beyond Prod's USE items)
MatchUsed(item, t, dev) ==
  (IF item[1] = "n" /\ item[2] = "noton" /\ t.s = "on" THEN {"DevFragmentNameOn"} ELSE {})
  \cup (IF item[1] = "lit" /\ item[2] = "str" THEN StrTokUsed(t, dev) ELSE {})
  \cup (IF item[3] = "int" /\ t.s = "-0" /\ "DevNegZero" \in dev THEN {"DevNegZero"} ELSE {})

\* today's atomic rules: no ignored tokens inside a Type, no comment between `on` and the type name,
\* enum values / values that merely start with true, false, null
DevBlocks(item, t, dev) ==
  IF item[1] \in {"pg", "ng"} /\ t.g # "" /\ "DevTypeAtomic" \in dev THEN {"DevTypeAtomic"}
  ELSE IF item[1] = "nc" /\ t.g = "c" /\ "DevTypeCondAtomic" \in dev THEN {"DevTypeCondAtomic"}
  ELSE IF item[1] = "n" /\ item[2] = "nottfn" /\ "DevKwPrefix" \in dev /\ HasSplit(t) /\ KwSplit[t.s][1] \in TFN THEN {"DevKwPrefix"}
  ELSE {}

RECURSIVE Drive(_, _, _, _, _)
Drive(stack, ast, used, t, dev) ==
  IF stack = <<>> THEN (IF t.k = "eof" THEN [ok |-> TRUE, stack |-> <<>>, ast |-> ast, used |-> used, item |-> FAIL] ELSE Reject(used))
  ELSE LET top == TLCEval(stack[1]) rest == TLCEval(Tail(stack)) IN
    CASE top[1] = "N" ->
           IF "DevKwPrefix" \in dev /\ HasSplit(t) /\ KwSplit[t.s][1] \in KwAt(top[2])
           THEN \* the keyword literal matches the prefix; the rest of the name is read as the next token
                LET r1 == TLCEval(Drive(stack, ast, used \cup {"DevKwPrefix"}, Tok("n", KwSplit[t.s][1], <<>>, t.g), dev))
                IN IF r1.ok THEN Drive(r1.stack, r1.ast, r1.used, Tok("n", KwSplit[t.s][2], <<>>, ""), dev) ELSE r1
           ELSE Drive(TLCEval(Prod(top[2], t, dev) \o rest), ast, used, t, dev)
      [] top[1] = "use" -> Drive(rest, ast, TLCEval(used \cup {top[2]}), t, dev)
      [] top[1] = "act" -> Drive(rest, TLCEval(Act(top[2], ast)), used, t, dev)
      [] top[1] = "fail" -> Reject(used)
      [] OTHER ->
           IF ~Matches(top, t, dev) THEN Reject(used)
           ELSE IF DevBlocks(top, t, dev) # {} THEN Reject(used \cup DevBlocks(top, t, dev))
           ELSE [ok |-> TRUE, stack |-> rest, ast |-> EmitTree(top, t, ast, dev), used |-> used \cup MatchUsed(top, t, dev), item |-> top]

\* run pending end-of-input work: the document is complete iff the stack empties on EOF
AtEnd(st, dev) == IF st.ok THEN Drive(st.stack, st.ast, st.used, EOF, dev) ELSE st

StartState(start) == [ok |-> TRUE, stack |-> <<NT(start)>>, ast |-> <<>>, used |-> {}, item |-> FAIL]
RECURSIVE ParseFrom(_, _, _, _)
ParseFrom(st, toks, i, dev) ==
  IF ~st.ok THEN st
  ELSE IF i > Len(toks) THEN AtEnd(st, dev)
  ELSE ParseFrom(TLCEval(Drive(st.stack, st.ast, st.used, toks[i], dev)), toks, i + 1, dev)   \* TLCEval: TLC must not re-evaluate lazily
\* Parse(toks, start, dev) = [ok, ast, used]    start = "Doc" (executable) | "SDoc" (type system)
Parse(toks, start, dev) == ParseFrom(StartState(start), toks, 1, dev)

\* ---- what parse_query / parse_schema add to the grammar (documented error variants of parser::Error) -----
RECURSIVE SplitDefs(_, _, _, _)
SplitDefs(ast, i, cur, acc) ==
  IF i > Len(ast) THEN (IF cur = <<>> THEN acc ELSE Append(acc, cur))
  ELSE IF ast[i][1] = "def" THEN SplitDefs(ast, i + 1, <<ast[i]>>, IF cur = <<>> THEN acc ELSE Append(acc, cur))
  ELSE SplitDefs(ast, i + 1, Append(cur, ast[i]), acc)
Defs(ast) == SplitDefs(ast, 1, <<>>, <<>>)

\* 5.2.1.1 operation name uniqueness, 5.2.2.1 lone anonymous operation, 5.5.1.1 fragment name uniqueness,
\* and "at least one operation" (ExecutableDocument stores operations and fragments in maps keyed by name)
ExecWellFormed(ast) ==
  LET ds  == Defs(ast)
      ops == {i \in 1..Len(ds) : ds[i][2][1] = "op"}
      frs == {i \in 1..Len(ds) : ds[i][2][1] = "frag"}
  IN /\ ops # {}
     /\ (\E i \in ops : ds[i][3][2] = "") => Cardinality(ops) = 1
     /\ \A i, j \in ops : i # j => ds[i][3][2] # ds[j][3][2]
     /\ \A i, j \in frs : i # j => ds[i][2][2] # ds[j][2][2]
\* 3.3 schema: each root operation type once; a (non-extension) schema definition names the query root
SdlWellFormed(ast) ==
  LET ds == Defs(ast) IN
  \A i \in 1..Len(ds) :
    LET d == ds[i] IN
      (\E j \in 1..Len(d) : d[j] = E("kind", "schema")) =>
        /\ \A j \in 1..(Len(d) - 1) : d[j][1] \in Roots => d[j + 1][1] # d[j][1]
        /\ (d[2] # E("extend", "") => \E j \in 1..Len(d) : d[j][1] = "rootq")

\* Documented deviation of the property: "selection sets nest at most 64 levels deep".  Counted as parse_selection_set /
\* MAX_RECURSION_DEPTH count it: the selection set of an operation or fragment definition is level 0 and every field or
\* inline fragment (with or without type condition) that opens a selection set adds one level.  A document whose nesting
\* is <= NestingLimit must be accepted, one whose nesting exceeds it must be rejected (GrammarTrace!Agrees).
NestingLimit == 64
RECURSIVE DepthScan(_, _, _, _)
DepthScan(ast, i, d, m) ==
  IF i > Len(ast) THEN m
  ELSE IF ast[i][1] = "sel{" THEN DepthScan(ast, i + 1, d + 1, IF d + 1 > m THEN d + 1 ELSE m)
  ELSE IF ast[i][1] = "}sel" THEN DepthScan(ast, i + 1, d - 1, m)
  ELSE DepthScan(ast, i + 1, d, m)
MaxSelDepth(ast) == DepthScan(ast, 1, 0, 0)          \* selection sets open at once, the outermost included
SelNesting(ast) == IF MaxSelDepth(ast) = 0 THEN 0 ELSE MaxSelDepth(ast) - 1

\* lexical rule the renderer must respect when it leaves no ignored token between two tokens
NeedsSep(a, b) ==
  \/ a.k \in {"n", "i", "f"} /\ b.k \in {"n", "i", "f"}
  \/ a.k \in {"i", "f"} /\ IsP(b, "...")
  \/ IsStr(a) /\ IsStr(b)

\* ---- alphabets of the generator runs (string tokens carry a label in s; the grammar never looks at it) ----
StrS1 == Tok("s", "s1", <<"a", "BS", "n", "BS", "u", "0", "0", "e", "9">>, "w")              \* "a\n\u00e9"
BlkB1 == Tok("b", "b1", <<"LF", "SP", "SP", "a", "LF", "SP", "SP", "SP", "b", "LF">>, "w")    \* -> "a\n b"
Puncts(ps) == {P(p) : p \in ps}
Names(ns)  == {Nm(n) : n \in ns}
AlphaExecSmall == Puncts({"{", "}", "(", ")", ":", "...", "@", "$", "[", "]", "=", "!"}) \cup Names({"a", "on", "query", "fragment"})
                  \cup {Tok("i", "1", <<>>, "w")}
AlphaExec == AlphaExecSmall \cup Names({"b", "true", "null"}) \cup {Tok("f", "1.5", <<>>, "w"), Tok("i", "-0", <<>>, "w"), StrS1, BlkB1}
AlphaSdlSmall == Puncts({"{", "}", "(", ")", ":", "@", "[", "]", "=", "!", "&", "|"})
                 \cup Names({"a", "schema", "extend", "scalar", "type", "interface", "union", "enum", "input", "directive",
                            "implements", "repeatable", "on", "query", "mutation", "FIELD", "ENUM"})
                 \cup {StrS1}
\* sub-grammar generators (Start = a nonterminal; the driver wraps the fragment into a complete document)
AlphaVarDefs  == Puncts({"(", ")", "$", ":", "[", "]", "!", "=", "@"}) \cup Names({"a"}) \cup {Tok("i", "1", <<>>, "w")}
AlphaFieldDef == Puncts({"(", ")", ":", "[", "]", "!", "=", "@"}) \cup Names({"a"}) \cup {Tok("i", "1", <<>>, "w"), StrS1}
AlphaValue    == Puncts({"[", "]", "{", "}", ":", "$"}) \cup Names({"a", "true", "null"})
                 \cup {Tok("i", "1", <<>>, "w"), Tok("i", "-0", <<>>, "w"), Tok("f", "1.5", <<>>, "w"), StrS1, BlkB1}
AlphaSel      == Puncts({"{", "}", "(", ")", ":", "...", "@", "$"}) \cup Names({"a", "b", "on"}) \cup {Tok("i", "1", <<>>, "w")}
AlphaSdl == AlphaSdlSmall \cup Names({"b", "true"}) \cup {Tok("i", "1", <<>>, "w"), BlkB1}

AlphaOf(id) ==
  CASE id = "exec" -> AlphaExec [] id = "sdl" -> AlphaSdl [] id = "vardefs" -> AlphaVarDefs [] id = "fielddef" -> AlphaFieldDef
    [] id = "value" -> AlphaValue [] id = "sel" -> AlphaSel
RunsM        == {<<"exec", "Doc", 6, 2>>, <<"sdl", "SDoc", 5, 2>>, <<"vardefs", "VarDefsOpt", 8, 0>>, <<"value", "Value", 4, 0>>}
RunsQuick    == {<<"exec", "Doc", 8, 2>>, <<"sdl", "SDoc", 6, 2>>, <<"vardefs", "VarDefsOpt", 12, 0>>, <<"fielddef", "FieldDef", 10, 0>>,
                 <<"value", "Value", 5, 0>>, <<"sel", "Selection", 8, 0>>}
RunsThorough == {<<"exec", "Doc", 10, 2>>, <<"sdl", "SDoc", 8, 2>>, <<"vardefs", "VarDefsOpt", 14, 0>>, <<"fielddef", "FieldDef", 12, 0>>,
                 <<"value", "Value", 6, 0>>, <<"sel", "Selection", 9, 0>>}

--------------------------------------------------------------------------------
(* State machine (modes M and G).                                              *)
CONSTANT Runs        \* the generator runs of this TLC run: a set of <<id, start nonterminal, MaxToks, MaxDefs>> (alphabet: AlphaOf(id))
\* The generator puts only these names where the grammar allows any Name; keywords are generated in keyword
\* positions only (the harness respells a / b as keywords and other names, and mode V judges the actual tokens).
PlainNames == {"a", "b"}
VARIABLES stack, toks, ast, run        \* run: the <<id, start, MaxToks, MaxDefs>> this behaviour belongs to
gvars == <<stack, toks, ast, run>>

\* lower bound of the tokens still needed to empty the stack (prunes prefixes that cannot complete in MaxToks)
NeedNT(x) ==
  CASE x \in {"Doc", "Def", "SelSet"} -> 3
    [] x \in {"Arg", "CArg", "ArgV", "FieldDef", "FieldDef1", "IVDef", "IVDef1", "RootDef", "SExt"} -> 3
    [] x = "VarDef" -> 4
    [] x \in {"SDoc", "SDef", "SDefAfterDesc", "CDirs1", "ExtSchemaTail", "ExtObjTail", "ExtIfaceTail", "ExtUnionTail", "ExtEnumTail", "ExtInTail"} -> 2
    [] x \in {"Selection", "SelRest", "VarDefRest", "VarDefRest0", "Type", "TypeIn", "ArgRest", "CArgRest", "ArgRestV", "Value", "CValue",
              "ValueV", "ListRest", "CListRest", "VListRest", "ObjRest", "CObjRest", "VObjRest", "FragTail", "RootRest", "FieldDefRest",
              "IVRestParen", "IVRestBrace", "EnumVal", "EnumValRest"} -> 1
    [] OTHER -> 0
RECURSIVE Need(_, _)
Need(s, i) == IF i > Len(s) THEN 0 ELSE (IF s[i][1] = "N" THEN NeedNT(s[i][2]) ELSE IF s[i][1] \in {"use", "act"} THEN 0 ELSE 1) + Need(s, i + 1)

\* (text, ls are the variables of the lexer automaton of StringLitP; they do not move here)
Count(seq, Pr(_)) == Cardinality({i \in 1..Len(seq) : Pr(seq[i])})
GInit == run \in Runs /\ stack = <<NT(run[2])>> /\ toks = <<>> /\ ast = <<>> /\ LIdle
Step(t) ==
  LET r == TLCEval(Drive(stack, ast, {}, t, {})) IN
    /\ Len(toks) < run[3]
    /\ r.ok
    /\ (t.k = "n" /\ r.item[1] \in {"n", "ng", "nc"} /\ r.item[2] # "loc") => t.s \in PlainNames
    /\ Count(r.ast, LAMBDA e : e[1] = "def") <= run[4]
    /\ Len(toks) + 1 + Need(r.stack, 1) <= run[3]
    /\ stack' = r.stack /\ ast' = r.ast /\ toks' = Append(toks, t) /\ UNCHANGED <<lvars, run>>
GNext == \E t \in AlphaOf(run[1]) : Step(t)
GSpec == GInit /\ [][GNext]_gvars

Complete == toks # <<>> /\ Drive(stack, ast, {}, EOF, {}).ok

\* -- invariants (mode M) -----------------------------------------------------------------------------------
Opens(s)  == s \in {"{", "(", "["}
Closes(s) == s \in {"}", ")", "]"}
\* punctuator brackets never close more than was opened, and are balanced in complete documents
BracketsBalanced ==
  LET o == Count(toks, LAMBDA t : t.k = "p" /\ Opens(t.s))
      c == Count(toks, LAMBDA t : t.k = "p" /\ Closes(t.s))
  IN c <= o /\ (Complete => c = o)
\* the tree has the same property for its own bracket entries
TreeOpen  == {"sel{", "[", "{", "list", "args(", "fields{", "values{", "infields{"}
TreeClose == {"}sel", "]", "}", "endlist", ")args", "}fields", "}values", "}infields"}
TreeBalanced ==
  LET o == Count(ast, LAMBDA e : e[1] \in TreeOpen)
      c == Count(ast, LAMBDA e : e[1] \in TreeClose)
  IN c <= o /\ (Complete => c = o)
\* every token adds at most four entries and every name / literal token of a complete document is in the tree
TreeSize == Len(ast) <= 4 * Len(toks)
NamesKept ==
  Complete => Count(toks, LAMBDA t : t.k \in {"i", "f", "s", "b"}) = Count(ast, LAMBDA e : e[1] \in {"int", "float", "str", "desc"})
\* the recogniser (fold from the start) and the generator (step by step) agree, with the same tree
FoldAgrees == LET r == Parse(toks, run[2], {}) IN Complete = (toks # <<>> /\ r.ok) /\ (Complete => r.ast = Drive(stack, ast, {}, EOF, {}).ast)
\* Need is a lower bound: a complete state needs nothing more
NeedSound == Complete => Need(stack, 1) = 0
\* the ideal grammar never exercises a deviation
NoDevUsed == Parse(toks, run[2], {}).used = {}
\* today's grammar differs from the GraphQL grammar only where a named deviation is recorded as exercised
DevsAccounted == LET i == Parse(toks, run[2], {}) d == Parse(toks, run[2], AllDevs)
                 IN d.used = {} => (d.ok = i.ok /\ d.ast = i.ast)
\* every definition starts with a "def" entry: the tree of a complete document splits into its definitions
DefsSplit == Complete /\ run[2] \in {"Doc", "SDoc"} => Len(Defs(ast)) >= 1 /\ ast[1][1] = "def"

\* mode G: print every complete document once
\* (a bare string: TLC's pretty printer wraps long tuples over several lines)
GEmit == Complete => PrintT("REPLAY|" \o run[1] \o "|" \o JoinStr([i \in 1..Len(toks) |-> toks[i].k \o ":" \o toks[i].s], 1, ""))

=============================================================================
