----------------------------- MODULE Gen_JsHtml -----------------------------
(* Mode G for C34: print every reachable (slot, configured value) of JsHtml   *)
(* once.                                                                      *)
EXTENDS JsHtml, Json
Emit == PrintT(<<"REPLAY", ToJson([slot |-> slot, val |-> val])>>)
=============================================================================
