CONSTANT UserTypes <- MCUserTypes
CONSTANT Probe <- MCProbe
INIT RInit
NEXT RNext
INVARIANT RegistryFixed
INVARIANT DeviationsExplained
INVARIANT TriggersTight
