\* mode M: every viable token prefix of the runs RunsM (executable <=6 tokens, type system <=5, variable definitions, values)
CONSTANT Runs <- RunsM
CONSTANT LRuns = {}
INIT GInit
NEXT GNext
INVARIANT BracketsBalanced
INVARIANT TreeBalanced
INVARIANT TreeSize
INVARIANT NamesKept
INVARIANT FoldAgrees
INVARIANT NeedSound
INVARIANT NoDevUsed
INVARIANT DefsSplit
INVARIANT DevsAccounted
