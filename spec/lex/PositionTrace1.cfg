CONSTANT MaxLen = 0
CONSTANT Chunk = 100000000
INIT TInit
NEXT TNext
