----------------------------- MODULE SerdeModel -----------------------------
(***************************************************************************)
(* Property C16: a Rust value converted to a GraphQL value (to_value) and  *)
(* back (from_value) is an equal value, across the serde data model.       *)
(*                                                                         *)
(* Three layers, all as uniform nodes [k, s, b, xs, fs] (s: text of a      *)
(* number / string / variant name, b: bytes, xs: children, fs: entries     *)
(* [key, val]):                                                            *)
(*  - TERMS of the serde data model (https://serde.rs/data-model.html):    *)
(*      unit ustruct true false int float str bytes none some seq tuple    *)
(*      tstruct map struct newtype uvar nvar tvar svar                     *)
(*    A Rust value of a fixed type IS such a term (what it presents to a   *)
(*    Serializer).  Integers and floats are decimal texts (TLC has 32-bit  *)
(*    integers and no floats); floats also "nan", "inf", "-inf".           *)
(*  - TYPES [k, w, ts, fs]: the type-directed side of Deserialize.         *)
(*  - VALUES of GraphQL: null true false int float str enum binary list obj*)
(*                                                                         *)
(* ToValue(term) is the value a self-describing, null-based format must    *)
(* produce (externally tagged enums as single-key objects, unit-like terms *)
(* as null, non-finite floats as null).  Decode(ty, v) is the reference    *)
(* type-directed deserializer.  The LAW (checked by TLC in mode M for all  *)
(* typed terms of the family up to a depth):                               *)
(*      Representable(x) =>  Decode(ty, ToValue(x)) = Canon(x)             *)
(*     ~Representable(x) => ~Decode(ty, ToValue(x)).ok                     *)
(* where Canon states, without reference to Decode, what a null-based      *)
(* format cannot carry: Some(x) whose image is null comes back as None     *)
(* (Some(None), Some(()), Some(NaN)); and Representable excludes a         *)
(* non-finite float that is not absorbed by an enclosing Option.  This is  *)
(* the reading of "without loss" fixed in DESIGN.md section 5 C16, and it  *)
(* is cross-checked against serde_json at run time.                        *)
(***************************************************************************)
EXTENDS Integers, Sequences, FiniteSets, TLC, Json

Node(k, s, b, xs, fs) == [k |-> k, s |-> s, b |-> b, xs |-> xs, fs |-> fs]
Leaf(k, s) == Node(k, s, <<>>, <<>>, <<>>)
Kids(k, s, xs) == Node(k, s, <<>>, xs, <<>>)
Ents(k, s, fs) == Node(k, s, <<>>, <<>>, fs)
E(key, val) == [key |-> key, val |-> val]

NonFinite == {"nan", "inf", "-inf"}

--------------------------------------------------------------------------------
(* Types.                                                                     *)
Ty(k, w, ts, fs) == [k |-> k, w |-> w, ts |-> ts, fs |-> fs]
TUnit == Ty("unit", "", <<>>, <<>>)            TUStruct == Ty("ustruct", "", <<>>, <<>>)
TBool == Ty("bool", "", <<>>, <<>>)            TStr == Ty("str", "", <<>>, <<>>)
TBytes == Ty("bytes", "", <<>>, <<>>)
TInt(w) == Ty("int", w, <<>>, <<>>)            TFloat(w) == Ty("float", w, <<>>, <<>>)
TOpt(t) == Ty("option", "", <<t>>, <<>>)       TSeq(t) == Ty("seq", "", <<t>>, <<>>)
TMap(t) == Ty("map", "", <<t>>, <<>>)          TNewtype(t) == Ty("newtype", "", <<t>>, <<>>)
TTuple(ts) == Ty("tuple", "", ts, <<>>)        TTStruct(ts) == Ty("tstruct", "", ts, <<>>)
TStruct(fs) == Ty("struct", "", <<>>, fs)      \* fs: <<E(name, type)>>
TEnum(vs) == Ty("enum", "", <<>>, vs)          \* vs: <<E(name, form)>>, form = VUnit | VNew(t) | VTup(ts) | VStruct(fs)
TUntagged(ts) == Ty("untagged", "", ts, <<>>)  \* #[serde(untagged)]: newtype variants tried in order
TITagged(tag, vs) == Ty("itagged", tag, <<>>, vs)   \* #[serde(tag = ..)]: vs: <<E(name, VStruct(fs))>> (VStruct(<<>>) for a unit variant)
TKeyMap(keys, t) == Ty("keymap", "", <<t>>, [i \in 1..Len(keys) |-> E(keys[i], TUnit)])   \* map keyed by unit variants
TSkipOpt(t) == Ty("skipopt", "", <<t>>, <<>>)  \* Option field with skip_serializing_if = "Option::is_none" + default: None is left out
TFlatten(fs, t) == Ty("flatten", "", <<t>>, fs) \* struct with #[serde(flatten)] rest: map of t; presents itself as a map
TAdj(vs) == Ty("adjacent", "", <<>>, vs)       \* #[serde(tag = "t", content = "c")]: vs: <<E(name, form)>>
VUnit == Ty("vunit", "", <<>>, <<>>)           VNew(t) == Ty("vnewtype", "", <<t>>, <<>>)
VTup(ts) == Ty("vtuple", "", ts, <<>>)         VStruct(fs) == Ty("vstruct", "", <<>>, fs)

(* The family (mirrored by hand in harness/vh/src/bin/c16.rs; the harness   *)
(* builds every term through the Rust type and re-serialises it, so a       *)
(* mismatch between the mirror and the Rust type is a tool error).          *)
TyE == TEnum(<< E("U", VUnit), E("N", VNew(TInt("i32"))), E("O", VNew(TOpt(TInt("i32")))), E("Z", VNew(TUnit)),
                E("T", VTup(<<TInt("i32"), TStr>>)), E("S", VStruct(<<E("a", TBool), E("b", TOpt(TStr))>>)) >>)
TyWrap == TNewtype(TOpt(TStr))
TyPair == TTStruct(<<TInt("i32"), TStr>>)
Family == <<
  E("Ints",    TStruct(<<E("a", TInt("i8")), E("b", TInt("i16")), E("c", TInt("i32")), E("d", TInt("i64"))>>)),
  E("Uints",   TStruct(<<E("a", TInt("u8")), E("b", TInt("u16")), E("c", TInt("u32")), E("d", TInt("u64"))>>)),
  E("Floats",  TStruct(<<E("x", TFloat("f32")), E("y", TFloat("f64")), E("z", TOpt(TFloat("f64")))>>)),
  E("UnitS",   TUStruct),
  E("Wrap",    TyWrap),
  E("Pair",    TyPair),
  E("E",       TyE),
  E("Opt2",    TOpt(TOpt(TInt("i32")))),
  E("OptUnit", TOpt(TUnit)),
  E("Tup",     TTuple(<<TBool, TUnit, TOpt(TInt("u8"))>>)),
  E("MapE",    TMap(TyE)),
  E("MapOpt",  TMap(TOpt(TInt("i32")))),
  E("Keyed",   TKeyMap(<<"Ka", "Kb">>, TStr)),
  E("SeqE",    TSeq(TyE)),
  E("SeqOpt",  TSeq(TOpt(TBool))),
  E("HasBytes", TStruct(<<E("data", TBytes), E("name", TStr)>>)),
  E("Outer",   TStruct(<<E("id", TInt("u64")), E("e", TyE), E("w", TyWrap), E("list", TSeq(TyPair)),
                         E("o", TOpt(TNewtype(TFloat("f64"))))>>)),
  E("Un",      TUntagged(<<TInt("i32"), TStr, TStruct(<<E("x", TBool)>>)>>)),
  E("It",      TITagged("t", <<E("A", VStruct(<<E("x", TInt("i32"))>>)), E("B", VStruct(<<>>))>>)),
  E("Nest",    TEnum(<<E("W", VNew(TyE)), E("R", VNew(TEnum(<<E("Ok", VNew(TInt("u8"))), E("Err", VNew(TStr))>>))),
                       E("P", VNew(TyPair))>>)),
  E("One",     TTuple(<<TInt("i32")>>)),
  E("Arr",     TTuple(<<TInt("u8"), TInt("u8"), TInt("u8")>>)),
  E("MapUnit", TMap(TUnit)),
  E("MapOpt2", TMap(TOpt(TOpt(TBool)))),
  E("Skip",    TStruct(<<E("a", TInt("i32")), E("b", TSkipOpt(TStr)), E("c", TOpt(TBool))>>)),
  E("Flat",    TFlatten(<<E("id", TInt("u8"))>>, TInt("i32"))),
  E("Adj",     TAdj(<<E("A", VNew(TInt("i32"))), E("B", VStruct(<<E("x", TBool)>>)), E("C", VUnit), E("D", VTup(<<TBool, TStr>>))>>))
>>
TypeNamed(n) == (CHOOSE i \in 1..Len(Family) : Family[i].key = n)
TypeOf(n) == Family[TypeNamed(n)].val

--------------------------------------------------------------------------------
(* Atoms per scalar type.                                                     *)
IntEdges(w) ==
  CASE w = "i8"  -> {"-128", "0", "127"}
    [] w = "i16" -> {"-32768", "-1", "32767"}
    [] w = "i32" -> {"-2147483648", "7", "2147483647"}
    [] w = "i64" -> {"-9223372036854775808", "9007199254740993", "9223372036854775807"}
    [] w = "u8"  -> {"0", "255"}
    [] w = "u16" -> {"1", "65535"}
    [] w = "u32" -> {"0", "4294967295"}
    [] w = "u64" -> {"0", "9223372036854775808", "18446744073709551615"}
\* float texts are in Rust's `{:e}` spelling of the double (f32 widened to f64), so that text equality is value equality
FloatEdges(w) ==
  IF w = "f32" THEN {"0e0", "-2.5e-1", "3.4028234663852886e38", "nan"}
  ELSE {"0e0", "-1.5e0", "1e-1", "1.7976931348623157e308", "5e-324", "nan", "inf", "-inf"}
StrAtoms == {"", "a", "x y"}

Dec(d) == IF d > 0 THEN d - 1 ELSE 0

RECURSIVE SeqProd(_, _)
SeqProd(sets, i) == IF i > Len(sets) THEN {<<>>} ELSE {<<x>> \o r : x \in sets[i], r \in SeqProd(sets, i + 1)}
UpTo2(S) == {<<>>} \cup {<<x>> : x \in S} \cup {<<x, y>> : x \in S, y \in S}

(* All terms of a type down to depth d.  At d = 0 scalars have one default,  *)
(* options are None and collections are empty, which bounds the products.    *)
(* Structs, tuples, enums, sequences and maps use up one level; Option and   *)
(* newtype wrappers do not.                                                   *)
RECURSIVE TermsOf(_, _), FieldTerms(_, _), VariantTerms(_, _, _)
Present(fs) == SelectSeq(fs, LAMBDA e : e.val.k # "absent")
FieldTerms(fs, d) ==    \* sequences of entries, one per declared field (a skipped None is left out)
  {Present([i \in 1..Len(fs) |-> E(fs[i].key, vals[i])]) : vals \in SeqProd([i \in 1..Len(fs) |-> TermsOf(fs[i].val, d)], 1)}
VariantTerms(name, form, d) ==
  CASE form.k = "vunit"    -> {Leaf("uvar", name)}
    [] form.k = "vnewtype" -> {Kids("nvar", name, <<x>>) : x \in TermsOf(form.ts[1], d)}
    [] form.k = "vtuple"   -> {Kids("tvar", name, xs) : xs \in SeqProd([i \in 1..Len(form.ts) |-> TermsOf(form.ts[i], d)], 1)}
    [] form.k = "vstruct"  -> {Ents("svar", name, fs) : fs \in FieldTerms(form.fs, d)}
TermsOf(ty, d) ==
  CASE ty.k = "unit"    -> {Leaf("unit", "")}
    [] ty.k = "ustruct" -> {Leaf("ustruct", "")}
    [] ty.k = "bool"    -> IF d = 0 THEN {Leaf("true", "")} ELSE {Leaf("true", ""), Leaf("false", "")}
    [] ty.k = "int"     -> IF d = 0 THEN {Leaf("int", "1")} ELSE {Leaf("int", s) : s \in IntEdges(ty.w)}
    [] ty.k = "float"   -> IF d = 0 THEN {Leaf("float", "1e0")} ELSE {Leaf("float", s) : s \in FloatEdges(ty.w)}
    [] ty.k = "str"     -> IF d = 0 THEN {Leaf("str", "s")} ELSE {Leaf("str", s) : s \in StrAtoms}
    [] ty.k = "bytes"   -> IF d = 0 THEN {Node("bytes", "", <<1>>, <<>>, <<>>)}
                           ELSE {Node("bytes", "", <<>>, <<>>, <<>>), Node("bytes", "", <<0, 255>>, <<>>, <<>>)}
    [] ty.k = "option"  -> {Leaf("none", "")} \cup (IF d = 0 THEN {} ELSE {Kids("some", "", <<x>>) : x \in TermsOf(ty.ts[1], d)})
    [] ty.k = "seq"     -> IF d = 0 THEN {Kids("seq", "", <<>>)} ELSE {Kids("seq", "", xs) : xs \in UpTo2(TermsOf(ty.ts[1], d - 1))}
    [] ty.k = "map"     -> IF d = 0 THEN {Ents("map", "", <<>>)}
                           ELSE LET S == TermsOf(ty.ts[1], d - 1) IN
                                {Ents("map", "", <<>>)} \cup {Ents("map", "", <<E("k", x)>>) : x \in S}
                                \cup {Ents("map", "", <<E("a b", x), E("k", y)>>) : x \in S, y \in S}
    [] ty.k = "keymap"  -> IF d = 0 THEN {Ents("map", "", <<>>)}
                           ELSE LET S == TermsOf(ty.ts[1], d - 1) IN
                                {Ents("map", "", <<>>)} \cup {Ents("map", "", <<E(ty.fs[2].key, x)>>) : x \in S}
                                \cup {Ents("map", "", <<E(ty.fs[1].key, x), E(ty.fs[2].key, y)>>) : x \in S, y \in S}
    [] ty.k = "newtype" -> {Kids("newtype", "", <<x>>) : x \in TermsOf(ty.ts[1], d)}
    [] ty.k = "tuple"   -> {Kids("tuple", "", xs) : xs \in SeqProd([i \in 1..Len(ty.ts) |-> TermsOf(ty.ts[i], Dec(d))], 1)}
    [] ty.k = "tstruct" -> {Kids("tstruct", "", xs) : xs \in SeqProd([i \in 1..Len(ty.ts) |-> TermsOf(ty.ts[i], Dec(d))], 1)}
    [] ty.k = "struct"  -> {Ents("struct", "", fs) : fs \in FieldTerms(ty.fs, Dec(d))}
    [] ty.k = "enum"    -> UNION {VariantTerms(ty.fs[i].key, ty.fs[i].val, Dec(d)) : i \in 1..Len(ty.fs)}
    [] ty.k = "skipopt" -> {Leaf("absent", "")} \cup (IF d = 0 THEN {} ELSE {Kids("some", "", <<x>>) : x \in TermsOf(ty.ts[1], d)})
    [] ty.k = "flatten" -> LET S == TermsOf(ty.ts[1], Dec(d))
                               R == {<<>>} \cup (IF d = 0 THEN {} ELSE {<<E("k", x)>> : x \in S} \cup {<<E("a b", x), E("k", y)>> : x \in S, y \in S})
                           IN {Ents("map", "", fs \o r) : fs \in FieldTerms(ty.fs, Dec(d)), r \in R}
    [] ty.k = "adjacent" -> UNION {
                              (LET name == ty.fs[i].key
                                  form == ty.fs[i].val
                                  tag == E("t", Leaf("uvar", name)) IN
                              CASE form.k = "vunit"    -> {Ents("struct", "", <<tag>>)}
                                [] form.k = "vnewtype" -> {Ents("struct", "", <<tag, E("c", x)>>) : x \in TermsOf(form.ts[1], Dec(d))}
                                [] form.k = "vtuple"   -> {Ents("struct", "", <<tag, E("c", Kids("tuple", "", xs))>>) :
                                                             xs \in SeqProd([j \in 1..Len(form.ts) |-> TermsOf(form.ts[j], Dec(d))], 1)}
                                [] form.k = "vstruct"  -> {Ents("struct", "", <<tag, E("c", Ents("struct", "", fs))>>) : fs \in FieldTerms(form.fs, Dec(d))})
                              : i \in 1..Len(ty.fs)}
    [] ty.k = "untagged" -> UNION {TermsOf(ty.ts[i], d) : i \in 1..Len(ty.ts)}
    [] ty.k = "itagged" -> UNION {{Ents("struct", "", <<E(ty.w, Leaf("str", ty.fs[i].key))>> \o fs) : fs \in FieldTerms(ty.fs[i].val.fs, Dec(d))}
                                  : i \in 1..Len(ty.fs)}

--------------------------------------------------------------------------------
(* ToValue: the GraphQL value of a term.                                      *)
VNull == Leaf("null", "")
RECURSIVE ToValue(_)
ToValue(x) ==
  CASE x.k \in {"unit", "ustruct", "none"} -> VNull
    [] x.k \in {"true", "false", "int", "str"} -> x
    [] x.k = "float" -> IF x.s \in NonFinite THEN VNull ELSE x
    [] x.k = "bytes" -> Node("binary", "", x.b, <<>>, <<>>)
    [] x.k \in {"some", "newtype"} -> ToValue(x.xs[1])
    [] x.k \in {"seq", "tuple", "tstruct"} -> Kids("list", "", [i \in 1..Len(x.xs) |-> ToValue(x.xs[i])])
    [] x.k \in {"map", "struct"} -> Ents("obj", "", [i \in 1..Len(x.fs) |-> E(x.fs[i].key, ToValue(x.fs[i].val))])
    [] x.k = "uvar" -> Leaf("str", x.s)
    [] x.k = "nvar" -> Ents("obj", "", <<E(x.s, ToValue(x.xs[1]))>>)
    [] x.k = "tvar" -> Ents("obj", "", <<E(x.s, Kids("list", "", [i \in 1..Len(x.xs) |-> ToValue(x.xs[i])]))>>)
    [] x.k = "svar" -> Ents("obj", "", <<E(x.s, Ents("obj", "", [i \in 1..Len(x.fs) |-> E(x.fs[i].key, ToValue(x.fs[i].val))]))>>)

(* What a null-based format identifies, stated on terms alone.                *)
RECURSIVE Canon(_)
Canon(x) ==
  IF x.k = "some" THEN (LET c == Canon(x.xs[1]) IN IF ToValue(c).k = "null" THEN Leaf("none", "") ELSE Kids("some", "", <<c>>))
  ELSE Node(x.k, x.s, x.b, [i \in 1..Len(x.xs) |-> Canon(x.xs[i])], [i \in 1..Len(x.fs) |-> E(x.fs[i].key, Canon(x.fs[i].val))])

\* a non-finite float that no enclosing Option absorbs cannot come back (it is null, and null is not a number)
RECURSIVE Lost(_)
Lost(x) ==
  CASE x.k = "float" -> x.s \in NonFinite
    [] x.k = "some"  -> IF ToValue(x.xs[1]).k = "null" THEN FALSE ELSE Lost(x.xs[1])
    [] OTHER -> (\E i \in 1..Len(x.xs) : Lost(x.xs[i])) \/ (\E i \in 1..Len(x.fs) : Lost(x.fs[i].val))
Representable(x) == ~Lost(x)

--------------------------------------------------------------------------------
(* Decode: the reference type-directed deserializer from GraphQL values.      *)
DFail == [ok |-> FALSE, term |-> Leaf("unit", "")]
DOk(x) == [ok |-> TRUE, term |-> x]
Find(fs, key) == IF \E i \in 1..Len(fs) : fs[i].key = key THEN (CHOOSE i \in 1..Len(fs) : fs[i].key = key) ELSE 0
AllOk(rs) == \A i \in 1..Len(rs) : rs[i].ok
TermsIn(rs) == [i \in 1..Len(rs) |-> rs[i].term]

RECURSIVE Decode(_, _), DecodeFields(_, _), FirstOk(_, _, _)
\* struct-like: every declared field, in declared order; an absent Option field is None; unknown keys are ignored
DecodeFields(fs, v) ==
  LET rs == [i \in 1..Len(fs) |->
               LET j == Find(v.fs, fs[i].key) IN
               IF fs[i].val.k = "skipopt" THEN
                    (IF j = 0 \/ v.fs[j].val.k = "null" THEN DOk(Leaf("absent", ""))
                     ELSE LET r == Decode(fs[i].val.ts[1], v.fs[j].val) IN IF r.ok THEN DOk(Kids("some", "", <<r.term>>)) ELSE DFail)
               ELSE IF j # 0 THEN Decode(fs[i].val, v.fs[j].val)
               ELSE IF fs[i].val.k = "option" THEN DOk(Leaf("none", "")) ELSE DFail]
  IN IF v.k = "obj" /\ AllOk(rs) THEN DOk(Present([i \in 1..Len(fs) |-> E(fs[i].key, rs[i].term)])) ELSE DFail
FirstOk(ts, v, i) == IF i > Len(ts) THEN DFail ELSE LET r == Decode(ts[i], v) IN IF r.ok THEN r ELSE FirstOk(ts, v, i + 1)
Decode(ty, v) ==
  CASE ty.k = "unit"    -> IF v.k = "null" THEN DOk(Leaf("unit", "")) ELSE DFail
    [] ty.k = "ustruct" -> IF v.k = "null" THEN DOk(Leaf("ustruct", "")) ELSE DFail
    [] ty.k = "bool"    -> IF v.k \in {"true", "false"} THEN DOk(v) ELSE DFail
    [] ty.k = "int"     -> IF v.k = "int" THEN DOk(v) ELSE DFail          \* range not modelled: typed terms are in range
    [] ty.k = "float"   -> IF v.k = "float" THEN DOk(v) ELSE DFail
    [] ty.k = "str"     -> IF v.k \in {"str", "enum"} THEN DOk(Leaf("str", v.s)) ELSE DFail
    [] ty.k = "bytes"   -> IF v.k = "binary" THEN DOk(Node("bytes", "", v.b, <<>>, <<>>)) ELSE DFail
    [] ty.k = "option"  -> IF v.k = "null" THEN DOk(Leaf("none", ""))
                           ELSE LET r == Decode(ty.ts[1], v) IN IF r.ok THEN DOk(Kids("some", "", <<r.term>>)) ELSE DFail
    [] ty.k = "newtype" -> LET r == Decode(ty.ts[1], v) IN IF r.ok THEN DOk(Kids("newtype", "", <<r.term>>)) ELSE DFail
    [] ty.k = "seq"     -> LET rs == [i \in 1..Len(v.xs) |-> Decode(ty.ts[1], v.xs[i])] IN
                           IF v.k = "list" /\ AllOk(rs) THEN DOk(Kids("seq", "", TermsIn(rs))) ELSE DFail
    [] ty.k \in {"tuple", "tstruct"} ->
                           IF v.k # "list" \/ Len(v.xs) # Len(ty.ts) THEN DFail
                           ELSE LET rs == [i \in 1..Len(ty.ts) |-> Decode(ty.ts[i], v.xs[i])] IN
                                IF AllOk(rs) THEN DOk(Kids(ty.k, "", TermsIn(rs))) ELSE DFail
    [] ty.k = "map"     -> LET rs == [i \in 1..Len(v.fs) |-> Decode(ty.ts[1], v.fs[i].val)] IN
                           IF v.k = "obj" /\ AllOk(rs) THEN DOk(Ents("map", "", [i \in 1..Len(v.fs) |-> E(v.fs[i].key, rs[i].term)])) ELSE DFail
    [] ty.k = "keymap"  -> LET rs == [i \in 1..Len(v.fs) |-> Decode(ty.ts[1], v.fs[i].val)] IN
                           IF v.k = "obj" /\ AllOk(rs) /\ \A i \in 1..Len(v.fs) : Find(ty.fs, v.fs[i].key) # 0
                           THEN DOk(Ents("map", "", [i \in 1..Len(v.fs) |-> E(v.fs[i].key, rs[i].term)])) ELSE DFail
    [] ty.k = "struct"  -> LET r == DecodeFields(ty.fs, v) IN IF r.ok THEN DOk(Ents("struct", "", r.term)) ELSE DFail
    [] ty.k = "enum"    ->
         IF v.k \in {"str", "enum"} THEN
              (LET ju == Find(ty.fs, v.s) IN IF ju # 0 /\ ty.fs[ju].val.k = "vunit" THEN DOk(Leaf("uvar", v.s)) ELSE DFail)
         ELSE IF v.k # "obj" \/ Len(v.fs) # 1 THEN DFail
         ELSE LET name == v.fs[1].key
                  p == v.fs[1].val
                  je == Find(ty.fs, name) IN
              IF je = 0 THEN DFail
              ELSE LET form == ty.fs[je].val IN
                   (CASE form.k = "vunit" -> IF p.k = "null" THEN DOk(Leaf("uvar", name)) ELSE DFail
                     [] form.k = "vnewtype" -> LET r == Decode(form.ts[1], p) IN IF r.ok THEN DOk(Kids("nvar", name, <<r.term>>)) ELSE DFail
                     [] form.k = "vtuple" -> IF p.k # "list" \/ Len(p.xs) # Len(form.ts) THEN DFail
                                             ELSE LET rs == [i \in 1..Len(form.ts) |-> Decode(form.ts[i], p.xs[i])] IN
                                                  IF AllOk(rs) THEN DOk(Kids("tvar", name, TermsIn(rs))) ELSE DFail
                     [] form.k = "vstruct" -> LET r == DecodeFields(form.fs, p) IN IF r.ok THEN DOk(Ents("svar", name, r.term)) ELSE DFail)
    [] ty.k = "flatten" ->
         LET r == DecodeFields(ty.fs, v)
             rest == SelectSeq(v.fs, LAMBDA e : Find(ty.fs, e.key) = 0)
             rs == [i \in 1..Len(rest) |-> Decode(ty.ts[1], rest[i].val)] IN
         IF r.ok /\ AllOk(rs) THEN DOk(Ents("map", "", r.term \o [i \in 1..Len(rest) |-> E(rest[i].key, rs[i].term)])) ELSE DFail
    [] ty.k = "adjacent" ->
         IF v.k # "obj" THEN DFail
         ELSE LET jt == Find(v.fs, "t")
                  jc == Find(v.fs, "c") IN
              IF jt = 0 THEN DFail
              ELSE IF v.fs[jt].val.k \notin {"str", "enum"} THEN DFail
              ELSE LET ja == Find(ty.fs, v.fs[jt].val.s) IN
                   IF ja = 0 THEN DFail
                   ELSE LET form == ty.fs[ja].val
                            tag == E("t", Leaf("uvar", ty.fs[ja].key))
                            p == IF jc = 0 THEN VNull ELSE v.fs[jc].val IN
                        (CASE form.k = "vunit" -> IF jc = 0 \/ p.k = "null" THEN DOk(Ents("struct", "", <<tag>>)) ELSE DFail
                           [] form.k = "vnewtype" -> IF jc = 0 THEN DFail
                                                     ELSE LET r == Decode(form.ts[1], p) IN
                                                          IF r.ok THEN DOk(Ents("struct", "", <<tag, E("c", r.term)>>)) ELSE DFail
                           [] form.k = "vtuple" -> IF jc = 0 \/ p.k # "list" \/ Len(p.xs) # Len(form.ts) THEN DFail
                                                   ELSE LET rs == [i \in 1..Len(form.ts) |-> Decode(form.ts[i], p.xs[i])] IN
                                                        IF AllOk(rs) THEN DOk(Ents("struct", "", <<tag, E("c", Kids("tuple", "", TermsIn(rs)))>>)) ELSE DFail
                           [] form.k = "vstruct" -> IF jc = 0 THEN DFail
                                                    ELSE LET r == DecodeFields(form.fs, p) IN
                                                         IF r.ok THEN DOk(Ents("struct", "", <<tag, E("c", Ents("struct", "", r.term))>>)) ELSE DFail)
    [] ty.k = "untagged" -> FirstOk(ty.ts, v, 1)
    [] ty.k = "itagged" ->
         IF v.k # "obj" THEN DFail
         ELSE LET jt == Find(v.fs, ty.w) IN
              IF jt = 0 THEN DFail
              ELSE IF v.fs[jt].val.k \notin {"str", "enum"} THEN DFail
              ELSE LET jv == Find(ty.fs, v.fs[jt].val.s) IN
                   IF jv = 0 THEN DFail
                   ELSE LET r == DecodeFields(ty.fs[jv].val.fs, v) IN
                        IF r.ok THEN DOk(Ents("struct", "", <<E(ty.w, Leaf("str", ty.fs[jv].key))>> \o r.term)) ELSE DFail

--------------------------------------------------------------------------------
(* The law, and the enumeration.  There is no behaviour over time here: the   *)
(* "state machine" is the set of typed terms, each an initial state.          *)
CONSTANTS Depth,        \* depth of generated terms
          Types         \* names of the family members to enumerate
VARIABLE cur            \* [ty |-> name, term |-> term]
Init == cur \in UNION {{[ty |-> n, term |-> x] : x \in TermsOf(TypeOf(n), Depth)} : n \in Types}
Next == UNCHANGED cur

Law(ty, x) ==
  LET r == Decode(ty, ToValue(x)) IN
  IF Representable(x) THEN r = DOk(Canon(x)) ELSE ~r.ok
InvLaw == Law(TypeOf(cur.ty), cur.term)
\* identification only ever turns Some into None; it is idempotent; finite data without Some is untouched
InvCanon == /\ Canon(Canon(cur.term)) = Canon(cur.term)
            /\ ToValue(Canon(cur.term)) = ToValue(cur.term)
\* the value of a term never contains a non-GraphQL kind
RECURSIVE IsValue(_)
IsValue(v) == /\ v.k \in {"null", "true", "false", "int", "float", "str", "binary", "list", "obj"}
              /\ \A i \in 1..Len(v.xs) : IsValue(v.xs[i])
              /\ \A i \in 1..Len(v.fs) : IsValue(v.fs[i].val)
InvValue == IsValue(ToValue(cur.term))

Emit == PrintT(<<"REPLAY", ToJson(cur)>>)
=============================================================================
