--------------------------- MODULE ValidatorsTrace ---------------------------
(* Mode V for C08: every recorded execution is judged with Validators!Verdict *)
(* (resolver reached <=> every stated predicate holds under exact arithmetic; *)
(* otherwise an error for that field).  One step per case, never blocks.      *)
EXTENDS Validators, TLC, Json, IOUtils

ASSUME TLCSet(7, ndJsonDeserialize(IOEnv.TRACE))
Cases == TLCGet(7)
CONSTANT Chunk
VARIABLE l

TInit == l \in {i \in 1..Len(Cases) : i % Chunk = 1 \/ Chunk = 1}
TNext == /\ l <= Len(Cases)
         /\ LET c == Cases[l]
                r == Verdict(c)
            IN PrintT(<<"VERDICT", c.id, r[1], r[2]>>)
         /\ l % Chunk # 0
         /\ l' = l + 1
=============================================================================
