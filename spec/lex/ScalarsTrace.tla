---------------------------- MODULE ScalarsTrace ----------------------------
(* Mode V for C07: every recorded observation of the real scalar mappings is  *)
(* judged with the reference operators of Scalars.tla (Verdict).  One step    *)
(* per case, never blocks; several workers via chunked initial states.        *)
EXTENDS ScalarImpl, TLC, Json, IOUtils

\* The file is read once (a plain definition would be re-evaluated, i.e. re-read, at every use).
ASSUME TLCSet(7, ndJsonDeserialize(IOEnv.TRACE))
Cases == TLCGet(7)
CONSTANT Chunk
VARIABLE l

\* Drift (informational): the implementation-shaped model of ScalarImpl / ScalarRegistry disagrees
\* with what the library did.  Zero on the unchanged tree.
Drift(c) == CASE c.dir = "in" -> c.acc # ParseImpl(c.T, c.v) \/ (c.T # "enum" /\ c.valid # ValidImpl(c.T, c.v))   \* enums have no is_valid
              [] c.dir \in {"lit", "var"} -> LET p == Pipeline(FinalReg, c.T, c.v) IN Reached(c) # p \/ Refused(c) = p
              [] OTHER -> FALSE

TInit == l \in {i \in 1..Len(Cases) : i % Chunk = 1 \/ Chunk = 1}
TNext == /\ l <= Len(Cases)
         /\ LET c == Cases[l] IN PrintT(<<"VERDICT", c.id, Verdict(c), Drift(c)>>)
         /\ l % Chunk # 0
         /\ l' = l + 1
=============================================================================
