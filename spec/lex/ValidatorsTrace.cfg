CONSTANT Chunk = 1000
INIT TInit
NEXT TNext
