\* mode M for the lexer automaton: every text of up to MaxLen code-point classes over Sigma
CONSTANT Sigma = {"Q", "BS", "a", "n", "u", "D", "8", "LF", "SP"}
CONSTANT MaxLen = 5
CONSTANT First = {"Q", "BS", "a", "n", "u", "D", "8", "LF", "SP"}
INIT LInit
NEXT LNext
INVARIANT LTypeOK
INVARIANT Conservation
INVARIANT TokensWellFormed
INVARIANT LFoldAgrees
