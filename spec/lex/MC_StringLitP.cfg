\* mode M for the lexer automaton: every text of up to 5 code-point classes over 9 classes
CONSTANT LRuns <- LRunsM
INIT LInit
NEXT LNext
INVARIANT LTypeOK
INVARIANT Conservation
INVARIANT TokensWellFormed
INVARIANT LFoldAgrees
