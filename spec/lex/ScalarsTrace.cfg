CONSTANT Chunk = 2000
INIT TInit
NEXT TNext
