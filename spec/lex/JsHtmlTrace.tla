---------------------------- MODULE JsHtmlTrace ----------------------------
(* Mode V for C34: every recorded piece of the rendered GraphiQL page is      *)
(* judged with the reference operators of JsHtml.tla.  One step per case,     *)
(* never blocks.                                                              *)
(*   kind "js":    win = page text from the opening quote of the slot's       *)
(*                 string literal, tail = what follows the literal when the   *)
(*                 value is harmless;                                         *)
(*   kind "title": win = page text after <title>;                             *)
(*   kind "base":  win = the whole module script of the harmless page (with   *)
(*                 its end tag), val = offsets of the slots' opening quotes.  *)
EXTENDS JsHtml, Json, IOUtils

\* The file is read once (a plain definition would be re-read at every use).
ASSUME TLCSet(7, ndJsonDeserialize(IOEnv.TRACE))
Cases == TLCGet(7)
CONSTANT Chunk
VARIABLE l

RECURSIVE JoinSet(_)
JoinSet(S) == IF S = {} THEN "" ELSE LET x == CHOOSE y \in S : TRUE IN
              IF Cardinality(S) = 1 THEN x ELSE x \o "," \o JoinSet(S \ {x})

VerdictJs(c) ==
  LET w     == IF Has(c.win, {CR}) THEN Normalize(c.win) ELSE c.win
      lx    == LexString(w)
      verb  == lx.ok /\ lx.val = Utf16(c.val) /\ FollowedBy(w, lx.end, c.tail)      \* = Verbatim(w, c.val, c.tail)
      safe  == ScriptSafe(w)
      \* exactly what the named deviations describe: the HTML-escaped value between the quotes, then the template
      today == StartsWith(w, 1, Normalize(TodayLiteral(w[1], c.val)) \o c.tail)
  IN IF c.problem # "" THEN "tool:locate"
     ELSE IF lx.why = "window" THEN "tool:window"
     ELSE IF verb /\ safe THEN "ok"
     ELSE IF ~safe THEN (IF EndsScript(w) THEN "violation:ends-script" ELSE "violation:script-escaped-state")
     ELSE IF Devs(c.val) # {} /\ today THEN "known:" \o JoinSet(Devs(c.val))
     ELSE IF ~lx.ok THEN "violation:literal-broken"
     ELSE IF lx.val # Utf16(c.val) THEN "violation:not-verbatim"
     ELSE "violation:ends-string"

IsPrefix(a, b) == Len(a) < Len(b) /\ \A i \in 1..Len(a) : a[i] = b[i]
VerdictTitle(c) ==
  LET w == Normalize(c.win)
      r == TitleText(w)
  IN IF c.problem # "" THEN "tool:locate"
     ELSE IF r.unk THEN "tool:entity"
     ELSE IF ~r.closed THEN "tool:window"
     ELSE IF r.text = c.val THEN "ok"
     ELSE IF IsPrefix(r.text, c.val) THEN "violation:ends-title"
     ELSE "violation:title-not-verbatim"

\* The context of the slots: up to each slot's opening quote, and up to its own end tag, the module script of the
\* harmless page keeps the tokenizer in plain script data; the end tag closes it at the very end.
RECURSIVE AllPlain(_, _, _, _)
AllPlain(k, t, i, last) == IF i > last THEN TRUE
                           ELSE LET k2 == TokStep(k, t[i]) IN k2.s \in PlainStates /\ AllPlain(k2, t, i + 1, last)
VerdictBase(c) ==
  LET w == c.win IN
  IF /\ ~Has(w, {CR})
     /\ AllPlain(TokInit, w, 1, Len(w) - 1)
     /\ EndsScript(w)
     /\ \A i \in 1..Len(c.val) : c.val[i] \in 2..Len(w) /\ w[c.val[i]] \in {SQ, DQ} /\ TokRun(TokInit, SubSeq(w, 1, c.val[i] - 1), 1).s = "sd"
  THEN "ok" ELSE "tool:base"

Verdict(c) == CASE c.kind = "js" -> VerdictJs(c) [] c.kind = "title" -> VerdictTitle(c)
                [] c.kind = "base" -> VerdictBase(c) [] OTHER -> "tool:kind"

TInit == /\ slot = "" /\ val = <<>> /\ cost = 0 /\ tok = TokInit
         /\ l \in {i \in 1..Len(Cases) : i % Chunk = 1 \/ Chunk = 1}
TNext == /\ l <= Len(Cases)
         /\ PrintT(<<"VERDICT", Cases[l].id, Verdict(Cases[l])>>)
         /\ l % Chunk # 0
         /\ l' = l + 1 /\ UNCHANGED vars
=============================================================================
