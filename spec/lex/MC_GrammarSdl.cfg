\* mode M, type-system documents: every viable token prefix up to 6 tokens
CONSTANT Alphabet <- AlphaSdl
CONSTANT MaxToks = 6
CONSTANT MaxDefs = 2
CONSTANT Start = "SDoc"
CONSTANT Sigma = {}
CONSTANT MaxLen = 0
CONSTANT First = {}
INIT GInit
NEXT GNext
INVARIANT BracketsBalanced
INVARIANT TreeBalanced
INVARIANT TreeSize
INVARIANT NamesKept
INVARIANT FoldAgrees
INVARIANT NeedSound
INVARIANT NoDevUsed
INVARIANT DefsSplit
