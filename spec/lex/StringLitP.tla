----------------------------- MODULE StringLitP -----------------------------
(***************************************************************************)
(* Lexical grammar of GraphQL (October 2021, section 2.1 "Source Text":     *)
(* Ignored tokens, Name, IntValue, FloatValue with their look-ahead         *)
(* restrictions, StringValue incl. escapes and block strings) as a scanning *)
(* automaton over code-point classes, and the semantic value of string      *)
(* tokens (section 2.9.4).  Property C13 (parser side; C15 has its own      *)
(* StringLit for the printer side).                                         *)
(*                                                                         *)
(*  - mode M (MC_StringLitP.cfg): TLC explores every text up to MaxLen over *)
(*    Sigma and checks the automaton against declarative facts (every code  *)
(*    point is accounted for exactly once, completed quoted strings contain *)
(*    only well-formed characters/escapes, completed block strings contain  *)
(*    no unescaped triple quote, BlockString!ValueProps).                   *)
(*  - mode G: the same run prints every text as a REPLAY line.              *)
(*  - mode V: GrammarTrace uses Lex(text, dev) on the recorded texts and    *)
(*    StringValue / BlockStringValue on string tokens.                      *)
(*                                                                         *)
(* Documented deviation of the property: \uXXXX must denote a Unicode       *)
(* scalar value (surrogates D800-DFFF are rejected).                        *)
(* Named deviations of today's pest grammar (graphql.pest):                 *)
(*   DevLeadingZero   `01` lexes as the two numbers 0 and 1 (rule `number`  *)
(*                    only forbids a following name_start, not a digit)     *)
(*   DevBlockOpenFallback  `"""` without a closing `"""` falls back to the  *)
(*                    empty string `""` followed by a new string            *)
(***************************************************************************)
EXTENDS BlockString, TLC

\* ---- code-point classes --------------------------------------------------------------------------
\* class name -> the representative code point the harness renders (c13.rs class_char)
CodePoint(c) ==
  CASE c = "Q" -> 34 [] c = "BS" -> 92 [] c = "LF" -> 10 [] c = "CR" -> 13 [] c = "SP" -> 32 [] c = "TAB" -> 9
    [] c = "a" -> 97 [] c = "b" -> 98 [] c = "n" -> 110 [] c = "u" -> 117 [] c = "D" -> 68 [] c = "e" -> 101
    [] c = "EU" -> 69 [] c = "x" -> 120 [] c = "t" -> 116 [] c = "r" -> 114 [] c = "f" -> 102
    [] c = "0" -> 48 [] c = "1" -> 49 [] c = "8" -> 56 [] c = "9" -> 57
    [] c = "MINUS" -> 45 [] c = "DOT" -> 46 [] c = "PLUS" -> 43 [] c = "SLASH" -> 47 [] c = "US" -> 95
    [] c = "HASH" -> 35 [] c = "COMMA" -> 44 [] c = "U4" -> 128512
    [] c = "NB" -> 160 [] c = "LS" -> 8232     \* Unicode White_Space / line separator that GraphQL treats as ordinary characters
ClassText(c) ==
  CASE c = "EU" -> "E" [] c = "US" -> "_" [] c = "MINUS" -> "-" [] c = "DOT" -> "." [] c = "PLUS" -> "+" [] OTHER -> c

Digit     == {"0", "1", "8", "9"}
Letter    == {"a", "b", "n", "u", "D", "e", "EU", "x", "t", "r", "f"}
NameStart == Letter \cup {"US"}
NameCont  == NameStart \cup Digit
HexDigit  == Digit \cup {"a", "b", "D", "e", "EU", "f"}
HexVal(c) == CASE c = "0" -> 0 [] c = "1" -> 1 [] c = "8" -> 8 [] c = "9" -> 9 [] c = "a" -> 10 [] c = "b" -> 11
               [] c = "D" -> 13 [] c = "e" -> 14 [] c = "EU" -> 14 [] c = "f" -> 15
WhiteSp   == {"SP", "TAB", "COMMA"}       \* WhiteSpace and Comma (Unicode BOM is not in the lexer alphabets)
LineTerm  == {"LF", "CR"}
ExpInd    == {"e", "EU"}
SimpleEsc == {"Q", "BS", "SLASH", "b", "f", "n", "r", "t"}
EscVal(c) == CASE c = "Q" -> 34 [] c = "BS" -> 92 [] c = "SLASH" -> 47 [] c = "b" -> 8 [] c = "f" -> 12
               [] c = "n" -> 10 [] c = "r" -> 13 [] c = "t" -> 9

Cps(classes) == [i \in 1..Len(classes) |-> CodePoint(classes[i])]

\* ---- semantic value of a quoted string body (StringValue :: " StringCharacter* ") -----------------
IsSurrogate(h1, h2) == h1 = "D" /\ HexVal(h2) >= 8
\* the value, or BadStr (not a code point sequence) when the body is not a sequence of StringCharacter
BadStr == <<1114112>>
RECURSIVE StrScan(_, _, _)
StrScan(r, i, acc) ==
  IF i > Len(r) THEN acc
  ELSE IF r[i] \in LineTerm \/ r[i] = "Q" THEN BadStr
  ELSE IF r[i] # "BS" THEN StrScan(r, i + 1, Append(acc, CodePoint(r[i])))
  ELSE IF i + 1 > Len(r) THEN BadStr
  ELSE IF r[i + 1] \in SimpleEsc THEN StrScan(r, i + 2, Append(acc, EscVal(r[i + 1])))
  ELSE IF r[i + 1] = "u" /\ i + 5 <= Len(r) /\ (\A k \in 2..5 : r[i + k] \in HexDigit) /\ ~IsSurrogate(r[i + 2], r[i + 3])
       THEN StrScan(r, i + 6, Append(acc, 4096 * HexVal(r[i + 2]) + 256 * HexVal(r[i + 3]) + 16 * HexVal(r[i + 4]) + HexVal(r[i + 5])))
  ELSE BadStr
StringValue(raw) == StrScan(raw, 1, <<>>)
ValidQuotedBody(raw) == StringValue(raw) # BadStr

\* a block-string body as the lexer delimits it: no `"""` unless preceded by a backslash
RECURSIVE BlockBodyOk(_, _)
BlockBodyOk(r, i) ==
  IF i > Len(r) THEN TRUE
  ELSE IF r[i] = "BS" /\ i + 3 <= Len(r) /\ r[i + 1] = "Q" /\ r[i + 2] = "Q" /\ r[i + 3] = "Q" THEN BlockBodyOk(r, i + 4)
  ELSE IF r[i] = "Q" /\ i + 2 <= Len(r) /\ r[i + 1] = "Q" /\ r[i + 2] = "Q" THEN FALSE
  ELSE BlockBodyOk(r, i + 1)
\* ... and it must not end in a way that merges with the closing delimiter
ValidBlockBody(raw) ==
  /\ BlockBodyOk(raw, 1)
  /\ (raw # <<>> => raw[Len(raw)] # "Q")
  /\ ~(raw # <<>> /\ raw[Len(raw)] = "BS")

\* value of a string token t = [k |-> "s" | "b", raw |-> classes] as code points
StrTokVal(t, dev) == IF t.k = "s" THEN StringValue(t.raw) ELSE Cps(BlockStringValueDev(t.raw, dev))
StrTokUsed(t, dev) == IF t.k = "b" THEN BlockDevsUsed(t.raw, dev) ELSE {}

\* ---- the scanning automaton ------------------------------------------------------------------------
\* token: [k, s, raw, g]   k: "n" name, "i" int, "f" float, "s" quoted string, "b" block string, "p" punctuator
\*                         g: ignored tokens before it: "" none, "w" white space/commas/line terminators, "c" with a comment
Tok(k, s, raw, g) == [k |-> k, s |-> s, raw |-> raw, g |-> g]
NoFb == [on |-> FALSE, i |-> 0, toks |-> <<>>]
LexInit == [mode |-> "top", s |-> "", raw |-> <<>>, toks |-> <<>>, gap |-> "w", n |-> 0, u |-> 0, fb |-> NoFb]
\* mode  : automaton state;  s: text of the name/number being read;  raw: body of the string being read
\* gap   : ignored tokens seen since the last token;  n: code points consumed;  u: hex digits of \u read
\* fb    : where pest would resume if the block string opened last never closes (DevBlockOpenFallback)

Err(st) == [st EXCEPT !.mode = "err"]
Emit(st, k) == [st EXCEPT !.toks = Append(st.toks, Tok(k, st.s, st.raw, st.gap)), !.mode = "top", !.s = "", !.raw = <<>>, !.gap = ""]
SeeGap(st, c) == [st EXCEPT !.gap = IF c = "HASH" \/ st.gap = "c" THEN "c" ELSE "w"]

\* dispatch of a code point when no token is in progress
Top(st, c) ==
  IF c \in WhiteSp \cup LineTerm THEN SeeGap(st, c)
  ELSE IF c = "HASH" THEN [SeeGap(st, c) EXCEPT !.mode = "comment"]
  ELSE IF c = "Q" THEN [st EXCEPT !.mode = "q1"]
  ELSE IF c = "MINUS" THEN [st EXCEPT !.mode = "neg", !.s = "-"]
  ELSE IF c = "0" THEN [st EXCEPT !.mode = "zero", !.s = "0"]
  ELSE IF c \in Digit THEN [st EXCEPT !.mode = "int", !.s = ClassText(c)]
  ELSE IF c \in NameStart THEN [st EXCEPT !.mode = "name", !.s = ClassText(c)]
  ELSE IF c = "DOT" THEN [st EXCEPT !.mode = "dots1"]
  ELSE Err(st)

More(st, c, mode) == [st EXCEPT !.mode = mode, !.s = st.s \o ClassText(c)]
Body(st, cs, mode) == [st EXCEPT !.mode = mode, !.raw = st.raw \o cs]

\* One code point.  `dev` only matters for DevLeadingZero; the block fallback is applied by Lex.
ScanCore(st, c, dev) ==
  LET m == st.mode IN
  CASE m = "err"     -> st
    [] m = "top"     -> Top(st, c)
    [] m = "comment" -> IF c \in LineTerm THEN [st EXCEPT !.mode = "top"] ELSE st
    [] m = "name"    -> IF c \in NameCont THEN More(st, c, "name") ELSE Top(Emit(st, "n"), c)
    [] m = "neg"     -> IF c = "0" THEN More(st, c, "zero") ELSE IF c \in Digit THEN More(st, c, "int") ELSE Err(st)
    \* IntValue :: IntegerPart [lookahead != {Digit, `.`, NameStart}]
    [] m = "zero"    -> IF c \in Digit THEN (IF "DevLeadingZero" \in dev THEN Top(Emit(st, "i"), c) ELSE Err(st))
                        ELSE IF c = "DOT" THEN More(st, c, "dot")
                        ELSE IF c \in ExpInd THEN More(st, c, "e")
                        ELSE IF c \in NameStart THEN Err(st)
                        ELSE Top(Emit(st, "i"), c)
    [] m = "int"     -> IF c \in Digit THEN More(st, c, "int")
                        ELSE IF c = "DOT" THEN More(st, c, "dot")
                        ELSE IF c \in ExpInd THEN More(st, c, "e")
                        ELSE IF c \in NameStart THEN Err(st)
                        ELSE Top(Emit(st, "i"), c)
    \* FloatValue :: IntegerPart FractionalPart? ExponentPart? [lookahead != {Digit, `.`, NameStart}]
    [] m = "dot"     -> IF c \in Digit THEN More(st, c, "frac") ELSE Err(st)
    [] m = "frac"    -> IF c \in Digit THEN More(st, c, "frac")
                        ELSE IF c \in ExpInd THEN More(st, c, "e")
                        ELSE IF c = "DOT" \/ c \in NameStart THEN Err(st)
                        ELSE Top(Emit(st, "f"), c)
    [] m = "e"       -> IF c \in {"PLUS", "MINUS"} THEN More(st, c, "esign") ELSE IF c \in Digit THEN More(st, c, "exp") ELSE Err(st)
    [] m = "esign"   -> IF c \in Digit THEN More(st, c, "exp") ELSE Err(st)
    [] m = "exp"     -> IF c \in Digit THEN More(st, c, "exp")
                        ELSE IF c = "DOT" \/ c \in NameStart THEN Err(st)
                        ELSE Top(Emit(st, "f"), c)
    [] m = "dots1"   -> IF c = "DOT" THEN [st EXCEPT !.mode = "dots2"] ELSE Err(st)
    [] m = "dots2"   -> IF c = "DOT" THEN Emit([st EXCEPT !.s = "..."], "p") ELSE Err(st)
    \* StringValue :: `""` [lookahead != `"`] | `"` StringCharacter+ `"` | BlockString
    [] m = "q1"      -> IF c = "Q" THEN [st EXCEPT !.mode = "q2"]
                        ELSE IF c = "BS" THEN Body(st, <<c>>, "esc")
                        ELSE IF c \in LineTerm THEN Err(st) ELSE Body(st, <<c>>, "str")
    [] m = "q2"      -> IF c = "Q" THEN [st EXCEPT !.mode = "blk",
                                                   \* pest's fallback: `""` is an empty string and this quote opens a new string
                                                   !.fb = [on |-> TRUE, i |-> st.n + 1, toks |-> Emit(st, "s").toks]]
                        ELSE Top(Emit(st, "s"), c)
    [] m = "str"     -> IF c = "Q" THEN Emit(st, "s")
                        ELSE IF c = "BS" THEN Body(st, <<c>>, "esc")
                        ELSE IF c \in LineTerm THEN Err(st) ELSE Body(st, <<c>>, "str")
    [] m = "esc"     -> IF c \in SimpleEsc THEN Body(st, <<c>>, "str")
                        ELSE IF c = "u" THEN [Body(st, <<c>>, "hex") EXCEPT !.u = 0] ELSE Err(st)
    [] m = "hex"     -> IF c \notin HexDigit THEN Err(st)
                        ELSE IF st.u = 1 /\ IsSurrogate(st.raw[Len(st.raw)], c) THEN Err(st)   \* documented: scalar values only
                        ELSE IF st.u = 3 THEN Body(st, <<c>>, "str") ELSE [Body(st, <<c>>, "hex") EXCEPT !.u = st.u + 1]
    \* BlockStringCharacter :: SourceCharacter but not `"""` or `\"""` | `\"""`
    [] m = "blk"     -> IF c = "Q" THEN [st EXCEPT !.mode = "blkq1"] ELSE IF c = "BS" THEN [st EXCEPT !.mode = "blkbs"] ELSE Body(st, <<c>>, "blk")
    [] m = "blkq1"   -> IF c = "Q" THEN [st EXCEPT !.mode = "blkq2"]
                        ELSE IF c = "BS" THEN Body(st, <<"Q">>, "blkbs") ELSE Body(st, <<"Q", c>>, "blk")
    [] m = "blkq2"   -> IF c = "Q" THEN [Emit(st, "b") EXCEPT !.fb = NoFb]
                        ELSE IF c = "BS" THEN Body(st, <<"Q", "Q">>, "blkbs") ELSE Body(st, <<"Q", "Q", c>>, "blk")
    [] m = "blkbs"   -> IF c = "Q" THEN [st EXCEPT !.mode = "blkbsq1"]
                        ELSE IF c = "BS" THEN Body(st, <<"BS">>, "blkbs") ELSE Body(st, <<"BS", c>>, "blk")
    [] m = "blkbsq1" -> IF c = "Q" THEN [st EXCEPT !.mode = "blkbsq2"]
                        ELSE IF c = "BS" THEN Body(st, <<"BS", "Q">>, "blkbs") ELSE Body(st, <<"BS", "Q", c>>, "blk")
    [] m = "blkbsq2" -> IF c = "Q" THEN Body(st, <<"BS", "Q", "Q", "Q">>, "blk")
                        ELSE IF c = "BS" THEN Body(st, <<"BS", "Q", "Q">>, "blkbs") ELSE Body(st, <<"BS", "Q", "Q", c>>, "blk")

Scan(st, c, dev) == [ScanCore(st, c, dev) EXCEPT !.n = st.n + 1]

BlockModes == {"blk", "blkq1", "blkq2", "blkbs", "blkbsq1", "blkbsq2"}
\* end of input
Finish(st) ==
  CASE st.mode \in {"top", "comment"} -> st
    [] st.mode = "name"               -> Emit(st, "n")
    [] st.mode \in {"zero", "int"}    -> Emit(st, "i")
    [] st.mode \in {"frac", "exp"}    -> Emit(st, "f")
    [] st.mode = "q2"                 -> Emit(st, "s")
    [] OTHER                          -> Err(st)

RECURSIVE LexFrom(_, _, _, _)
LexFrom(st, text, i, dev) ==
  IF i <= Len(text) THEN LexFrom(Scan(st, text[i], dev), text, i + 1, dev)
  ELSE IF st.mode \in BlockModes /\ st.fb.on /\ "DevBlockOpenFallback" \in dev
       THEN \* today's pest grammar: the unterminated `"""` is re-read as `""` followed by `"`
            LexFrom([LexInit EXCEPT !.mode = "q1", !.toks = st.fb.toks, !.gap = "", !.n = st.fb.i], text, st.fb.i + 1, dev)
       ELSE Finish(st)

\* Lex(text, dev) = [ok |-> BOOLEAN, toks |-> token sequence]
Lex(text, dev) == LET st == LexFrom(LexInit, text, 1, dev) IN [ok |-> st.mode # "err", toks |-> IF st.mode = "err" THEN <<>> ELSE st.toks]
\* the lexical deviations that change the result on this text
LexDevs == {"DevLeadingZero", "DevBlockOpenFallback"}
LexDevsUsed(text, dev) == {d \in dev \cap LexDevs : Lex(text, {d}) # Lex(text, {})}

--------------------------------------------------------------------------------
(* State machine (modes M and G): one Scan per code point.                     *)
CONSTANT LRuns                      \* the lexer runs of this TLC run: a set of <<id, Sigma, MaxLen, First>>
VARIABLES text, ls, lrun            \* First: classes allowed as the first code point; lrun: id of the run this behaviour belongs to
lvars == <<text, ls, lrun>>
LRun == CHOOSE r \in LRuns : r[1] = lrun

LInit == text = <<>> /\ ls = LexInit /\ lrun \in {r[1] : r \in LRuns}
LNext == \E c \in LRun[2] :
           /\ Len(text) < LRun[3]
           /\ (text = <<>> => c \in LRun[4])
           /\ text' = Append(text, c)
           /\ ls' = Scan(ls, c, {})
           /\ UNCHANGED lrun
LSpec == LInit /\ [][LNext]_lvars
\* the variables at rest, for modules that extend this one but do not run the lexer automaton
LIdle == text = <<>> /\ ls = LexInit /\ lrun = "none"

StrSigma == {"Q", "BS", "a", "n", "u", "D", "8", "LF"}
NumSigma == {"0", "1", "MINUS", "DOT", "e", "PLUS", "a", "SP"}
\* quoted strings (first code point is the quote); number / name runs; block-string bodies (the driver wraps them in `"""`)
LRunsM        == {<<"m", {"Q", "BS", "a", "n", "u", "D", "8", "LF", "SP"}, 5, {"Q", "BS", "a", "n", "u", "D", "8", "LF", "SP"}>>}
LRunsQuick    == {<<"strings", StrSigma, 5, {"Q"}>>, <<"numbers", NumSigma, 4, NumSigma>>,
                  <<"blockA", {"a", "LF", "SP"}, 7, {"a", "LF", "SP"}>>,
                  <<"blockB", {"a", "LF", "SP", "Q", "BS", "CR"}, 4, {"a", "LF", "SP", "Q", "BS", "CR"}>>}
LRunsThorough == {<<"strings", StrSigma, 6, {"Q"}>>, <<"numbers", NumSigma, 5, NumSigma>>,
                  <<"blockA", {"a", "LF", "SP", "TAB"}, 7, {"a", "LF", "SP", "TAB"}>>,
                  <<"blockB", {"a", "LF", "SP", "Q", "BS", "CR"}, 5, {"a", "LF", "SP", "Q", "BS", "CR"}>>,
                  <<"blockC", {"a", "LF", "SP", "Q", "BS"}, 6, {"a", "LF", "SP", "Q", "BS"}>>}

\* -- invariants ------------------------------------------------------------------------------------
TokLen(t) == IF t.k = "s" THEN Len(t.raw) + 2 ELSE IF t.k = "b" THEN Len(t.raw) + 6 ELSE Len(t.s)
RECURSIVE SumLen(_, _)
SumLen(ts, i) == IF i > Len(ts) THEN 0 ELSE TokLen(ts[i]) + SumLen(ts, i + 1)
\* every code point read so far is part of exactly one token, of the token in progress, or ignored
InProgress(st) ==
  CASE st.mode \in {"name", "neg", "zero", "int", "dot", "frac", "e", "esign", "exp"} -> Len(st.s)
    [] st.mode = "dots1" -> 1 [] st.mode = "dots2" -> 2
    [] st.mode = "q1" -> 1 [] st.mode = "q2" -> 2
    [] st.mode \in {"str", "esc", "hex"} -> 1 + Len(st.raw)
    [] st.mode = "blk" -> 3 + Len(st.raw) [] st.mode = "blkq1" -> 4 + Len(st.raw) [] st.mode = "blkq2" -> 5 + Len(st.raw)
    [] st.mode = "blkbs" -> 4 + Len(st.raw) [] st.mode = "blkbsq1" -> 5 + Len(st.raw) [] st.mode = "blkbsq2" -> 6 + Len(st.raw)
    [] OTHER -> 0
Conservation == ls.mode # "err" => SumLen(ls.toks, 1) + InProgress(ls) <= Len(text) /\ ls.n = Len(text)
\* tokens the automaton completes are well formed by the declarative definitions
TokensWellFormed ==
  \A i \in 1..Len(ls.toks) :
    LET t == ls.toks[i] IN
      /\ t.k = "s" => ValidQuotedBody(t.raw)
      /\ t.k = "b" => BlockBodyOk(t.raw, 1) /\ ValueProps(t.raw)
      /\ t.k \in {"n", "i", "f"} => Len(t.s) >= 1
\* the batch definition used in mode V (LexFrom) agrees with the step-by-step automaton
LFoldAgrees == LexFrom(LexInit, text, 1, {}) = Finish(ls)
LTypeOK == ls.n \in 0..LRun[3] /\ ls.u \in 0..3 /\ Len(ls.toks) <= LRun[3]

\* mode G
\* (one bare string per text: TLC's pretty printer wraps long tuples over several lines)
RECURSIVE JoinStr(_, _, _)
JoinStr(seq, i, acc) == IF i > Len(seq) THEN acc ELSE JoinStr(seq, i + 1, IF i = 1 THEN seq[i] ELSE acc \o " " \o seq[i])
LEmit == PrintT("REPLAY|" \o lrun \o "|" \o JoinStr(text, 1, ""))
=============================================================================
