CONSTANT MaxNodes = 0
CONSTANT MaxDepth = 0
CONSTANT MaxWidth = 0
CONSTANT AtomSel = "small"
CONSTANT Alphabet = {}
CONSTANT MaxStr = 0
CONSTANT Chunk = 400
CONSTANT AlphabetLong = {}
CONSTANT MaxStrLong = 0
INIT TInit
NEXT TNext
