CONSTANT MaxLen = 3
CONSTANT SeqExtra = 1
CONSTANT Slots = {"endpoint"}
INIT Init
NEXT Next
INVARIANT TypeOK
INVARIANT IdealWriterCorrect
INVARIANT TitleWriterCorrect
INVARIANT TodayWrongIffTriggered
INVARIANT TodayScriptSafe
INVARIANT TokIsRun
INVARIANT TokLemma
INVARIANT RawCanEndScript
