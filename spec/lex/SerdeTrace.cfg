CONSTANT Depth = 0
CONSTANT Types = {}
CONSTANT Chunk = 400
INIT TInit
NEXT TNext
