------------------------------- MODULE Cursor -------------------------------
(***************************************************************************)
(* Relay connection cursors and the pagination-argument check (C32).       *)
(*                                                                         *)
(* Transcribed: Relay Cursor Connections specification (cursor = opaque    *)
(* string; pageInfo.startCursor / endCursor = cursors of the first / last  *)
(* edge; first / last must be non-negative), and the documented encodings  *)
(* of async-graphql's CursorType implementations                            *)
(* (src/types/connection/cursor.rs): integers, floats, bool, char via Rust  *)
(* Display / FromStr, String and ID verbatim, OpaqueCursor<T> =              *)
(* base64url(no pad)(JSON(T)) through the serde data model.                 *)
(*                                                                         *)
(* Everything is a reference operator over abstract data:                   *)
(*   text     = sequence of code points                                     *)
(*   integer  = [k |-> "int", neg, mag] with mag a digit sequence (TLC       *)
(*              integers are 32 bit; bounds go up to 2^128)                  *)
(*   float    = [k |-> "float", c, repr]: class nan/inf/ninf/negzero/zero/   *)
(*              fin; repr = shortest decimal of a finite value (trusted:     *)
(*              bit-level fidelity is asserted by the harness only)          *)
(*   serde terms: unit none some seq tup map rec var (+ the leaves above)    *)
(*   cursor string = [enc |-> "cp", cp] (literal text), [enc |-> "b64json",  *)
(*              j] (base64url of the JSON text of tree j), [enc |-> "b64cp", *)
(*              cp] (base64url of arbitrary text) -- base64 and JSON byte    *)
(*              syntax are not modelled (trusted harness reader/writer).     *)
(*                                                                         *)
(* The module is also a (degenerate) state machine: one initial state per   *)
(* generated case, so that mode M checks the model's own laws on every case *)
(* and mode G prints every case once.                                       *)
(***************************************************************************)
EXTENDS Integers, Sequences, FiniteSets, TLC

CONSTANTS GenKinds,          \* which kinds of cases to generate
          QwFull, QwLight     \* cursor types for the full / the reduced product of pagination arguments

Err    == [k |-> "error"]
Absent == [k |-> "absent"]

-----------------------------------------------------------------------------
(* digit sequences *)
RECURSIVE StripZ(_)
StripZ(ds) == IF Len(ds) > 1 /\ ds[1] = 0 THEN StripZ(Tail(ds)) ELSE ds
RECURSIVE LexLeq(_, _, _)
LexLeq(a, b, i) == IF i > Len(a) THEN TRUE
                   ELSE IF a[i] < b[i] THEN TRUE ELSE IF a[i] > b[i] THEN FALSE ELSE LexLeq(a, b, i + 1)
LeqMag(a, b) == Len(a) < Len(b) \/ (Len(a) = Len(b) /\ LexLeq(a, b, 1))     \* both without leading zeros
RECURSIVE IncMag(_)
IncMag(ds) == IF ds = <<>> THEN <<1>>
              ELSE IF ds[Len(ds)] < 9 THEN [ds EXCEPT ![Len(ds)] = @ + 1]
              ELSE Append(IncMag(SubSeq(ds, 1, Len(ds) - 1)), 0)

MaxMag == [i8 |-> <<1, 2, 7>>,
           i16 |-> <<3, 2, 7, 6, 7>>,
           i32 |-> <<2, 1, 4, 7, 4, 8, 3, 6, 4, 7>>,
           i64 |-> <<9, 2, 2, 3, 3, 7, 2, 0, 3, 6, 8, 5, 4, 7, 7, 5, 8, 0, 7>>,
           i128 |-> <<1, 7, 0, 1, 4, 1, 1, 8, 3, 4, 6, 0, 4, 6, 9, 2, 3, 1, 7, 3, 1, 6, 8, 7, 3, 0, 3, 7, 1, 5, 8, 8, 4, 1, 0, 5, 7, 2, 7>>,
           isize |-> <<9, 2, 2, 3, 3, 7, 2, 0, 3, 6, 8, 5, 4, 7, 7, 5, 8, 0, 7>>,
           u8 |-> <<2, 5, 5>>,
           u16 |-> <<6, 5, 5, 3, 5>>,
           u32 |-> <<4, 2, 9, 4, 9, 6, 7, 2, 9, 5>>,
           u64 |-> <<1, 8, 4, 4, 6, 7, 4, 4, 0, 7, 3, 7, 0, 9, 5, 5, 1, 6, 1, 5>>,
           u128 |-> <<3, 4, 0, 2, 8, 2, 3, 6, 6, 9, 2, 0, 9, 3, 8, 4, 6, 3, 4, 6, 3, 3, 7, 4, 6, 0, 7, 4, 3, 1, 7, 6, 8, 2, 1, 1, 4, 5, 5>>,
           usize |-> <<1, 8, 4, 4, 6, 7, 4, 4, 0, 7, 3, 7, 0, 9, 5, 5, 1, 6, 1, 5>>]      \* 64-bit target
SignedTypes   == {"i8", "i16", "i32", "i64", "i128", "isize"}
UnsignedTypes == {"u8", "u16", "u32", "u64", "u128", "usize"}
IntTypes      == SignedTypes \cup UnsignedTypes
MinMag(T)     == IF T \in SignedTypes THEN IncMag(MaxMag[T]) ELSE <<0>>

I(neg, mag) == [k |-> "int", neg |-> neg, mag |-> mag]
InRange(T, v) == IF v.neg THEN T \in SignedTypes /\ LeqMag(v.mag, MinMag(T)) ELSE LeqMag(v.mag, MaxMag[T])

-----------------------------------------------------------------------------
(* text helpers (code points) *)
IsDigit(c)  == c \in 48..57
IsScalar(c) == c \in 0..55295 \/ c \in 57344..1114111
Lower(c)    == IF c \in 65..90 THEN c + 32 ELSE c
LowerS(s)   == [i \in 1..Len(s) |-> Lower(s[i])]
TRUEcp == <<116, 114, 117, 101>>     FALSEcp == <<102, 97, 108, 115, 101>>
NaNcp == <<78, 97, 78>>   INFcp == <<105, 110, 102>>   NINFcp == <<45, 105, 110, 102>>
ZEROcp == <<48>>          NZEROcp == <<45, 48>>
NameCp == [a |-> <<97>>, b |-> <<98>>, c |-> <<99>>, x |-> <<120>>, A |-> <<65>>, B |-> <<66>>, C |-> <<67>>]

-----------------------------------------------------------------------------
(* integers: Display / FromStr of the Rust integer types *)
EncInt(v) == (IF v.neg THEN <<45>> ELSE <<>>) \o [i \in 1..Len(v.mag) |-> v.mag[i] + 48]
\* [wf, val]: wf = matches [+-]?[0-9]+
ParseInt(s) ==
  LET sign == IF s # <<>> /\ s[1] \in {43, 45} THEN s[1] ELSE 0
      body == IF sign # 0 THEN Tail(s) ELSE s
      wf   == body # <<>> /\ \A i \in 1..Len(body) : IsDigit(body[i])
      mag  == IF wf THEN StripZ([i \in 1..Len(body) |-> body[i] - 48]) ELSE <<0>>
  IN [wf |-> wf, val |-> I(sign = 45 /\ mag # <<0>>, mag)]
\* Admissible results of decoding s.  A canonical string (the encoding of an in-range value) must give
\* that value; a string that is no decimal integer of the type must be rejected; other spellings of an
\* in-range value ("+5", "007", "-0") may be accepted with that value or rejected.
DecodeInt(T, s) ==
  LET p == ParseInt(s) IN
  IF ~p.wf \/ ~InRange(T, p.val) THEN {Err}
  ELSE IF EncInt(p.val) = s THEN {p.val}
  ELSE {Err, p.val}

(* bool, char, String, ID *)
B(b) == [k |-> "bool", b |-> b]
DecodeBool(s) == IF s = TRUEcp THEN {B(TRUE)} ELSE IF s = FALSEcp THEN {B(FALSE)}
                 ELSE IF LowerS(s) = TRUEcp THEN {Err, B(TRUE)} ELSE IF LowerS(s) = FALSEcp THEN {Err, B(FALSE)}
                 ELSE {Err}
Ch(c) == [k |-> "char", c |-> c]
DecodeChar(s) == IF Len(s) = 1 /\ IsScalar(s[1]) THEN {Ch(s[1])} ELSE {Err}
S(cp) == [k |-> "str", cp |-> cp]

(* floats, by class *)
F(c, repr) == [k |-> "float", c |-> c, repr |-> repr]
Fnan == F("nan", <<>>)  Finf == F("inf", <<>>)  Fninf == F("ninf", <<>>)  Fnz == F("negzero", <<>>)  Fz == F("zero", <<>>)
IsFloat(v) == v.k = "float"
EncFloat(v) == CASE v.c = "nan" -> NaNcp [] v.c = "inf" -> INFcp [] v.c = "ninf" -> NINFcp
                 [] v.c = "negzero" -> NZEROcp [] v.c = "zero" -> ZEROcp [] OTHER -> v.repr
\* index after the run of digits starting at i
RECURSIVE SkipDigits(_, _)
SkipDigits(s, i) == IF i <= Len(s) /\ IsDigit(s[i]) THEN SkipDigits(s, i + 1) ELSE i
\* Rust's float grammar: [+-]? (inf | infinity | nan | Number), Number = (digits [. digits?] | . digits) ([eE][+-]?digits)?
FloatWord(s) == LET w == LowerS(IF s # <<>> /\ s[1] \in {43, 45} THEN Tail(s) ELSE s)
                IN w \in {<<105, 110, 102>>, <<105, 110, 102, 105, 110, 105, 116, 121>>, <<110, 97, 110>>}
FloatNumber(s) ==
  LET i0 == IF s # <<>> /\ s[1] \in {43, 45} THEN 2 ELSE 1
      i1 == SkipDigits(s, i0)
      hasInt == i1 > i0
      i2 == IF i1 <= Len(s) /\ s[i1] = 46 THEN SkipDigits(s, i1 + 1) ELSE i1
      hasFrac == i2 > i1 + 1
      mantOK == hasInt \/ hasFrac
      i3 == IF i2 <= Len(s) /\ s[i2] \in {69, 101}
            THEN (IF i2 + 1 <= Len(s) /\ s[i2 + 1] \in {43, 45} THEN i2 + 2 ELSE i2 + 1) ELSE i2
      i4 == IF i3 > i2 THEN SkipDigits(s, i3) ELSE i2
      expOK == i3 = i2 \/ i4 > i3
  IN mantOK /\ expOK /\ i4 = Len(s) + 1
\* canonical finite decimal with at most `sig` digits: -?(0|[1-9][0-9]*)(.[0-9]*[1-9])?, not zero: such a text is the
\* shortest representation of the value it denotes, so decoding must give the value whose repr it is
CanonFin(s, sig) ==
  LET i0 == IF s # <<>> /\ s[1] = 45 THEN 2 ELSE 1
      i1 == SkipDigits(s, i0)
      i2 == IF i1 <= Len(s) /\ s[i1] = 46 THEN SkipDigits(s, i1 + 1) ELSE i1
      nz == {i \in i0..Len(s) : s[i] \in 49..57}
      nd == IF nz = {} THEN 0 ELSE Cardinality({i \in (CHOOSE m \in nz : \A n \in nz : m <= n)..Len(s) : IsDigit(s[i])})
  IN /\ i1 > i0 /\ i2 = Len(s) + 1 /\ (i2 = i1 \/ i2 > i1 + 1)
     /\ (s[i0] # 48 \/ i1 = i0 + 1)                         \* no leading zeros
     /\ (i2 > i1 => s[Len(s)] # 48)                         \* no trailing fraction zeros
     /\ nz # {}                                            \* not zero
     /\ nd <= sig /\ Len(s) <= 12                           \* few significant digits, magnitude far from the type's limits
AnyFloat == [k |-> "anyfloat"]      \* wildcards of DecodeSet: "some value of that kind" (see InDecode)
AnyStr   == [k |-> "anystr"]
AnyOpq   == [k |-> "anyopq"]
DecodeFloat(T, s) ==
  IF s = NaNcp THEN {Fnan} ELSE IF s = INFcp THEN {Finf} ELSE IF s = NINFcp THEN {Fninf}
  ELSE IF s = NZEROcp THEN {Fnz} ELSE IF s = ZEROcp THEN {Fz}
  ELSE IF CanonFin(s, IF T = "f32" THEN 6 ELSE 15) THEN {F("fin", s)}
  ELSE IF FloatWord(s) \/ FloatNumber(s) THEN {Err, AnyFloat}
  ELSE {Err}

-----------------------------------------------------------------------------
(* the serde data model and serde_json, for OpaqueCursor<T> *)
Unit == [k |-> "unit"]   None == [k |-> "none"]   Some(x) == [k |-> "some", x |-> x]
Sq(xs) == [k |-> "seq", xs |-> xs]   Tup(xs) == [k |-> "tup", xs |-> xs]
Mp(es) == [k |-> "map", es |-> es]   KV(key, val) == [key |-> key, val |-> val]
Rc(fs) == [k |-> "rec", fs |-> fs]   Fld(name, val) == [name |-> name, val |-> val]
Var(name, style, x) == [k |-> "var", name |-> name, style |-> style, x |-> x]
Opq(x) == [k |-> "opq", x |-> x]

\* shapes (Rust types)
SInt(t) == [k |-> "int", t |-> t]   SFloat(t) == [k |-> "float", t |-> t]   SStr == [k |-> "str"]   SBool == [k |-> "bool"]
SUnit == [k |-> "unit"]   SOpt(s) == [k |-> "opt", of |-> s]   SSeq(s) == [k |-> "seq", of |-> s]
STup(a, b) == [k |-> "tup", of |-> <<a, b>>]   SMap(key, val) == [k |-> "map", key |-> key, val |-> val]
SRec(fs) == [k |-> "rec", fs |-> fs]   SFld(name, s) == [name |-> name, of |-> s]
SEnum(vs) == [k |-> "enum", vs |-> vs]   SVar(name, style, s) == [name |-> name, style |-> style, of |-> s]
RecShape == SRec(<<SFld("a", SInt("u64")), SFld("b", SOpt(SStr)), SFld("c", SSeq(SFloat("f64")))>>)
EnShape  == SEnum(<<SVar("A", "unit", SUnit), SVar("B", "newtype", SInt("i32")),
                    SVar("C", "struct", SRec(<<SFld("x", SBool)>>))>>)
OpaqueOf == [O1 |-> SInt("i64"), O2 |-> SStr, O3 |-> STup(SInt("i32"), SStr), O4 |-> SOpt(SOpt(SInt("i32"))),
             O5 |-> SSeq(SOpt(SBool)), O6 |-> RecShape, O7 |-> SMap(SStr, SInt("i32")), O8 |-> SMap(SInt("i32"), SBool),
             O9 |-> SFloat("f64"), O10 |-> SInt("u128"), O11 |-> EnShape, O12 |-> SMap(STup(SInt("i32"), SInt("i32")), SBool),
             O13 |-> SOpt(SUnit), O14 |-> SInt("i128")]
OpaqueTypes == DOMAIN OpaqueOf
ShapeOf(T) == [k |-> "opq", of |-> OpaqueOf[T]]

\* JSON trees
JNull == [j |-> "null"]   JFail == [j |-> "fail"]
JB(b) == [j |-> "bool", b |-> b]   JNum(v) == [j |-> "num", neg |-> v.neg, mag |-> v.mag]   JF(repr) == [j |-> "fnum", repr |-> repr]
JS(cp) == [j |-> "str", cp |-> cp]   JA(xs) == [j |-> "arr", xs |-> xs]   JO(es) == [j |-> "obj", es |-> es]
\* serde_json map keys: strings verbatim, integers in decimal, bool as true/false; anything else is an error
KeyStr(key) == CASE key.k = "str" -> key.cp [] key.k = "int" -> EncInt(key)
                 [] key.k = "bool" -> (IF key.b THEN TRUEcp ELSE FALSEcp) [] OTHER -> <<-1>>
KeyOK(key) == key.k \in {"str", "int", "bool"}
\* serde_json::to_vec: non-finite floats, unit and None become null; Some(x) is x; enums are externally tagged
RECURSIVE JsonOf(_)
JsonOf(t) ==
  CASE t.k = "int"   -> JNum(t)
    [] t.k = "bool"  -> JB(t.b)
    [] t.k = "str"   -> JS(t.cp)
    [] t.k = "float" -> IF t.c \in {"nan", "inf", "ninf"} THEN JNull ELSE JF(EncFloat(t))
    [] t.k \in {"unit", "none"} -> JNull
    [] t.k = "some"  -> JsonOf(t.x)
    [] t.k \in {"seq", "tup"} -> JA([i \in 1..Len(t.xs) |-> JsonOf(t.xs[i])])
    [] t.k = "map"   -> IF \A i \in 1..Len(t.es) : KeyOK(t.es[i].key)
                        THEN JO([i \in 1..Len(t.es) |-> KV(KeyStr(t.es[i].key), JsonOf(t.es[i].val))])
                        ELSE JFail
    [] t.k = "rec"   -> JO([i \in 1..Len(t.fs) |-> KV(NameCp[t.fs[i].name], JsonOf(t.fs[i].val))])
    [] t.k = "var"   -> IF t.style = "unit" THEN JS(NameCp[t.name]) ELSE JO(<<KV(NameCp[t.name], JsonOf(t.x))>>)
    [] OTHER -> JFail
RECURSIVE HasFail(_)
HasFail(j) == CASE j.j = "fail" -> TRUE
                [] j.j = "arr" -> \E i \in 1..Len(j.xs) : HasFail(j.xs[i])
                [] j.j = "obj" -> \E i \in 1..Len(j.es) : HasFail(j.es[i].val)
                [] OTHER -> FALSE

\* serde_json::from_slice into a value of the given shape (only as far as the shapes above need it)
FloatOfRepr(r) == IF r = ZEROcp THEN Fz ELSE IF r = NZEROcp THEN Fnz ELSE F("fin", r)
KeyFrom(s, cp) == CASE s.k = "str" -> S(cp)
                    [] s.k = "int" -> (LET p == ParseInt(cp) IN IF p.wf /\ EncInt(p.val) = cp /\ InRange(s.t, p.val) THEN p.val ELSE Err)
                    [] OTHER -> Err
RECURSIVE FromJson(_, _)
FromJson(s, j) ==
  CASE s.k = "int"   -> IF j.j = "num" /\ InRange(s.t, I(j.neg, j.mag)) THEN I(j.neg, j.mag) ELSE Err
    [] s.k = "bool"  -> IF j.j = "bool" THEN B(j.b) ELSE Err
    [] s.k = "str"   -> IF j.j = "str" THEN S(j.cp) ELSE Err
    [] s.k = "float" -> IF j.j = "fnum" THEN FloatOfRepr(j.repr)
                        ELSE IF j.j = "num" THEN FloatOfRepr(EncInt(I(j.neg, j.mag))) ELSE Err
    [] s.k = "unit"  -> IF j.j = "null" THEN Unit ELSE Err
    [] s.k = "opt"   -> IF j.j = "null" THEN None
                        ELSE (LET r == FromJson(s.of, j) IN IF r = Err THEN Err ELSE Some(r))
    [] s.k = "seq"   -> IF j.j # "arr" THEN Err
                        ELSE (LET rs == [i \in 1..Len(j.xs) |-> FromJson(s.of, j.xs[i])]
                              IN IF \E i \in 1..Len(rs) : rs[i] = Err THEN Err ELSE Sq(rs))
    [] s.k = "tup"   -> IF j.j # "arr" THEN Err ELSE IF Len(j.xs) # Len(s.of) THEN Err
                        ELSE (LET rs == [i \in 1..Len(j.xs) |-> FromJson(s.of[i], j.xs[i])]
                              IN IF \E i \in 1..Len(rs) : rs[i] = Err THEN Err ELSE Tup(rs))
    [] s.k = "map"   -> IF j.j # "obj" THEN Err
                        ELSE (LET rs == [i \in 1..Len(j.es) |-> KV(KeyFrom(s.key, j.es[i].key), FromJson(s.val, j.es[i].val))]
                              IN IF \E i \in 1..Len(rs) : rs[i].key = Err \/ rs[i].val = Err THEN Err ELSE Mp(rs))
    [] s.k = "rec"   -> IF j.j # "obj" THEN Err ELSE IF Len(j.es) # Len(s.fs) THEN Err
                        ELSE (LET rs == [i \in 1..Len(s.fs) |->
                                           IF j.es[i].key = NameCp[s.fs[i].name]
                                           THEN Fld(s.fs[i].name, FromJson(s.fs[i].of, j.es[i].val)) ELSE Fld(s.fs[i].name, Err)]
                              IN IF \E i \in 1..Len(rs) : rs[i].val = Err THEN Err ELSE Rc(rs))
    [] s.k = "enum"  -> IF j.j = "str"
                        THEN (IF \E i \in 1..Len(s.vs) : s.vs[i].style = "unit" /\ NameCp[s.vs[i].name] = j.cp
                              THEN (LET i == CHOOSE i \in 1..Len(s.vs) : s.vs[i].style = "unit" /\ NameCp[s.vs[i].name] = j.cp
                                    IN Var(s.vs[i].name, "unit", Unit)) ELSE Err)
                        ELSE IF j.j = "obj"
                        THEN (IF Len(j.es) = 1 /\ \E i \in 1..Len(s.vs) : s.vs[i].style # "unit" /\ NameCp[s.vs[i].name] = j.es[1].key
                              THEN (LET i == CHOOSE i \in 1..Len(s.vs) : s.vs[i].style # "unit" /\ NameCp[s.vs[i].name] = j.es[1].key
                                        r == FromJson(s.vs[i].of, j.es[1].val)
                                    IN IF r = Err THEN Err ELSE Var(s.vs[i].name, s.vs[i].style, r)) ELSE Err)
                        ELSE Err
    [] OTHER -> Err

\* What OpaqueCursor::decode_cursor(encode_cursor(x)) gives with serde_json as it is (model of today's behaviour)
TodayRT(T, v) == LET j == JsonOf(v.x) IN
                 IF HasFail(j) THEN Err
                 ELSE (LET r == FromJson(OpaqueOf[T], j) IN IF r = Err THEN Err ELSE Opq(r))
\* Structural triggers of the three known ways in which JSON loses a serde value
RECURSIVE HasNonFinite(_)
HasNonFinite(t) == CASE t.k = "float" -> t.c \in {"nan", "inf", "ninf"}
                     [] t.k = "some" -> HasNonFinite(t.x)
                     [] t.k \in {"seq", "tup"} -> \E i \in 1..Len(t.xs) : HasNonFinite(t.xs[i])
                     [] t.k = "map" -> \E i \in 1..Len(t.es) : HasNonFinite(t.es[i].key) \/ HasNonFinite(t.es[i].val)
                     [] t.k = "rec" -> \E i \in 1..Len(t.fs) : HasNonFinite(t.fs[i].val)
                     [] t.k = "var" -> HasNonFinite(t.x)
                     [] OTHER -> FALSE
RECURSIVE HasNullSome(_)     \* Some(y) where y itself is written as null: Some(None), Some(()), Some(NaN)
HasNullSome(t) == CASE t.k = "some" -> JsonOf(t.x) = JNull \/ HasNullSome(t.x)
                    [] t.k \in {"seq", "tup"} -> \E i \in 1..Len(t.xs) : HasNullSome(t.xs[i])
                    [] t.k = "map" -> \E i \in 1..Len(t.es) : HasNullSome(t.es[i].val)
                    [] t.k = "rec" -> \E i \in 1..Len(t.fs) : HasNullSome(t.fs[i].val)
                    [] t.k = "var" -> HasNullSome(t.x)
                    [] OTHER -> FALSE
RECURSIVE HasBadKey(_)
HasBadKey(t) == CASE t.k = "map" -> \E i \in 1..Len(t.es) : ~KeyOK(t.es[i].key) \/ HasBadKey(t.es[i].val)
                  [] t.k = "some" -> HasBadKey(t.x)
                  [] t.k \in {"seq", "tup"} -> \E i \in 1..Len(t.xs) : HasBadKey(t.xs[i])
                  [] t.k = "rec" -> \E i \in 1..Len(t.fs) : HasBadKey(t.fs[i].val)
                  [] t.k = "var" -> HasBadKey(t.x)
                  [] OTHER -> FALSE
Lossy(v) == v.k = "opq" /\ (HasNonFinite(v.x) \/ HasNullSome(v.x) \/ HasBadKey(v.x))
\* Fourth way: serde_json (without its float_roundtrip feature) reads long decimals with a fast, inexact algorithm, so a
\* finite float with more than 15 significant digits or a large decimal exponent may come back as a neighbouring float.
SigDigits(r) == LET nz == {i \in 1..Len(r) : r[i] \in 49..57} IN
                IF nz = {} THEN 0
                ELSE Cardinality({i \in (CHOOSE m \in nz : \A n \in nz : m <= n)..(CHOOSE m \in nz : \A n \in nz : m >= n) : IsDigit(r[i])})
Fragile(r) == SigDigits(r) > 15 \/ Len(r) > 23
RECURSIVE EqModFloat(_, _)     \* equal, except that a fragile finite float may have become another finite float
EqModFloat(a, b) ==
  IF a = b THEN TRUE
  ELSE IF a.k # b.k THEN FALSE
  ELSE CASE a.k = "float" -> a.c = "fin" /\ b.c = "fin" /\ Fragile(a.repr)
         [] a.k \in {"some", "opq"} -> EqModFloat(a.x, b.x)
         [] a.k \in {"seq", "tup"} -> Len(a.xs) = Len(b.xs) /\ \A i \in 1..Len(a.xs) : EqModFloat(a.xs[i], b.xs[i])
         [] a.k = "map" -> Len(a.es) = Len(b.es) /\ \A i \in 1..Len(a.es) : a.es[i].key = b.es[i].key /\ EqModFloat(a.es[i].val, b.es[i].val)
         [] a.k = "rec" -> Len(a.fs) = Len(b.fs) /\ \A i \in 1..Len(a.fs) : a.fs[i].name = b.fs[i].name /\ EqModFloat(a.fs[i].val, b.fs[i].val)
         [] a.k = "var" -> a.name = b.name /\ EqModFloat(a.x, b.x)
         [] OTHER -> FALSE
DevsOf(v) == (IF HasBadKey(v.x) THEN {"DevOpaqueKeyNotString"} ELSE {})
             \cup (IF HasNullSome(v.x) THEN {"DevOpaqueSomeNull"} ELSE {})
             \cup (IF HasNonFinite(v.x) /\ ~HasNullSome(v.x) THEN {"DevOpaqueNonFinite"} ELSE {})

-----------------------------------------------------------------------------
(* the CursorType interface of the model *)
ScalarTypes == IntTypes \cup {"f32", "f64", "char", "bool", "String", "ID"}
Types == ScalarTypes \cup OpaqueTypes
Cp(cp) == [enc |-> "cp", cp |-> cp]
BJ(j)  == [enc |-> "b64json", j |-> j]
BC(cp) == [enc |-> "b64cp", cp |-> cp]
NoCursor == [enc |-> "absent"]
NullCursor == [enc |-> "null"]

\* the cursor string of value v (for opaque values: as serde_json writes it today; "" when serialisation fails)
Encode(T, v) ==
  CASE T \in IntTypes -> Cp(EncInt(v))
    [] T \in {"f32", "f64"} -> Cp(EncFloat(v))
    [] T = "bool" -> Cp(IF v.b THEN TRUEcp ELSE FALSEcp)
    [] T = "char" -> Cp(<<v.c>>)
    [] T \in {"String", "ID"} -> Cp(v.cp)
    [] OTHER -> (LET j == JsonOf(v.x) IN IF HasFail(j) THEN Cp(<<>>) ELSE BJ(j))

\* admissible results of decoding cursor string s: values, Err, or "anyfloat"
DecodeSet(T, s) ==
  CASE T \in IntTypes -> (IF s.enc = "cp" THEN DecodeInt(T, s.cp) ELSE {Err})
    [] T \in {"f32", "f64"} -> (IF s.enc = "cp" THEN DecodeFloat(T, s.cp) ELSE {Err})
    [] T = "bool" -> (IF s.enc = "cp" THEN DecodeBool(s.cp) ELSE {Err})
    [] T = "char" -> (IF s.enc = "cp" THEN DecodeChar(s.cp) ELSE {Err})
    [] T \in {"String", "ID"} -> (IF s.enc = "cp" THEN {S(s.cp)} ELSE {AnyStr})
    [] OTHER -> IF s.enc # "b64json" THEN {Err}                \* not base64url of a JSON text
                ELSE (LET r == FromJson(OpaqueOf[T], s.j) IN
                      IF r = Err THEN {Err}                      \* JSON of another shape
                      ELSE IF JsonOf(r) = s.j THEN {Opq(r)}        \* the encoding of r
                      ELSE {Err, AnyOpq})                       \* another JSON spelling of some value
Matches(D, got) == got \in D \/ (AnyFloat \in D /\ got.k = "float") \/ (AnyStr \in D /\ got.k = "str") \/ (AnyOpq \in D /\ got.k = "opq")
InDecode(T, s, got) == Matches(DecodeSet(T, s), got)
MustReject(T, s) == DecodeSet(T, s) = {Err}

-----------------------------------------------------------------------------
(* connection::query / query_with *)
\* Arguments: after/before = NoCursor | [enc |-> "of", x |-> v] (the type's own encoding of v) | a cursor string;
\* first/last = [p |-> FALSE, n |-> 0] (absent) | [p |-> TRUE, n |-> i32]
NoArg == [p |-> FALSE, n |-> 0]   Arg(n) == [p |-> TRUE, n |-> n]
NoCall == [k |-> "nocall"]
Call(a, b, f, l) == [k |-> "call", a |-> a, b |-> b, f |-> f, l |-> l]
CursorArg(T, c) == CASE c.enc = "absent" -> {Absent} [] c.enc = "of" -> {c.x} [] OTHER -> DecodeSet(T, c)
Count(n) == IF n.p THEN n.n ELSE -1
\* Relay: "first"/"last" must be non-negative; an undecodable cursor is an error; both before the page is fetched.
\* (first and last together are allowed by async-graphql's documentation, so they are not rejected here.)
QueryWith(T, after, before, first, last) ==
  IF (first.p /\ first.n < 0) \/ (last.p /\ last.n < 0) THEN {NoCall}
  ELSE {IF a = Err \/ b = Err THEN NoCall ELSE Call(a, b, Count(first), Count(last)) :
          a \in CursorArg(T, after), b \in CursorArg(T, before)}
Rejects(T, after, before, first, last) == QueryWith(T, after, before, first, last) = {NoCall}

-----------------------------------------------------------------------------
(* samples: boundary values, strings, argument combinations *)
Zero == I(FALSE, <<0>>)   One == I(FALSE, <<1>>)   MinusOne == I(TRUE, <<1>>)
IntSamples(T) == {Zero, One, I(FALSE, <<9>>), I(FALSE, <<1, 0>>), I(FALSE, MaxMag[T])}
                 \cup (IF T \in SignedTypes THEN {MinusOne, I(TRUE, MinMag(T)), I(TRUE, MaxMag[T])} ELSE {})
FloatSamples == {Fnan, Finf, Fninf, Fnz, Fz, F("fin", <<49, 46, 53>>), F("fin", <<45, 50, 46, 50, 53>>), F("fin", <<48, 46, 49>>),
                 F("fin", <<49, 48, 48>>), F("fin", <<48, 46, 48, 48, 48, 48, 48, 48, 49>>)}
StrSamples == {<<>>, <<97>>, TRUEcp, <<53>>, <<45, 49>>, <<233>>, <<128512>>, <<34, 92, 10>>, <<0>>, NaNcp, <<78, 68, 73>>}
CharSamples == {0, 48, 97, 34, 92, 10, 233, 8232, 55295, 57344, 65279, 65535, 65536, 128512, 1114111}
OpaqueSamples(T) ==
  CASE T = "O1" -> IntSamples("i64")
    [] T = "O2" -> {S(s) : s \in StrSamples}
    [] T = "O3" -> {Tup(<<i, S(s)>>) : i \in {Zero, I(TRUE, MinMag("i32"))}, s \in {<<>>, <<97>>, <<34, 92, 10>>, <<128512>>}}
    [] T = "O4" -> {None, Some(None), Some(Some(Zero)), Some(Some(I(TRUE, MinMag("i32"))))}
    [] T = "O5" -> LET E == {None, Some(B(TRUE)), Some(B(FALSE))} IN
                   {Sq(<<>>)} \cup {Sq(<<a>>) : a \in E} \cup {Sq(<<a, b>>) : a \in E, b \in E}
    [] T = "O6" -> {Rc(<<Fld("a", a), Fld("b", b), Fld("c", Sq(c))>>) :
                      a \in {Zero, I(FALSE, MaxMag["u64"])}, b \in {None, Some(S(<<>>)), Some(S(<<97>>))},
                      c \in {<<>>, <<F("fin", <<49, 46, 53>>)>>, <<Fnan>>, <<F("fin", <<48, 46, 49>>), Fninf>>, <<Fnz, Fz>>}}
    [] T = "O7" -> {Mp(<<>>), Mp(<<KV(S(<<97>>), One)>>), Mp(<<KV(S(<<>>), MinusOne), KV(S(<<233>>), Zero)>>)}
    [] T = "O8" -> {Mp(<<>>), Mp(<<KV(I(TRUE, <<3>>), B(TRUE))>>), Mp(<<KV(I(TRUE, <<3>>), B(TRUE)), KV(I(FALSE, <<7>>), B(FALSE))>>)}
    [] T = "O9" -> FloatSamples
    [] T = "O10" -> IntSamples("u128")
    [] T = "O11" -> {Var("A", "unit", Unit), Var("B", "newtype", Zero), Var("B", "newtype", MinusOne),
                     Var("C", "struct", Rc(<<Fld("x", B(TRUE))>>)), Var("C", "struct", Rc(<<Fld("x", B(FALSE))>>))}
    [] T = "O12" -> {Mp(<<>>), Mp(<<KV(Tup(<<One, I(FALSE, <<2>>)>>), B(TRUE))>>)}
    [] T = "O13" -> {None, Some(Unit)}
    [] T = "O14" -> IntSamples("i128")
    [] OTHER -> {}
Samples(T) ==
  CASE T \in IntTypes -> IntSamples(T)
    [] T \in {"f32", "f64"} -> FloatSamples
    [] T = "bool" -> {B(TRUE), B(FALSE)}
    [] T = "char" -> {Ch(c) : c \in CharSamples}
    [] T \in {"String", "ID"} -> {S(s) : s \in StrSamples}
    [] OTHER -> {Opq(x) : x \in OpaqueSamples(T)}

\* cursor strings for decode cases: encodings of samples, of neighbouring types, and malformed text
Junk == {<<>>, <<97, 98, 99>>, <<49, 46, 53>>, <<45>>, <<43>>, <<45, 45, 49>>, <<49, 45>>, <<1635>>, <<65297>>, <<49, 101, 51>>,
         <<43, 53>>, <<48, 48, 55>>, <<45, 48>>, <<84, 82, 85, 69>>, <<116, 114, 117>>, <<116, 114, 117, 101, 101>>, <<97, 98>>,
         <<105, 110, 102, 105, 110, 105, 116, 121>>, <<110, 97, 110>>, <<46, 53>>, <<53, 46>>, <<49, 46, 50, 46, 51>>, <<49, 101>>,
         <<49, 44, 53>>, <<48, 120, 49, 48>>, <<49, 46, 53, 48>>, <<78, 68, 73>>, <<33, 33>>}
IntStrings(T) == {EncInt(v) : v \in IntSamples(T)}
                 \cup {EncInt(I(FALSE, IncMag(MaxMag[T]))), EncInt(I(TRUE, IncMag(MinMag(T)))), EncInt(MinusOne), EncInt(I(FALSE, MaxMag["u128"]))}
JunkTrees == {JNull, JB(TRUE), JNum(Zero), JNum(I(FALSE, MaxMag["u128"])), JF(<<49, 46, 53>>), JS(<<>>), JS(<<65>>), JS(<<68>>), JA(<<>>),
              JA(<<JNum(Zero)>>), JA(<<JNum(Zero), JS(<<97>>)>>), JA(<<JNum(Zero), JS(<<97>>), JNull>>), JO(<<>>),
              JO(<<KV(<<97>>, JNum(One))>>), JO(<<KV(<<66>>, JNum(One))>>), JO(<<KV(<<66>>, JS(<<>>))>>), JO(<<KV(<<49>>, JB(TRUE))>>),
              JO(<<KV(<<120>>, JB(TRUE))>>)}
Strings(T) ==
  CASE T \in IntTypes -> {Cp(s) : s \in IntStrings(T) \cup Junk}
    [] T \in {"f32", "f64", "bool", "char", "String", "ID"} -> {Cp(s) : s \in Junk \cup {Encode(T, v).cp : v \in Samples(T)}}
    [] OTHER -> {Encode(T, v) : v \in Samples(T)} \cup {BJ(j) : j \in JunkTrees} \cup {Cp(s) : s \in {<<>>, <<33, 33>>, <<78, 68, 73, 61>>}}
                \cup {BC(s) : s \in {<<>>, <<123>>, <<52, 50, 32, 52, 51>>}}

\* query cases
Counts  == {NoArg, Arg(-1), Arg(0), Arg(1), Arg(2147483647), Arg(-2147483647 - 1)}
Of(v) == [enc |-> "of", x |-> v]
Garbage(T) == IF T \in OpaqueTypes THEN Cp(<<33, 33>>) ELSE Cp(<<49, 46, 50, 46, 51>>)         \* "!!" / "1.2.3"
OtherType(T) == CASE T \in {"i8", "u64", "usize"} -> Cp(EncInt(I(TRUE, <<3, 0, 0>>)))            \* "-300": an i16
                  [] T = "i32" -> Cp(EncInt(I(FALSE, MaxMag["i64"])))
                  [] T = "f64" -> Cp(TRUEcp)
                  [] T = "bool" -> Cp(<<53>>)
                  [] T = "char" -> Cp(TRUEcp)
                  [] T \in {"String", "ID"} -> Cp(<<53>>)
                  [] OTHER -> BJ(JS(<<53>>))
GoodValues(T) == {v \in Samples(T) : ~Lossy(v)}
PickA(T) == CHOOSE v \in GoodValues(T) : TRUE
PickB(T) == IF \E v \in GoodValues(T) : v # PickA(T) THEN CHOOSE v \in GoodValues(T) : v # PickA(T) ELSE PickA(T)
CursorArgs(T, v) == {NoCursor, Of(v), Garbage(T), OtherType(T)}
EdgeLists(T) == {<<>>, <<PickA(T)>>, <<PickB(T), PickA(T)>>, <<PickA(T), PickB(T), PickA(T)>>}
\* nf: the Connection variant with (TRUE) or without (FALSE) the `nodes` field -- two implementations of pageInfo
Qw(T, a, b, f, l) == [kind |-> "qw", ty |-> T, nf |-> TRUE, after |-> a, before |-> b, first |-> f, last |-> l, edges |-> <<PickB(T), PickA(T)>>]
\* full product of the argument classes for the types in QwFull; for the types in QwLight every count pair with valid
\* cursors and every cursor pair with two count pairs
QwCases == UNION {{Qw(T, a, b, f, l) : a \in CursorArgs(T, PickA(T)), b \in CursorArgs(T, PickB(T)), f \in Counts, l \in Counts} : T \in QwFull}
           \cup UNION {{Qw(T, Of(PickA(T)), NoCursor, f, l) : f \in Counts, l \in Counts}
                       \cup {Qw(T, a, b, fl[1], fl[2]) : a \in CursorArgs(T, PickA(T)), b \in CursorArgs(T, PickB(T)),
                                                         fl \in {<<NoArg, NoArg>>, <<Arg(1), Arg(0)>>}} : T \in QwLight}
           \* every (non-lossy) sample value of every type as `after` cursor and as the only edge
           \cup UNION {{[kind |-> "qw", ty |-> T, nf |-> TRUE, after |-> Of(v), before |-> NoCursor, first |-> Arg(1), last |-> NoArg, edges |-> <<v>>] :
                       v \in GoodValues(T)} : T \in Types}
           \* 0-3 edges, both Connection variants, every type
           \cup UNION {{[kind |-> "qw", ty |-> T, nf |-> nf, after |-> NoCursor, before |-> Of(PickA(T)), first |-> NoArg, last |-> Arg(2), edges |-> es] :
                       es \in EdgeLists(T), nf \in BOOLEAN} : T \in Types}
           \cup UNION {{[kind |-> "qw", ty |-> T, nf |-> FALSE, after |-> a, before |-> NoCursor, first |-> f, last |-> NoArg, edges |-> <<PickA(T)>>] :
                       a \in CursorArgs(T, PickA(T)), f \in {NoArg, Arg(-1), Arg(0)}} : T \in QwFull \cup QwLight}
RtCases  == UNION {{[kind |-> "rt", ty |-> T, x |-> v] : v \in Samples(T)} : T \in Types}
DecCases == UNION {{[kind |-> "dec", ty |-> T, s |-> s] : s \in Strings(T)} : T \in Types}
ShapeCases == {[kind |-> "shape", ty |-> T] : T \in OpaqueTypes}
Kinds == {"rt", "dec", "qw", "shape"}
CasesOf(kind) == CASE kind = "rt" -> RtCases [] kind = "dec" -> DecCases [] kind = "qw" -> QwCases [] OTHER -> ShapeCases

-----------------------------------------------------------------------------
(* one state per case *)
VARIABLE c
vars == <<c>>
Init == \E kind \in GenKinds : c \in CasesOf(kind)
Next == UNCHANGED c

\* Mode M: laws of the model itself, on every case.
\*  rt : decoding the model's encoding gives the value back, except exactly for the lossy opaque values, where
\*       today's serde_json model loses it (so the trigger predicate characterises the model's non-injectivity)
\*  dec: the admissible set is never empty, and a must-accept string re-encodes to itself
\*  qw : rejection happens exactly for a negative count or a must-reject cursor
LawRt(cs)  == LET e == Encode(cs.ty, cs.x) IN
              IF cs.ty \in OpaqueTypes
              THEN (TodayRT(cs.ty, cs.x) = cs.x) <=> ~Lossy(cs.x)
              ELSE DecodeSet(cs.ty, e) = {cs.x}
LawDec(cs) == LET D == DecodeSet(cs.ty, cs.s) IN
              /\ D # {}
              /\ (Cardinality(D) = 1 /\ D # {Err} /\ D # {AnyStr}) => (\A v \in D : Encode(cs.ty, v) = cs.s)
LawQw(cs)  == Rejects(cs.ty, cs.after, cs.before, cs.first, cs.last)
                <=> \/ (cs.first.p /\ cs.first.n < 0) \/ (cs.last.p /\ cs.last.n < 0)
                    \/ (cs.after.enc \notin {"absent", "of"} /\ MustReject(cs.ty, cs.after))
                    \/ (cs.before.enc \notin {"absent", "of"} /\ MustReject(cs.ty, cs.before))
ModelLaws == CASE c.kind = "rt" -> LawRt(c) [] c.kind = "dec" -> LawDec(c) [] c.kind = "qw" -> LawQw(c) [] OTHER -> TRUE
=============================================================================
