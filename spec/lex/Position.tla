------------------------------ MODULE Position ------------------------------
(***************************************************************************)
(* Line/column automaton of GraphQL source text (spec section 2.1.2 Line   *)
(* Terminators, 2.1 Source Text) and the positions async-graphql must      *)
(* report (property C14).                                                  *)
(*                                                                         *)
(* A text is a sequence of code-point classes.  Only three things matter   *)
(* for positions: LF, CR, and "any other Unicode scalar value"; the other  *)
(* classes are kept apart because the implementation may treat them        *)
(* differently (tab width, BOM, multi-byte UTF-8, comment bodies).         *)
(*                                                                         *)
(* The module is a state machine (one Scan action per code point) so that  *)
(*  - mode M: TLC checks the automaton against the declarative definition  *)
(*            of line and column (invariants LineIsTerminators,            *)
(*            ColIsDistance) for all texts up to MaxLen;                   *)
(*  - mode G: every reachable state with a legal "ignored tokens" prefix   *)
(*            is printed as a REPLAY line for the harness;                 *)
(*  - mode V: PositionTrace re-uses Step/PosAt on recorded texts.          *)
(***************************************************************************)
EXTENDS Naturals, Sequences, FiniteSets, TLC

Ignorable  == {"CR", "LF", "TAB", "SP", "COMMA", "BOM"}      \* legal between tokens
CommentOnly == {"A1", "U2", "U3", "U4", "QUOTE"}             \* legal only in comment bodies here
Classes == Ignorable \cup CommentOnly \cup {"HASH"}

PosInit == [line |-> 1, col |-> 1, cr |-> FALSE]

\* One code point consumed.  `cr` remembers that the previous code point was CR,
\* so that the LF of a CRLF pair does not end a second line.
Step(s, c) ==
  CASE c = "CR" -> [line |-> s.line + 1, col |-> 1, cr |-> TRUE]
    [] c = "LF" -> IF s.cr THEN [s EXCEPT !.cr = FALSE]
                           ELSE [line |-> s.line + 1, col |-> 1, cr |-> FALSE]
    [] OTHER    -> [line |-> s.line, col |-> s.col + 1, cr |-> FALSE]

\* Deviation of today's PositionCalculator / pest line_col: a CR only resets the column.
StepDevLoneCR(s, c) ==
  CASE c = "CR" -> [line |-> s.line, col |-> 1, cr |-> TRUE]
    [] c = "LF" -> [line |-> s.line + 1, col |-> 1, cr |-> FALSE]
    [] OTHER    -> [line |-> s.line, col |-> s.col + 1, cr |-> FALSE]

\* Deviation of pest's line_col (syntax errors): a CR is an ordinary character unless an LF follows.
StepDevPest(s, c) ==
  CASE c = "LF" -> [line |-> s.line + 1, col |-> 1, cr |-> FALSE]
    [] OTHER    -> [line |-> s.line, col |-> s.col + 1, cr |-> FALSE]

RECURSIVE Fold(_, _, _, _)
Fold(F(_, _), s, text, i) == IF i > Len(text) THEN s ELSE Fold(F, F(s, text[i]), text, i + 1)

\* Position of the code point at 1-based index k (i.e. after consuming text[1..k-1]).
RECURSIVE Run(_, _, _, _, _)
Run(F(_, _), s, text, i, k) == IF i >= k THEN s ELSE Run(F, F(s, text[i]), text, i + 1, k)
PosAt(text, k)    == Run(Step, PosInit, text, 1, k)
PosAtDev(text, k) == Run(StepDevLoneCR, PosInit, text, 1, k)
PosAtPest(text, k) == Run(StepDevPest, PosInit, text, 1, k)

\* A lone CR (not followed by LF) occurs in text[1..k-1]
HasLoneCR(text, k) == \E i \in 1..(k - 1) : text[i] = "CR" /\ (i + 1 > Len(text) \/ text[i + 1] # "LF")

--------------------------------------------------------------------------------
(* State machine: scanning a prefix of ignored tokens.                        *)
CONSTANT MaxLen
VARIABLES pre, pos, inComment
vars == <<pre, pos, inComment>>

Init == pre = <<>> /\ pos = PosInit /\ inComment = FALSE

Scan(c) ==
  /\ Len(pre) < MaxLen
  /\ (c \in CommentOnly => inComment)
  /\ pre' = Append(pre, c)
  /\ pos' = Step(pos, c)
  /\ inComment' = IF c \in {"CR", "LF"} THEN FALSE ELSE IF c = "HASH" THEN TRUE ELSE inComment

Next == \E c \in Classes : Scan(c)
Spec == Init /\ [][Next]_vars

\* Declarative definitions the automaton is checked against.
IsTerminatorEnd(t, i) ==   \* a line terminator ends at index i
  \/ t[i] = "LF"
  \/ t[i] = "CR" /\ ~(i < Len(t) /\ t[i + 1] = "LF")
NumTerminators(t) == Cardinality({i \in 1..Len(t) : IsTerminatorEnd(t, i)})
LastTerminatorEnd(t) == IF \E i \in 1..Len(t) : IsTerminatorEnd(t, i)
                        THEN CHOOSE i \in 1..Len(t) : IsTerminatorEnd(t, i) /\ \A j \in (i + 1)..Len(t) : ~IsTerminatorEnd(t, j)
                        ELSE 0
\* While the last code point is a CR the automaton has already counted the line
\* (a following LF will not count again), which the declarative count also does.
LineIsTerminators == pos.line = 1 + NumTerminators(pre)
ColIsDistance     == pos.col = 1 + Len(pre) - LastTerminatorEnd(pre)
TypeOK == pos.line \in 1..(MaxLen + 1) /\ pos.col \in 1..(MaxLen + 1)

\* Mode G: a prefix is complete when a token may follow it (not inside a comment).
Emit == (~inComment) => PrintT(<<"REPLAY", pre>>)
=============================================================================
