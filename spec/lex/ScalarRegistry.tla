--------------------------- MODULE ScalarRegistry ---------------------------
(***************************************************************************)
(* The pipeline a scalar argument value goes through in Schema::execute    *)
(* (implementation-shaped; used for mode M and for drift, never for a      *)
(* verdict):                                                               *)
(*   1. schema construction registers GraphQL type names.  Scalars carry   *)
(*      no rust_typename, so Registry::create_type keeps the *first*       *)
(*      registration of a name and silently drops later ones;              *)
(*      Registry::add_system_types registers bool, i32, f32, String, ID    *)
(*      before any user type.                                              *)
(*   2. validation (is_valid_input_value) calls the is_valid function      *)
(*      stored under the argument's GraphQL type *name*;                   *)
(*   3. the resolver's argument is produced by <T as InputType>::parse.    *)
(* State: the registry (name -> Rust type whose is_valid is stored) and    *)
(* the set of user types registered so far; one Register action per user   *)
(* type, in any order.  Invariants: which Rust type owns "Int"/"Float",    *)
(* and that the pipeline differs from the reference semantics exactly on   *)
(* the trigger sets of the named deviations of Scalars.tla.                *)
(***************************************************************************)
EXTENDS ScalarImpl

CONSTANT UserTypes          \* the Rust types the schema's fields use, registered in any order
VARIABLES reg, done
rvars == <<reg, done>>

RInit == reg = System /\ done = {}
Register(T) == /\ T \notin done /\ done' = done \cup {T}
               /\ reg' = IF reg[GqlName(T)] = "none" THEN [reg EXCEPT ![GqlName(T)] = T] ELSE reg
RNext == \E T \in UserTypes : Register(T)
RSpec == RInit /\ [][RNext]_rvars


-----------------------------------------------------------------------------
(* Invariants (mode M, MC_ScalarRegistry.cfg)                               *)
CONSTANT Probe              \* values the invariants quantify over
RegistryFixed == /\ reg["Int"] = "i32" /\ reg["Float"] = "f32"
                 /\ \A T \in done : reg[GqlName(T)] = FinalReg[GqlName(T)]
\* the trigger sets of Scalars.tla as predicates on (T, v) for a literal argument
Trig(T, v) == \/ T \in U64Like /\ v.k = "int" /\ Lt(I64Max, v) /\ Leq(v, U64Max)            \* DevIntValidatorI64
              \/ T = "ID" /\ v.k = "int" /\ ~Between(I64Min, v, I64Max)                     \* DevIdIntRange
              \/ T \in BaseInts \cup {"ID"} /\ v.k = "int" /\ IsNegZero(v)                  \* DevNegZeroInt
              \/ T = "f32" /\ v.k = "float" /\ v.cls = "above_f32"                          \* DevF32Overflow
              \/ T = "enum" /\ v.k = "str" /\ v.cp \in EnumItems                            \* DevEnumStringLiteral
\* today's pipeline differs from the reference semantics on the trigger sets only ...
DeviationsExplained == \A T \in done, v \in Probe : (Pipeline(reg, T, v) # AcceptsVia("lit", T, v)) => Trig(T, v)
\* ... and on every integer trigger it does differ (the triggers are not wider than the defect)
TriggersTight == \A T \in done, v \in Probe :
                   (Trig(T, v) /\ v.k = "int") => (Pipeline(reg, T, v) # AcceptsVia("lit", T, v))
=============================================================================
