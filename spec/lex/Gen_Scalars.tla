----------------------------- MODULE Gen_Scalars -----------------------------
(***************************************************************************)
(* Mode G for C07: TLC enumerates the cases (type, direction, value).      *)
(*   - every integer of -130..257 for the 8-bit types and their NonZero    *)
(*     forms, every integer of -32770..65537 for the 16-bit ones (Full16)  *)
(*     or a boundary-dense + strided subset (quick tier);                  *)
(*   - for every type: MIN-1, MIN, MIN+1, MAX-1, MAX, MAX+1 of *every*     *)
(*     Rust integer type, -1, 0, 1, "-0", 2^31, 2^32, 2^63, 2^64, 2^64+1,  *)
(*     -2^64, 10^20;                                                       *)
(*   - every float class with its representative literals; every ASCII     *)
(*     char and boundary Unicode scalar values for char/String/ID; strings *)
(*     with numeric / boolean / enum-name content; enum names (members,    *)
(*     near misses); booleans; null; lists and objects.                    *)
(* Direction "in" offers the GraphQL value to the type's input coercion,   *)
(* "lit" / "var" send it through a real schema as a literal / a variable,  *)
(* direction "out" takes it as a Rust value to serialise and parse back.   *)
(* The same run checks the specification against itself (mode M for a      *)
(* function-shaped module): SpecRoundTrip, Lattice, NativeRange.           *)
(***************************************************************************)
EXTENDS Scalars, TLC, Json
CONSTANTS Full16,      \* TRUE: every 16-bit value
          Stride16,    \* otherwise every Stride16-th value ...
          Window16     \* ... and all values within Window16 of a 16-bit boundary
VARIABLES T, dir, v, ph     \* ph = 0: (T, dir) chosen, value still to be drawn; ph = 1: a complete case
vars == <<T, dir, v, ph>>

NegZero == [neg |-> TRUE, d |-> <<0>>]
Ten20   == [neg |-> FALSE, d |-> <<1>> \o [i \in 1..20 |-> 0]]
Boundaries ==
  UNION {{Pred(MinOf(b)), MinOf(b), Succ(MinOf(b)), Pred(MaxOf(b)), MaxOf(b), Succ(MaxOf(b))} : b \in BaseInts}
  \cup {FromInt(-1), Zero, One, NegZero, Pow2(31), Pow2(32), Pow2(63), Pow2(64), Succ(Pow2(64)), Negate(Pow2(64)), Ten20}

Near16(n) == \E b \in {-32768, 0, 32767, 65535} : n - b <= Window16 /\ b - n <= Window16
Range8  == -130..257
Range16 == IF Full16 THEN -32770..65537 ELSE {n \in -32770..65537 : n % Stride16 = 0 \/ Near16(n)}
Is8(t)  == Base(t) \in {"i8", "u8"}
Is16(t) == Base(t) \in {"i16", "u16"}
IntPool(t) == Boundaries \cup (IF Is8(t) THEN {FromInt(n) : n \in Range8} ELSE IF Is16(t) THEN {FromInt(n) : n \in Range16} ELSE {})

\* representative literals of each float class (text as code points; the harness re-derives the class)
FloatLits == [
  integral |-> <<
      <<49,46,48>>,   \* 1.0
      <<45,51,46,48>>,   \* -3.0
      <<49,101,49,48>>,   \* 1e10
      <<52,50,57,52,57,54,55,50,57,54,46,48>>,   \* 4294967296.0
      <<48,46,48>>,   \* 0.0
      <<45,48,46,48>>,   \* -0.0
      <<57,50,50,51,51,55,50,48,51,54,56,53,52,55,55,53,56,48,56,46,48>>    \* 9223372036854775808.0
  >>,
  fractional |-> <<
      <<48,46,53>>,   \* 0.5
      <<45,50,46,55,53>>,   \* -2.75
      <<48,46,49>>,   \* 0.1
      <<51,46,49,52,49,53,57,50,54,53,51,53,56,57,55,57,51>>,   \* 3.141592653589793
      <<49,46,53,101,45,53>>    \* 1.5e-5
  >>,
  f32max |-> <<
      <<51,46,52,48,50,56,50,51,52,54,54,51,56,53,50,56,56,54,101,51,56>>,   \* 3.4028234663852886e38
      <<45,51,46,52,48,50,56,50,51,52,54,54,51,56,53,50,56,56,54,101,51,56>>    \* -3.4028234663852886e38
  >>,
  above_f32 |-> <<
      <<51,46,53,101,51,56>>,   \* 3.5e38
      <<49,101,51,48,48>>,   \* 1e300
      <<45,49,101,51,48,48>>,   \* -1e300
      <<49,46,55,57,55,54,57,51,49,51,52,56,54,50,51,49,53,55,101,51,48,56>>    \* 1.7976931348623157e308
  >>,
  subnormal |-> <<
      <<53,101,45,51,50,52>>,   \* 5e-324
      <<49,101,45,51,49,48>>,   \* 1e-310
      <<49,101,45,52,53>>    \* 1e-45
  >>
]
FloatPool     == {FloatV(c, r, FloatLits[c][r]) : <<c, r>> \in {<<c, r>> \in InFloatClasses \X (1..7) : r <= Len(FloatLits[c])}}
NonFinitePool == {FloatV(c, 0, <<>>) : c \in NonFinite}

StrSmall == { <<>>, <<48>>, <<49>>, <<49,46,53>>, <<97>>, <<97,98>>, <<116,114,117,101>>,   \* "" 0 1 1.5 a ab true
              <<82,69,68>>, <<114,101,100>>, <<233>>, <<128512>>, <<101,769>>, <<32>> }      \* RED red e-acute emoji e+combining-acute space
AsciiSingles == {<<n>> : n \in 0..127}
UniSingles   == { <<128>>, <<2047>>, <<2048>>, <<8364>>, <<55295>>, <<57344>>, <<65279>>, <<65535>>, <<65536>>, <<1114111>> }
StrPool(t) == IF t \in {"char", "String", "ID"} THEN StrSmall \cup AsciiSingles \cup UniSingles
              ELSE IF t = "enum" THEN StrSmall \cup EnumItems \cup {<<82,69,68,32>>, <<68,65,82,75,95,66,76,85>>}   \* "RED ", "DARK_BLU"
              ELSE StrSmall
EnumNames == EnumItems \cup { <<78,79,80,69>>, <<114,101,100>>, <<82,101,100>>, <<68,97,114,107,66,108,117,101>>, <<68,65,82,75,95,66,76,85>> }
                              \* NOPE red Red DarkBlue DARK_BLU

NonIntPool(t) == {NullV} \cup FloatPool \cup {StrV(s) : s \in StrPool(t)}
                 \cup {BoolV(TRUE), BoolV(FALSE)} \cup {EnumV(s) : s \in EnumNames}
                 \cup {ListV("empty"), ListV("one_int"), ListV("one_str")} \cup {ObjV("empty"), ObjV("a_int")}
Pool(t) == NonIntPool(t) \cup {IntV(x) : x \in IntPool(t)}

NativeKind(t) == CASE t \in IntLike -> "int" [] t \in FloatTypes -> "float" [] t = "bool" -> "bool"
                   [] t \in {"String", "char", "ID"} -> "str" [] t = "enum" -> "enum"
\* Rust-side values: everything of the type's own kind (the harness reports whether Rust can hold it)
RustPool(t) == {x \in Pool(t) : x.k = NativeKind(t) /\ ~(x.k = "int" /\ IsNegZero(x))}
               \cup (IF t \in FloatTypes THEN NonFinitePool ELSE {})

\* the end-to-end routes take everything but the bulk of the 16-bit ranges
ExecIntPool(t) == Boundaries \cup (IF Is8(t) THEN {FromInt(n) : n \in Range8}
                                   ELSE IF Is16(t) THEN {FromInt(n) : n \in {m \in -32770..65537 : Near16(m)}} ELSE {})
ExecPool(t) == NonIntPool(t) \cup {IntV(x) : x \in ExecIntPool(t)}

\* Two levels so that TLC's workers share the enumeration (initial states are computed by one thread).
GInit == T \in Types /\ dir \in {"in", "out", "lit", "var"} /\ v = NullV /\ ph = 0
GNext == /\ ph = 0 /\ ph' = 1 /\ UNCHANGED <<T, dir>>
         /\ v' \in (CASE dir = "in" -> Pool(T) [] dir = "out" -> RustPool(T) [] OTHER -> ExecPool(T))

Emit == ph = 1 => PrintT(<<"REPLAY", ToJson([T |-> T, dir |-> dir, v |-> v])>>)

-----------------------------------------------------------------------------
(* The specification checked against itself on every generated state.       *)
ToValueRef(t, x) == CASE t \in IntLike -> IntV(Canon(x)) [] t = "enum" -> EnumV(x.cp) [] t = "bool" -> x
                      [] t \in FloatTypes -> x [] OTHER -> StrV(x.cp)
\* what the spec says serialising produces is accepted by the spec's coercion and denotes x again
SpecRoundTrip == (ph = 1 /\ dir = "out" /\ InDomain(T, v) /\ ~(v.k = "float" /\ v.cls \in NonFinite)) =>
                   LET tv == ToValueRef(T, v)
                   IN Serialised(T, v, tv) /\ Accepts(T, tv)
                      /\ (T \notin FloatTypes => Denoted(T, tv, v) /\ SameRust(T, v, v))
\* sub-ranges: NonZero within its base; narrower within wider of the same signedness; unsigned within wider signed
Wider == { <<"i8", "i16">>, <<"i16", "i32">>, <<"i32", "i64">>, <<"i64", "isize">>, <<"isize", "i64">>,
           <<"u8", "u16">>, <<"u16", "u32">>, <<"u32", "u64">>, <<"u64", "usize">>, <<"usize", "u64">>,
           <<"u8", "i16">>, <<"u16", "i32">>, <<"u32", "i64">> }
Lattice == (ph = 1 /\ dir \in Offers /\ v.k = "int") =>
             /\ (T \in NonZeroInts => (Accepts(T, v) <=> Accepts(Base(T), v) /\ ~IsZero(v)))
             /\ \A w \in Wider : (w[1] = T /\ Accepts(T, v)) => Accepts(w[2], v)
             /\ (Accepts(T, v) /\ T # "ID" => \A f \in FloatTypes : Accepts(f, v))
\* 8/16-bit ranges against TLC's native integers
NativeRange == (ph = 1 /\ dir = "in" /\ v.k = "int" /\ (Is8(T) \/ Is16(T)) /\ Len(v.d) <= 6 /\ ~IsNegZero(v)) =>
                 LET n  == ToInt(v)
                     lo == CASE Base(T) = "i8" -> -128 [] Base(T) = "i16" -> -32768 [] OTHER -> 0
                     hi == CASE Base(T) = "i8" -> 127 [] Base(T) = "i16" -> 32767 [] Base(T) = "u8" -> 255 [] OTHER -> 65535
                 IN Accepts(T, v) <=> (lo <= n /\ n <= hi /\ (T \in NonZeroInts => n # 0))
\* exactly one kind's values are ever accepted by a non-float, non-ID, non-enum scalar
KindExclusive == (ph = 1 /\ dir = "in" /\ Accepts(T, v)) =>
                   v.k \in (CASE T \in IntLike -> {"int"} [] T \in FloatTypes -> {"int", "float"} [] T = "bool" -> {"bool"}
                              [] T \in {"String", "char"} -> {"str"} [] T = "ID" -> {"str", "int"} [] T = "enum" -> {"enum", "str"})
=============================================================================
