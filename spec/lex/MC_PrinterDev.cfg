CONSTANT MaxNodes = 1
CONSTANT MaxDepth = 0
CONSTANT MaxWidth = 1
CONSTANT AtomSel = "small"
CONSTANT Alphabet = {0, 9, 27, 65}
CONSTANT MaxStr = 2
CONSTANT AlphabetLong = {}
CONSTANT MaxStrLong = 0
INIT Init
NEXT Next
INVARIANT InvDevReadsBack
