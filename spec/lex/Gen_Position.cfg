CONSTANT MaxLen = 3
INIT Init
NEXT Next
INVARIANT Emit
