------------------------------- MODULE JsHtml -------------------------------
(***************************************************************************)
(* Property C34: the GraphiQL page embeds its configuration verbatim and   *)
(* safely.  Reference semantics of the three contexts a configured string  *)
(* is written into, over sequences of Unicode code points (integers):      *)
(*                                                                         *)
(*  1. a JavaScript string literal of a module script                      *)
(*     (ECMA-262 12.9.4 "String Literals", strict code: 12.9.4.1;          *)
(*      U+2028/U+2029 are legal in literals since ES2019)   -> LexString   *)
(*  2. the content of an HTML <script> element (WHATWG HTML 13.2.5.4       *)
(*     "Script data state" ... 13.2.5.31 "Script data double escape end    *)
(*     state")                                              -> TokStep     *)
(*  3. the content of an HTML <title> element, an RCDATA element           *)
(*     (13.2.5.2 RCDATA state, 13.2.5.9-11 end tags, 13.2.5.72-80          *)
(*     character references)                                -> Rcdata      *)
(*  plus the newline normalisation of the HTML input stream (13.2.3.5).    *)
(*                                                                         *)
(* Two writers are modelled: JsEscape, a correct JavaScript string         *)
(* escaper (what the page needs), and HtmlEscape, the HTML escaper that    *)
(* today's template applies everywhere (askama's default for *.jinja).     *)
(*                                                                         *)
(* The module is a state machine (one code point / hostile sequence        *)
(* appended per step, the script-data tokenizer advanced incrementally) so *)
(*  - mode M: TLC checks, for every configured value up to the bound, that *)
(*            the correct writer embeds it verbatim and safely, that the   *)
(*            HTML writer is right for <title>, that today's writer is     *)
(*            wrong exactly on the trigger class of the named deviations,  *)
(*            and the tokenizer lemma behind "EndsScript";                 *)
(*  - mode G: every reachable (slot, value) is printed as a REPLAY line;   *)
(*  - mode V: JsHtmlTrace judges the text the real library rendered.       *)
(***************************************************************************)
EXTENDS Integers, Sequences, FiniteSets, TLC

TAB == 9    LF == 10    FF == 12    CR == 13    SP == 32    BANG == 33    DQ == 34    HASH == 35
AMP == 38   SQ == 39    DASH == 45  SLASH == 47 SEMI == 59  LT == 60      GT == 62    BS == 92
LS == 8232  PS == 8233  LBRACE == 123   RBRACE == 125
Script == <<115, 99, 114, 105, 112, 116>>     \* "script"
Title  == <<116, 105, 116, 108, 101>>         \* "title"

IsAlpha(c) == c \in 65..90 \/ c \in 97..122
IsAlnum(c) == IsAlpha(c) \/ c \in 48..57
Lower(c)   == IF c \in 65..90 THEN c + 32 ELSE c
HexVal(c)  == IF c \in 48..57 THEN c - 48 ELSE IF c \in 65..70 THEN c - 55 ELSE IF c \in 97..102 THEN c - 87 ELSE 99
IsHex(c)   == HexVal(c) < 16
At(t, i)   == IF i >= 1 /\ i <= Len(t) THEN t[i] ELSE 0 - 1      \* -1 = beyond the text

RECURSIVE Flat(_, _, _)
Flat(F(_), t, i) == IF i > Len(t) THEN <<>> ELSE F(t[i]) \o Flat(F, t, i + 1)
StartsWith(t, i, p) == i + Len(p) - 1 <= Len(t) /\ \A k \in 1..Len(p) : t[i + k - 1] = p[k]
StartsWithCI(t, i, p) == i + Len(p) - 1 <= Len(t) /\ \A k \in 1..Len(p) : Lower(t[i + k - 1]) = p[k]
Contains(t, p)   == \E i \in 1..Len(t) : StartsWith(t, i, p)
ContainsCI(t, p) == \E i \in 1..Len(t) : StartsWithCI(t, i, p)

--------------------------------------------------------------------------------
(* HTML 13.2.3.5 Preprocessing the input stream: CRLF and lone CR become LF.  *)
RECURSIVE NormNL(_, _, _)
NormNL(t, i, acc) ==
  IF i > Len(t) THEN acc
  ELSE IF t[i] = CR THEN NormNL(t, IF At(t, i + 1) = LF THEN i + 2 ELSE i + 1, Append(acc, LF))
  ELSE NormNL(t, i + 1, Append(acc, t[i]))
Normalize(t) == NormNL(t, 1, <<>>)

--------------------------------------------------------------------------------
(* 1. JavaScript string literals.  Values are sequences of UTF-16 code units   *)
(* (ECMA-262 6.1.4): a configured Rust string is compared after Utf16.         *)
Utf16One(cp) == IF cp < 65536 THEN <<cp>>
                ELSE <<55296 + ((cp - 65536) \div 1024), 56320 + ((cp - 65536) % 1024)>>
Utf16(t) == Flat(Utf16One, t, 1)

\* SingleEscapeCharacter :: one of ' " \ b f n r t v
SingleEscape(e) == CASE e = SQ -> SQ [] e = DQ -> DQ [] e = BS -> BS [] e = 98 -> 8 [] e = 102 -> 12
                     [] e = 110 -> 10 [] e = 114 -> 13 [] e = 116 -> 9 [] e = 118 -> 11 [] OTHER -> 0 - 1

\* \u{ HexDigits }: digits from index j up to `}`; the value must not exceed 0x10FFFF
RECURSIVE HexRun(_, _, _, _)
HexRun(t, j, v, n) ==
  LET c == At(t, j) IN
  IF c = RBRACE THEN [ok |-> n > 0, next |-> j + 1, v |-> v]
  ELSE IF IsHex(c) /\ v * 16 + HexVal(c) <= 1114111 THEN HexRun(t, j + 1, v * 16 + HexVal(c), n + 1)
  ELSE [ok |-> FALSE, next |-> j, v |-> v]

Bad(j, acc, why) == [ok |-> FALSE, end |-> j, val |-> acc, why |-> why]

\* t[j..] is the rest of a literal opened by quote q; acc = the string value so far.
\* Result: ok = a complete literal, end = index of the closing quote, val = its String Value (SV).
RECURSIVE LexFrom(_, _, _, _)
LexFrom(t, q, j, acc) ==
  LET c == At(t, j) IN
  IF c < 0 THEN Bad(j, acc, "window")                                   \* ran off the recorded text
  ELSE IF c = q THEN [ok |-> TRUE, end |-> j, val |-> acc, why |-> ""]
  ELSE IF c \in {LF, CR} THEN Bad(j, acc, "newline")                     \* LineTerminator (LS/PS allowed, ES2019)
  ELSE IF c # BS THEN LexFrom(t, q, j + 1, acc \o Utf16One(c))
  ELSE LET e == At(t, j + 1) IN
    IF e < 0 THEN Bad(j, acc, "window")
    ELSE IF e \in {LF, LS, PS} THEN LexFrom(t, q, j + 2, acc)              \* LineContinuation
    ELSE IF e = CR THEN LexFrom(t, q, IF At(t, j + 2) = LF THEN j + 3 ELSE j + 2, acc)
    ELSE IF SingleEscape(e) >= 0 THEN LexFrom(t, q, j + 2, Append(acc, SingleEscape(e)))
    ELSE IF e = 48 THEN (IF At(t, j + 2) \in 48..57 THEN Bad(j, acc, "octal")   \* \0 [lookahead not DecimalDigit]
                         ELSE LexFrom(t, q, j + 2, Append(acc, 0)))
    ELSE IF e \in 49..57 THEN Bad(j, acc, "octal")                        \* legacy octal / \8 \9: errors in strict code
    ELSE IF e = 120 THEN (IF IsHex(At(t, j + 2)) /\ IsHex(At(t, j + 3))
                          THEN LexFrom(t, q, j + 4, Append(acc, HexVal(t[j + 2]) * 16 + HexVal(t[j + 3])))
                          ELSE Bad(j, acc, "hex"))
    ELSE IF e = 117 THEN
      (IF At(t, j + 2) = LBRACE
       THEN LET h == HexRun(t, j + 3, 0, 0) IN
            IF h.ok THEN LexFrom(t, q, h.next, acc \o Utf16One(h.v)) ELSE Bad(j, acc, "unicode")
       ELSE IF \A k \in 2..5 : IsHex(At(t, j + k))
            THEN LexFrom(t, q, j + 6, Append(acc, ((HexVal(t[j + 2]) * 16 + HexVal(t[j + 3])) * 16 + HexVal(t[j + 4])) * 16 + HexVal(t[j + 5])))
            ELSE Bad(j, acc, "unicode"))
    ELSE LexFrom(t, q, j + 2, acc \o Utf16One(e))                          \* NonEscapeCharacter

\* The literal that starts at t[1] (its opening quote).
LexString(t) == IF At(t, 1) \in {SQ, DQ} THEN LexFrom(t, t[1], 2, <<>>) ELSE Bad(1, <<>>, "noquote")
JsStringValue(lit) == LexString(lit)

--------------------------------------------------------------------------------
(* 2. <script> content: the tokenizer states of HTML 13.2.5.4, .15 - .31.      *)
(* "closed" = an appropriate end tag </script was recognised (absorbing).      *)
IsTagEnd(c) == c \in {TAB, LF, FF, SP, SLASH, GT}
Buf(b, c)   == IF Len(b) < 7 THEN Append(b, Lower(c)) ELSE b        \* longer than "script" can never match
TokInit     == [s |-> "sd", b |-> <<>>]
To(s)       == [s |-> s, b |-> <<>>]

RECURSIVE TokStep(_, _)
TokStep(k, c) ==
  CASE k.s = "sd"             -> IF c = LT THEN To("sdLt") ELSE k
    [] k.s = "sdLt"           -> IF c = SLASH THEN To("sdEndOpen") ELSE IF c = BANG THEN To("sdEscStart") ELSE TokStep(To("sd"), c)
    [] k.s = "sdEndOpen"      -> IF IsAlpha(c) THEN TokStep(To("sdEndName"), c) ELSE TokStep(To("sd"), c)
    [] k.s = "sdEndName"      -> IF IsTagEnd(c) THEN (IF k.b = Script THEN To("closed") ELSE TokStep(To("sd"), c))
                                 ELSE IF IsAlpha(c) THEN [k EXCEPT !.b = Buf(k.b, c)] ELSE TokStep(To("sd"), c)
    [] k.s = "sdEscStart"     -> IF c = DASH THEN To("sdEscStartDash") ELSE TokStep(To("sd"), c)
    [] k.s = "sdEscStartDash" -> IF c = DASH THEN To("escDashDash") ELSE TokStep(To("sd"), c)
    [] k.s = "esc"            -> IF c = DASH THEN To("escDash") ELSE IF c = LT THEN To("escLt") ELSE k
    [] k.s = "escDash"        -> IF c = DASH THEN To("escDashDash") ELSE IF c = LT THEN To("escLt") ELSE To("esc")
    [] k.s = "escDashDash"    -> IF c = DASH THEN k ELSE IF c = LT THEN To("escLt") ELSE IF c = GT THEN To("sd") ELSE To("esc")
    [] k.s = "escLt"          -> IF c = SLASH THEN To("escEndOpen") ELSE IF IsAlpha(c) THEN TokStep(To("dEscStart"), c) ELSE TokStep(To("esc"), c)
    [] k.s = "escEndOpen"     -> IF IsAlpha(c) THEN TokStep(To("escEndName"), c) ELSE TokStep(To("esc"), c)
    [] k.s = "escEndName"     -> IF IsTagEnd(c) THEN (IF k.b = Script THEN To("closed") ELSE TokStep(To("esc"), c))
                                 ELSE IF IsAlpha(c) THEN [k EXCEPT !.b = Buf(k.b, c)] ELSE TokStep(To("esc"), c)
    [] k.s = "dEscStart"      -> IF IsTagEnd(c) THEN (IF k.b = Script THEN To("desc") ELSE To("esc"))
                                 ELSE IF IsAlpha(c) THEN [k EXCEPT !.b = Buf(k.b, c)] ELSE TokStep(To("esc"), c)
    [] k.s = "desc"           -> IF c = DASH THEN To("descDash") ELSE IF c = LT THEN To("descLt") ELSE k
    [] k.s = "descDash"       -> IF c = DASH THEN To("descDashDash") ELSE IF c = LT THEN To("descLt") ELSE To("desc")
    [] k.s = "descDashDash"   -> IF c = DASH THEN k ELSE IF c = LT THEN To("descLt") ELSE IF c = GT THEN To("sd") ELSE To("desc")
    [] k.s = "descLt"         -> IF c = SLASH THEN To("dEscEnd") ELSE TokStep(To("desc"), c)
    [] k.s = "dEscEnd"        -> IF IsTagEnd(c) THEN (IF k.b = Script THEN To("esc") ELSE To("desc"))
                                 ELSE IF IsAlpha(c) THEN [k EXCEPT !.b = Buf(k.b, c)] ELSE TokStep(To("desc"), c)
    [] OTHER                  -> k                                   \* closed

RECURSIVE TokRun(_, _, _)
TokRun(k, t, i) == IF i > Len(t) THEN k ELSE TokRun(TokStep(k, t[i]), t, i + 1)

\* States in which the tokenizer is still in plain script data (a pending "<", "</scr", "<!-" is harmless
\* as long as the text that follows does not complete it).
PlainStates == {"sd", "sdLt", "sdEndOpen", "sdEndName", "sdEscStart", "sdEscStartDash"}
\* text, followed by template text without "<", neither closes the script element nor leaves the tokenizer in
\* an escaped state (where the page's own </script> would no longer be recognised the same way)
ScriptSafe(t) == TokRun(TokInit, t, 1).s = "sd"
EndsScript(t) == TokRun(TokInit, t, 1).s = "closed"

--------------------------------------------------------------------------------
(* 3. <title> content (RCDATA): character references are decoded, the element   *)
(* ends at the first appropriate end tag </title.  Named references modelled:  *)
(* amp lt gt quot apos (and the legacy forms without ';' / in upper case); any *)
(* other "&name;" sets unk (not judged).                                        *)
IsEndTagAt(t, i, name) == /\ At(t, i) = LT /\ At(t, i + 1) = SLASH
                          /\ StartsWithCI(t, i + 2, name)
                          /\ IsTagEnd(At(t, i + 2 + Len(name)))

RECURSIVE DigitRun(_, _, _, _, _)
DigitRun(t, j, base, v, n) ==           \* v is capped at 0x110000 (= out of range)
  LET c == At(t, j) d == HexVal(c) IN
  IF d < base THEN DigitRun(t, j + 1, base, IF v * base + d > 1114111 THEN 1114112 ELSE v * base + d, n + 1)
  ELSE [next |-> j, v |-> v, n |-> n]
NumericValue(v) == IF v = 0 \/ v > 1114111 \/ v \in 55296..57343 THEN 65533 ELSE v   \* 13.2.5.80 (C1 table not modelled)

Named == << <<<<97, 109, 112>>, AMP>>, <<<<108, 116>>, LT>>, <<<<103, 116>>, GT>>, <<<<113, 117, 111, 116>>, DQ>>,
            <<<<65, 77, 80>>, AMP>>, <<<<76, 84>>, LT>>, <<<<71, 84>>, GT>>, <<<<81, 85, 79, 84>>, DQ>> >>   \* also valid without ';'
RECURSIVE AlnumEnd(_, _)
AlnumEnd(t, j) == IF IsAlnum(At(t, j)) THEN AlnumEnd(t, j + 1) ELSE j

\* t[i] = "&".  Result: the text produced, the next index, and whether an unmodelled named reference was met.
CharRef(t, i) ==
  IF At(t, i + 1) = HASH THEN
    LET hex == At(t, i + 2) \in {120, 88}
        r   == IF hex THEN DigitRun(t, i + 3, 16, 0, 0) ELSE DigitRun(t, i + 2, 10, 0, 0)
    IN IF r.n = 0 THEN [out |-> <<AMP>>, next |-> i + 1, unk |-> FALSE]
       ELSE [out |-> <<NumericValue(r.v)>>, next |-> IF At(t, r.next) = SEMI THEN r.next + 1 ELSE r.next, unk |-> FALSE]
  ELSE IF StartsWith(t, i + 1, <<97, 112, 111, 115, SEMI>>) THEN [out |-> <<SQ>>, next |-> i + 6, unk |-> FALSE]   \* &apos;
  ELSE IF \E n \in 1..Len(Named) : StartsWith(t, i + 1, Named[n][1]) THEN
    LET n == CHOOSE n \in 1..Len(Named) : StartsWith(t, i + 1, Named[n][1])
        e == i + 1 + Len(Named[n][1])
    IN [out |-> <<Named[n][2]>>, next |-> IF At(t, e) = SEMI THEN e + 1 ELSE e, unk |-> FALSE]
  ELSE LET e == AlnumEnd(t, i + 1) IN
    [out |-> <<AMP>>, next |-> i + 1, unk |-> e > i + 1 /\ At(t, e) = SEMI]

RECURSIVE Rcdata(_, _, _, _, _)
Rcdata(t, name, i, acc, unk) ==
  IF i > Len(t) THEN [closed |-> FALSE, text |-> acc, end |-> i, unk |-> unk]
  ELSE IF IsEndTagAt(t, i, name) THEN [closed |-> TRUE, text |-> acc, end |-> i, unk |-> unk]
  ELSE IF t[i] = AMP THEN LET r == CharRef(t, i) IN Rcdata(t, name, r.next, acc \o r.out, unk \/ r.unk)
  ELSE Rcdata(t, name, i + 1, Append(acc, t[i]), unk)
TitleText(t) == Rcdata(t, Title, 1, <<>>, FALSE)

--------------------------------------------------------------------------------
(* Writers.                                                                     *)
\* askama 0.15 `Html` escaper (default for *.jinja): five characters become decimal references.
HtmlEscapeOne(c) == CASE c = LT -> <<AMP, HASH, 54, 48, SEMI>> [] c = GT -> <<AMP, HASH, 54, 50, SEMI>>
                      [] c = AMP -> <<AMP, HASH, 51, 56, SEMI>> [] c = DQ -> <<AMP, HASH, 51, 52, SEMI>>
                      [] c = SQ -> <<AMP, HASH, 51, 57, SEMI>> [] OTHER -> <<c>>
HtmlEscape(t) == Flat(HtmlEscapeOne, t, 1)

\* A correct writer for a JS string literal inside <script> (the suggested fix): escapes the characters that
\* end or alter a literal and the three that HTML could interpret.
HexDigit(n) == IF n < 10 THEN 48 + n ELSE 55 + n
JsEscapeOne(c) == CASE c = BS -> <<BS, BS>> [] c = SQ -> <<BS, SQ>> [] c = DQ -> <<BS, DQ>>
                    [] c = LF -> <<BS, 110>> [] c = CR -> <<BS, 114>>
                    [] c = LS -> <<BS, 117, 50, 48, 50, 56>> [] c = PS -> <<BS, 117, 50, 48, 50, 57>>
                    [] c \in {LT, GT, AMP} -> <<BS, 120, HexDigit(c \div 16), HexDigit(c % 16)>>
                    [] OTHER -> <<c>>
JsEscape(t) == Flat(JsEscapeOne, t, 1)

\* The property for one JS slot: `text` starts at the opening quote of the slot's literal and runs on into the
\* page; `tail` is what follows the literal in the page when the value is harmless.
FollowedBy(text, end, tail) == StartsWith(text, end + 1, tail)
Verbatim(text, val, tail) == LET lx == LexString(text) IN lx.ok /\ lx.val = Utf16(val) /\ FollowedBy(text, lx.end, tail)
\* The property for the title: text starts after <title>.
TitleVerbatim(text, val) == LET r == TitleText(text) IN r.closed /\ r.text = val

\* Named deviations of today's template (HtmlEscape applied inside a JS literal) and their triggers.
DevEntityInScript     == "DevEntity"       \* & ' " < > become &#NN; which <script> does not decode
DevRawBackslash       == "DevBackslash"         \* \ is copied: it starts an escape sequence / eats the closing quote
DevRawLineTerminator  == "DevNewline"    \* LF / CR are copied: unterminated literal (or line continuation)
Has(val, S) == \E i \in 1..Len(val) : val[i] \in S
Devs(val) == (IF Has(val, {AMP, SQ, DQ, LT, GT}) THEN {DevEntityInScript} ELSE {})
        \cup (IF Has(val, {BS}) THEN {DevRawBackslash} ELSE {})
        \cup (IF Has(val, {LF, CR}) THEN {DevRawLineTerminator} ELSE {})
TodayLiteral(q, val) == <<q>> \o HtmlEscape(val) \o <<q>>

--------------------------------------------------------------------------------
(* State machine: a configured value grows by one symbol per step.             *)
CONSTANTS MaxLen,      \* symbols per value
          SeqExtra,    \* symbols that may accompany a hostile sequence (before or after it)
          Slots        \* subset of {"endpoint","subscription","title","hname","hvalue","pname","pvalue"}
VARIABLES slot, val, cost, tok
vars == <<slot, val, cost, tok>>

Alphabet == {SQ, DQ, AMP, LT, GT, SLASH, BS, LF, LS, 115, 120, 233}       \* ' " & < > / \ LF U+2028 s x e-acute
HostileSeqs == { <<LT, SLASH>> \o Script \o <<GT>>,                           \* </script>
                 <<LT, SLASH, 83, 67, 114, 105, 80, 84, SP>>,                  \* </SCriPT + space
                 <<LT, BANG, DASH, DASH>>,                                     \* <!--
                 <<LT, BANG, DASH, DASH, LT>> \o Script \o <<GT>>,            \* <!--<script>
                 <<DASH, DASH, GT>>,                                           \* -->
                 <<93, 93, GT>>,                                               \* ]]>
                 <<LT, SLASH>> \o Title \o <<GT>>,                            \* </title>
                 <<AMP, 108, 116, SEMI>>,                                      \* &lt;
                 <<AMP, 97, 109, 112, SEMI>>,                                  \* &amp;
                 <<AMP, HASH, 51, 57, SEMI>>,                                  \* &#39;
                 <<AMP, HASH, 120, 50, 55, SEMI>>,                             \* &#x27;
                 <<BS, 117, 48, 48, 50, 55>>,                                  \* '
                 <<BS, 120, 50, 55>> }                                         \* \x27
SeqCost == IF MaxLen > SeqExtra THEN MaxLen - SeqExtra ELSE 1       \* a sequence leaves room for SeqExtra more symbols

Init == slot \in Slots /\ val = <<>> /\ cost = 0 /\ tok = TokInit
AddChar(c) == /\ cost < MaxLen
              /\ val' = Append(val, c) /\ cost' = cost + 1 /\ tok' = TokStep(tok, c)
              /\ UNCHANGED slot
AddSeq(s)  == /\ cost + SeqCost <= MaxLen /\ cost <= SeqExtra /\ ~\E h \in HostileSeqs : Contains(val, h)
              /\ val' = val \o s /\ cost' = cost + SeqCost /\ tok' = TokRun(tok, s, 1)
              /\ UNCHANGED slot
Next == (\E c \in Alphabet : AddChar(c)) \/ (\E s \in HostileSeqs : AddSeq(s))
Spec == Init /\ [][Next]_vars

\* ---- mode M invariants ------------------------------------------------------------------------
AfterLit == <<41, 44, LF>>                    \* ")," LF -- any text without quote, "<" or "\" does
TemplateRest == AfterLit \o <<SP, SP>>
\* (1) the correct writer embeds every value verbatim and safely, with either quote
IdealWriterCorrect == \A q \in {SQ, DQ} :
  LET text == <<q>> \o JsEscape(val) \o <<q>> \o TemplateRest
  IN Verbatim(text, val, AfterLit) /\ ScriptSafe(text) /\ LexString(text).end = Len(JsEscape(val)) + 2
\* (2) the HTML writer is right for <title>: decoded text = configured value (values without CR), element not ended early
TitleWriterCorrect == LET text == HtmlEscape(val) \o <<LT, SLASH>> \o Title \o <<GT, LF>>
                          r == TitleText(text)
                      IN TitleVerbatim(text, val) /\ r.end = Len(HtmlEscape(val)) + 1 /\ ~r.unk
\* (3) today's writer inside a JS literal is wrong exactly on the trigger class of the named deviations ...
TodayWrongIffTriggered == LET text == TodayLiteral(SQ, val) \o TemplateRest
                          IN Verbatim(text, val, AfterLit) <=> (Devs(val) = {})
\* ... but even then the script element is not ended (the deviations never excuse that)
TodayScriptSafe == ScriptSafe(TodayLiteral(SQ, val) \o TemplateRest)
\* (4) tokenizer lemma behind EndsScript: leaving plain script data needs "</script" or "<!--" in the text
TokIsRun == tok = TokRun(TokInit, val, 1)
TokLemma == /\ tok.s = "closed" => ContainsCI(val, <<LT, SLASH>> \o Script)
            /\ tok.s \notin PlainStates => (ContainsCI(val, <<LT, SLASH>> \o Script) \/ Contains(val, <<LT, BANG, DASH, DASH>>))
\* (5) a value written raw can end the script: the hostile sequences are hostile (non-vacuity of ScriptSafe)
RawCanEndScript == (val = <<LT, SLASH>> \o Script \o <<GT>>) => EndsScript(<<SQ>> \o val \o <<SQ>>)
TypeOK == slot \in Slots /\ cost \in 0..MaxLen /\ tok.s \in PlainStates \cup
            {"esc", "escDash", "escDashDash", "escLt", "escEndOpen", "escEndName", "dEscStart",
             "desc", "descDash", "descDashDash", "descLt", "dEscEnd", "closed"}


--------------------------------------------------------------------------------
(* Unit checks of the reference operators (evaluated once when the module is loaded). *)
ASSUME LexString(<<SQ, 97, BS, 120, 52, 49, BS, 117, 48, 48, 52, 50, BS, 117, LBRACE, 49, 70, 54, 48, 48, RBRACE, BS, 110, SQ>>).val
         = <<97, 65, 66, 55357, 56832, 10>>                                             \* 'a\x41\u0042\u{1F600}\n'
ASSUME LexString(<<SQ, 97, LS, SQ>>).val = <<97, LS>>                                    \* U+2028 is legal (ES2019)
ASSUME ~LexString(<<SQ, 97, LF, SQ>>).ok /\ ~LexString(<<SQ, BS, SQ, 41, LF>>).ok        \* raw LF; 'x\' eats the quote
ASSUME LexString(<<DQ, BS, LF, SQ, DQ>>).val = <<SQ>>                                    \* line continuation
ASSUME ~LexString(<<SQ, BS, 49, SQ>>).ok /\ LexString(<<SQ, BS, 48, SQ>>).val = <<0>>    \* strict code: \1 is an error, \0 is NUL
ASSUME LexString(<<SQ, AMP, HASH, 51, 57, SEMI, SQ>>).val = <<AMP, HASH, 51, 57, SEMI>>  \* no entity decoding in JS
ASSUME EndsScript(<<LT, SLASH, 83, 67, 82, 73, 80, 84, SP>>) /\ ~EndsScript(<<LT, SLASH>> \o Script \o <<120, GT>>)
ASSUME TokRun(TokInit, <<LT, BANG, DASH, DASH, LT>> \o Script \o <<GT, LT, SLASH>> \o Script \o <<GT>>, 1).s = "esc"   \* <!--<script></script> does not close
ASSUME ScriptSafe(<<LT, BANG, DASH, DASH, GT>>)                                          \* <!--> returns to script data
ASSUME TitleText(<<AMP, HASH, 51, 57, SEMI, AMP, HASH, 120, 50, 55, SEMI, AMP, 97, 109, 112, SEMI, AMP, 108, 116, 120, AMP, 120, LT, SLASH, 84, 105, 116, 108, 101, GT>>).text
         = <<SQ, SQ, AMP, LT, 120, AMP, 120>>                                            \* &#39;&#x27;&amp;&ltx&x</Title>
ASSUME Normalize(<<CR, LF, CR, 97>>) = <<LF, LF, 97>>
=============================================================================
