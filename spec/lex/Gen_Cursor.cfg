CONSTANT GenKinds = {"rt", "dec", "qw", "shape"}
CONSTANT QwFull = {"i32", "O4"}
CONSTANT QwLight = {"String", "u64", "bool", "char", "f64", "O11"}
INIT Init
NEXT Next
INVARIANT Emit
