CONSTANT GenKinds = {"rt", "dec", "qw", "shape"}
CONSTANT QwFull = {"i32", "String", "O4"}
CONSTANT QwLight = {"i8", "u64", "usize", "f64", "bool", "char", "ID", "O3", "O11"}
INIT Init
NEXT Next
INVARIANT Emit
