----------------------------- MODULE Gen_Cursor -----------------------------
(* Mode G for C32: print every case of Cursor.tla once (one initial state    *)
(* per case), after checking the model's own laws on it.                     *)
EXTENDS Cursor, Json
Emit == ModelLaws /\ PrintT(<<"REPLAY", ToJson(c)>>)
=============================================================================
