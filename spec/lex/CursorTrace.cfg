CONSTANT GenKinds = {}
CONSTANT QwFull = {}
CONSTANT QwLight = {}
CONSTANT Chunk = 250
INIT TInit
NEXT TNext
