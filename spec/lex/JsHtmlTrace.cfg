CONSTANT MaxLen = 0
CONSTANT SeqExtra = 0
CONSTANT Slots = {}
CONSTANT Chunk = 100000000
INIT TInit
NEXT TNext
