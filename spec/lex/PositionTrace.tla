--------------------------- MODULE PositionTrace ---------------------------
(* Mode V for C14: every recorded position must be the automaton's position *)
(* of the token it refers to.                                               *)
EXTENDS Position, Json, IOUtils

Cases == ndJsonDeserialize(IOEnv.TRACE)
CONSTANT Chunk
VARIABLE l

ObsOk(c, o)  == LET p == PosAt(c.text, o.k) IN o.line = p.line /\ o.col = p.col
\* Named deviations (known_findings.json); each can only excuse a position that has a lone CR before it.
ObsDev(c, o) == LET p == IF c.site = "pest" THEN PosAtPest(c.text, o.k) ELSE PosAtDev(c.text, o.k)
                IN o.line = p.line /\ o.col = p.col /\ HasLoneCR(c.text, o.k)

Verdict(c) ==
  IF c.problem # "" THEN "violation"
  ELSE IF \A i \in 1..Len(c.obs) : ObsOk(c, c.obs[i]) THEN "ok"
  ELSE IF \A i \in 1..Len(c.obs) : ObsOk(c, c.obs[i]) \/ ObsDev(c, c.obs[i])
       THEN (IF c.site = "pest" THEN "known:DevLoneCRPest" ELSE "known:DevLoneCRCalc")
  ELSE "violation"

TInit == Init /\ l \in {i \in 1..Len(Cases) : i % Chunk = 1 \/ Chunk = 1}
TNext == /\ l <= Len(Cases)
         /\ PrintT(<<"VERDICT", Cases[l].id, Verdict(Cases[l])>>)
         /\ l % Chunk # 0
         /\ l' = l + 1 /\ UNCHANGED vars
=============================================================================
