------------------------------- MODULE BigNat -------------------------------
(***************************************************************************)
(* Exact signed integers of any size for TLC (whose own integers are       *)
(* 32-bit).  Needed wherever async-graphql's behaviour lives at the 64-bit *)
(* boundary: scalar ranges (C07), validator arithmetic (C08).              *)
(*                                                                         *)
(* A number is a record [neg |-> BOOLEAN, d |-> magnitude]; a magnitude is *)
(* a sequence of decimal digits, most significant first.  Leading zeros,   *)
(* the empty magnitude and "-0" are tolerated on input (Canon removes      *)
(* them); every operator returns canonical numbers.                        *)
(*                                                                         *)
(* Mode M (MC_BigNat): the arithmetic is checked against TLC's native      *)
(* integers on the range both can represent, and the Rust MIN/MAX          *)
(* constants (written out as digit sequences) are checked against          *)
(* 2^k computed by repeated doubling.                                      *)
(***************************************************************************)
EXTENDS Integers, Sequences

Digit == 0..9

-----------------------------------------------------------------------------
(* Magnitudes                                                              *)
RECURSIVE StripZeros(_)
StripZeros(d) == IF Len(d) > 1 /\ d[1] = 0 THEN StripZeros(Tail(d)) ELSE d
Norm(d) == IF d = <<>> THEN <<0>> ELSE StripZeros(d)
MagIsZero(d) == \A i \in 1..Len(d) : d[i] = 0

RECURSIVE MagCmpFrom(_, _, _)
MagCmpFrom(a, b, i) ==          \* a, b normalised and of equal length
  IF i > Len(a) THEN 0
  ELSE IF a[i] < b[i] THEN -1
  ELSE IF a[i] > b[i] THEN 1
  ELSE MagCmpFrom(a, b, i + 1)
MagCmpN(a, b) ==                \* -1, 0, 1 for normalised magnitudes
  IF Len(a) < Len(b) THEN -1 ELSE IF Len(a) > Len(b) THEN 1 ELSE MagCmpFrom(a, b, 1)
MagCmp(x, y) == MagCmpN(Norm(x), Norm(y))

\* digit of magnitude a at distance i from the right (0 = units), 0 beyond the left end
DigitR(a, i) == IF i < Len(a) THEN a[Len(a) - i] ELSE 0

RECURSIVE MagAddR(_, _, _, _)
MagAddR(a, b, i, c) ==          \* digits of a + b from position i upwards, carry c
  IF i >= Len(a) /\ i >= Len(b) THEN (IF c = 0 THEN <<>> ELSE <<c>>)
  ELSE LET s == DigitR(a, i) + DigitR(b, i) + c
       IN Append(MagAddR(a, b, i + 1, s \div 10), s % 10)
MagAdd(a, b) == Norm(MagAddR(a, b, 0, 0))

RECURSIVE MagSubR(_, _, _, _)
MagSubR(a, b, i, w) ==          \* a - b for a >= b, borrow w
  IF i >= Len(a) THEN <<>>
  ELSE LET s == DigitR(a, i) - DigitR(b, i) - w
       IN IF s < 0 THEN Append(MagSubR(a, b, i + 1, 1), s + 10)
                   ELSE Append(MagSubR(a, b, i + 1, 0), s)
MagSub(a, b) == Norm(MagSubR(Norm(a), Norm(b), 0, 0))

\* remainder by a small modulus: left fold over the digits (m <= 10^8 keeps r*10+9 inside 32 bits)
RECURSIVE MagModFrom(_, _, _, _)
MagModFrom(d, m, i, r) == IF i > Len(d) THEN r ELSE MagModFrom(d, m, i + 1, (r * 10 + d[i]) % m)
MagModSmall(d, m) == MagModFrom(d, m, 1, 0)

\* schoolbook long division of magnitudes (b not zero): quotient and remainder
RECURSIVE TakeOut(_, _, _)
TakeOut(r, b, k) ==             \* largest k' >= k with (k' - k) * b <= r, and what is left of r
  IF MagCmp(r, b) < 0 THEN [k |-> k, r |-> r] ELSE TakeOut(MagSub(r, b), b, k + 1)
RECURSIVE DivStep(_, _, _, _, _)
DivStep(a, b, i, q, r) ==
  IF i > Len(a) THEN [q |-> Norm(q), r |-> Norm(r)]
  ELSE LET t == TakeOut(Norm(Append(r, a[i])), b, 0)
       IN DivStep(a, b, i + 1, Append(q, t.k), t.r)
MagDivMod(a, b) == DivStep(Norm(a), Norm(b), 1, <<>>, <<0>>)

-----------------------------------------------------------------------------
(* Signed numbers                                                          *)
Canon(x) == [neg |-> x.neg /\ ~MagIsZero(x.d), d |-> Norm(x.d)]
IsZero(x) == MagIsZero(x.d)
IsNegZero(x) == x.neg /\ MagIsZero(x.d)       \* the literal "-0" (denotes 0)
Pos(d) == [neg |-> FALSE, d |-> Norm(d)]
Negate(x) == Canon([neg |-> ~x.neg, d |-> x.d])
Abs(x) == Pos(x.d)

Cmp(x0, y0) ==
  LET x == Canon(x0)  y == Canon(y0)
  IN IF x.neg /\ ~y.neg THEN -1
     ELSE IF ~x.neg /\ y.neg THEN 1
     ELSE IF x.neg THEN MagCmpN(y.d, x.d)
     ELSE MagCmpN(x.d, y.d)
Eq(x, y)  == Cmp(x, y) = 0
Lt(x, y)  == Cmp(x, y) < 0
Leq(x, y) == Cmp(x, y) <= 0
Between(lo, x, hi) == Leq(lo, x) /\ Leq(x, hi)

Add(x0, y0) ==
  LET x == Canon(x0)  y == Canon(y0)
  IN IF x.neg = y.neg THEN Canon([neg |-> x.neg, d |-> MagAdd(x.d, y.d)])
     ELSE IF MagCmp(x.d, y.d) >= 0 THEN Canon([neg |-> x.neg, d |-> MagSub(x.d, y.d)])
     ELSE Canon([neg |-> y.neg, d |-> MagSub(y.d, x.d)])
Sub(x, y) == Add(x, Negate(y))

RECURSIVE NatDigits(_)
NatDigits(n) == IF n < 10 THEN <<n>> ELSE Append(NatDigits(n \div 10), n % 10)
\* from a TLC integer; -2^31 itself cannot be negated in 32 bits and is not supported
FromInt(n) == IF n < 0 THEN [neg |-> TRUE, d |-> NatDigits(0 - n)] ELSE [neg |-> FALSE, d |-> NatDigits(n)]
Zero == FromInt(0)
One  == FromInt(1)
Succ(x) == Add(x, One)
Pred(x) == Sub(x, One)

RECURSIVE MagToInt(_, _, _)
MagToInt(d, i, acc) == IF i > Len(d) THEN acc ELSE MagToInt(d, i + 1, acc * 10 + d[i])
\* only for numbers known to fit 31 bits
ToInt(x0) == LET x == Canon(x0) IN IF x.neg THEN 0 - MagToInt(x.d, 1, 0) ELSE MagToInt(x.d, 1, 0)

\* x is a multiple of y (y # 0): exact, by long division of the magnitudes.  (0 is a multiple of everything.)
Divides(y, x) == MagIsZero(MagDivMod(x.d, y.d).r)
\* mathematical remainder with the sign of the dividend (Rust's %), y # 0
Rem(x, y) == Canon([neg |-> x.neg, d |-> MagDivMod(x.d, y.d).r])
IsEven(x) == MagModSmall(x.d, 2) = 0

RECURSIVE Pow2(_)
Pow2(k) == IF k = 0 THEN One ELSE LET h == Pow2(k - 1) IN Add(h, h)

-----------------------------------------------------------------------------
(* Rust integer bounds, written out; MC_BigNat checks them against Pow2.   *)
I8Min  == [neg |-> TRUE,  d |-> <<1,2,8>>]
I8Max  == [neg |-> FALSE, d |-> <<1,2,7>>]
U8Max  == [neg |-> FALSE, d |-> <<2,5,5>>]
I16Min == [neg |-> TRUE,  d |-> <<3,2,7,6,8>>]
I16Max == [neg |-> FALSE, d |-> <<3,2,7,6,7>>]
U16Max == [neg |-> FALSE, d |-> <<6,5,5,3,5>>]
I32Min == [neg |-> TRUE,  d |-> <<2,1,4,7,4,8,3,6,4,8>>]
I32Max == [neg |-> FALSE, d |-> <<2,1,4,7,4,8,3,6,4,7>>]
U32Max == [neg |-> FALSE, d |-> <<4,2,9,4,9,6,7,2,9,5>>]
I64Min == [neg |-> TRUE,  d |-> <<9,2,2,3,3,7,2,0,3,6,8,5,4,7,7,5,8,0,8>>]
I64Max == [neg |-> FALSE, d |-> <<9,2,2,3,3,7,2,0,3,6,8,5,4,7,7,5,8,0,7>>]
U64Max == [neg |-> FALSE, d |-> <<1,8,4,4,6,7,4,4,0,7,3,7,0,9,5,5,1,6,1,5>>]

ConstantsOk ==
  /\ I8Min  = Negate(Pow2(7))   /\ I8Max  = Pred(Pow2(7))   /\ U8Max  = Pred(Pow2(8))
  /\ I16Min = Negate(Pow2(15))  /\ I16Max = Pred(Pow2(15))  /\ U16Max = Pred(Pow2(16))
  /\ I32Min = Negate(Pow2(31))  /\ I32Max = Pred(Pow2(31))  /\ U32Max = Pred(Pow2(32))
  /\ I64Min = Negate(Pow2(63))  /\ I64Max = Pred(Pow2(63))  /\ U64Max = Pred(Pow2(64))
=============================================================================
