CONSTANT R = 105
CONSTANT S = 12
INIT Init
NEXT Next
INVARIANT MirrorOk
INVARIANT CmpOk
INVARIANT AddOk
INVARIANT NegOk
INVARIANT SloppyOk
INVARIANT DivOk
