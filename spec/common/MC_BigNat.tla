------------------------------ MODULE MC_BigNat ------------------------------
(* Mode M for BigNat: two native counters walk over -R..R x -S..S while their *)
(* BigNat mirrors are advanced with Succ only.  Every operator of BigNat is   *)
(* compared with TLC's native arithmetic in each reachable state, and the     *)
(* written-out Rust bounds are compared with 2^k obtained by doubling.        *)
EXTENDS BigNat, TLC
CONSTANTS R, S
VARIABLES a, b, ba, bb
vars == <<a, b, ba, bb>>

Init == a = 0 - R /\ b = 0 - S /\ ba = FromInt(0 - R) /\ bb = FromInt(0 - S)
IncA == a < R /\ a' = a + 1 /\ ba' = Succ(ba) /\ UNCHANGED <<b, bb>>
IncB == b < S /\ b' = b + 1 /\ bb' = Succ(bb) /\ UNCHANGED <<a, ba>>
Next == IncA \/ IncB
Spec == Init /\ [][Next]_vars

Sign(n) == IF n < 0 THEN -1 ELSE IF n > 0 THEN 1 ELSE 0
NAbs(n) == IF n < 0 THEN 0 - n ELSE n

MirrorOk  == ba = FromInt(a) /\ bb = FromInt(b) /\ ToInt(ba) = a /\ ToInt(bb) = b
CmpOk     == Cmp(ba, bb) = Sign(a - b) /\ (Leq(ba, bb) <=> a <= b) /\ (Eq(ba, bb) <=> a = b) /\ (Lt(ba, bb) <=> a < b)
AddOk     == Add(ba, bb) = FromInt(a + b) /\ Sub(ba, bb) = FromInt(a - b)
NegOk     == Negate(ba) = FromInt(0 - a) /\ Abs(ba) = FromInt(NAbs(a)) /\ Pred(Succ(ba)) = ba
\* sloppy inputs (leading zeros, "-0") denote the same numbers
SloppyOk  == LET s == [neg |-> ba.neg, d |-> <<0, 0>> \o ba.d]
             IN Canon(s) = ba /\ Eq(s, ba) /\ Cmp(s, bb) = Cmp(ba, bb) /\ Add(s, bb) = Add(ba, bb)
                /\ Eq([neg |-> TRUE, d |-> <<0>>], Zero) /\ (IsNegZero(s) => a = 0)
DivOk     == b # 0 =>
               LET qr == MagDivMod(ba.d, bb.d)
               IN /\ qr.q = NatDigits(NAbs(a) \div NAbs(b))
                  /\ qr.r = NatDigits(NAbs(a) % NAbs(b))
                  /\ (Divides(bb, ba) <=> NAbs(a) % NAbs(b) = 0)
                  /\ Rem(ba, bb) = FromInt(Sign(a) * (NAbs(a) % NAbs(b)))
                  /\ MagModSmall(ba.d, NAbs(b)) = NAbs(a) % NAbs(b)
                  /\ (IsEven(ba) <=> NAbs(a) % 2 = 0)
ASSUME ConstantsOk
\* long division at sizes beyond 32 bits: (2^64 - 1) = (2^32 - 1)(2^32 + 1), 2^63 / 2^31 = 2^32, and a non-divisor
ASSUME /\ MagDivMod(U64Max.d, U32Max.d) = [q |-> Succ(Pow2(32)).d, r |-> <<0>>]
       /\ MagDivMod(Pow2(63).d, Pow2(31).d) = [q |-> Pow2(32).d, r |-> <<0>>]
       /\ MagDivMod(I64Max.d, Pow2(32).d) = [q |-> I32Max.d, r |-> U32Max.d]
       /\ Divides(FromInt(3), U64Max) /\ ~Divides(FromInt(2), U64Max) /\ Divides(FromInt(7), I64Max)
=============================================================================
