#!/usr/bin/env python3
"""C27 -- each subscription response holds exactly its own event's data and errors.
M: SubscriptionFanIn.tla -- 2 root fields x <=2 events (plain / failing nullable child / gated child / both),
   all interleavings of arrival, resolution, gate opening; OwnErrorsOnly holds for the ideal machine and TLC
   produces the counterexample for the request-wide error list (Dev = {SharedErrors}).
G: Gen_SubscriptionFanIn.tla -- every environment command sequence under an eagerly polled library.
harness: static #[Subscription] and dynamic Subscription with hand-fed sources and gated children.
V: FanInTrace.tla -- monitor over the recorded responses; plus: a streamed query/mutation yields one response."""
import json, os, random, sys
sys.path.insert(0, os.path.join(os.path.dirname(os.path.abspath(__file__)), "..", "lib"))
import vlib

DOC2 = "subscription { s1 { id bad slow boom } s2 { id bad slow boom } }"
DOC1 = "subscription { s1 { id bad slow boom } }"
# the same with aliased root fields (the harness renames the response keys a1/a2 back to s1/s2)
DOC2A = "subscription { a1: s1 { id bad slow boom } a2: s2 { id bad slow boom } }"
DOC1A = "subscription { a1: s1 { id bad slow boom } }"


def body(c):
    m = vlib.run_tlc("conc/SubscriptionFanIn.tla", "conc/MC_SubscriptionFanIn.cfg", workers=8, coverage=True, timeout=900)
    if m.invariant_violated:
        raise vlib.ToolError("design-level failure in SubscriptionFanIn.tla: %s" % m.invariant_violated)
    c.add_tlc("M SubscriptionFanIn ideal (2 fields x 2 events)", m)
    d = vlib.run_tlc("conc/SubscriptionFanIn.tla", "conc/MC_SubscriptionFanInDev.cfg", workers=8, expect_violation=True, timeout=900)
    if d.invariant_violated != "OwnErrorsOnly":
        raise vlib.ToolError("negative control failed: the shared-error-list model should violate OwnErrorsOnly")
    c.cov["design_counterexample_for_DevSharedErrors"] = True
    ncmd = 4 if c.quick else 5
    cfg = c.path("Gen.cfg")
    with open(cfg, "w") as f:
        f.write('CONSTANT Fields = {"s1", "s2"}\nCONSTANT MaxEvents = 2\nCONSTANT Dev = {}\nCONSTANT MaxCmds = %d\n'
                'INIT GInit\nNEXT GNext\nINVARIANT OwnErrorsOnly\nINVARIANT Emit\n' % ncmd)
    g = vlib.run_tlc("conc/Gen_SubscriptionFanIn.tla", cfg, workers=8, timeout=1800, keep_lines=20, xmx="8g")
    c.add_tlc("G command sequences (<=%d commands)" % ncmd, g)
    scheds = [json.loads(s) for s in sorted(set(t[1] for t in g.tagged("REPLAY")))]
    rng = random.Random(c.seed)
    cap = 1500 if c.quick else 20000
    exhaustive = len(scheds) <= cap
    if not exhaustive:
        scheds = rng.sample(scheds, cap)
    rows = []
    for s in scheds:
        uses_s2 = any(cmd[1] == "s2" for cmd in s)
        for flavour in ("static", "dynamic"):
            al = rng.random() < 0.3
            rows.append({"flavour": flavour, "doc": (DOC2A if al else DOC2) if uses_s2 else rng.choice([DOC1A, DOC2A] if al else [DOC1, DOC2]), "sched": s, "single": False})
    # seeded random longer sequences
    for _ in range(200 if c.quick else 3000):
        s = []
        for _ in range(rng.randint(4, 14)):
            f = rng.choice(["s1", "s2"])
            if rng.random() < 0.6:
                s.append(["arrive", f, rng.choice(["plain", "bad", "slow", "badslow", "fatal", "badfatal"])])
            else:
                s.append(["open", f, ""])
        rows.append({"flavour": rng.choice(["static", "dynamic"]), "doc": rng.choice([DOC2, DOC2, DOC2A]), "sched": s, "single": False})
    for flavour in ("static", "dynamic"):
        rows.append({"flavour": flavour, "doc": "{ n }", "sched": [], "single": True})
    rows.append({"flavour": "static", "doc": "mutation { bump }", "sched": [], "single": True})
    vlib.write_ndjson(c.path("schedules.ndjson"), rows)
    (binary,) = vlib.build_harness(["c27"])
    p = vlib.run_harness(binary, [c.path("schedules.ndjson"), c.path("trace.ndjson")], timeout=3000)
    if p.returncode != 0:
        raise vlib.ToolError("c27 harness failed: " + p.stderr[-2000:])
    v = vlib.run_tlc_sliced("conc/FanInTrace.tla", "conc/FanInTrace.cfg", c.path("trace.ndjson"), slices=8, timeout=3000, keep_lines=50, xmx="3g")
    c.add_tlc("V FanInTrace", v)
    verdicts = {t[1]: (t[2], t[3]) for t in v.tagged("VERDICT")}
    traces = vlib.read_ndjson(c.path("trace.ndjson"))
    if len(verdicts) != len(traces):
        raise vlib.ToolError("V produced %d verdicts for %d traces" % (len(verdicts), len(traces)))
    for t in traces:
        nresp = sum(1 for e in t["events"] if e["ev"] == "resp")
        nerr = sum(len(e["resp"]["errors"]) for e in t["events"] if e["ev"] == "resp")
        c.count_case({"f": t["flavour"], "d": t["doc"], "s": t["sched"]}, nontrivial=nresp >= 2 and nerr >= 1)
        vd, at = verdicts[t["id"]]
        slim = {"flavour": t["flavour"], "doc": t["doc"], "sched": t["sched"], "bad_event": at, "problem": t["problem"],
                "events": [[e["ev"], e["f"], e["kind"], e["id"], e["resp"]["data"], [x["path"] for x in e["resp"]["errors"]]] for e in t["events"]]}
        c.verdict(vd, slim, "subscription responses: " + str(vd))
    c.cov["traces_validated_against_impl"] = len(traces)
    c.cov["exhaustive"] = exhaustive
    c.cov["rule"] = ("G: every command sequence (arrive field kind / open field) of <=%d commands over 2 root fields x <=2 events x 4 event kinds "
                     "under an eagerly polled library (TLC BFS, %s), both schema flavours, + seeded random sequences of 4-14 commands + streamed "
                     "query/mutation; non-trivial = at least two responses and one error; distinct by (flavour, document, commands)"
                     % (ncmd, "all replayed" if exhaustive else "seeded sample"))
    for t in traces[:1] + [x for x in traces if verdicts[x["id"]][0] != "ok"][:1]:
        c.sample({"flavour": t["flavour"], "sched": t["sched"], "verdict": verdicts[t["id"]][0],
                  "responses": [[e["resp"]["data"], [x["path"] for x in e["resp"]["errors"]]] for e in t["events"] if e["ev"] == "resp"][:4]})
    c.assumptions += ["events of one root field are answered in arrival order (the k-th response of a field belongs to its k-th event)",
                      "error messages are not compared"]


vlib.main("C27", "model_checking", body)
