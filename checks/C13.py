#!/usr/bin/env python3
"""C13 -- the parser accepts exactly GraphQL documents and builds the tree they denote.
M: Grammar.tla (push-down generator: brackets/tree balanced, fold = step machine, no deviation used by the ideal grammar)
   for executable and type-system documents; StringLitP.tla lexer automaton (+ BlockString value properties).
G: (1) every valid token sequence up to L tokens (executable, type system); (2) near misses: every token sequence over a small
   alphabet up to L' and seeded single-edit mutants of the valid sequences; (3) every code-point-class text up to N as string /
   block-string / number / name run inside a list value.
harness: renders with seeded ignored tokens and name spellings, runs parse_query / parse_schema, logs accept/reject + flat tree.
V: GrammarTrace.tla recomputes membership and the denoted tree with the recogniser / lexer and judges every case."""
import itertools, os, random, sys
sys.path.insert(0, os.path.join(os.path.dirname(os.path.abspath(__file__)), "..", "lib"))
import vlib

# string tokens of the generator alphabets (label -> token); must equal StrS1 / BlkB1 of Grammar.tla (V re-checks the bodies)
STR_TOKENS = {
    "s:s1": ["s", "", ["a", "BS", "n", "BS", "u", "0", "0", "e", "9"]],
    "b:b1": ["b", "", ["LF", "SP", "SP", "a", "LF", "SP", "SP", "SP", "b", "LF"]],
}
EXEC_POOL = [["p", x] for x in ["{", "}", "(", ")", ":", "...", "@", "$", "[", "]", "=", "!"]] + \
            [["n", x] for x in ["a", "b", "on", "query", "fragment", "true", "null"]] + [["i", "1"], ["f", "1.5"], STR_TOKENS["s:s1"]]
SDL_POOL = [["p", x] for x in ["{", "}", "(", ")", ":", "@", "[", "]", "=", "!", "&", "|"]] + \
           [["n", x] for x in ["a", "b", "schema", "extend", "scalar", "type", "interface", "union", "enum", "input", "directive",
                               "implements", "repeatable", "on", "query", "mutation", "FIELD", "ENUM", "true"]] + [["i", "1"], STR_TOKENS["s:s1"]]
EXEC_TINY = [["p", x] for x in ["{", "}", "(", ")", ":", "...", "@", "$"]] + [["n", x] for x in ["a", "on", "query", "fragment"]] + [["i", "1"]]
SDL_TINY = [["p", x] for x in ["{", "}", ":", "@", "=", "|"]] + [["n", x] for x in ["a", "type", "scalar", "union", "extend", "schema", "query"]]

GRAMMAR_CONSTS = "CONSTANT Sigma = {}\nCONSTANT MaxLen = 0\nCONSTANT First = {}\n"


def tok_of_label(lab):
    if lab in STR_TOKENS:
        return STR_TOKENS[lab]
    k, s = lab.split(":", 1)
    return [k, s]


def tla_set(xs):
    return "{" + ", ".join('"%s"' % x for x in xs) + "}"


def gen_docs(c, label, start, alpha, maxtoks, maxdefs):
    cfg = c.path("Gen_%s.cfg" % label)
    with open(cfg, "w") as f:
        f.write("CONSTANT Alphabet <- %s\nCONSTANT MaxToks = %d\nCONSTANT MaxDefs = %d\nCONSTANT Start = \"%s\"\n%s"
                "INIT GInit\nNEXT GNext\nINVARIANT GEmit\n" % (alpha, maxtoks, maxdefs, start, GRAMMAR_CONSTS))
    g = vlib.run_tlc("lex/Grammar.tla", cfg, workers=8, timeout=3000, keep_lines=50, xmx="8g")
    c.add_tlc("G %s documents (<=%d tokens, <=%d definitions)" % (label, maxtoks, maxdefs), g)
    docs = set()
    for t in g.tagged("REPLAY"):
        labs = vlib.parse_tuple_line(t[1].strip())
        docs.add(tuple(labs))
    docs = sorted(docs, key=lambda d: (len(d), d))
    if not docs:
        raise vlib.ToolError("generator %s produced no document" % label)
    return [[tok_of_label(x) for x in d] for d in docs]


def gen_texts(c, label, sigma, maxlen, first, invariants=True):
    cfg = c.path("Lex_%s.cfg" % label)
    with open(cfg, "w") as f:
        f.write("CONSTANT Sigma = %s\nCONSTANT MaxLen = %d\nCONSTANT First = %s\nINIT LInit\nNEXT LNext\nINVARIANT LEmit\n"
                % (tla_set(sigma), maxlen, tla_set(first)))
        if invariants:
            f.write("INVARIANT LTypeOK\nINVARIANT Conservation\nINVARIANT TokensWellFormed\n")
    g = vlib.run_tlc("lex/StringLitP.tla", cfg, workers=8, timeout=3000, keep_lines=50, xmx="8g")
    if g.invariant_violated:
        raise vlib.ToolError("design-level failure in StringLitP.tla (%s): %s" % (label, g.invariant_violated))
    c.add_tlc("M+G lexer texts %s (<=%d classes over %d)" % (label, maxlen, len(sigma)), g)
    texts = set()
    for t in g.tagged("REPLAY"):
        raw = t[1].strip() if isinstance(t[1], str) else ""
        texts.add(tuple([] if raw.replace(" ", "") == "<<>>" else vlib.parse_tuple_line(raw)))
    return sorted(texts, key=lambda d: (len(d), d))


def mutants(doc, pool, rng, n):
    """n seeded single-edit near misses of a valid token sequence (delete / insert / replace / swap)."""
    out = []
    for _ in range(n):
        d = [list(t) for t in doc]
        op = rng.choice(["del", "ins", "rep", "rep", "swap"])
        if op == "del" and len(d) > 1:
            del d[rng.randrange(len(d))]
        elif op == "ins":
            d.insert(rng.randrange(len(d) + 1), rng.choice(pool))
        elif op == "swap" and len(d) > 1:
            i = rng.randrange(len(d) - 1)
            d[i], d[i + 1] = d[i + 1], d[i]
        else:
            d[rng.randrange(len(d))] = rng.choice(pool)
        out.append(d)
    return out


def body(c):
    q = c.quick
    rng = random.Random(c.seed)
    # ---------------- mode M ----------------
    for cfgname, label in (("lex/MC_Grammar.cfg", "M Grammar executable (<=6 tokens)"), ("lex/MC_GrammarSdl.cfg", "M Grammar type system (<=5 tokens)")):
        m = vlib.run_tlc("lex/Grammar.tla", cfgname, workers=8, timeout=1800, xmx="8g")
        if m.invariant_violated:
            raise vlib.ToolError("design-level failure in Grammar.tla: " + str(m.invariant_violated))
        if m.distinct < 100:
            raise vlib.ToolError("vacuity: %s explored only %d states" % (label, m.distinct))
        c.add_tlc(label, m)
    # ---------------- mode G ----------------
    le, ls = (8, 7) if q else (10, 8)
    exec_docs = gen_docs(c, "exec", "Doc", "AlphaExec", le, 2)
    sdl_docs = gen_docs(c, "sdl", "SDoc", "AlphaSdl", ls, 2)
    cases = []

    def add(mode, sub, **kw):
        kw.update({"id": len(cases) + 1, "mode": mode, "sub": sub})
        cases.append(kw)

    # (1) valid set, rendered with seeded ignored tokens / spellings
    styles = [0, 2] if q else [0, 1, 2, 3, 4]
    for mode, docs in (("exec", exec_docs), ("sdl", sdl_docs)):
        for d in docs:
            for st in styles:
                add(mode, "valid", toks=d, style=st)
    # (2) accepts exactly: exhaustive short sequences + single-edit near misses
    lp = 3 if q else 4
    for mode, tiny in (("exec", EXEC_TINY), ("sdl", SDL_TINY)):
        for n in range(1, lp + 1):
            for seq in itertools.product(tiny, repeat=n):
                add(mode, "exact", toks=[list(t) for t in seq], style=1)
    nm = 1 if q else 3
    for mode, docs, pool in (("exec", exec_docs, EXEC_POOL), ("sdl", sdl_docs, SDL_POOL)):
        for d in docs:
            for mdoc in mutants(d, pool, rng, nm):
                add(mode, "nearmiss", toks=mdoc, style=1)
    # selection-set nesting around the documented limit
    for depth in (1, 2, 32, 63, 64, 65, 66, 67, 100):
        for shape in ("field", "inline", "mixed"):
            add("deep", "deep", depth=depth, shape=shape, style=(0 if depth % 2 else 1))
    # (3) lexical level: strings, block strings, numbers / names inside a list value
    ns, nn = (5, 4) if q else (6, 5)
    texts = []
    texts += gen_texts(c, "strings", ["Q", "BS", "a", "n", "u", "D", "8", "LF"], ns + 1, ["Q"])
    texts += gen_texts(c, "numbers", ["0", "1", "MINUS", "DOT", "e", "PLUS", "a", "SP"], nn, ["0", "1", "MINUS", "DOT", "e", "PLUS", "a", "SP"])
    blk = gen_texts(c, "blockA", ["a", "LF", "SP"], 7, ["a", "LF", "SP"], invariants=False)
    blk += gen_texts(c, "blockB", ["a", "LF", "SP", "Q", "BS", "CR"], 4 if q else 6, ["a", "LF", "SP", "Q", "BS", "CR"], invariants=False)
    if not q:
        blk += gen_texts(c, "blockC", ["a", "LF", "SP", "TAB", "BS", "Q"], 7, ["a", "LF", "SP"], invariants=False)
    texts += [("Q", "Q", "Q") + b + ("Q", "Q", "Q") for b in blk]
    texts = sorted(set(texts), key=lambda d: (len(d), d))
    for t in texts:
        add("lex", "lex", text=list(t))
    vlib.write_ndjson(c.path("cases.ndjson"), cases)
    # ---------------- harness ----------------
    (binary,) = vlib.build_harness(["c13"])
    p = vlib.run_harness(binary, ["run", c.path("cases.ndjson"), c.path("trace.ndjson"), c.seed], timeout=1800)
    if p.returncode != 0:
        raise vlib.ToolError("c13 harness failed: " + p.stderr[-2000:])
    obs = vlib.read_ndjson(c.path("trace.ndjson"))
    if len(obs) != len(cases):
        raise vlib.ToolError("harness answered %d of %d cases" % (len(obs), len(cases)))
    # ---------------- mode V ----------------
    v = vlib.run_tlc("lex/GrammarTrace.tla", "lex/GrammarTrace.cfg", env={"TRACE": c.path("trace.ndjson")}, workers=8,
                     timeout=6000, keep_lines=50, xmx="12g")
    c.add_tlc("V GrammarTrace", v)
    verdicts = {t[1]: (t[2], t[3]) for t in v.tagged("VERDICT")}
    if len(verdicts) != len(obs):
        raise vlib.ToolError("V produced %d verdicts for %d cases" % (len(verdicts), len(obs)))
    stats = {}
    for case, o in zip(cases, obs):
        vd, cls = verdicts[o["id"]]
        if vd.startswith("tool:"):
            raise vlib.ToolError("renderer precondition failed on case %s: %s" % (o["id"], o["src"]))
        key = (case["sub"], cls, o["acc"])
        stats[key] = stats.get(key, 0) + 1
        c.count_case({"mode": o["mode"], "toks": o["toks"], "gaps": o["gaps"], "text": o["text"]}, True)
        c.verdict(vd, {"sub": case["sub"], "mode": o["mode"], "src": o["src"], "toks": o["toks"], "gaps": o["gaps"], "text": o["text"],
                       "acc": o["acc"], "err": o["err"], "ast": o["ast"], "grammar": cls, "verdict": vd},
                  "parser disagrees with the grammar (%s, %s): %s" % (case["sub"], cls, o["src"][:80]))
    # vacuity: every sub-check must have exercised both sides of "exactly"
    def total(sub=None, cls=None, acc=None):
        return sum(n for (s, k, a), n in stats.items() if (sub is None or s == sub) and (cls is None or k == cls) and (acc is None or a == acc))
    if total("valid", "member", "yes") < 100 or total("nearmiss", "nonmember") < 50 or total("exact", "nonmember") < 50 \
            or total("exact", "member") < 5 or total("lex", "member", "yes") < 50 or total("lex", "nonmember") < 50 \
            or total(None, "illformed") < 5 or total("deep") < 9:
        raise vlib.ToolError("vacuous run: " + str(sorted(stats.items())))
    c.cov["traces_validated_against_impl"] = len(obs)
    c.cov["exhaustive"] = True
    c.cov["case_classes"] = {"%s/%s/%s" % k: n for k, n in sorted(stats.items())}
    c.cov["rule"] = ("(1) every valid token sequence of Grammar.tla with <=%d (executable, %d documents) / <=%d (type system, %d documents) "
                     "tokens and <=2 definitions (TLC BFS), each rendered in %d styles with seeded ignored tokens (spaces, tabs, commas, BOM, "
                     "comments, LF/CR/CRLF, also inside types and after `on`) and seeded name spellings; (2) every token sequence of length <=%d "
                     "over 13-token alphabets, %d seeded single-edit mutants per valid sequence, selection sets nested 1..100 deep; (3) every "
                     "code-point-class text (quoted-string, number/name runs, block-string bodies) up to the lexer bounds inside a list value. "
                     "Every case is judged by TLC (recogniser + denoted tree); all cases are non-trivial; distinct by (mode, tokens, gaps, text)"
                     % (le, len(exec_docs), ls, len(sdl_docs), len(styles), lp, nm))
    picks = [o for o in obs if o["mode"] == "exec" and o["acc"] == "yes"][:1] + [o for o in obs if o["mode"] == "sdl" and o["acc"] == "yes"][-1:] + \
            [o for o in obs if o["mode"] == "lex" and o["acc"] == "yes"][-1:]
    for o in picks:
        c.sample({"mode": o["mode"], "src": o["src"], "acc": o["acc"], "ast": o["ast"], "verdict": verdicts[o["id"]][0]})
    c.assumptions += [
        "the harness renderer (token text, separators, class -> character) is trusted; TLC re-checks that empty separators are lexically legal and that string bodies are well formed",
        "float literals: only the kind (float) and, for the tabulated literals 1.5 / 1e2 / 0.0, the value is compared (TLC has no floats)",
        "parse_query's documented extra checks (operation/fragment name uniqueness, lone anonymous operation, at least one operation) and "
        "parse_schema's (one root per operation type, query root present) are part of the expected behaviour because the result types cannot represent such documents",
        "selection sets deeper than 64 may be rejected or accepted (documented deviation); duplicate keys of one input object literal are not generated (the tree is a map)",
        "one representative character per code-point class; control characters other than TAB/LF/CR and the Unicode BOM inside strings are not exercised",
        "the keyword-prefix structure of test names (truex = true+x ...) is tabulated in Grammar.tla (KwSplit) because TLC strings are atomic",
    ]


vlib.main("C13", "model_checking", body)
