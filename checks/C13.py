#!/usr/bin/env python3
"""C13 -- the parser accepts exactly GraphQL documents and builds the tree they denote.
M: Grammar.tla (push-down generator/recogniser: brackets and tree balanced, fold = step machine, Need is a lower bound, the ideal
   grammar uses no deviation, today's grammar differs only where a deviation is recorded) for executable and type-system documents
   and sub-grammars; StringLitP.tla lexer automaton (conservation, well-formed tokens, BlockString value properties).
G: (1) every valid token sequence of the runs RunsQuick / RunsThorough (whole documents and wrapped sub-grammars);
   (2) accepts exactly: every token sequence up to L' over small alphabets, seeded single-edit mutants of the valid sequences,
   nesting around the documented limit, witnesses of the known findings; (3) every code-point-class text of the lexer runs
   (quoted strings, number / name runs, block-string bodies) inside a list value.
harness: renders with seeded ignored tokens and name spellings, runs parse_query / parse_schema, logs accept/reject + flat tree.
V: GrammarTrace.tla recomputes membership and the denoted tree with the recogniser / lexer and judges every case.
./check C13 --replay replays/C13/n.json re-runs one case and prints observation, expectation and verdict."""
import itertools, os, random, sys
sys.path.insert(0, os.path.join(os.path.dirname(os.path.abspath(__file__)), "..", "lib"))
import vlib

# string tokens of the generator alphabets (label -> token); must equal StrS1 / BlkB1 of Grammar.tla (V re-checks the bodies)
STR_TOKENS = {
    "s:s1": ["s", "", ["a", "BS", "n", "BS", "u", "0", "0", "e", "9"]],
    "b:b1": ["b", "", ["LF", "SP", "SP", "a", "LF", "SP", "SP", "SP", "b", "LF"]],
}
EXEC_POOL = [["p", x] for x in ["{", "}", "(", ")", ":", "...", "@", "$", "[", "]", "=", "!"]] + \
            [["n", x] for x in ["a", "b", "on", "query", "fragment", "true", "null"]] + [["i", "1"], ["f", "1.5"], STR_TOKENS["s:s1"]]
SDL_POOL = [["p", x] for x in ["{", "}", "(", ")", ":", "@", "[", "]", "=", "!", "&", "|"]] + \
           [["n", x] for x in ["a", "b", "schema", "extend", "scalar", "type", "interface", "union", "enum", "input", "directive",
                               "implements", "repeatable", "on", "query", "mutation", "FIELD", "ENUM", "true"]] + [["i", "1"], STR_TOKENS["s:s1"]]
EXEC_TINY = [["p", x] for x in ["{", "}", "(", ")", ":", "...", "@"]] + [["n", x] for x in ["a", "on", "query", "fragment"]]
SDL_TINY = [["p", x] for x in ["{", "}", ":", "@", "="]] + [["n", x] for x in ["a", "type", "scalar", "union", "extend", "schema"]]

WRAP = {  # generator run id -> (mode, tokens before, tokens after) of the complete document
    "exec": ("exec", [], []),
    "sdl": ("sdl", [], []),
    "vardefs": ("exec", [["n", "query"]], [["p", "{"], ["n", "a"], ["p", "}"]]),
    "fielddef": ("sdl", [["n", "type"], ["n", "a"], ["p", "{"]], [["p", "}"]]),
    "value": ("exec", [["p", "{"], ["n", "a"], ["p", "("], ["n", "a"], ["p", ":"]], [["p", ")"], ["p", "}"]]),
    "sel": ("exec", [["p", "{"]], [["p", "}"]]),
}


def T(text):
    """Token sequence of a space-separated witness; names/puncts/ints by shape, ~x = block string b1, 'x = string s1."""
    out = []
    for w in text.split(" "):
        if w == "'s":
            out.append(STR_TOKENS["s:s1"])
        elif w == "~b":
            out.append(STR_TOKENS["b:b1"])
        elif w[0].isalpha() or w[0] == "_":
            out.append(["n", w])
        elif w[0].isdigit() or (w[0] == "-" and len(w) > 1):
            out.append(["f" if ("." in w or "e" in w) else "i", w])
        else:
            out.append(["p", w])
    return out


# witnesses of the known findings and their nearest correct neighbours (always part of the run)
SEEDS = [
    ("exec", "query ( ) { a }", None),
    ("exec", "query ( $ a : a = 1 @ a ) { a }", None),
    ("exec", "query ( $ a : a @ a = 1 ) { a }", None),
    ("exec", "query ( $ a : a @ a ( a : [ 1 ] ) @ b = [ 1 ] ) { a }", None),
    ("exec", "query ( $ a : a @ a ( a : $ b ) ) { a }", None),
    ("exec", "query ( $ a : a = $ b ) { a }", None),
    ("exec", "query ( $ a : [ a ] ) { a }", None),
    ("exec", "query ( $ a : [ a ! ] ! ) { a }", [" ", "", "", "", " ", "", "", "", "", "", " ", " ", " "]),
    ("exec", "query ( $ a : a ! ) { a }", None),
    ("exec", "{ ... on a { a } }", [" ", " ", " #c\n ", " ", " ", " ", " "]),
    ("exec", "{ ... on a { a } }", [" ", "", ",\t\r\n\ufeff", "", "", "", ""]),
    ("exec", "fragment a on a { a } { a }", [" ", " ", "#\n", " ", " ", " ", " ", " ", " "]),
    ("exec", "{ ... on }", None),
    ("exec", "{ ... on @ a }", None),
    ("exec", "fragment on on a { a } { a }", None),
    ("exec", "{ a ( a : truex ) }", None),
    ("exec", "{ a ( a : [ truex nullable falsey ] ) }", None),
    ("exec", "{ truex }", None),
    ("exec", "queryx { a }", None),
    ("exec", "{ a ( a : -0 ) }", None),
    ("exec", "{ a ( a : { a : 1 b : 'S } ) }".replace("'S", "'s"), None),
    ("sdl", "directive @ a on FIELD", None),
    ("sdl", "directive @ a repeatable on FIELD | ENUM", None),
    ("sdl", "'s schema { query : a }", None),
    ("sdl", "schema { query : a mutation : b subscription : a }", None),
    ("sdl", "schema { query : a query : b }", None),
    ("sdl", "extend interface a implements b", None),
    ("sdl", "extend interface a implements b @ a", None),
    ("sdl", "extend type a implements b", None),
    ("sdl", "enum a { truex }", None),
    ("sdl", "typeT { a : a }", None),
    ("sdl", "type a { a : [ a ] }", None),
    ("sdl", "type a { a ( a : a = 1 @ a ) : a ! }", ["\n"] * 16),
    ("sdl", "'s input a @ a { ~b a : a = [ 1 ] @ b } enum a { 's a @ a b } union a @ a = a | b interface a implements a & b { a : a }", None),
    ("sdl", "extend schema @ a { mutation : a } extend scalar a @ a extend union a = | a extend enum a { a } extend input a @ a", None),
    ("exec", "mutation a @ a { a : b ( a : $ a ) @ a { ... a @ a ... @ a { a } ... { a } } } subscription b { a } fragment a on b @ a { a }", None),
]
# every kind of tree entry must have been produced by the parser and compared successfully at least once
TREE_KINDS = {"def", "op", "opname", "var", "named", "list", "endlist", "nonnull", "default", "dir", "arg", "varref", "int", "float", "str",
              "bool", "null", "enum", "[", "]", "{", "}", "key", "sel{", "}sel", "field", "alias", "spread", "inline", "on", "frag", "kind",
              "name", "impl", "fields{", "}fields", "fdef", "args(", ")args", "ivdef", "member", "values{", "}values", "evalue", "infields{",
              "}infields", "repeatable", "loc", "desc", "extend", "rootq", "rootm", "roots"}
LEX_SEEDS = [
    "Q Q Q a BS Q Q Q b Q Q Q", "Q Q Q a LF SP LF SP SP b Q Q Q", "Q Q Q a Q", "0 1", "MINUS 0", "Q BS u D 8 0 0 Q", "Q BS u D 0 0 0 Q",
    "Q U4 a Q", "U4", "a U4", "Q Q Q U4 LF Q Q Q", "Q a BS n Q", "Q BS b BS f BS r BS t BS SLASH BS BS BS Q Q", "Q BS x Q", "Q BS u 0 0 e Q", "1 DOT 8 e MINUS 1", "1 DOT", "1 e", "Q a LF Q", "Q Q Q LF SP SP a LF SP SP SP b LF Q Q Q",
    # Unicode White_Space that is NOT GraphQL white space: content, never indentation, never a blank line, never a line break
    "Q Q Q a LF SP NB b LF SP SP a Q Q Q", "Q Q Q LF NB a LF SP SP b LF Q Q Q", "Q Q Q a LF LS b LF SP LS Q Q Q", "Q NB a Q", "Q Q Q NB Q Q Q",
    "Q Q Q LF SP NB LF SP SP a Q Q Q", "Q Q Q a LF SP SP b LF SP NB Q Q Q", "Q Q Q a LF TAB NB LF TAB TAB b Q Q Q", "NB", "a NB b", "Q LS Q",
]


def tok_of_label(lab):
    if lab in STR_TOKENS:
        return STR_TOKENS[lab]
    k, s = lab.split(":", 1)
    return [k, s]


def replay_lines(g):
    """The generators print one bare string "REPLAY|<run id>|<space separated labels>" per case."""
    for ln in g.lines:
        ln = ln.strip()
        if ln.startswith('"REPLAY|') and ln.endswith('"'):
            yield ln[1:-1].split("|", 2)


def gen_docs(c, runs, workers=8):
    """One TLC run of the generator for all runs of the tier: {run id: [token sequence]}."""
    cfg = c.path("Gen_Grammar.cfg")
    with open(cfg, "w") as f:
        f.write("CONSTANT Runs <- %s\nCONSTANT LRuns = {}\nINIT GInit\nNEXT GNext\nINVARIANT GEmit\n" % runs)
    g = vlib.run_tlc("lex/Grammar.tla", cfg, workers=workers, timeout=6000, keep_lines=10 ** 8, xmx="8g", metadir=c.path("tlc-G"))
    docs = {}
    for t in replay_lines(g):
        docs.setdefault(t[1], set()).add(tuple(t[2].split(" ")))
    out = {}
    for rid in WRAP:
        ds = sorted(docs.get(rid, ()), key=lambda d: (len(d), d))
        if not ds:
            raise vlib.ToolError("generator run %s produced no document" % rid)
        out[rid] = [[tok_of_label(x) for x in d] for d in ds]
    return out, g


def gen_texts(c, runs, workers=8):
    """One TLC run of the lexer automaton (invariants on = mode M, LEmit = mode G): {run id: [class text]}."""
    cfg = c.path("Gen_Lexer.cfg")
    with open(cfg, "w") as f:
        f.write("CONSTANT LRuns <- %s\nINIT LInit\nNEXT LNext\nINVARIANT LEmit\nINVARIANT LTypeOK\nINVARIANT Conservation\n"
                "INVARIANT TokensWellFormed\n" % runs)
    g = vlib.run_tlc("lex/StringLitP.tla", cfg, workers=workers, timeout=6000, keep_lines=10 ** 8, xmx="8g", metadir=c.path("tlc-L"))
    if g.invariant_violated:
        raise vlib.ToolError("design-level failure in StringLitP.tla: %s" % g.invariant_violated)
    texts = {}
    for t in replay_lines(g):
        texts.setdefault(t[1], set()).add(tuple(t[2].split(" ")) if t[2] else ())
    return {k: sorted(v, key=lambda d: (len(d), d)) for k, v in texts.items()}, g


def mutants(doc, pool, rng, n):
    """n seeded single-edit near misses of a valid token sequence (delete / insert / replace / swap)."""
    out = []
    for _ in range(n):
        d = [list(t) for t in doc]
        op = rng.choice(["del", "ins", "rep", "rep", "swap"])
        if op == "del" and len(d) > 1:
            del d[rng.randrange(len(d))]
        elif op == "ins":
            d.insert(rng.randrange(len(d) + 1), rng.choice(pool))
        elif op == "swap" and len(d) > 1:
            i = rng.randrange(len(d) - 1)
            d[i], d[i + 1] = d[i + 1], d[i]
        else:
            d[rng.randrange(len(d))] = rng.choice(pool)
        out.append(d)
    return out


def replay(c):
    """./check C13 --replay <file>: one recorded case again through the harness and TLC, with the expectations."""
    import json
    with open(c.replay) as f:
        case = json.load(f)["case"]
    one = {"id": 1, "mode": case["mode"], "style": 1}
    if case["mode"] == "lex":
        one["text"] = case["text"]
    else:
        one.update({"toks": case["toks"], "seps": case.get("seps") or [" "] * (len(case["toks"]) - 1),
                    "lead": case.get("lead", ""), "trail": case.get("trail", "")})
    vlib.write_ndjson(c.path("cases.ndjson"), [one])
    (binary,) = vlib.build_harness(["c13"])
    p = vlib.run_harness(binary, ["run", c.path("cases.ndjson"), c.path("trace.ndjson"), c.seed], timeout=600)
    if p.returncode != 0:
        raise vlib.ToolError("c13 harness failed: " + p.stderr[-2000:])
    o = vlib.read_ndjson(c.path("trace.ndjson"))[0]
    v = vlib.run_tlc("lex/GrammarTrace.tla", "lex/GrammarExplain.cfg", env={"TRACE": c.path("trace.ndjson")}, workers=1, timeout=600)
    vd = [t for t in v.tagged("VERDICT")][0]
    ex = [t for t in v.tagged("EXPECT")][0]
    print("source   : %r" % o["src"])
    print("observed : acc=%s err=%s tree=%s" % (o["acc"], o["err"], json.dumps(o["ast"])))
    print("expected : %s" % ex[2])
    print("verdict  : %s (grammar: %s)" % (vd[2], vd[3]))
    c.verdict(vd[2], o, "parser disagrees with the grammar: %r" % o["src"][:70])
    sys.exit(1 if c.violations else 0)      # a replay is one case: no evidence file, no vacuity accounting


def body(c):
    if c.replay:
        replay(c)
    q = c.quick
    rng = random.Random(c.seed)
    # ---------------- modes M and G: three independent TLC runs side by side (8 workers in total) ----------------
    def mode_m():
        m = vlib.run_tlc("lex/Grammar.tla", "lex/MC_Grammar.cfg", workers=2, timeout=1800, xmx="4g", metadir=c.path("tlc-M"))
        if m.invariant_violated:
            raise vlib.ToolError("design-level failure in Grammar.tla: " + str(m.invariant_violated))
        if m.distinct < 1000:
            raise vlib.ToolError("vacuity: mode M of Grammar.tla explored only %d states" % m.distinct)
        return m

    from concurrent.futures import ThreadPoolExecutor
    with ThreadPoolExecutor(3) as ex:
        fm = ex.submit(mode_m)
        fg = ex.submit(gen_docs, c, "RunsQuick" if q else "RunsThorough", 4 if q else 6)
        fl = ex.submit(gen_texts, c, "LRunsQuick" if q else "LRunsThorough", 2)
        m, (docs, g), (texts, gl) = fm.result(), fg.result(), fl.result()
    c.add_tlc("M Grammar (RunsM: executable <=6, type system <=5, variable definitions <=8, values <=4 tokens)", m)
    c.add_tlc("G Grammar %s" % ("RunsQuick" if q else "RunsThorough"), g)
    c.add_tlc("M+G StringLitP %s" % ("LRunsQuick" if q else "LRunsThorough"), gl)
    if not q:
        m = vlib.run_tlc("lex/StringLitP.tla", "lex/MC_StringLitP.cfg", workers=8, timeout=1800, xmx="8g")
        if m.invariant_violated:
            raise vlib.ToolError("design-level failure in StringLitP.tla: " + str(m.invariant_violated))
        c.add_tlc("M StringLitP (<=5 classes over 9)", m)
    cases = []

    def add(mode, sub, **kw):
        kw.update({"id": len(cases) + 1, "mode": mode, "sub": sub})
        cases.append(kw)

    # (1) valid set, rendered with seeded ignored tokens / spellings (style 0: no separators where legal, 1: single
    #     spaces, >=2: seeded random separators and spellings)
    full = []
    for rid, (mode, pre, post) in WRAP.items():
        for d in docs[rid]:
            full.append((mode, pre + d + post))
    for i, (mode, d) in enumerate(full):
        add(mode, "valid", toks=d, style=2)
        if i % 3 == 0 or not q:
            add(mode, "valid", toks=d, style=0)
    for mode, text, seps in SEEDS:
        toks = T(text)
        if seps is None:
            add(mode, "seed", toks=toks, style=1)
        else:
            if len(seps) != len(toks) - 1:
                raise vlib.ToolError("bad seed separators: " + text)
            add(mode, "seed", toks=toks, style=1, seps=seps)
    # (2) accepts exactly: exhaustive short sequences + single-edit near misses
    lp = 3 if q else 4
    for mode, tiny in (("exec", EXEC_TINY), ("sdl", SDL_TINY)):
        for n in range(1, lp + 1):
            for seq in itertools.product(tiny, repeat=n):
                add(mode, "exact", toks=[list(t) for t in seq], style=1)
    for i, (mode, d) in enumerate(full):
        if i % 2:
            continue
        for mdoc in mutants(d, EXEC_POOL if mode == "exec" else SDL_POOL, rng, 1):
            add(mode, "nearmiss", toks=mdoc, style=1)
    # selection-set nesting around the documented limit (nesting = open selection sets - 1; limit 64): limit-1, limit,
    # limit+1, 2*limit and a few small ones, built from fields / inline fragments / mixtures, in operations and fragments
    for nesting in (0, 1, 31, 62, 63, 64, 65, 66, 128):
        for shape in ("field", "inline", "inlineon", "mixed", "mixedon", "inlinelast", "fieldlast"):
            for ctx in ("anon", "query", "frag"):
                add("deep", "deep", depth=nesting + 1, shape=shape, ctx=ctx, style=(0 if nesting % 2 else 1))
    # (3) lexical level: strings, number / name runs, block strings inside a list value
    lex = set(texts.get("strings", [])) | set(texts.get("numbers", []))
    for rid, ts in texts.items():
        if rid.startswith("block"):
            lex |= {("Q", "Q", "Q") + b + ("Q", "Q", "Q") for b in ts}
    lex |= {tuple(x.split(" ")) for x in LEX_SEEDS}
    for t in sorted(lex, key=lambda d: (len(d), d)):
        add("lex", "lex", text=list(t))
    vlib.write_ndjson(c.path("cases.ndjson"), cases)
    # ---------------- harness ----------------
    (binary,) = vlib.build_harness(["c13"])
    p = vlib.run_harness(binary, ["run", c.path("cases.ndjson"), c.path("trace.ndjson"), c.seed], timeout=1800)
    if p.returncode != 0:
        raise vlib.ToolError("c13 harness failed: " + p.stderr[-2000:])
    obs = vlib.read_ndjson(c.path("trace.ndjson"))
    if len(obs) != len(cases):
        raise vlib.ToolError("harness answered %d of %d cases" % (len(obs), len(cases)))
    # ---------------- mode V ----------------
    # TLC reads only what it judges (the full observation stays in trace.ndjson for the replay files); sliced to bound TLC's memory
    verdicts = {}
    slice_n = 150000
    for k in range(0, len(obs), slice_n):
        part = obs[k:k + slice_n]
        vpath = c.path("v%d.ndjson" % (k // slice_n))
        vlib.write_ndjson(vpath, [{f: o[f] for f in ("id", "mode", "toks", "gaps", "text", "acc", "ast")} for o in part])
        v = vlib.run_tlc("lex/GrammarTrace.tla", "lex/GrammarTrace.cfg", env={"TRACE": vpath}, workers=8, timeout=6000, keep_lines=50, xmx="12g")
        c.add_tlc("V GrammarTrace slice %d" % (k // slice_n), v)
        verdicts.update({t[1]: (t[2], t[3]) for t in v.tagged("VERDICT")})
    if len(verdicts) != len(obs):
        raise vlib.ToolError("V produced %d verdicts for %d cases" % (len(verdicts), len(obs)))
    stats = {}
    kinds = set()
    for case, o in zip(cases, obs):
        vd, cls = verdicts[o["id"]]
        if vd.startswith("tool:"):
            raise vlib.ToolError("renderer precondition failed on case %s: %s" % (o["id"], o["src"]))
        if vd == "ok" and o["acc"] == "yes":
            kinds.update(e[0] for d in o["ast"] for e in d)
        key = (case["sub"], cls, o["acc"])
        stats[key] = stats.get(key, 0) + 1
        c.count_case({"mode": o["mode"], "toks": o["toks"], "gaps": o["gaps"], "text": o["text"]}, True)
        c.verdict(vd, {"sub": case["sub"], "mode": o["mode"], "src": o["src"], "toks": o["toks"], "gaps": o["gaps"], "text": o["text"],
                       "seps": o["seps"], "lead": o["lead"], "trail": o["trail"],
                       "acc": o["acc"], "err": o["err"], "ast": o["ast"], "grammar": cls, "verdict": vd},
                  "parser disagrees with the grammar (%s, %s, parser %s): %r" % (case["sub"], cls, "accepts" if o["acc"] == "yes" else "rejects" if o["acc"] == "no" else "panics", o["src"][:70]))
    # vacuity: every sub-check must have exercised both sides of "exactly"
    def total(sub=None, cls=None, acc=None):
        return sum(n for (s, k, a), n in stats.items() if (sub is None or s == sub) and (cls is None or k == cls) and (acc is None or a == acc))
    # (guards are about the run, not about the parser: they never replace a reported violation by a tool error)
    if not c.violations and (total("valid", "member", "yes") < 100 or total("nearmiss", "nonmember") < 50 or total("exact", "nonmember") < 50 \
            or total("exact", "member") < 5 or total("lex", "member", "yes") < 50 or total("lex", "nonmember") < 50 \
            or total(None, "illformed") < 5 or total("deep", "member", "yes") < 60 or total("deep", "member", "no") < 60):
        raise vlib.ToolError("vacuous run: " + str(sorted(stats.items())))
    if not c.violations and TREE_KINDS - kinds:
        raise vlib.ToolError("vacuous run: tree entry kinds never compared: %s" % sorted(TREE_KINDS - kinds))
    c.cov["tree_entry_kinds_compared"] = len(kinds)
    c.cov["traces_validated_against_impl"] = len(obs)
    c.cov["exhaustive"] = True
    c.cov["case_classes"] = {"%s/%s/%s" % k: n for k, n in sorted(stats.items())}
    ndocs = {rid: len(ds) for rid, ds in docs.items()}
    c.cov["generated_documents"] = ndocs
    c.cov["generated_texts"] = {rid: len(ts) for rid, ts in texts.items()}
    c.cov["rule"] = ("(1) every valid token sequence of Grammar.tla for the runs %s (TLC BFS; whole executable / type-system documents with <=2 "
                     "definitions, and the sub-grammars variable definitions, field definition, value, selection wrapped into a document): %s; "
                     "each rendered in %s styles with seeded ignored tokens (none where legal, spaces, tabs, commas, BOM, comments, LF/CR/CRLF, "
                     "also inside types and after `on`) and seeded name spellings; (2) every token sequence of length <=%d over two 11-token "
                     "alphabets, seeded single-edit mutants of the valid sequences, selection-set nesting 0..128 around the limit 64 (7 shapes x 3 contexts); (3) every code-point-class "
                     "text of the lexer runs %s (quoted strings, number/name runs, block-string bodies) inside a list value. Every case is judged "
                     "by TLC (recogniser + denoted tree); all cases are non-trivial; distinct by (mode, tokens, gaps, text)"
                     % ("RunsQuick" if q else "RunsThorough", ndocs, "1-2" if q else "2", lp, "LRunsQuick" if q else "LRunsThorough"))
    picks = [o for o in obs if o["mode"] == "exec" and o["acc"] == "yes"][:1] + [o for o in obs if o["mode"] == "sdl" and o["acc"] == "yes"][-1:] + \
            [o for o in obs if o["mode"] == "lex" and o["acc"] == "yes"][-1:]
    for o in picks:
        c.sample({"mode": o["mode"], "src": o["src"], "acc": o["acc"], "ast": o["ast"], "verdict": verdicts[o["id"]][0]})
    c.assumptions += [
        "the harness renderer (token text, separators, class -> character) is trusted; TLC re-checks that empty separators are lexically legal and that string bodies are well formed",
        "float literals: only the kind (float) and, for the tabulated literals 1.5 / 1e2 / 0.0, the value is compared (TLC has no floats)",
        "parse_query's documented extra checks (operation/fragment name uniqueness, lone anonymous operation, at least one operation) and "
        "parse_schema's (one root per operation type, query root present) are part of the expected behaviour because the result types cannot represent such documents",
        "selection-set nesting is counted as parse_selection_set counts it (operation / fragment root = level 0): <= 64 must be accepted, > 64 must be rejected; duplicate keys of one input object literal are not generated (the tree is a map)",
        "one representative character per code-point class; control characters other than TAB/LF/CR and the Unicode BOM inside strings are not exercised",
        "the keyword-prefix structure of test names (truex = true+x ...) is tabulated in Grammar.tla (KwSplit) because TLC strings are atomic",
    ]


vlib.main("C13", "model_checking", body)
