#!/usr/bin/env python3
"""C09 -- strict validation rejects exactly the documents the GraphQL specification calls invalid.
spec:    spec/gql/Validation.tla: one operator per rule of section 5 (violated clauses), Valid == all empty;
         named deviations of today's implementation as switches (C.dev).
M:       MC_Validation.tla: laws of the specification itself over a bounded document family (two formulations of validity
         agree, deviation switches that drop checks never add clauses, ...); the generator state machine Gen_ValDoc.tla
         with its bookkeeping invariants (complete for a small pool).
G1:      TLC enumerates (BFS of Gen_ValDoc.tla, one run over several pool configurations) every document within the
         budgets over name pools that contain undefined fields / types / arguments / directives / fragments /
         variables, wrong argument values, non-input variable types ... so valid and invalid documents arise side by side.
G2:      seeded random valid documents (lib/valgen.py) and rule-targeted mutations of them.
G4:      seeded documents of 2-6 operations that enter one chain of 1-4 fragments at different links; the chain uses a variable
         that some operations define and others do not (5.8.3 per operation, through transitively spread fragments), plus
         the two-operation documents of the TLC configuration "opvars".
harness: c09 executes every case with ValidationMode::Strict on the derive-built schema and on the dynamic schema
         built from schemas/valid.json (both compared with the JSON through introspection at start-up); a recording
         extension reports the parse / validation hook results, resolvers count their calls.
V:       ValidationTrace.tla: rejected before execution <=> Violations # {}; every rejection has >= 1 located error."""
import json, os, random, sys, time
from concurrent.futures import ThreadPoolExecutor
sys.path.insert(0, os.path.join(os.path.dirname(os.path.abspath(__file__)), "..", "lib"))
import vlib, valgen

SCHEMA = os.path.join(vlib.ROOT, "schemas", "valid.json")


def run_g1(c, confs):
    mod = valgen.write_gen_module(c.work, "GenRun", confs, ["TypeOK", "DepthOK", "NoEmptySet", "Emit"])
    g = vlib.run_tlc(mod, c.path("GenRun.cfg"), workers=8 if not c.quick else 6, timeout=6000, keep_lines=20, xmx="8g")
    if g.invariant_violated:
        raise vlib.ToolError("generator invariant %s violated" % g.invariant_violated)
    out = {label: set() for label in confs}
    for t in g.tagged("REPLAY"):
        out[t[1]].add(t[2])
    empty = [k for k, v in out.items() if not v]
    if empty:
        raise vlib.ToolError("generator configuration without documents: %s" % empty)
    return g, {k: sorted(v) for k, v in out.items()}


def parse_v(v, legend):
    """'ok' | 'k:<dev indices>' | 'v:<reason>' -> vlib verdict string"""
    if v == "ok":
        return "ok"
    if v.startswith("k:"):
        return "known:" + ",".join(legend["D"][int(i)] for i in v[2:].split(".") if i)
    return "violation:" + v[2:]


def judge(c, path):
    """mode V on a recorded trace: (tlc result, legend, {case id: (verdict string, violated clauses)})"""
    v = vlib.run_tlc_sliced("gql/ValidationTrace.tla", "gql/ValidationTrace.cfg", path, env={"SCHEMA": SCHEMA},
                            slices=8, timeout=6000, keep_lines=60, xmx="3g")
    legend = {"D": {}, "C": {}}
    for t in v.tagged("LEGEND"):
        legend[t[1]][t[2]] = t[3]
    out = {t[1]: (parse_v(t[2], legend), [legend["C"][int(i)] for i in t[3].split(".") if i]) for t in v.tagged("VERDICT")}
    return v, legend, out


def run_harness(c):
    (binary,) = vlib.build_harness(["c09"])
    p = vlib.run_harness(binary, [c.path("cases.ndjson"), c.path("trace.ndjson"), SCHEMA], timeout=3000)
    if p.returncode != 0:
        raise vlib.ToolError("c09 harness failed: " + p.stderr[-3000:])
    return vlib.read_ndjson(c.path("trace.ndjson"))


def replay(c):
    """./check C09 --replay <file>: one recorded case again through the harness and TLC"""
    with open(c.replay) as f:
        case = json.load(f)["case"]
    one = {"id": 1, "src": case.get("src", "replay"), "flavour": case["flavour"], "doc": case["doc"], "opName": case["opName"], "vars": case["vars"]}
    vlib.write_ndjson(c.path("cases.ndjson"), [one])
    o = run_harness(c)[0]
    _, _, out = judge(c, c.path("trace.ndjson"))
    vd, clauses = out[1]
    print("document : %s" % o["text"])
    print("variables: %s   flavour: %s" % (json.dumps(o["vars"]), o["flavour"]))
    print("observed : %s" % json.dumps(o["obs"]))
    print("spec     : %s" % (clauses or "valid"))
    print("verdict  : %s" % vd)
    c.verdict(vd, o, "validation disagrees with the specification")
    sys.exit(1 if c.violations else 0)      # a replay is one case: no evidence file, no vacuity accounting


def body(c):
    if c.replay:
        replay(c)
    ts = json.load(open(SCHEMA))
    rng = random.Random(c.seed)
    # ---- M (generator state machine, small pool, complete) and G1, side by side: JVM start-up dominates on a loaded machine ----
    mconf = {"mc": dict(valgen.BASE, MaxNodes=3, MaxSecs=2, MaxAlias=0, MaxArgs=1, MaxDirs=1, MaxVars=0, OpHeads=["query:Q"], FragNames=["F1"],
                        Fields=["a", "id"], OpenOnly=["a"], LeafOnly=["id"], Conds=["A"], Spreads=["F1"], ArgPool=["x=int1"], DirPool=["skip(if=true)"], VarPool=["v|Int||"])}
    mmod = valgen.write_gen_module(c.work, "MC_GenValDoc", mconf, ["TypeOK", "DepthOK", "NoEmptySet"])
    confs = valgen.g1_configs(c.quick)
    with ThreadPoolExecutor(3) as ex:
        fm = ex.submit(vlib.run_tlc, mmod, c.path("MC_GenValDoc.cfg"), workers=2, timeout=900, coverage=True, keep_lines=2000)
        # M (specification): laws of Validation.tla over a bounded family of documents -- two formulations of validity agree,
        # check-dropping deviation switches never add clauses, the overlap switches are opposites, the merge shortcut is sound
        lcfg = c.path("MC_Validation.cfg")
        with open(lcfg, "w") as f:
            f.write("CONSTANT Full = %s\nINIT Init\nNEXT Next\nINVARIANT Law1\nINVARIANT Law2\nINVARIANT Law3\n" % ("FALSE" if c.quick else "TRUE"))
        fl = ex.submit(vlib.run_tlc, "gql/MC_Validation.tla", lcfg, env={"SCHEMA": SCHEMA}, workers=2, timeout=900, keep_lines=200)
        fg = ex.submit(run_g1, c, confs)
        m, laws, (g, g1) = fm.result(), fl.result(), fg.result()
    if m.invariant_violated:
        raise vlib.ToolError("design-level failure in Gen_ValDoc.tla: " + str(m.invariant_violated))
    if laws.invariant_violated:
        raise vlib.ToolError("design-level failure in Validation.tla: law %s does not hold" % laws.invariant_violated)
    if laws.distinct < 1000:
        raise vlib.ToolError("vacuity: MC_Validation examined only %d documents" % laws.distinct)
    c.add_tlc("M Validation laws (MC_Validation)", laws)
    for act in ("AddField", "AddInline", "AddSpread", "Close", "NewSection"):
        if m.coverage.get("Gen_ValDoc!" + act, (0, 0))[1] == 0:
            raise vlib.ToolError("generator action %s never taken in mode M" % act)
    t0b = time.time()
    c.add_tlc("M Gen_ValDoc", m)
    c.add_tlc("G1 Gen_ValDoc (%d configurations)" % len(confs), g)
    # ---- G1 cases ----
    cap = 110 if c.quick else 4000
    cases, exhaustive, g1_total = [], True, 0
    for label in sorted(g1):
        docs = g1[label]
        g1_total += len(docs)
        if label == "opvars":            # assembled with the G4 family below (own random stream: the older case streams stay as they were)
            continue
        lcap = (300 if c.quick else cap * 3) if label in ("fragdag", "mergeargs") else cap
        if len(docs) > lcap:
            docs = random.Random(c.seed * 7 + len(label)).sample(docs, lcap)
            exhaustive = False
        for i, s in enumerate(docs):
            doc = valgen.tree_from_sections(json.loads(s))
            name, supplied = valgen.supply(ts, doc, rng)
            if c.quick:
                flavours = ("static",) if i % 2 == 0 else ("dynamic",)
            else:
                flavours = ("static", "dynamic") if i % 3 == 0 else (("static",) if i % 3 == 1 else ("dynamic",))
            for fl in flavours:
                cases.append({"id": 0, "src": "G1:" + label, "flavour": fl, "doc": doc, "opName": name, "vars": supplied})
    n_g1 = len(cases)
    # ---- G2 cases ----
    gen = valgen.ValidDocGen(ts, random.Random(c.seed + 99))
    nbase = 160 if c.quick else 5000
    per = 3 if c.quick else 6
    names = [n for n, _ in valgen.MUTATIONS]
    k = 0
    for b in range(nbase):
        x = rng.random()
        op_type = "subscription" if x < 0.12 else "mutation" if x < 0.22 else "query"
        base = gen.doc(op_type)
        variants = [("base", base)]
        for j in range(per + 1):
            mname = names[k % len(names)] if j == 0 else None          # every mutation is used round-robin, the rest are random
            if op_type == "subscription" and j == 1:
                mname = "subscription-root-fields"
            if j == per:                                                # ... plus, on every base document, a fragment DAG or a pair of argument sets
                mname = ("fragment-dag", "argument-set-pair")[b % 2]
            k += j == 0
            mm = valgen.mutate(ts, base, rng, mname) or valgen.mutate(ts, base, rng)
            if mm:
                variants.append(mm)
                if rng.random() < 0.15:                                 # second-order mutants
                    m2 = valgen.mutate(ts, mm[1], rng)
                    if m2:
                        variants.append((mm[0] + "+" + m2[0], m2[1]))
        for mname, doc in variants:
            name, supplied = valgen.supply(ts, doc, rng)
            fl = ("static", "dynamic") if mname == "base" else (rng.choice(["static", "dynamic"]),)
            for f in fl:
                cases.append({"id": 0, "src": "G2:" + mname, "flavour": f, "doc": doc, "opName": name, "vars": supplied})
    n_g2 = len(cases) - n_g1
    # ---- G3: seeded random type systems (dynamic flavour only), random valid documents and mutations over them ----
    n_ts = 5 if c.quick else 60
    for t in range(n_ts):
        r3 = random.Random(c.seed * 1000 + t)
        rts = valgen.random_ts(r3, ts["directives"])
        gen3 = valgen.ValidDocGen(rts, r3)
        for b in range(14 if c.quick else 60):
            x = r3.random()
            base = gen3.doc("subscription" if x < 0.1 else "mutation" if x < 0.2 else "query")
            variants = [("base", base)]
            for j in range(3):
                mm = valgen.mutate(rts, base, r3)
                if mm:
                    variants.append(mm)
            for mname, doc in variants:
                name, supplied = valgen.supply(rts, doc, r3)
                cases.append({"id": 0, "src": "G3:" + mname, "flavour": "dynamic", "doc": doc, "opName": name, "vars": supplied, "ts": rts})
    n_g3 = len(cases) - n_g1 - n_g2
    # ---- G4: several operations over shared fragments that use a variable (NoUndefinedVariables is a per-operation rule through
    # transitively spread fragments).  The implementation walks its per-operation table in hash order, so a defect there shows
    # on a document only for some orders: many documents (names, counts, chain lengths differ), each run once per flavour ----
    r4 = random.Random(c.seed * 31 + 4)
    docs = g1["opvars"]

    def shared(s):                       # >= 2 operations with different names and a fragment: the documents this configuration is for
        d = valgen.tree_from_sections(json.loads(s))
        return len(d["ops"]) >= 2 and len({o["name"] for o in d["ops"]}) == len(d["ops"]) and bool(d["frags"])
    hot = [s for s in docs if shared(s)]
    rest = [s for s in docs if not shared(s)]
    cap_hot, cap_rest = (260, 40) if c.quick else (6000, 1500)
    if len(hot) > cap_hot or len(rest) > cap_rest:
        exhaustive = False
    hot = sorted(r4.sample(hot, min(len(hot), cap_hot)))
    rest = sorted(r4.sample(rest, min(len(rest), cap_rest)))
    if len(hot) < 50:
        raise vlib.ToolError("vacuous: configuration opvars produced only %d documents with several operations and a fragment" % len(hot))
    for i, s in enumerate(hot + rest):
        doc = valgen.tree_from_sections(json.loads(s))
        oi = r4.randrange(len(doc["ops"]))
        name, supplied = valgen.supply(ts, doc, r4, oi)
        cases.append({"id": 0, "src": "G1:opvars", "flavour": ("static", "dynamic")[i % 2], "doc": doc, "opName": name, "vars": supplied})
    n_g4 = 90 if c.quick else 3000
    g4_kinds = {}
    for b in range(n_g4):
        kind_, doc, oi = valgen.shared_var_doc(ts, r4)
        g4_kinds[kind_] = g4_kinds.get(kind_, 0) + 1
        name, supplied = valgen.supply(ts, doc, r4, oi)
        for fl in (("static", "dynamic") if b % 3 == 0 else (("static",) if b % 3 == 1 else ("dynamic",))):
            cases.append({"id": 0, "src": "G4:" + kind_, "flavour": fl, "doc": doc, "opName": name, "vars": supplied})
    n_g4cases = len(cases) - n_g1 - n_g2 - n_g3
    for i, x in enumerate(cases):
        x["id"] = i + 1
    vlib.write_ndjson(c.path("cases.ndjson"), cases)
    # ---- harness, V ----
    t1 = time.time()
    obs = run_harness(c)
    t2 = time.time()
    v, legend, verdicts = judge(c, c.path("trace.ndjson"))
    c.notes.append("stage wall times: M+G1 %.0fs, case assembly %.0fs, harness build+run %.0fs, V %.0fs" % (t0b - c.t0, t1 - t0b, t2 - t1, time.time() - t2))
    c.add_tlc("V ValidationTrace", v)
    if len(verdicts) != len(obs):
        raise vlib.ToolError("V produced %d verdicts for %d cases" % (len(verdicts), len(obs)))
    stats = {"valid": 0, "invalid": 0, "rejected": 0, "by_clause": {}, "by_src": {}, "late_errors_valid": 0, "late_errors_known": 0}
    late_samples = []
    for o in obs:
        vd, clauses = verdicts[o["id"]]
        rejected = o["obs"]["parseErr"] or o["obs"]["validationErr"]
        stats["valid" if not clauses else "invalid"] += 1
        stats["rejected"] += bool(rejected)
        for cl in clauses:
            stats["by_clause"][cl] = stats["by_clause"].get(cl, 0) + 1
        src = o["src"].split("+")[0]
        bs = stats["by_src"].setdefault(src, [0, 0])
        bs[0 if not clauses else 1] += 1
        if not rejected and o["obs"]["respErrors"]:
            if not clauses:
                stats["late_errors_valid"] += 1
                if len(late_samples) < 3:
                    late_samples.append({"text": o["text"], "vars": o["vars"], "errors": o["obs"]["respErrors"][:2]})
            else:
                stats["late_errors_known"] += 1
        c.count_case({"t": o["text"], "v": o["vars"], "f": o["flavour"], "o": o["opName"]}, nontrivial=True)
        slim = {"text": o["text"], "flavour": o["flavour"], "opName": o["opName"], "vars": o["vars"], "src": o["src"], "spec_violations": clauses, "obs": o["obs"], "doc": o["doc"]}
        c.verdict(vd, slim, "%s: spec says %s, implementation %s" % (vd, clauses or "valid", "rejected" if rejected else "accepted"))
    # vacuity: every clause must have been violated by some case and valid documents must be present
    missing = [cl for cl in legend["C"].values() if cl not in stats["by_clause"] and not cl.startswith("DocumentedRestrictions")]
    if missing:
        raise vlib.ToolError("vacuous: no generated document violates " + ", ".join(missing))
    if stats["valid"] < 50:
        raise vlib.ToolError("vacuous: only %d valid documents" % stats["valid"])
    # the shared-fragment family must contain documents whose only violated clause is NoUndefinedVariables (some operation lacks
    # the definition, another has it) next to valid ones
    g4_only = sum(1 for o in obs if o["src"].startswith(("G4:one-bad", "G4:some-bad", "G1:opvars")) and verdicts[o["id"]][1] == ["NoUndefinedVariables"] and len(o["doc"]["ops"]) >= 2
                  and any(op["vars"] for op in o["doc"]["ops"]))
    g4_valid = sum(1 for o in obs if o["src"].startswith(("G4:", "G1:opvars")) and not verdicts[o["id"]][1])
    if g4_only < 60 or g4_valid < 10:
        raise vlib.ToolError("vacuous: shared-fragment family has %d documents invalid only by NoUndefinedVariables, %d valid" % (g4_only, g4_valid))
    stats["shared_fragment_family"] = {"invalid_only_by_NoUndefinedVariables": g4_only, "valid": g4_valid, "kinds": g4_kinds}
    c.cov["traces_validated_against_impl"] = len(obs)
    c.cov["exhaustive"] = exhaustive
    c.cov["stats"] = stats
    if stats["late_errors_valid"]:
        c.notes.append("valid, accepted documents whose response still carried errors (not judged here; argument coercion belongs to C06): %d, e.g. %s"
                       % (stats["late_errors_valid"], json.dumps(late_samples)[:1500]))
    c.cov["rule"] = ("G1: every document within the budgets of %d pool configurations of Gen_ValDoc.tla (TLC BFS: %d documents%s; pools contain undefined names, "
                     "non-composite / non-overlapping type conditions, wrong-kind values, non-input and unknown variable types, unknown / misplaced / repeated directives, "
                     "several operations and fragment definitions); G2: %d seeded random valid documents x rule-targeted mutations (%d kinds, round-robin + random, some second-order); "
                     "variables get valid values of their declared type or are left out; static and dynamic flavour; G3: %d seeded random type systems (objects, interfaces incl. interface inheritance, unions, enum, custom scalar, "
                     "input objects, arguments with defaults; dynamic flavour, each compared with its live registry) with random documents and mutations; "
                     "G4: %d seeded documents of 2-6 operations entering one chain of 1-4 fragments that uses a variable some operations define and others do not "
                     "(plus the two-operation documents of G1 configuration opvars); %d G1 + %d G2 + %d G3 + %d G4 cases; "
                     "distinct by (text, variables, flavour); every case exercises the property (valid => accepted, invalid => rejected before execution)"
                     % (len(confs), g1_total, "" if exhaustive else ", seeded sample of %d per configuration" % cap, nbase, len(names), n_ts, n_g4, n_g1, n_g2, n_g3, n_g4cases))
    shown = set()
    for o in obs:
        vd = verdicts[o["id"]][0]
        if vd not in shown and len(shown) < 3:
            shown.add(vd)
            c.sample({"text": o["text"], "vars": o["vars"], "flavour": o["flavour"], "rejected": o["obs"]["parseErr"] or o["obs"]["validationErr"], "verdict": vd})
    c.assumptions += ["the harness document printer is trusted; schemas/valid.json is compared with the compiled and the dynamic schema through introspection at start-up",
                      "supplied variable values are valid for the declared variable type (variable coercion failures are not judged here)",
                      "nested list input types are not used (the October 2021 table for [[Int]] contradicts its prose)",
                      "Int literals stay within 32 bits; object-valued arguments of two merged fields are never written in different key orders"]


vlib.main("C09", "model_checking", body)
