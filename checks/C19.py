#!/usr/bin/env python3
"""C19 -- introspection modes gate schema metadata and user resolvers.
M: IntrospectionModes.tla -- the 3x3 table; over the whole case space the ideal implementation-shaped model
   satisfies the table, every named deviation changes the model exactly on its trigger and violates it there.
G: TLC enumerates every case: 9 mode pairs x {query, mutation, subscription} x every mix of field kinds
   {__schema, __type, _service{sdl}, _entities, __typename, ordinary, nested} x {static, dynamic} x entry point
   {execute, execute_stream} x request-level mode set on the Request / by an extension's prepare_request hook x document shape (plain / inline fragment / typed fragment / named fragment,
   forward / reversed order, aliases) and the abstract document of each.
harness: c19 builds the static and dynamic federation schemas with the schema-level mode, sets the request-level
   mode, executes (streams polled by hand) and logs response data and every user resolver invoked.
V: IntrospectionModesTrace.tla judges every observation against the table (+ drift of the implementation model)."""
import json, os, sys
sys.path.insert(0, os.path.join(os.path.dirname(os.path.abspath(__file__)), "..", "lib"))
import vlib

SCHEMA = os.path.join(vlib.ROOT, "schemas", "c19.json")


def cfg_text(max_kinds, max_wrapped, wraps, orders, aliases, hook_wraps, tail):
    return ("CONSTANT MaxKinds = %d\nCONSTANT MaxKindsWrapped = %d\nCONSTANT Wraps = {%s}\nCONSTANT Orders = {%s}\n"
            "CONSTANT Aliases = {%s}\nCONSTANT HookWraps = {%s}\nINIT Init\nNEXT Next\n%s" %
            (max_kinds, max_wrapped, ", ".join('"%s"' % w for w in wraps), ", ".join('"%s"' % o for o in orders),
             ", ".join(aliases), ", ".join('"%s"' % w for w in hook_wraps), tail))


def body(c):
    wraps = ["none", "inline", "typed", "spread"]
    # ---- mode M and mode G.  quick: one TLC run over the quick case space checks the model invariant and prints the
    # cases; thorough: M over the full space (MC_IntrospectionModes.cfg), then G.
    gcfg = c.path("Gen.cfg")
    with open(gcfg, "w") as f:
        if c.quick:
            f.write(cfg_text(7, 1, wraps, ["fwd"], ["FALSE"], ["none"], "INVARIANT ModelChecked\nINVARIANT Emit\n"))
        else:
            f.write(cfg_text(7, 7, wraps, ["fwd", "rev"], ["FALSE", "TRUE"], ["none"], "INVARIANT Emit\n"))
    if not c.quick:
        m = vlib.run_tlc("gql/IntrospectionModes.tla", "gql/MC_IntrospectionModes.cfg", env={"SCHEMA": SCHEMA}, workers=8, timeout=1800)
        if m.invariant_violated:
            raise vlib.ToolError("design-level failure in IntrospectionModes.tla: " + str(m.invariant_violated))
        c.add_tlc("M IntrospectionModes, full case space (ideal model sound, deviations exact on their triggers)", m)
    g = vlib.run_tlc("gql/IntrospectionModes.tla", gcfg, env={"SCHEMA": SCHEMA}, workers=8, timeout=1800, keep_lines=20, xmx="8g")
    if g.invariant_violated:
        raise vlib.ToolError("design-level failure in IntrospectionModes.tla: " + str(g.invariant_violated))
    c.add_tlc("M+G quick case space (model invariant + cases)" if c.quick else "G cases", g)
    rows = sorted(set(t[1] for t in g.tagged("REPLAY")))
    cases = [json.loads(r) for r in rows]
    for i, x in enumerate(cases):
        x["id"] = i + 1
    if len(cases) < 1000:
        raise vlib.ToolError("generator produced only %d cases" % len(cases))
    vlib.write_ndjson(c.path("cases.ndjson"), cases)
    # ---- harness
    (binary,) = vlib.build_harness(["c19"])
    p = vlib.run_harness(binary, [c.path("cases.ndjson"), c.path("trace.ndjson"), SCHEMA], timeout=1800)
    if p.returncode != 0:
        raise vlib.ToolError("c19 harness failed: " + p.stderr[-2000:])
    obs = vlib.read_ndjson(c.path("trace.ndjson"))
    # ---- mode V
    v = vlib.run_tlc_sliced("gql/IntrospectionModesTrace.tla", "gql/IntrospectionModesTrace.cfg", c.path("trace.ndjson"),
                            env={"SCHEMA": SCHEMA}, slices=(4 if c.quick else 8), timeout=3000, keep_lines=50, xmx="3g")
    c.add_tlc("V IntrospectionModesTrace", v)
    verdicts = {t[1]: (t[2], t[3]) for t in v.tagged("VERDICT")}
    typename_cells = set()
    for t in v.tagged("VERDICT"):
        if t[4] == 1:
            typename_cells.add(t[1])
    if len(verdicts) != len(obs):
        raise vlib.ToolError("V produced %d verdicts for %d cases" % (len(verdicts), len(obs)))
    cells = set()
    positive = {"meta": 0, "resolver": 0}
    for o in obs:
        vd, drift = verdicts[o["id"]]
        blocked = o["s"] != "Enabled" or o["r"] != "Enabled"
        key = {k: o[k] for k in ("s", "r", "op", "flavour", "via", "rvia", "wrap", "order", "alias", "kinds")}
        c.count_case(key, nontrivial=blocked or "__typename" in o["kinds"])
        cells.add((o["s"], o["r"], o["op"], o["flavour"], o["rvia"]))
        slim = dict(key)
        slim.update({"text": o["text"], "obs": o["obs"]})
        c.verdict(vd, slim, "mode table violated (%s) s=%s r=%s(set by %s) %s %s: %s" % (vd, o["s"], o["r"], o["rvia"], o["flavour"], o["via"], o["text"]))
        if drift:
            c.drift("case %s (%s s=%s r=%s %s): implementation model differs in what it %s: %s" %
                    (o["id"], o["flavour"], o["s"], o["r"], o["via"], drift, o["text"]))
        if not blocked:
            data = json.dumps(o["obs"]["resps"])
            if '"sdl"' in data or '"queryType"' in data:
                positive["meta"] += 1
            if o["obs"]["log"]:
                positive["resolver"] += 1
    tn = set((o["s"], o["r"], o["op"], o["flavour"]) for o in obs if o["id"] in typename_cells)
    if len(tn) != 9 * 2 * 2:
        raise vlib.ToolError("vacuity: a root __typename was demanded in only %d of 36 (mode pair, query/mutation, flavour) cells" % len(tn))
    c.cov["typename_demanded_cases"] = len(typename_cells)
    if len(cells) != 9 * 3 * 2 * 2:
        raise vlib.ToolError("vacuity: only %d of 108 (mode pair, operation, flavour, request-mode route) cells were exercised" % len(cells))
    if positive["meta"] == 0 or positive["resolver"] == 0:
        raise vlib.ToolError("vacuity: with both modes Enabled no metadata / no resolver invocation was ever observed: %s" % positive)
    c.cov["traces_validated_against_impl"] = len(obs)
    c.cov["exhaustive"] = True
    c.cov["rule"] = ("G: TLC enumerates the whole case space of IntrospectionModes.tla: 3x3 (schema mode, request mode) x {query, mutation, "
                     "subscription} x {static, dynamic} x entry point {execute, execute_stream} x request-level mode set {on the Request, by an extension's prepare_request hook (%s)} x every non-empty mix of the field kinds "
                     "{__schema, __type, _service{sdl}, _entities, __typename, ordinary, nested} valid for the root (query-only kinds as single "
                     "probes on the other roots) x order {forward, reversed} x wrapper {none, inline fragment, typed inline fragment, named "
                     "fragment}%s: %d cases, all executed; non-trivial = some mode is not Enabled or the document selects __typename; "
                     "distinct by the case tuple" % ("unwrapped documents", " (quick: forward order, wrapped documents hold one kind, no aliases)" if c.quick else " x {no alias, aliases}", len(cases)))
    for o in [x for x in obs if x["s"] == "Disabled" and "_service" in x["kinds"]][:1] + [x for x in obs if x["r"] == "IntrospectionOnly" and x["op"] == "subscription"][:1] + obs[:1]:
        c.sample({"s": o["s"], "r": o["r"], "flavour": o["flavour"], "via": o["via"], "text": o["text"], "resps": [r["data"] for r in o["obs"]["resps"]][:2],
                  "log": o["obs"]["log"], "verdict": verdicts[o["id"]][0]})
    c.assumptions += ["the harness document printer is trusted", "schemas/c19.json mirrors both harness schemas (checked through introspection at start-up)",
                      "'schema metadata present' = a non-null value under the response key of __schema, __type or _service",
                      "__typename is required to resolve only when no other selected root field may be refused in the mode cell (a refused field fails the whole request by design)"]


vlib.main("C19", "model_checking", body)
