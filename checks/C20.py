#!/usr/bin/env python3
"""C20 -- the response cache policy is never looser than the data it contains.
M: CachePolicy.tla -- the policy lattice [public, maxAge] with Merge; laws (commutative, associative, idempotent,
   identity, closed, Merge = greatest lower bound of the property's order) over all pairs / triples of
   maxAge in {-1, 0, 1, 2, 60} x public/private; the same run prints every policy tuple and grouping (G).
G: Gen_Doc.tla enumerates every valid document with <= N selection nodes over the schema family (object, interface and
   union fields, inline / named fragments on every overlapping type condition, a literal @skip); crossed with the hint
   profiles (schemas/c20.json) and data worlds choosing every runtime type; all 1-/2-/3-field queries on the law profile.
harness: c20 executes each request on the derive-built schema of the profile (cache_control annotations) and records
   Response.cache_control; policy tuples go through BatchResponse::cache_control (the real CacheControl::merge).
V: CachePolicyTrace.tla: Contains(case) from the reference semantics (Execution.tla), NotLooser / exact equality."""
import json, os, random, sys
sys.path.insert(0, os.path.join(os.path.dirname(os.path.abspath(__file__)), "..", "lib"))
import vlib, gqlgen

SCHEMA = os.path.join(vlib.ROOT, "schemas", "c20.json")
CODES = {"A": "DevAbstractIgnoresObjectHints"}


def gen_docs(c, ts_path, n, dirs, label):
    cfg = c.path("Gen_%s.cfg" % label)
    with open(cfg, "w") as f:
        f.write('CONSTANT MaxNodes = %d\nCONSTANT MaxDirs = 1\nCONSTANT MaxAlias = 0\nCONSTANT Root = "Query"\nCONSTANT Dirs = {%s}\n'
                'INIT Init\nNEXT Next\nINVARIANT DepthOK\nINVARIANT Emit\n' % (n, ", ".join('"%s"' % d for d in dirs)))
    g = vlib.run_tlc("gql/Gen_Doc.tla", cfg, env={"SCHEMA": ts_path}, workers=8, timeout=1800, keep_lines=20, xmx="8g")
    c.add_tlc("G documents %s N=%d" % (label, n), g)
    return sorted(set(t[1] for t in g.tagged("REPLAY")))


def ref(i, ty):
    return {"k": "ref", "id": i, "ty": ty}


def worlds():
    """data worlds choosing every runtime type behind the interface / union fields"""
    types = {"a1": "A", "a2": "A", "b1": "B", "c1": "C", "m1": "M12", "m2": "M21", "x1": "IntBox", "x2": "StrBox", "x3": "StrBox"}
    def obj(i, extra):
        t = types[i]
        if t in ("M12", "M21"):
            return {"type": t, "vals": {"mp1": {"k": "int", "v": "5"}, "mp2": {"k": "int", "v": "6"}, "mq1": {"k": "int", "v": "7"}}}
        if t in ("IntBox", "StrBox"):
            return {"type": t, "vals": {"val": {"k": "int", "v": "11"} if t == "IntBox" else {"k": "str", "v": "s" + i}, "fresh": {"k": "int", "v": "12"}}}
        vals = {"id": {"k": "str", "v": i}, "tag": {"k": "int", "v": "4"}}
        vals.update({"A": {"x": {"k": "int", "v": "1"}, "peer": {"k": "null"}, "buddy": {"k": "null"}},
                     "B": {"z": {"k": "int", "v": "2"}}, "C": {"v": {"k": "int", "v": "3"}}}[t])
        vals.update(extra)
        return {"type": t, "vals": vals}
    def world(name, node, u, nodes, us, peer, buddy, nulls=False):
        r = lambda i: ref(i, types[i])
        root = {"a": {"k": "null"} if nulls else r("a1"), "b": {"k": "null"} if nulls else r("b1"), "c": {"k": "null"} if nulls else r("c1"),
                "node": r(node) if node else {"k": "null"}, "u": r(u) if u else {"k": "null"},
                "nodes": {"k": "list", "items": [r(i) for i in nodes]}, "us": {"k": "list", "items": [r(i) for i in us]}, "n": {"k": "int", "v": "9"},
                "m12": {"k": "null"} if nulls else r("m1"), "m21": {"k": "null"} if nulls else r("m2"), "extra": {"k": "int", "v": "8"},
                "ibox": {"k": "null"} if nulls else r("x1"), "sbox": {"k": "list", "items": [] if nulls else [r("x2"), r("x3")]}}
        w = {"root": {"type": "Query", "vals": root},
             "a1": obj("a1", {"peer": r(peer) if peer else {"k": "null"}, "buddy": r("b1") if buddy else {"k": "null"}}),
             "a2": obj("a2", {}), "b1": obj("b1", {}), "c1": obj("c1", {}), "m1": obj("m1", {}), "m2": obj("m2", {}),
             "x1": obj("x1", {}), "x2": obj("x2", {}), "x3": obj("x3", {})}
        return name, w
    return [world("allA", "a1", "a1", ["a1", "a2"], ["a1"], "a2", True),
            world("allB", "b1", "b1", ["b1"], ["b1"], "b1", True),
            world("allC", "c1", "c1", ["c1"], ["c1"], "c1", False),
            world("mixed", "a1", "c1", ["a1", "b1", "c1"], ["c1", "b1", "a1"], "b1", True),
            world("nulls", None, None, [], [], None, False, nulls=True)]


def body(c):
    mirror = json.load(open(SCHEMA))
    rng = random.Random(c.seed)
    # ---- mode M (laws) + policy tuples
    m = vlib.run_tlc("gql/MC_CachePolicy.tla", "gql/MC_CachePolicy.cfg", workers=4, timeout=900, keep_lines=20)
    if m.invariant_violated:
        raise vlib.ToolError("design-level failure in CachePolicy.tla: " + str(m.invariant_violated))
    c.add_tlc("M CachePolicy laws over all pairs/triples + G policy tuples", m)
    tuples = [json.loads(t[1]) for t in m.tagged("REPLAY")]
    tuples.sort(key=lambda x: json.dumps(x, sort_keys=True))
    if len(tuples) != 10 + 100 + 3000:
        raise vlib.ToolError("expected 3110 policy tuples, got %d" % len(tuples))
    cases = [{"id": 0, "kind": "batch", "ps": t["ps"], "grouping": t["grouping"]} for t in tuples]
    # ---- documents over the family (same structure for P1..P3) and over the law profile
    ts_path = c.path("ts_family.json")
    json.dump(mirror["profiles"]["P1"], open(ts_path, "w"))
    n = 3 if c.quick else 4
    small = gen_docs(c, ts_path, 3, ["skip:true"], "family3")
    flats = small if c.quick else gen_docs(c, ts_path, n, ["skip:true"], "family")
    total_docs = len(flats)
    cap = 10 ** 9
    exhaustive = True
    big = [f for f in flats if f not in set(small)]
    small_set = set(small)
    ws = worlds()
    profiles = ["P1", "P2", "P3"]
    for fs in small + big:
        doc = gqlgen.tree_from_flat(json.loads(fs), "query")
        combos = [(p, w) for p in profiles for w in ws]
        if c.quick:
            combos = rng.sample(combos, 3 if fs in small_set else 1)
        elif fs not in small_set:
            combos = rng.sample(combos, 2)
        for p, (wname, w) in combos:
            cases.append({"id": 0, "kind": "exec", "profile": p, "doc": doc, "opIndex": 1, "vars": [], "world": w, "wname": wname})
    lts_path = c.path("ts_laws.json")
    json.dump(mirror["profiles"]["L"], open(lts_path, "w"))
    lflats = gen_docs(c, lts_path, 3, [], "laws")
    if c.quick:      # all 1- and 2-field queries, a seeded sample of the 3-field ones
        two = [f for f in lflats if len(json.loads(f)) <= 2]
        lflats = two + sorted(rng.sample([f for f in lflats if len(json.loads(f)) == 3], 300))
    lworld = {"root": {"type": "Query", "vals": {f: {"k": "int", "v": "1"} for f in mirror["profiles"]["L"]["types"]["Query"]["fields"]}}}
    for fs in lflats:
        cases.append({"id": 0, "kind": "exec", "profile": "L", "doc": gqlgen.tree_from_flat(json.loads(fs), "query"), "opIndex": 1, "vars": [], "world": lworld, "wname": "laws"})
    for i, x in enumerate(cases):
        x["id"] = i + 1
    vlib.write_ndjson(c.path("cases.ndjson"), cases)
    (binary,) = vlib.build_harness(["c20"])
    p = vlib.run_harness(binary, [c.path("cases.ndjson"), c.path("trace.ndjson"), SCHEMA], timeout=3000)
    if p.returncode != 0:
        raise vlib.ToolError("c20 harness failed: " + p.stderr[-3000:])
    try:
        for note in json.loads(p.stdout.strip().splitlines()[-1]).get("hint_notes", []):
            c.drift("profile %s: the registry holds %s for %s, the annotations say %s" % (note["profile"], json.dumps(note["registry"]), note["at"], json.dumps(note["annotated"])))
    except (ValueError, IndexError):
        raise vlib.ToolError("c20 harness summary unreadable: " + p.stdout[-500:])
    obs = vlib.read_ndjson(c.path("trace.ndjson"))
    merged_seen = sum(1 for o in obs if o["kind"] == "exec" and ("m12" in o["text"] or "m21" in o["text"]))
    if merged_seen < 50:
        raise vlib.ToolError("vacuity: only %d executed documents select a MergedObject-built type" % merged_seen)
    boxed_seen = sum(1 for o in obs if o["kind"] == "exec" and o["profile"] != "L" and ("ibox" in o["text"] or "sbox" in o["text"]))
    if boxed_seen < 50:
        raise vlib.ToolError("vacuity: only %d executed documents select a concrete instantiation of the generic SimpleObject" % boxed_seen)
    v = vlib.run_tlc_sliced("gql/CachePolicyTrace.tla", "gql/CachePolicyTrace.cfg", c.path("trace.ndjson"), env={"SCHEMA": SCHEMA},
                            slices=(4 if c.quick else 8), timeout=6000, keep_lines=50, xmx="3g")
    c.add_tlc("V CachePolicyTrace", v)
    verdicts = {t[1]: list(t[2:]) for t in v.tagged("VERDICT")}
    if len(verdicts) != len(obs):
        raise vlib.ToolError("V produced %d verdicts for %d cases" % (len(verdicts), len(obs)))
    stats = {"batch": 0, "exec": 0, "exact_required": 0, "object_only": 0, "abstract": 0}
    for o in obs:
        vd, drift, exact_req, obj_only = verdicts[o["id"]]
        if vd.startswith("invalid:"):
            raise vlib.ToolError("case %s is not a valid probe (%s): %s" % (o["id"], vd, o.get("text", o.get("ps"))))
        if vd.startswith("k:"):
            vd = "known:" + ",".join(sorted(CODES[x] for x in vd[2:].split(",")))
            verdicts[o["id"]][0] = vd
        if o["kind"] == "batch":
            stats["batch"] += 1
            c.count_case({"ps": o["ps"], "g": o["grouping"]}, nontrivial=len(o["ps"]) > 1)
            c.verdict(vd, {"ps": o["ps"], "grouping": o["grouping"], "obs": o["obs"]}, "BatchResponse::cache_control differs from Merge of the policies")
            continue
        stats["exec"] += 1
        stats["exact_required"] += exact_req
        stats["object_only"] += obj_only
        stats["abstract"] += 1 - obj_only
        c.count_case({"t": o["text"], "p": o["profile"], "w": o["wname"]}, nontrivial=True)
        slim = {"profile": o["profile"], "text": o["text"], "world": o["wname"], "policy": o["obs"]["policy"], "header": o["obs"]["header"], "data": o["obs"]["data"]}
        c.verdict(vd, slim, "%s: profile %s world %s: %s -> %s" % (vd, o["profile"], o["wname"], o["text"], json.dumps(o["obs"]["policy"])))
        if drift:
            c.drift("case %s: %s differs from the visitor model: profile %s world %s: %s -> %s" % (o["id"], drift, o["profile"], o["wname"], o["text"], json.dumps(o["obs"]["policy"])))
    if stats["exact_required"] < 100 or stats["abstract"] < 100:
        raise vlib.ToolError("vacuity: %s" % stats)
    c.cov["traces_validated_against_impl"] = len(obs)
    c.cov["exhaustive"] = exhaustive
    c.cov["case_kinds"] = stats
    c.cov["rule"] = ("M/G: every policy tuple (1, 2, 3 policies) over maxAge in {-1,0,1,2,60} x public/private in the groupings flat, (ab)c, a(bc): %d tuples "
                     "through BatchResponse::cache_control; every 1-/2-/3-field query over the 10 hinted fields of the law profile (%d documents); "
                     "G: every valid document with <= %d selection nodes over the A/B/C/Node/U family incl. the MergedObject-built types M12 = (MP, MQ), M21 = (MQ, MP) "
                     "and the MergedObject Query root, and the concrete instantiations IntBox / StrBox of a generic SimpleObject with one object-level hint (TLC BFS of Gen_Doc.tla: %d documents%s; object, "
                     "interface and union fields, inline and named fragments on every overlapping condition, literal @skip), crossed with 3 hint "
                     "profiles (one hand-made, two seeded) and 5 data worlds (every runtime type behind node/u/nodes/us/peer, lists of mixed types, "
                     "all-null)%s; distinct by (document text, profile, world) / policy tuple; non-trivial: every exec case, batch tuples of >= 2 policies"
                     % (stats["batch"], len(lflats), n, total_docs, "" if exhaustive else ", all with <= 3 nodes plus a seeded sample of %d of the rest" % cap,
                        " (quick: 3 seeded (profile, world) pairs per document; 3-field law queries sampled)" if c.quick
                        else " (documents with > 3 nodes: 2 seeded (profile, world) pairs each)"))
    for o in [x for x in obs if x["kind"] == "exec" and verdicts[x["id"]][0] != "ok"][:2] + [x for x in obs if x["kind"] == "exec"][:1]:
        c.sample({"profile": o["profile"], "world": o["wname"], "text": o["text"], "policy": o["obs"]["policy"], "verdict": verdicts[o["id"]][0]})
    c.assumptions += ["the harness document printer is trusted", "schemas/c20.json mirrors every profile incl. all hints (generated from one table with the macro invocations; its structure is compared with the live registry at start-up, differing hints are reported as drift and judged through the observed policies)",
                      "the object-level hint of a MergedObject-built type is the Merge of its members' object-level hints",
                      "every concrete(...) instantiation of a generic SimpleObject carries the struct's object-level cache_control and its fields' hints",
                      "the harness worlds hold no errors and no null for a non-null position: the response contains exactly what the reference walk visits",
                      "exact equality is demanded only when every selection is made on an object type and the response holds everything the document selects",
                      "three fixed hint profiles stand for 'generated schemas' (hints are compile-time attributes of derive-built schemas; dynamic schemas cannot carry hints)"]


vlib.main("C20", "model_checking", body)
