#!/usr/bin/env python3
"""C02 -- query results follow spec field collection and completion (dynamic schemas).
Same reference (Execution.tla) and generator (Gen_Doc.tla) as C01; the schema is built at run time with
the dynamic-schema API from the JSON type system: the static family's mirror (exhaustive documents) and
seeded random type systems (objects, interface inheritance, unions, enum, custom scalar with validator)
with random documents; worlds also contain leaf values of the wrong kind for their declared type."""
import json, os, random, sys
sys.path.insert(0, os.path.join(os.path.dirname(os.path.abspath(__file__)), "..", "lib"))
import vlib, gqlgen, execcheck


def strip_static_only(ts):
    ts = json.loads(json.dumps(ts))
    return ts


def body(c):
    ts = json.load(open(execcheck.SCHEMA))
    rng = random.Random(c.seed)
    n = 4 if c.quick else 5
    flats = execcheck.gen_docs(c, "Query", n, ["skip:$s", "include:$s"], "q")
    total = len(flats)
    cap = 3000 if c.quick else 25000
    exhaustive = len(flats) <= cap
    if not exhaustive:
        flats = rng.sample(flats, cap)
    worlds = []
    for i in range(2 if c.quick else 4):
        wg = gqlgen.WorldGen(ts, random.Random(c.seed * 1000 + i), p_null=0.15 if i else 0.0)
        wg.dyn_lists = True
        worlds.append(wg.world())
    cases = []
    for fs in flats:
        doc = gqlgen.tree_from_flat(json.loads(fs), "query")
        forms = gqlgen.var_forms(doc)
        if len(forms) > 1:
            forms = rng.sample(forms, 2 if c.quick else 4)
        for form in forms:
            d, supplied = execcheck.with_vars(doc, form)
            cases.append({"id": 0, "flavour": "dynamic", "doc": d, "opIndex": 1, "vars": supplied, "world": rng.choice(worlds), "schedule": []})
    # random type systems, random documents, worlds with invalid leaf values
    nts = 40 if c.quick else 300
    per = 30 if c.quick else 60
    nrand = 0
    for k in range(nts):
        r = random.Random(c.seed * 7919 + k)
        rts, objects = gqlgen.random_ts(r)
        wg = gqlgen.WorldGen(rts, r, objects=objects, p_null=0.15, p_invalid=0.0 if k % 2 == 0 else 0.08, max_list=2)
        wg.dyn_lists = True
        w = wg.world()
        dg = gqlgen.DocGen(rts, r, max_depth=3, max_items=3)
        made = 0
        tries = 0
        while made < per and tries < per * 5:
            tries += 1
            doc = dg.doc("Query", "query", budget=10)
            if gqlgen.conflicting_keys(rts, doc):
                continue
            d, supplied = execcheck.with_vars(doc, r.choice(gqlgen.var_forms(doc)))
            cases.append({"id": 0, "flavour": "dynamic", "ts": rts, "doc": d, "opIndex": 1, "vars": supplied, "world": w, "schedule": []})
            made += 1
            nrand += 1
    obs, verdicts = execcheck.run_cases(c, cases, "data")
    for o in obs:
        c.count_case({"t": o["text"], "v": o["vars"], "w": vlib.chash(o["world"])}, nontrivial=True)
        slim = {"text": o["text"], "vars": o["vars"], "world": o["world"], "ts": o.get("ts", "schemas/exec.json"),
                "obs": {"data": o["obs"]["data"], "errors": o["obs"]["errors"], "problem": o["obs"]["problem"]}}
        c.verdict(verdicts[o["id"]], slim, "response data differs from Execution!Execute")
    c.cov["traces_validated_against_impl"] = len(obs)
    c.cov["exhaustive"] = exhaustive
    c.cov["rule"] = ("G: every valid query document with <=%d selection nodes over the family's type system built with the dynamic API "
                     "(TLC BFS of Gen_Doc.tla: %d documents%s) x variable supply forms x seeded worlds; plus %d seeded random type systems "
                     "(4 objects, interface inheritance, unions, enum, custom scalar) with %d random documents, half of the worlds holding "
                     "leaf values invalid for their declared type; distinct by (document text, variables, world)"
                     % (n, total, "" if exhaustive else ", seeded sample", nts, nrand))
    for o in obs[:1] + obs[-1:]:
        c.sample({"text": o["text"], "vars": o["vars"], "data": o["obs"]["data"], "verdict": verdicts[o["id"]]})
    c.assumptions += ["the harness document printer and the world->FieldValue conversion are trusted",
                      "custom scalar validator = 'is a string'", "float text is compared through Rust's round-trip formatting"]


vlib.main("C02", "model_checking", body)
