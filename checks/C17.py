#!/usr/bin/env python3
"""C17 -- exported SDL is valid and describes exactly the schema.
M: Gen_Sdl.tla string-builder machine: on every text of <= 3 atoms the reference printers of Sdl.tla round-trip
   through Sdl!Denote (the spec's StringValue semantics) and each of today's printers (escape_string,
   write_description, write_quoted, specifiedBy) round-trips exactly when its trigger predicate is false.
G: every text of <= N atoms placed in every string slot of a base type system (descriptions at three indentation
   levels, deprecation reasons, string defaults, specifiedBy URL) under the options that reach the string printers;
   the base type system, its federation variants (entities) and the valid type systems of the C33 builder machine
   under (all / seeded) option combinations; derive-built schemas under all option combinations; thorough: seeded random type systems decorated
   with random tricky strings.
harness: dynamic (or derive-built) schema -> sdl_with_options -> parser::parse_schema -> flat facts; strings as raw tokens.
V: SdlTrace.tla: the document parses, Observed = Describe(ts, opts) (strings read by Sdl!Denote) and the document is
   closed: every type it names is defined in it or built in."""
import itertools, json, os, random, sys
sys.path.insert(0, os.path.join(os.path.dirname(os.path.abspath(__file__)), "..", "lib"))
import vlib
from tsgen import norm_ts, random_ts

OPT_FLAGS = ["sorted_fields", "sorted_arguments", "sorted_enum_items", "federation", "prefer_single_line_descriptions",
             "include_specified_by", "compose_directive"]
STATIC = ["plain", "reason", "default", "ifacedir", "dirarg", "nulls", "entity"]
STATIC_DEV = {"ifacedir": "DevInterfaceDirectiveBeforeImplements"}
ATOMS = [[34], [34, 34, 34], [92], [10], [13], [32], [97], [1], [27], [128512], [98, 99]]


def all_options():
    for bits in itertools.product([False, True], repeat=len(OPT_FLAGS)):
        for indent in (0, 2, 4):
            o = dict(zip(OPT_FLAGS, bits))
            o["indent"] = indent
            yield o


def norm17(ts):
    """C17 flavour of the appendix-A format: enum values are records; TLC prints empty records as []."""
    ts = norm_ts(ts)
    for t in ts["types"].values():
        vals = []
        for v in t["values"]:
            v = {"name": v} if isinstance(v, str) else v
            if v.get("deprecated") == []:
                v["deprecated"] = {}
            vals.append(v)
        t["values"] = vals
        for rec in list(t["fields"].values()) + list(t["inputFields"].values()) + [a for f in t["fields"].values() for a in f["args"].values()]:
            if rec.get("deprecated") == []:
                rec["deprecated"] = {}
    return ts


def decorate(rng, ts):
    """Random descriptions / deprecations / string defaults from the tricky atoms."""
    def text():
        return [c for _ in range(rng.randint(0, 3)) for c in rng.choice(ATOMS)]

    def doc(rec, dep=True):
        if rng.random() < 0.3:
            rec["description"] = text()
        if dep and rng.random() < 0.15:
            rec["deprecated"] = {"reason": text()} if rng.random() < 0.7 else {}
    for t in ts["types"].values():
        doc(t, dep=False)
        for f in t["fields"].values():
            doc(f)
            for a in f["args"].values():
                doc(a, dep=a["ty"]["k"] != "nn" or a["default"]["k"] != "none")
                if a["ty"] == {"k": "named", "n": "String"} and rng.random() < 0.5:
                    a["default"] = {"k": "str", "cp": text()}
                elif a["ty"]["k"] != "nn" and a["default"]["k"] == "none" and rng.random() < 0.2:
                    a["default"] = {"k": "null"}
        for x in t["inputFields"].values():
            doc(x, dep=x["ty"]["k"] != "nn")
            if x["ty"]["k"] != "nn" and x["default"]["k"] == "none" and not t.get("oneOf") and rng.random() < 0.2:
                x["default"] = {"k": "null"}
        for v in t["values"]:
            doc(v)
        if t["kind"] == "SCALAR" and rng.random() < 0.5:
            t["specifiedBy"] = text()
    return ts


def body(c):
    import threading, time
    t0 = time.time()
    stages = {}

    def stage(name):
        nonlocal t0
        stages[name] = round(time.time() - t0, 1)
        t0 = time.time()
    mres = {}

    def run_m():
        try:
            mres["r"] = vlib.run_tlc("gql/Gen_Sdl.tla", "gql/MC_Sdl.cfg", workers=4, timeout=1800, coverage=True, metadir=c.path("tlc-M"))
        except vlib.ToolError as e:
            mres["e"] = e
    mt = threading.Thread(target=run_m)
    mt.start()
    natoms = 2 if c.quick else 3
    cfg = c.path("Gen.cfg")
    with open(cfg, "w") as f:
        f.write("CONSTANT MaxAtoms = %d\nINIT Init\nNEXT Next\nINVARIANT Emit\n" % natoms)
    g = vlib.run_tlc("gql/Gen_Sdl.tla", cfg, workers=4, timeout=1800, keep_lines=50, xmx="8g")
    c.add_tlc("G string builder, <= %d atoms, all slots" % natoms, g)
    cfg2 = c.path("GenTs.cfg")
    universes = ["Chain", "Args"] if c.quick else ["Chain", "Args", "ImplObject6", "ImplInterface3", "Roots"]
    with open(cfg2, "w") as f:
        f.write("CONSTANT Universes = {%s}\nINIT Init\nNEXT Next\nINVARIANT Emit\n" % ", ".join('"%s"' % u for u in universes))
    g2 = vlib.run_tlc("gql/Gen_SchemaCheck.tla", cfg2, workers=4, timeout=1800, keep_lines=50, xmx="8g", metadir=c.path("tlc-G2"))
    c.add_tlc("G type systems of the C33 builder machine, universes " + ",".join(universes), g2)
    mt.join()
    if "e" in mres:
        raise mres["e"]
    m = mres["r"]
    if m.invariant_violated:
        raise vlib.ToolError("design-level failure in Sdl.tla: " + str(m.invariant_violated))
    if m.distinct < 1000:
        raise vlib.ToolError("vacuity: mode M explored %d texts" % m.distinct)
    c.add_tlc("M string builder, <= 3 atoms: reference printers round-trip, today's printers fail exactly on their triggers", m)
    stage("M+G")
    rng = random.Random(c.seed)
    cases = []
    seen = set()
    for s in sorted(set(t[1] for t in g.tagged("REPLAY"))):
        x = json.loads(s)
        cases.append({"src": "string", "slot": x["slot"], "flavour": "dynamic", "opts": x["opts"], "ts": norm17(x["ts"])})
    n_string = len(cases)
    base = {t[1]: t[2] for t in g.tagged("BASE")}
    if sorted(base) != ["fedIO", "fedNone", "fedO", "plain"]:
        raise vlib.ToolError("generator printed base type systems %s" % sorted(base))
    options = list(all_options())
    # the base type system and its federation variants (entities / no entities) under every option combination
    for variant in (["plain", "fedO", "fedNone"] if c.quick else sorted(base)):
        for o in options:
            cases.append({"src": "options:" + variant, "slot": "", "flavour": "dynamic", "opts": o, "ts": norm17(json.loads(base[variant]))})
    for u, s in sorted(set((t[1], vlib.canon(norm17(json.loads(t[2])))) for t in g2.tagged("REPLAY"))):
        for o in rng.sample(options, 1):
            cases.append({"src": u, "slot": "", "flavour": "dynamic", "opts": o, "ts": json.loads(s)})
    # directive invocations (dynamic::Directive) on every definition of the base type system x argument lists
    # (none / all null / some null / none null) x the options that change what is printed around an invocation
    applied = sorted(set(t[1] for t in g.tagged("APPLIED")))
    applied_opts = [o for o in options if o["indent"] == 0 and not o["sorted_enum_items"] and not o["prefer_single_line_descriptions"]
                    and not o["include_specified_by"] and o["sorted_fields"] == o["sorted_arguments"] == o["compose_directive"]
                    and (o["federation"] or not o["compose_directive"])]
    n_applied = 0
    for a in applied:
        x = json.loads(a)
        for o in applied_opts:
            cases.append({"src": "applied:" + x["class"], "slot": x["loc"], "flavour": "applied", "opts": o, "ts": norm17(x["ts"]),
                          "applied": {"loc": x["loc"], "args": x["args"]}})
            n_applied += 1
    for name in STATIC:
        for o in (options if name == "entity" or not c.quick else rng.sample(options, 24)):
            cases.append({"src": "static", "slot": "", "flavour": "static:" + name, "opts": o, "ts": {}})
    if not c.quick:
        for _ in range(8000):
            ts = norm17(random_ts(rng))
            cases.append({"src": "random", "slot": "", "flavour": "dynamic", "opts": rng.choice(options), "ts": decorate(rng, ts)})
    for i, case in enumerate(cases):
        case["id"] = i + 1
    vlib.write_ndjson(c.path("cases.ndjson"), cases)
    stage("cases")
    (binary,) = vlib.build_harness(["c17"])
    stage("build")
    p = vlib.run_harness(binary, [c.path("cases.ndjson"), c.path("trace.ndjson")], timeout=3000)
    if p.returncode != 0:
        raise vlib.ToolError("c17 harness failed: " + (p.stderr or p.stdout)[-2000:])
    stats = json.loads(p.stdout.strip().splitlines()[-1])
    obs = vlib.read_ndjson(c.path("trace.ndjson"))
    if len(obs) != len(cases):
        raise vlib.ToolError("harness wrote %d observations for %d cases" % (len(obs), len(cases)))
    stage("harness")
    slim = []
    for o in obs:
        if not o["built"] and not o["panic"]:
            continue        # the type system did not build (C33's matter): nothing was exported, nothing to judge
        name = o["flavour"][7:] if o["flavour"].startswith("static:") else ""
        slim.append({"id": o["id"], "flavour": o["flavour"], "opts": o["opts"], "ts": o["ts"], "built": o["built"], "panic": o["panic"],
                     "parse_error": o["parse_error"], "facts": o["facts"], "static_dev": STATIC_DEV.get(name, "")})
    vlib.write_ndjson(c.path("trace_v.ndjson"), slim)
    v = vlib.run_tlc("gql/SdlTrace.tla", "gql/SdlTrace.cfg", env={"TRACE": c.path("trace_v.ndjson")},
                     workers=4, timeout=3000, keep_lines=50, xmx="8g")
    stage("V")
    c.notes.append({"stage_wall_s": stages})
    verdicts = {t[1]: [t[2], [], ""] for t in v.tagged("VERDICT")}
    for t in v.tagged("DEV"):
        verdicts[t[1]][1].append(t[2])
    for t in v.tagged("WHY"):
        verdicts[t[1]][2] = t[2]
    if len(verdicts) != len(slim):
        raise vlib.ToolError("V produced %d verdicts for %d cases" % (len(verdicts), len(slim)))
    counts = {}
    unlocated = 0
    for o in obs:
        kind, devs, why = verdicts.get(o["id"], ["skip", [], ""])
        counts[kind] = counts.get(kind, 0) + 1
        unlocated += o["unlocated"]
        if kind == "skip":
            c.count_case({"ts": o["ts"], "opts": o["opts"]}, nontrivial=False)
            continue
        c.count_case({"ts": o["ts"], "opts": o["opts"], "flavour": o["flavour"], "applied": cases[o["id"] - 1].get("applied", "")}, nontrivial=True)
        rep = {k: o[k] for k in ("id", "src", "slot", "flavour", "opts", "ts", "parse_error", "panic", "sdl")}
        c.verdict("ok" if kind == "ok" else ("known:" + ",".join(sorted(devs)) if kind == "known" else "violation"), rep,
                  "SDL %s: %s" % ("does not parse (%s)" % o["parse_error"] if o["parse_error"] else "differs from Describe(ts, opts)", why or o["panic"]))
    if not c.violations:
        classes = {cl: 0 for cl in ("none", "all_null", "some_null", "none_null")}
        for o in obs:
            if o["flavour"] == "applied" and (o["parse_error"] or any(f["what"] == "applied" and f["s"] == "@meta" for f in o["facts"])):
                classes[o["src"].split(":")[1]] += 1
        if min(classes.values()) < 12:
            raise vlib.ToolError("vacuity: directive invocations did not reach the exported SDL (%s)" % classes)
        nulls = sum(1 for o in obs for f in o["facts"] if f["what"] == "default" and f["s"] == "null")
        if nulls < 1000:
            raise vlib.ToolError("vacuity: only %d `= null` defaults were read back from the exports" % nulls)
    if unlocated:
        c.drift("%d string tokens could not be located at the position the parser reported (crate value used instead)" % unlocated)
    if not c.violations and (counts.get("ok", 0) < 500 or stats["parsed"] < 500):
        raise vlib.ToolError("vacuity: verdict counts %s, parsed %d" % (counts, stats["parsed"]))
    c.cov["traces_validated_against_impl"] = len(obs)
    c.cov["exhaustive"] = True
    c.cov["verdict_counts"] = counts
    c.cov["rule"] = ("G: every text of <= %d atoms (texts of 3 atoms in 5 of the 12 slots) over {\", \"\"\", \\, LF, CR, SP, a, U+0001, U+001B, U+1F600} (TLC BFS) in each of 12 string slots of a base "
                     "type system (%d cases, descriptions under prefer_single_line x {tab, 2 spaces}); the base type system and its federation variants (entity keys on an object / an object and an interface / federation enabled without entities) under all %d option combinations; "
                     "the base type system (with explicit `= null` defaults on arguments and input fields of named, list and input-object type beside absent and "
                     "non-null defaults) with a directive invocation on each of 12 kinds of definition x %d argument lists (none / all null / some null / none null; %d cases); "
                     "valid type systems of the C33 builder machine (%s) under seeded option combinations; %d derive-built schemas under all option "
                     "combinations%s; non-trivial = a valid type system that built and was exported; distinct by (type system, options, flavour)"
                     % (natoms, n_string, len(options), len(applied) // 12, n_applied, ",".join(universes), len(STATIC), "" if c.quick else "; 8000 seeded random decorated type systems"))
    for o in [x for x in obs if verdicts.get(x["id"], [""])[0] == "ok"][:1] + [x for x in obs if verdicts.get(x["id"], [""])[0] == "known"][:2]:
        c.sample({"slot": o["slot"], "opts": o["opts"], "sdl": o["sdl"][:400], "parse_error": o["parse_error"], "verdict": verdicts[o["id"]][0],
                  "deviations": verdicts[o["id"]][1]})
    c.assumptions += ["the crate's parser locates the tokens and gives the document structure; string tokens are read by the TLA+ transcription of StringValue",
                      "order of fields / arguments / enum values is not part of the content (the property does not name it)",
                      "built-in directive definitions and, under `federation`, the subscription root type may be present or absent",
                      "derive-built schemas are described by hand-written mirrors in the harness (c17_static.rs)",
                      "directive invocations are not among the things the property compares: with an invocation present the document must "
                      "still parse and denote Describe(ts, opts); the base type system of that family is written out by hand against the "
                      "dynamic API in the harness (c17.rs mod applied) and compared with the type system TLC printed"]


vlib.main("C17", "exploration", body)
