#!/usr/bin/env python3
"""C34 -- the GraphiQL page embeds its configuration verbatim and safely.
M: JsHtml.tla -- reference semantics of a JS string literal (ECMA-262), of <script> content (HTML script-data
   tokenizer states) and of <title> content (RCDATA + character references); TLC checks for every value up to the
   bound that a correct JS escaper embeds it verbatim and safely, that HTML escaping is right for <title>, that HTML
   escaping inside a JS literal is wrong exactly on the trigger class of the named deviations, and the tokenizer lemma.
G: every (slot, value): values = strings over {' " & < > / \\ LF U+2028 s x e-acute} and hostile sequences.
harness: renders GraphiQLSource::build()...finish() with the slot set to the value, locates the slot's literal with
   a small JS tokenizer keyed on the property name, records the page text from there as code points.
V: JsHtmlTrace.tla lexes / decodes the recorded text and judges it against the configured value."""
import json, os, sys
sys.path.insert(0, os.path.join(os.path.dirname(os.path.abspath(__file__)), "..", "lib"))
import vlib

SLOTS = ["endpoint", "subscription", "title", "hname", "hvalue", "pname", "pvalue"]
PLAIN = {115, 120, 233}


def body(c):
    W = 4
    # ---- mode M (runs beside the generator runs: at most 4 TLC workers at a time)
    from concurrent.futures import ThreadPoolExecutor
    pool = ThreadPoolExecutor(3)
    fm = pool.submit(vlib.run_tlc, "lex/JsHtml.tla", "lex/MC_JsHtml.cfg", workers=2, timeout=900)

    # ---- mode G
    # (MaxLen, SeqExtra, slots) per generator run; quick goes one symbol deeper on one slot of each template shape
    runs = ([(3, 1, ["endpoint", "title"]), (2, 1, ["subscription", "hname", "hvalue", "pname", "pvalue"])] if c.quick
            else [(4, 2, SLOTS)])
    if c.replay:
        with open(c.replay) as f:
            case = json.load(f)["case"]
        rows = [{"slot": case["slot"], "val": case["val"]}]
    else:
        rows, futs = [], []
        for k, (n, extra, slots) in enumerate(runs):
            cfg = c.path("Gen_JsHtml_%d.cfg" % k)
            with open(cfg, "w") as f:
                f.write("CONSTANT MaxLen = %d\nCONSTANT SeqExtra = %d\nCONSTANT Slots = {%s}\nINIT Init\nNEXT Next\nINVARIANT Emit\n"
                        % (n, extra, ", ".join('"%s"' % s for s in slots)))
            futs.append(pool.submit(vlib.run_tlc, "lex/Gen_JsHtml.tla", cfg, workers=(1 if len(runs) > 1 else 2), timeout=1800,
                                    keep_lines=50, xmx="6g"))
        for (n, extra, slots), fut in zip(runs, futs):
            g = fut.result()
            c.add_tlc("G values (MaxLen=%d, SeqExtra=%d, slots %s)" % (n, extra, ",".join(slots)), g)
            part = [json.loads(x) for x in sorted(set(t[1] for t in g.tagged("REPLAY")))]
            if len(part) != g.distinct:
                raise vlib.ToolError("generator printed %d cases for %d states" % (len(part), g.distinct))
            rows += part
        rows.sort(key=lambda r: (SLOTS.index(r["slot"]), len(r["val"]), r["val"]))
    m = fm.result()
    if m.invariant_violated:
        raise vlib.ToolError("design-level failure in JsHtml.tla: " + str(m.invariant_violated))
    if m.distinct < 1000:
        raise vlib.ToolError("mode M explored only %d states" % m.distinct)
    c.add_tlc("M JsHtml (MaxLen=3, SeqExtra=1: writers, deviation triggers, tokenizer lemma)", m)
    vlib.write_ndjson(c.path("cases.ndjson"), rows)
    # ---- harness
    (binary,) = vlib.build_harness(["c34"])
    nrand = 0 if c.replay else (1050 if c.quick else 35000)
    p = vlib.run_harness(binary, [c.path("cases.ndjson"), c.path("trace.ndjson"), c.seed, nrand], timeout=1800)
    if p.returncode != 0:
        raise vlib.ToolError("c34 harness failed: " + p.stderr[-2000:])
    cases = vlib.read_ndjson(c.path("trace.ndjson"))
    # ---- mode V
    v = vlib.run_tlc_sliced("lex/JsHtmlTrace.tla", "lex/JsHtmlTrace.cfg", c.path("trace.ndjson"), slices=W,
                            timeout=3000, keep_lines=50, xmx="3g")
    c.add_tlc("V JsHtmlTrace", v)
    verdicts = {t[1]: t[2] for t in v.tagged("VERDICT")}
    if len(verdicts) != len(cases):
        raise vlib.ToolError("V produced %d verdicts for %d cases" % (len(verdicts), len(cases)))
    stats, tool = {}, []
    for cs in cases:
        vd = verdicts[cs["id"]]
        if cs["kind"] == "base":
            if vd != "ok":
                raise vlib.ToolError("the harmless page's module script does not keep the tokenizer in script data "
                                     "up to every slot (%s): the slot windows cannot be judged" % vd)
            continue
        key = cs["slot"] + ("/random" if cs["src"] == "random" else "")
        stats[key] = stats.get(key, 0) + 1
        rec = {"slot": cs["slot"], "val": cs["val"], "text": "".join(chr(x) for x in cs["val"]),
               "page_from_slot": "".join(chr(x) for x in cs["win"]), "src": cs["src"]}
        if vd.startswith("tool:"):
            tool.append((vd, rec))
            continue
        c.count_case({"slot": cs["slot"], "val": cs["val"]}, nontrivial=any(x not in PLAIN for x in cs["val"]))
        c.verdict(vd, rec, "%s: slot %s configured as %s" % (vd, cs["slot"], json.dumps(rec["text"])))
    if tool and not c.violations:
        raise vlib.ToolError("%d cases could not be judged, first: %s %s" % (len(tool), tool[0][0], json.dumps(tool[0][1])))
    if not c.replay:
        for s in SLOTS:
            if not stats.get(s) or not stats.get(s + "/random"):
                raise vlib.ToolError("vacuity: no cases for slot " + s)
    c.notes.append("cases by slot: " + json.dumps({k: stats[k] for k in sorted(stats)}))
    c.cov["traces_validated_against_impl"] = len(cases)
    c.cov["exhaustive"] = not c.replay
    bounds = "; ".join("<= %d symbols / <= %d around a sequence for %s" % (n, e, ",".join(sl)) for n, e, sl in runs)
    c.cov["rule"] = ("G: TLC enumerates every string of symbols over {' \" & < > / \\ LF U+2028 s x e-acute} and every hostile "
                     "sequence (</script>, </SCriPT , <!--, <!--<script>, -->, ]]>, </title>, &lt;, &amp;, &#39;, &#x27;, \\u0027, "
                     "\\x27) with further symbols before/after (%s), for each of the 7 configured slots (endpoint, subscription "
                     "endpoint, title, header name/value, connection-parameter name/value; the other slots hold harmless values); "
                     "the harness adds %d seeded random values of 5-12 code points over a wider alphabet (CR, U+2029, an astral "
                     "character, escape-sequence letters); non-trivial = the value contains a character other than s, x, "
                     "e-acute; distinct by (slot, value)" % (bounds, nrand))
    shown = set()
    for cs in cases:
        vd = verdicts[cs["id"]]
        if cs["kind"] != "base" and vd not in shown and len(cs["val"]) >= 2:
            shown.add(vd)
            c.sample({"slot": cs["slot"], "configured": "".join(chr(x) for x in cs["val"]),
                      "page_from_slot": "".join(chr(x) for x in cs["win"])[:60], "verdict": vd}, limit=5)
    c.assumptions += [
        "the harness's JS tokenizer (identifiers, punctuation, quoted strings, comments) finds the slot's literal by the property "
        "name before it; the text before the slot is harmless by construction (one hostile slot per page) and TLC checks on the "
        "harmless page that the module script stays in the script-data state up to every slot",
        "one header and one connection parameter per page (HashMap iteration order is not part of the property)",
        "named character references other than amp/lt/gt/quot/apos are not modelled (a raw '&name;' in the title would be "
        "reported as a tool error, not judged); the C1 replacement table of numeric references is not modelled",
        "title values are generated without CR (the HTML input-stream preprocessing turns CR into LF before any context applies)",
        "GraphiQLSource::version (spliced into two URLs of the import map) and credentials (an enum) are outside the property's "
        "list of configured strings and are not judged",
        "the module script is strict code (type=module): legacy octal escapes are syntax errors"]


vlib.main("C34", "exploration", body)
