#!/usr/bin/env python3
"""C18 -- introspection is consistent and matches the schema actually served.
Spec: Introspection.tla -- SelfConsistent(dump), VisibleTypes(ts, flags) (reachability through visible elements),
MatchesSchema, NothingHiddenAppears.
Enumerated: a derive-built schema with visibility predicates on types, fields, arguments, input fields and enum
values under EVERY visibility context (8 flag combinations); seeded random dynamic type systems.
V: IntrospectionTrace.tla judges the standard introspection dump, __type(name:) for every name and the SDL names."""
import json, os, random, sys
sys.path.insert(0, os.path.join(os.path.dirname(os.path.abspath(__file__)), "..", "lib"))
import vlib, gqlgen

VIS = os.path.join(vlib.ROOT, "schemas", "vis.json")


def to_vis(ts):
    out = {"types": {}, "query": ts["query"], "mutation": ts.get("mutation", ""), "subscription": ts.get("subscription", "")}
    for n, d in ts["types"].items():
        out["types"][n] = {"kind": d["kind"], "visibleIf": "",
                           "fields": [{"name": f, "ty": fd["ty"], "visibleIf": "", "args": []} for f, fd in d["fields"].items()],
                           "implements": d["implements"], "members": d["members"],
                           "values": [{"name": v, "visibleIf": ""} for v in d["values"]], "inputFields": []}
    return out


def body(c):
    cases = []
    for a in (True, False):
        for b in (True, False):
            for cc in (True, False):
                for incl in ("base", "all", "none"):   # dump query without / with includeDeprecated: true on fields, args, inputFields, enumValues
                    cases.append({"id": 0, "flavour": "static", "flags": [a, b, cc], "incl": incl, "ts": {}, "dts": {}})
    # second static schema (field / argument predicates only, no type-level predicate), introspected on ONE schema
    # instance in a sequence of contexts that goes back and forth (anything remembered from an earlier request shows)
    vis2 = json.load(open(os.path.join(vlib.ROOT, "schemas", "vis2.json")))
    for k, fl in enumerate([(True, True), (False, False), (True, True), (False, True), (True, False), (False, False), (True, True)]):
        cases.append({"id": 0, "flavour": "static2", "flags": [fl[0], fl[1], True], "incl": ("base", "all", "none")[k % 3], "ts": vis2, "dts": {}})
    nts = 60 if c.quick else 1500
    for k in range(nts):
        r = random.Random(c.seed * 104729 + k)
        ts, _objs = gqlgen.random_ts(r, n_obj=r.randint(2, 6))
        cases.append({"id": 0, "flavour": "dynamic", "flags": [True, True, True], "incl": ("base", "all", "none")[k % 3], "ts": to_vis(ts), "dts": ts})
    for i, x in enumerate(cases):
        x["id"] = i + 1
    vlib.write_ndjson(c.path("cases.ndjson"), cases)
    (binary,) = vlib.build_harness(["c18"])
    p = vlib.run_harness(binary, [c.path("cases.ndjson"), c.path("trace.ndjson")], timeout=3000)
    if p.returncode != 0:
        raise vlib.ToolError("c18 harness failed: " + p.stderr[-2000:])
    v = vlib.run_tlc_sliced("gql/IntrospectionTrace.tla", "gql/IntrospectionTrace.cfg", c.path("trace.ndjson"), env={"SCHEMA": VIS},
                            slices=8, timeout=3000, keep_lines=50, xmx="3g")
    c.add_tlc("V IntrospectionTrace", v)
    verdicts = {t[1]: t[2] for t in v.tagged("VERDICT")}
    obs = vlib.read_ndjson(c.path("trace.ndjson"))
    if len(verdicts) != len(obs):
        raise vlib.ToolError("V produced %d verdicts for %d cases" % (len(verdicts), len(obs)))
    for o in obs:
        c.count_case({"f": o["flavour"], "flags": o["flags"], "incl": o["incl"], "ts": vlib.chash(o["ts"])}, nontrivial=True)
        slim = {"flavour": o["flavour"], "flags": o["flags"], "includeDeprecated": o["incl"], "ts": o["ts"] if o["flavour"] == "dynamic" else ("schemas/vis.json" if o["flavour"] == "static" else "schemas/vis2.json"),
                "dump_types": [[t["name"], t["kind"], [f["name"] for f in t["fields"]], t["interfaces"], t["possibleTypes"], t["enumValues"]]
                               for t in o["obs"]["dump"]["types"] if not t["name"].startswith("__")], "problem": o["problem"]}
        c.verdict(verdicts[o["id"]], slim, "introspection: " + str(verdicts[o["id"]]))
    c.cov["traces_validated_against_impl"] = len(obs)
    c.cov["exhaustive"] = False
    c.cov["visibility_contexts"] = 8
    c.cov["rule"] = ("static schema (interface inheritance Super > Node > objects) with visibility predicates on 2 object types, 1 interface, 3 fields, 1 argument, 1 input field, 1 enum value "
                     "under all 8 flag contexts (exhaustive), each dumped with includeDeprecated: true on fields/enumValues only, on args/inputFields too, and nowhere + a second static schema whose only predicates sit on a field and an argument, introspected on one schema instance in a back-and-forth sequence of 7 contexts + %d seeded random dynamic type systems (2-6 objects, interface inheritance, unions, "
                     "enum, custom scalar); every case is non-trivial; distinct by (flavour, flags, type system)" % nts)
    for o in obs[:1] + obs[-1:]:
        c.sample({"flavour": o["flavour"], "flags": o["flags"], "types": [t["name"] for t in o["obs"]["dump"]["types"] if not t["name"].startswith("__")],
                  "verdict": verdicts[o["id"]]})
    c.assumptions += ["dynamic schemas have no visibility predicates (none exist in src/dynamic), so contexts are enumerated for the static schema only",
                      "directive definitions and deprecation flags of the dump are not judged", "schemas/vis.json and schemas/vis2.json mirror the two derive-built schemas in harness/vh/src/bin/c18.rs"]


vlib.main("C18", "exploration", body)
