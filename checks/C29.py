#!/usr/bin/env python3
"""C29 -- DataLoader cache operations behave like the documented cache.
M: LoaderCache.tla (sequential reference cache: NoCache / HashMap / LRU(cap) as a recency sequence, per-type and global
   switches, lazily created per-type caches) -- sanity theorems of the reference for every cache kind.
G: Gen_LoaderCache.tla -- every history of N operations over 2 keys (load_many/load_one, feed, clear, clear_one,
   enable_cache, enable_all_cache, get_cached_values); crossed with the cache kinds by the driver.
harness: c29 runs each history on a real DataLoader (manual spawner, immediate timer, version-stamping loader),
   logs every result, the loader calls and panics.
V: LoaderCacheTrace.tla -- TLC folds the reference over each history (set of admissible reference states because the
   LRU fill order of one batch is unordered) and prints one verdict per history."""
import json, os, random, sys
sys.path.insert(0, os.path.join(os.path.dirname(os.path.abspath(__file__)), "..", "lib"))
import vlib

INVARIANTS = ["WellFormed", "Provenance", "LoadAnswersItsKeys", "FreshWhenOff", "HitsAreOld", "FeedIsHeld", "ClearForgets",
              "LastUsedIsHeld"]
ACTIONS = ["LoadOp", "FeedOp", "ClearOp", "ClearOneOp", "EnableOp", "EnableAllOp", "PeekOp"]
KINDS = [("none", 1), ("map", 1), ("lru", 1), ("lru", 2)]


def consts(keys, types, kind, cap, holes, maxops):
    return ("CONSTANT Keys = {%s}\nCONSTANT Types = {%s}\nCONSTANT Kind = \"%s\"\nCONSTANT Cap = %d\nCONSTANT Holes = {%s}\n"
            "CONSTANT MaxOps = %d\n" % (", ".join(map(str, keys)), ", ".join('"%s"' % t for t in types), kind, cap,
                                        ", ".join(map(str, holes)), maxops))


def random_history(rng, keys, types, n):
    ops = []
    for i in range(n):
        t = rng.choice(types)
        x = rng.random()
        if x < 0.42:
            ks = [rng.choice(keys) for _ in range(rng.choice([0, 1, 1, 2, 2, 3, 4]))]
            op = {"op": "load1" if len(ks) == 1 and rng.random() < 0.5 else "load", "t": t, "ks": ks, "vs": [], "b": False}
        elif x < 0.60:
            ks = [rng.choice(keys) for _ in range(rng.choice([1, 1, 2, 3]))]
            op = {"op": "feed", "t": t, "ks": ks, "vs": [100 + 10 * i + j for j in range(len(ks))], "b": False}
        elif x < 0.65:
            op = {"op": "clear", "t": t, "ks": [], "vs": [], "b": False}
        elif x < 0.73:
            op = {"op": "clear1", "t": t, "ks": [rng.choice(keys)], "vs": [], "b": False}
        elif x < 0.82:
            op = {"op": "enable", "t": t, "ks": [], "vs": [], "b": rng.random() < 0.6}
        elif x < 0.90:
            op = {"op": "enableall", "t": "", "ks": [], "vs": [], "b": rng.random() < 0.6}
        else:
            op = {"op": "peek", "t": t, "ks": [], "vs": [], "b": False}
        ops.append(op)
    return ops


def has_hit(case):
    for op, ob in zip(case["ops"], case["obs"]):
        if op["op"] in ("load", "load1"):
            stamps = {c["n"] for c in ob["calls"]}
            if any(r["v"] not in stamps for r in ob["res"]):
                return True
    return False


def body(c):
    # ---- mode M: the reference's own theorems, per cache kind -----------------------------------------------
    m_runs = [("lru", 1, ["a", "b"], 3), ("map", 1, ["a"], 4), ("lru", 2, ["a"], 4)]
    if not c.quick:
        m_runs = [(k, cap, ["a", "b"], 4) for k, cap in KINDS] + [("lru", 2, ["a"], 5)]
    for kind, cap, types, maxops in m_runs:
        cfg = c.path("MC_%s%d_%d.cfg" % (kind, cap, len(types)))
        with open(cfg, "w") as f:
            f.write(consts([1, 2], types, kind, cap, [2] if kind == "lru" and cap == 2 else [], maxops) + "SPECIFICATION Spec\n"
                    + "".join("INVARIANT %s\n" % i for i in INVARIANTS))
        m = vlib.run_tlc("conc/LoaderCache.tla", cfg, workers=4, coverage=True, timeout=1200, xmx="8g")
        if m.invariant_violated:
            raise vlib.ToolError("design-level failure in LoaderCache.tla (%s cap %d): %s" % (kind, cap, m.invariant_violated))
        for act in ACTIONS:
            if m.coverage.get("LoaderCache!" + act, (0, 0))[0] == 0:
                raise vlib.ToolError("vacuity: action %s never taken in mode M (%s)" % (act, kind))
        c.add_tlc("M LoaderCache kind=%s cap=%d types=%d ops<=%d" % (kind, cap, len(types), maxops), m)

    # ---- mode G: every history of exactly N operations over 2 keys, one key type -------------------------------
    n = 3 if c.quick else 4
    cfg = c.path("Gen.cfg")
    with open(cfg, "w") as f:
        f.write(consts([1, 2], ["a"], "lru", 1, [], n) + "INIT GInit\nNEXT GNext\nINVARIANT Emit\n")
    g = vlib.run_tlc("conc/Gen_LoaderCache.tla", cfg, workers=4, timeout=1800, keep_lines=50, xmx="8g")
    c.add_tlc("G histories (2 keys, %d operations)" % n, g)
    hists = [json.loads(s) for s in sorted(set(t[1] for t in g.tagged("REPLAY")))]
    if len(hists) != 21 ** n:
        raise vlib.ToolError("G produced %d histories, expected %d" % (len(hists), 21 ** n))
    hists3 = []
    if not c.quick:  # LRU recency needs more keys than the capacity: 3 keys, LruCache(2), 3 operations
        cfg3 = c.path("Gen3.cfg")
        with open(cfg3, "w") as f:
            f.write(consts([1, 2, 3], ["a"], "lru", 2, [], 3) + "INIT GInit\nNEXT GNext\nINVARIANT Emit\n")
        g3 = vlib.run_tlc("conc/Gen_LoaderCache.tla", cfg3, workers=4, timeout=1800, keep_lines=50, xmx="8g")
        c.add_tlc("G histories (3 keys, 3 operations)", g3)
        hists3 = [json.loads(s) for s in sorted(set(t[1] for t in g3.tagged("REPLAY")))]
        if len(hists3) != 34 ** 3:
            raise vlib.ToolError("G produced %d 3-key histories, expected %d" % (len(hists3), 34 ** 3))
    rng = random.Random(c.seed)
    n_random = 3000 if c.quick else 30000

    def all_cases():
        cid = 0
        for kind, cap, keys, hs in [(k, cap, [1, 2], hists) for k, cap in KINDS] + [("lru", 2, [1, 2, 3], hists3)]:
            for i, h in enumerate(hs):
                ops = [dict(o) for o in h]
                for j, o in enumerate(ops):  # load_one is the same model operation as a one-key load_many
                    if o["op"] == "load" and len(o["ks"]) == 1 and (i + j) % 2 == 1:
                        o["op"] = "load1"
                cid += 1
                yield {"id": cid, "src": "G", "kind": kind, "cap": cap, "mbs": [1000, 1, 2][i % 3], "keys": keys,
                       "types": ["a"], "holes": [], "ops": ops}
        # seeded random histories: 3 keys, 2 key types, <= 40 operations, LRU capacities 1..3, keys unknown to the loader
        for _ in range(n_random):
            kind, cap = rng.choice([("none", 1), ("map", 1), ("map", 1), ("lru", 1), ("lru", 2), ("lru", 2), ("lru", 3)])
            keys = [1, 2, 3]
            holes = [rng.choice(keys)] if rng.random() < 0.3 else []
            cid += 1
            yield {"id": cid, "src": "R", "kind": kind, "cap": cap, "mbs": rng.choice([1, 2, 3, 1000]), "keys": keys,
                   "types": ["a", "b"], "holes": holes, "ops": random_history(rng, keys, ["a", "b"], rng.randint(1, 40))}

    (binary,) = vlib.build_harness(["c29"])
    st = {"n": 0, "gen": 0, "hits": 0, "lru_hits": 0, "neg": False, "first_hit": None, "first_known": None, "last": None}

    def judge(chunk, k):
        """harness + mode V + classification for one chunk of cases (bounded memory)"""
        vlib.write_ndjson(c.path("cases.ndjson"), chunk)
        p = vlib.run_harness(binary, [c.path("cases.ndjson"), c.path("trace.ndjson")], timeout=1800)
        if p.returncode != 0:
            raise vlib.ToolError("c29 harness failed: " + p.stderr[-2000:])
        traces = vlib.read_ndjson(c.path("trace.ndjson"))
        if len(traces) != len(chunk):
            raise vlib.ToolError("harness returned %d of %d cases" % (len(traces), len(chunk)))
        neg = []
        if not st["neg"]:  # negative controls: corrupt one logged value / drop a loader call; the reference must reject both
            for tr in traces:
                if len(neg) == 2:
                    break
                for i, (op, ob) in enumerate(zip(tr["ops"], tr["obs"])):
                    if op["op"] == "load" and ob["res"] and ob["calls"]:
                        bad = json.loads(json.dumps(tr))
                        bad["id"] = -1 - len(neg)
                        if len(neg) == 0:
                            bad["obs"][i]["res"][0]["v"] += 50
                        else:
                            bad["obs"][i]["calls"] = []
                        neg.append(bad)
                        break
            if len(neg) != 2:
                raise vlib.ToolError("could not build negative controls")
            st["neg"] = True
        vlib.write_ndjson(c.path("trace_v.ndjson"), neg + traces)
        v = vlib.run_tlc("conc/LoaderCacheTrace.tla", "conc/LoaderCacheTrace.cfg", env={"TRACE": c.path("trace_v.ndjson")}, workers=4,
                         timeout=3000, keep_lines=50, xmx="12g")
        verdicts = {t[1]: (t[2], t[3], t[4]) for t in v.tagged("VERDICT")}
        c.notes.append("V chunk %d: %d histories judged in %.1fs" % (k, len(traces), v.wall))
        if len(verdicts) != len(traces) + len(neg):
            raise vlib.ToolError("V produced %d verdicts for %d cases" % (len(verdicts), len(traces) + len(neg)))
        for x in neg:
            if verdicts[x["id"]][0] != "violation":
                raise vlib.ToolError("negative control %d was not rejected by the reference" % x["id"])
        for tr in traces:
            vd, at, at_dev = verdicts[tr["id"]]
            key = {f: tr[f] for f in ("kind", "cap", "mbs", "holes", "ops", "obs")}
            c.count_case(key, nontrivial=any(o["op"] in ("load", "load1", "peek") for o in tr["ops"]))
            st["n"] += 1
            st["gen"] += tr["src"] == "G"
            tr["verdict"] = vd
            if has_hit(tr):
                st["hits"] += 1
                st["lru_hits"] += tr["kind"] == "lru"
                if st["first_hit"] is None and tr["kind"] == "lru":
                    st["first_hit"] = tr
            if vd.startswith("known:") and st["first_known"] is None:
                st["first_known"] = tr
            bad_i = at_dev if at_dev else at
            c.verdict(vd, tr, "operation %s (%s) not admitted by the reference cache" %
                      (bad_i, json.dumps(tr["ops"][bad_i - 1]) if 0 < bad_i <= len(tr["ops"]) else "?"))
        st["last"] = traces[-1]

    chunk, k = [], 0
    for case in all_cases():
        chunk.append(case)
        if len(chunk) == 100000:
            judge(chunk, k)
            chunk, k = [], k + 1
    if chunk:
        judge(chunk, k)
    if st["hits"] == 0 or st["lru_hits"] == 0:
        raise vlib.ToolError("vacuity: no history observed a cache hit (all %d, lru %d)" % (st["hits"], st["lru_hits"]))
    c.cov["traces_validated_against_impl"] = st["n"]
    c.cov["histories_with_cache_hit"] = st["hits"]
    c.cov["exhaustive"] = True
    c.cov["rule"] = ("G: every sequence of exactly %d operations over the 21-letter alphabet {load of <=2 keys incl. duplicates and the "
                     "empty load, feed of 1-2 keys, clear, clear_one, enable_cache(b), enable_all_cache(b), get_cached_values} on 2 keys "
                     "(TLC BFS with history variable, %d histories), each run on NoCache, HashMapCache, LruCache(1), LruCache(2)%s "
                     "(%d cases; shorter histories are prefixes, every operation is judged); plus %d seeded random histories of 1-40 "
                     "operations over 3 keys, 2 key types, LruCache(1..3), loads of 0-4 keys, keys unknown to the loader, "
                     "max_batch_size 1/2/3/1000; non-trivial = the history contains a load or get_cached_values; distinct by "
                     "(configuration, operations, observations)"
                     % (n, len(hists), "; and every sequence of 3 operations over the 34-letter alphabet on 3 keys on LruCache(2)" if hists3 else "",
                        st["gen"], st["n"] - st["gen"]))
    for x in (st["first_hit"], st["first_known"], st["last"]):
        if x is not None:
            c.sample({"kind": x["kind"], "cap": x["cap"], "ops": [(o["op"], o["t"], o["ks"], o["b"]) for o in x["ops"]][:8],
                      "obs": [{"res": [(r["k"], r["v"]) for r in o["res"]], "calls": [(q["n"], q["ks"]) for q in o["calls"]],
                               "panic": o["panic"]} for o in x["obs"]][:8], "verdict": x["verdict"]})
    c.assumptions += ["the harness loader returns its call number as the value of every key it knows; feed values are >= 100, so a "
                      "cached value is never confused with a fresh one",
                      "operations are sequential: every spawned task and the (immediate) timer run to completion inside the operation "
                      "that caused them (interleavings are C28)",
                      "memory safety / data races inside scc, lru and futures are outside the model"]


vlib.main("C29", "model_checking", body)
