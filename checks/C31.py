#!/usr/bin/env python3
"""C31 -- persisted queries execute only the document registered under the hash.
M: PersistedQueries.tla -- registry model (Register/Lookup/Mismatch/WrongVersion/Malformed/Plain/Evict) satisfies the
   property monitor for histories of any length; four deviating models (negative controls) are rejected by the monitor.
G: every history of MaxLen events over a reduced request alphabet (TLC BFS with a history variable), plus seeded random
   histories of 10-40 events over 10 texts and long LRU soak histories.
harness: each history against one real Schema with ApolloPersistedQueries over a logging storage
   (own map with commanded evictions, or the real LruCacheStorage of capacity 1-2); real SHA-256; marker resolver.
V: PersistedQueriesTrace.tla -- verdict = fold of the property monitor; drift = fold of the registry model."""
import json, os, random, sys
sys.path.insert(0, os.path.join(os.path.dirname(os.path.abspath(__file__)), "..", "lib"))
import vlib

GOOD = ["t%d" % i for i in range(1, 7)]
INVALID = ["i1", "i2"]
UNPARSEABLE = ["x1", "x2"]
SOAK = ["g%d" % i for i in range(1, 151)]
MALFORMED = ["null", "string", "list", "nohash", "noversion", "strversion", "inthash", "floatversion", "bigversion"]
NEG = ["NoHashCheck", "KeyBySupplied", "NoVersionCheck", "StoreUnchecked", "VersionOnRegisterOnly"]


def tla_set(xs):
    return "{" + ", ".join('"%s"' % x for x in xs) + "}"


def classify(e):
    """Request class, for statistics and vacuity only (verdicts come from TLC)."""
    if e["ext"] == "evict":
        return "evict"
    if e["ext"] == "absent":
        return "plain"
    if e["ext"] == "malformed":
        return "malformed"
    if e["v"] != 1:
        return "version"
    if e["q"] == "":
        return "lookup"
    return "register" if e["h"] == e["q"] else "mismatch"


def rq(ext, q, h, v, pk=""):
    return {"ext": ext, "q": q, "h": h, "v": v, "pk": pk}


def random_history(rng, n):
    focus = rng.sample(GOOD, rng.randint(2, 4)) + rng.sample(INVALID + UNPARSEABLE, rng.randint(0, 2))
    hashes = focus + ["garbage"]
    ev = []
    for _ in range(n):
        k = rng.choices(["register", "lookup", "mismatch", "version", "malformed", "plain", "evict"],
                        [25, 30, 10, 8, 8, 7, 12])[0]
        if k == "register":
            t = rng.choice(focus)
            ev.append(rq("ok", t, t, 1, rng.choice(["", "", "extra"])))
        elif k == "lookup":
            ev.append(rq("ok", "", rng.choice(hashes), 1, rng.choice(["", "", "extra"])))
        elif k == "mismatch":
            t = rng.choice(focus)
            ev.append(rq("ok", t, rng.choice([h for h in hashes if h != t]), 1))
        elif k == "version":   # half of them hash-only, mostly for hashes that were registered earlier in this history
            registered = [e["q"] for e in ev if e["ext"] == "ok" and e["v"] == 1 and e["q"] and e["h"] == e["q"]]
            q = "" if rng.random() < 0.5 else rng.choice(focus)
            h = rng.choice(registered) if registered and rng.random() < 0.6 else rng.choice(hashes)
            ev.append(rq("ok", q, h, rng.choice([0, 2, -1, 2147483647])))
        elif k == "malformed":
            ev.append(rq("malformed", rng.choice(focus + [""]), rng.choice(hashes + [""]), 0, rng.choice(MALFORMED)))
        elif k == "plain":
            ev.append(rq("absent", rng.choice(focus + [""]), "", 0))
        else:
            ev.append(rq("evict", "", rng.choice(focus), 0))
    return ev


def soak_history(rng, n):
    ev, used = [], []
    for _ in range(n):
        x = rng.random()
        if x < 0.5 or not used:
            t = rng.choice(SOAK)
            used.append(t)
            ev.append(rq("ok", t, t, 1))
        elif x < 0.95:
            ev.append(rq("ok", "", rng.choice(used[-40:] if rng.random() < 0.7 else SOAK), 1))
        else:
            t, h = rng.choice(SOAK), rng.choice(used + ["garbage"])
            ev.append(rq("ok", t, h if h != t else "garbage", 1))
    return ev


def gen(c, maxlen, gx, metadir=None, first_registers=False):
    cfg = c.path("Gen%d.cfg" % maxlen)
    with open(cfg, "w") as f:
        f.write('CONSTANT Good = {"t1", "t2"}\nCONSTANT Invalid = {"i1"}\nCONSTANT Unparseable = {"x1"}\n'
                'CONSTANT Versions = {1, 2}\nCONSTANT MalformedKinds = {"noversion", "strversion"}\nCONSTANT Dev = {}\n'
                'CONSTANT MaxLen = %d\nCONSTANT GT = {"t1", "t2"}\nCONSTANT GX = %s\nCONSTANT GFirst = "t1"\n'
                'CONSTANT FirstRegisters = %s\n'
                'INIT GInit\nNEXT GNext\nINVARIANT Emit\nINVARIANT GenMonAccepts\n' % (maxlen, tla_set(gx), "TRUE" if first_registers else "FALSE"))
    g = vlib.run_tlc("conc/Gen_PersistedQueries.tla", cfg, workers=4 if maxlen <= 3 else 8, timeout=1800, keep_lines=50, xmx="8g",
                     metadir=metadir)
    if g.invariant_violated:
        raise vlib.ToolError("generator: the model left the monitor (%s)" % g.invariant_violated)
    hs = sorted(set(t[1] for t in g.tagged("REPLAY")))
    if not hs:
        raise vlib.ToolError("generator produced no histories")
    return g, [json.loads(h) for h in hs]


def body(c):
    rng = random.Random(c.seed)
    # ---- mode M (+ negative controls) and the first generator run, concurrently ------------------
    from concurrent.futures import ThreadPoolExecutor
    md = lambda name: os.path.join(vlib.ROOT, "work", "tlc", "C31-%s-%d" % (name, os.getpid()))
    with ThreadPoolExecutor(7) as ex:
        fm = ex.submit(vlib.run_tlc, "conc/PersistedQueries.tla", "conc/MC_PersistedQueries.cfg", workers=4, timeout=900,
                       metadir=md("M"))
        fneg = {d: ex.submit(vlib.run_tlc, "conc/PersistedQueries.tla", "conc/MC_PersistedQueries_neg_%s.cfg" % d, workers=1,
                             expect_violation=True, timeout=300, metadir=md(d)) for d in NEG}
        fg3 = None if c.replay else ex.submit(gen, c, 3, ["i1", "x1"], md("G3"))
        m = fm.result()
        negs = {d: f.result() for d, f in fneg.items()}
        g3 = fg3.result() if fg3 else None
    if m.invariant_violated:
        raise vlib.ToolError("design-level failure in PersistedQueries.tla: " + str(m.invariant_violated))
    if m.distinct < 1000:
        raise vlib.ToolError("vacuity: mode M explored only %d states" % m.distinct)
    c.add_tlc("M PersistedQueries (4 texts, all request shapes; invariants + action properties)", m)
    for d in NEG:
        if negs[d].invariant_violated != "MonAccepts":
            raise vlib.ToolError("negative control: the monitor accepts the deviating model " + d)
    c.notes.append("negative controls rejected by the monitor in mode M: " + ", ".join(NEG))

    # ---- histories ---------------------------------------------------------------------------
    rows = []  # {"storage","cap","events","src"}

    def add(ev, src, lru_too, k):
        rows.append({"storage": "obs", "cap": 0, "events": ev, "src": src})
        if lru_too:
            rows.append({"storage": "lru", "cap": 1 + k % 2, "events": [e for e in ev if e["ext"] != "evict"], "src": src})

    exhaustive = True
    if c.replay:
        with open(c.replay) as f:
            case = json.load(f)["case"]
        ev = [rq(e["ext"], e["q"], e["h"], e["v"], e.get("pk", "")) for e in case["events"]]
        # the recorded history on its own storage first, then on the other storages (evictions only exist on "obs")
        st = case["storage"]
        noev = [e for e in ev if e["ext"] != "evict"]
        alls = [("obs", 0, ev), ("lru", 1, noev), ("lru", 2, noev)]
        alls.sort(key=lambda x: 0 if (x[0] == "obs") == (st == "obs") and (st == "obs" or x[1] == int(st[3:])) else 1)
        for sname, cap, evs in alls:
            rows.append({"storage": sname, "cap": cap, "events": evs, "src": "replay"})
        exhaustive = False
    else:
        c.add_tlc("G histories of 3 events (2 good texts + invalid + unparseable)", g3[0])
        for k, ev in enumerate(g3[1]):
            add(ev, "G3", k % 4 == 0 and not any(e["ext"] == "evict" for e in ev), k)
        if not c.quick:
            r4, g4 = gen(c, 4, [])
            c.add_tlc("G histories of 4 events (2 good texts)", r4)
            for k, ev in enumerate(g4):
                add(ev, "G4", not any(e["ext"] == "evict" for e in ev), k)
            r5, g5 = gen(c, 5, [], first_registers=True)
            c.add_tlc("G histories of 5 events starting with a registration (2 good texts)", r5)
            if len(g5) > 20000:
                g5 = rng.sample(g5, 20000)
                exhaustive = False
            for k, ev in enumerate(g5):
                add(ev, "G5", False, k)
        for k in range(200 if c.quick else 2000):
            add(random_history(rng, rng.randint(10, 40)), "random", True, k)
        for k in range(2 if c.quick else 12):
            rows.append({"storage": "lru", "cap": 1 + k % 2, "events": soak_history(rng, 400 if c.quick else 1500), "src": "soak"})
    vlib.write_ndjson(c.path("histories.ndjson"), rows)

    # ---- harness -----------------------------------------------------------------------------
    (binary,) = vlib.build_harness(["c31"])
    p = vlib.run_harness(binary, [c.path("histories.ndjson"), c.path("trace.ndjson")], timeout=1800)
    if p.returncode != 0:
        raise vlib.ToolError("c31 harness failed: " + p.stderr[-2000:])
    traces = vlib.read_ndjson(c.path("trace.ndjson"))
    if len(traces) != len(rows):
        raise vlib.ToolError("harness wrote %d traces for %d histories" % (len(traces), len(rows)))

    # ---- mode V ------------------------------------------------------------------------------
    tcfg = c.path("Trace.cfg")
    with open(tcfg, "w") as f:
        f.write("CONSTANT Good = %s\nCONSTANT Invalid = %s\nCONSTANT Unparseable = %s\nCONSTANT Versions = {1, 2}\n"
                'CONSTANT MalformedKinds = {"null"}\nCONSTANT Dev = {}\nCONSTANT Chunk = 250\nINIT TInit\nNEXT TNext\n'
                % (tla_set(GOOD + SOAK), tla_set(INVALID), tla_set(UNPARSEABLE)))
    verdicts = {}
    step = 20000
    for lo in range(0, len(traces), step):
        part = c.path("trace_%d.ndjson" % (lo // step))
        vlib.write_ndjson(part, traces[lo:lo + step])
        v = vlib.run_tlc("conc/PersistedQueriesTrace.tla", tcfg, env={"TRACE": part}, workers=8, timeout=3000,
                         keep_lines=50, xmx="8g")
        for t in v.tagged("VERDICT"):
            verdicts[t[1]] = (t[2], t[3], t[4])
        if lo == 0:
            c.add_tlc("V monitor + drift fold (first chunk)", v)
        if lo:
            os.remove(part)
    if len(verdicts) != len(traces):
        raise vlib.ToolError("V produced %d verdicts for %d traces" % (len(verdicts), len(traces)))

    # ---- classify ----------------------------------------------------------------------------
    stats = {}
    def bump(k):
        stats[k] = stats.get(k, 0) + 1
    for row, tr in zip(rows, traces):
        classes = [classify(e) for e in tr["events"]]
        seen_reg = set()
        for e, k in zip(tr["events"], classes):
            bump(k)
            if k == "version" and e["q"] == "":
                bump("version hash-only " + ("registered" if e["h"] in seen_reg else "unregistered"))
            if k == "register" and e["exec"]:
                seen_reg.add(e["q"])
            if k == "lookup" and row["src"] != "soak":   # soak: real LRU eviction depends on scc's random hasher; not counted
                bump(("hit " if e["exec"] else "miss ") + ("lru" if tr["storage"] != "obs" else "obs"))
        nontrivial = any(k in ("lookup", "mismatch", "version", "malformed") for k in classes)
        c.count_case({"storage": tr["storage"], "events": row["events"]}, nontrivial)
        vd, at, drift = verdicts[tr["id"]]
        c.verdict(vd, tr, "%s at event %s of a %s history on storage %s" % (vd, at, row["src"], tr["storage"]))
        if drift and row["src"] != "replay":
            c.drift("trace %s (%s, %s): registry model differs from the recorded observation at event %s"
                    % (tr["id"], row["src"], tr["storage"], drift))
    if not c.replay:
        for k in ("plain", "register", "lookup", "mismatch", "version", "malformed", "evict", "hit obs", "miss obs", "hit lru", "miss lru",
                  "version hash-only registered", "version hash-only unregistered"):
            if not stats.get(k):
                raise vlib.ToolError("vacuity: no '%s' in the executed histories" % k)
    c.notes.append("events executed by class: " + json.dumps({k: stats[k] for k in sorted(stats)}))
    c.cov["traces_validated_against_impl"] = len(traces)
    c.cov["exhaustive"] = exhaustive
    c.cov["rule"] = ("G: every history of exactly 3 events%s of the registry model over the alphabet {plain, register, lookup, "
                     "mismatch(other hash|garbage), wrong version (with text / hash only), malformed payload (with text / hash only), "
                     "evict} on 2 interchangeable good texts (+ an invalid and an unparseable text for 3 events), TLC BFS with a "
                     "history variable, text symmetry reduced; plus seeded random histories of 10-40 events over 6 good, 2 invalid, "
                     "2 unparseable texts with 9 malformed payload shapes and 5 versions, and LRU soak histories over 150 texts; each "
                     "history runs on a fresh Schema over the harness's own storage (evictions on command) and, without evictions, "
                     "over the real LruCacheStorage(1|2); non-trivial = the history contains a hash-only, mismatching, wrong-version "
                     "or malformed request; distinct by (storage, request list)"
                     % ("" if c.quick else ", 4 events, and 5 events starting with a registration (sampled 20000)"))
    for tr in [traces[0]] + [t for t, r in zip(traces, rows) if r["src"] == "random"][:1]:
        c.sample({"storage": tr["storage"], "events": [[e["ext"], e["q"], e["h"], e["v"], e["exec"], e["err"]] for e in tr["events"][:8]],
                  "verdict": verdicts[tr["id"]][0]})
    c.assumptions += ["SHA-256 is abstracted as an injective function in the spec; the harness computes real digests with the sha2 crate "
                      "and maps hash strings and stored documents back to text names (trusted)",
                      "which document ran is observed through the `id` argument of the marker field; a stored document is identified "
                      "by the same argument",
                      "reading: a request with a malformed persistedQuery payload or an unsupported version runs nothing and stores "
                      "nothing, with a text or hash-only, for registered and unregistered hashes; a request "
                      "without the extension runs its own text and is outside the property",
                      "the error message PersistedQueryNotFound is compared because the property names it",
                      "garbage hashes are strings that are not the digest of any text in the universe"]


vlib.main("C31", "model_checking", body)
