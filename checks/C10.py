#!/usr/bin/env python3
"""C10 -- depth, complexity, recursion and directive limits are enforced exactly.
G : Gen_LimitDoc.tla enumerates every valid document with <= N selection nodes over the limits family
    (schemas/limits.json: objects with custom complexity rules, an interface, a union), with arguments feeding
    rules, several directives on one field, named fragments spread once or twice, fragments in fragments; the
    driver adds variable forms for $c, two-operation documents and seeded random bigger documents.
V1: LimitsTrace.tla (MODE=measure) computes the four reference measures of every document (Limits.tla).
    The driver only places every limit at measure-1, measure, measure+1 (plus one all-limits configuration).
H : harness c10 executes each document on the derive-built family and on its dynamic twin, built with exactly
    those limits, and records rejected / number of resolver calls.
V2: LimitsTrace.tla (MODE=judge): rejected before any resolver  <=>  some configured limit < measure."""
import json, os, random, sys
sys.path.insert(0, os.path.join(os.path.dirname(os.path.abspath(__file__)), "..", "lib"))
import vlib, gqlgen

SCHEMA = os.path.join(vlib.ROOT, "schemas", "limits.json")
# fields whose complexity rule reads a multi-word argument: S (rename_args = "snake_case").pages(page_size), S.top(topN:
# renamed on the argument itself), Query.paged(perPage: default rule); and the slice of the family around them
RENAMED_FIELDS = ("pages", "top", "paged")
RENAMED_FOCUS = ["s", "pages", "top", "paged", "id", "n"]
KINDS = ["depth", "complexity", "recursive", "directives"]


def I(n):
    return {"k": "int", "v": str(n), "n": n}


NI = {"k": "named", "n": "Int"}
NNI = {"k": "nn", "of": NI}
# ways to define / supply the variable $c that feeds complexity rules: (definition, supplied values, tag)
VAR_FORMS = [
    ({"name": "c", "ty": NNI, "hasDefault": False, "default": I(0)}, [{"name": "c", "val": I(2)}], "required+supplied"),
    ({"name": "c", "ty": NI, "hasDefault": True, "default": I(4)}, [], "default used"),
    ({"name": "c", "ty": NNI, "hasDefault": True, "default": I(1)}, [{"name": "c", "val": I(5)}], "default overridden"),
    ({"name": "c", "ty": NI, "hasDefault": False, "default": I(0)}, [{"name": "c", "val": I(0)}], "nullable+supplied 0"),
    ({"name": "c", "ty": NI, "hasDefault": False, "default": I(0)}, [], "nullable omitted (argument default applies)"),
]

DIRS = {"s": {"name": "skip", "val": {"k": "bool", "v": False}}, "S": {"name": "skip", "val": {"k": "bool", "v": True}},
        "i": {"name": "include", "val": {"k": "bool", "v": True}}, "t": {"name": "tag"}}
# compositions of n directives on one field (each valid: @skip/@include at most once, @tag repeatable, static only)
FIELD_COMP = {0: [""], 1: ["s", "S", "i", "t"], 2: ["si", "Si", "st", "tt", "it"], 3: ["ttt", "stt", "sit"], 4: ["tttt", "sitt"], 5: ["ttttt"]}
FRAG_COMP = {0: [""], 1: ["s", "i"]}


def dirs_of(code):
    return [json.loads(json.dumps(DIRS[ch])) for ch in code]


def tree_from_flat(flat, rng, arg_names):
    """flat: Gen_LimitDoc nodes [{d,k,name,alias,on,dirs,arg,ref}] in pre-order -> tree document.
    `spread` nodes become named fragments F1, F2, ...; `reuse` spreads the fragment of node `ref` again."""
    frags, root = [], []
    stack = [(0, root)]
    frag_of = {}
    for idx, n in enumerate(flat, 1):
        d = n["d"]
        while stack and stack[-1][0] >= d:
            stack.pop()
        parent = stack[-1][1]
        nd = len(n.get("dirs", ""))
        if n["k"] == "field":
            args = []
            if n.get("arg", ""):
                a = n["arg"]
                val = {"k": "var", "name": "c"} if a.startswith("$") else I(int(a))
                args = [{"name": arg_names[n["name"]], "val": val}]
            node = {"k": "field", "name": n["name"], "alias": n.get("alias", ""), "args": args,
                    "dirs": dirs_of(rng.choice(FIELD_COMP[nd])), "sels": []}
            parent.append(node)
            stack.append((d, node["sels"]))
        elif n["k"] == "inline":
            node = {"k": "inline", "on": n["on"], "dirs": dirs_of(rng.choice(FRAG_COMP[nd])), "sels": []}
            parent.append(node)
            stack.append((d, node["sels"]))
        elif n["k"] == "spread":
            name = "F%d" % (len(frags) + 1)
            fr = {"name": name, "on": n["on"], "dirs": [], "sels": []}
            frags.append(fr)
            frag_of[idx] = name
            parent.append({"k": "spread", "name": name, "dirs": dirs_of(rng.choice(FRAG_COMP[nd]))})
            stack.append((d, fr["sels"]))
        else:  # reuse
            parent.append({"k": "spread", "name": frag_of[n["ref"]], "dirs": []})
    return {"ops": [{"name": "", "ty": "query", "vars": [], "dirs": [], "sels": root}], "frags": frags}


def uses_var(x):
    return '"k": "var"' in json.dumps(x)


def uses_tag(doc):
    return '"name": "tag"' in json.dumps(doc)


def conflicts(doc):
    """True if two fields that may be merged share a response key but differ in name or arguments
    (5.3.2 would refuse the document).  Conservative: type conditions are ignored."""
    frag = {f["name"]: f for f in doc["frags"]}

    def collect(sels, acc, seen):
        for s in sels:
            if s["k"] == "field":
                acc.append(s)
            elif s["k"] == "inline":
                collect(s["sels"], acc, seen)
            elif s["name"] in frag and s["name"] not in seen:
                collect(frag[s["name"]]["sels"], acc, seen | {s["name"]})

    def check(sels):
        acc = []
        collect(sels, acc, frozenset())
        by = {}
        for f in acc:
            by.setdefault(f["alias"] or f["name"], []).append(f)
        for fs in by.values():
            if len({(f["name"], vlib.canon(f["args"])) for f in fs}) > 1:
                return True
            merged = [x for f in fs for x in f["sels"]]
            if merged and check(merged):
                return True
        return False
    return any(check(op["sels"]) for op in doc["ops"]) or any(check(f["sels"]) for f in doc["frags"])


def op_uses_var(doc, op):
    """does the operation use $c, directly or through the fragments it spreads?"""
    frag = {f["name"]: f for f in doc["frags"]}
    seen = set()

    def walk(sels):
        for s in sels:
            if s["k"] == "field":
                if uses_var(s["args"]) or walk(s["sels"]):
                    return True
            elif s["k"] == "inline":
                if walk(s["sels"]):
                    return True
            elif s["name"] not in seen and s["name"] in frag:
                seen.add(s["name"])
                if walk(frag[s["name"]]["sels"]):
                    return True
        return False
    return walk(op["sels"])


def with_vars(doc, form):
    d = json.loads(json.dumps(doc))
    vdef, supplied, _tag = form
    used = False
    for op in d["ops"]:
        if op_uses_var(d, op):
            op["vars"] = [vdef]
            used = True
            if not op["name"]:
                op["name"] = "Q"
    return d, (supplied if used else [])


def two_ops(d1, d2):
    """one document with the operations of d1 (named Q1, the one executed) and d2 (Q2)"""
    a, b = json.loads(json.dumps(d1)), json.loads(json.dumps(d2))
    ren = {f["name"]: "G%d" % (i + 1) for i, f in enumerate(b["frags"])}
    s = json.dumps(b)
    for old, new in ren.items():
        s = s.replace('"name": "%s"' % old, '"name": "%s"' % new)
    b = json.loads(s)
    a["ops"][0]["name"], b["ops"][0]["name"] = "Q1", "Q2"
    return {"ops": a["ops"] + b["ops"], "frags": a["frags"] + b["frags"]}


def gen_docs(c, n, dirs, alias, args, decor, label, focus=(), deep=False):
    cfg = c.path("Gen_%s.cfg" % label)
    with open(cfg, "w") as f:
        f.write('CONSTANT MaxNodes = %d\nCONSTANT MaxDirs = %d\nCONSTANT MaxAlias = %d\nCONSTANT MaxArgs = %d\nCONSTANT MaxDecor = %d\n'
                'CONSTANT Root = "Query"\nCONSTANT Focus = {%s}\nCONSTANT OnlyDeepReuse = %s\nINIT Init\nNEXT Next\nINVARIANT DepthOK\nINVARIANT Emit\n'
                % (n, dirs, alias, args, decor, ", ".join('"%s"' % x for x in focus), "TRUE" if deep else "FALSE"))
    g = vlib.run_tlc("gql/Gen_LimitDoc.tla", cfg, env={"SCHEMA": SCHEMA}, workers=8 if not focus else 3, timeout=1800, keep_lines=20, xmx="8g")
    if g.invariant_violated:
        raise vlib.ToolError("design-level failure in Gen_LimitDoc.tla: " + str(g.invariant_violated))
    label = "G %s (MaxNodes=%d, decorations<=%d%s%s)" % (label, n, decor, ", fields " + "/".join(focus) if focus else "", ", only fragments spread at two depths" if deep else "")
    return sorted(set(t[1] for t in g.tagged("REPLAY"))), label, g


def spread(name):
    return {"k": "spread", "name": name, "dirs": []}


def field(name, sels=(), args=()):
    return {"k": "field", "name": name, "alias": "", "args": list(args), "dirs": [], "sels": list(sels)}


def placement_templates():
    """One named fragment F spread at two or three different nesting depths of the chain `a { me { me { me { n } } } }`:
    shallow placement first or deep placement first in document order, directly or through a second fragment G,
    for several bodies of F (own nesting, a rule with an argument, a constant rule).  A walker that remembers
    fragments instead of inlining them measures only the first placement."""
    bodies = [("A", [field("n")]), ("A", [field("me", [field("n")])]), ("Node", [field("peer", [field("id")])]),
              ("A", [field("kids", [field("id")], [{"name": "first", "val": I(2)}])]), ("A", [field("label")])]
    L = 4
    out = []
    combos = [(i, j) for i in range(1, L + 1) for j in range(i + 1, L + 1)]
    for on, fbody in bodies:
        for levels in [c for c in combos] + [(1, 2, 3), (1, 3, 4), (2, 3, 4)]:
            for first in ("shallow", "deep"):
                for via in (("none", "deepest", "shallowest") if len(levels) == 2 else ("none",)):
                    frags = [{"name": "F", "on": on, "dirs": [], "sels": json.loads(json.dumps(fbody))}]
                    use_g = None
                    if via == "deepest":
                        use_g = levels[-1]
                    elif via == "shallowest":
                        use_g = levels[0]
                    if use_g is not None:
                        frags.append({"name": "G", "on": "A", "dirs": [], "sels": [field("n"), spread("F")]})

                    def level(k):
                        sels = []
                        here = [spread("G" if k == use_g else "F")] if k in levels else []
                        down = [field("me", level(k + 1))] if k < L else [field("n")]
                        # document order: the spread before the chain continues = the shallower placement comes first
                        return here + down if first == "shallow" else down + here
                    out.append({"ops": [{"name": "", "ty": "query", "vars": [], "dirs": [], "sels": [field("a", level(1))]}], "frags": frags, "_dense": True})
    return out


def respread_elsewhere(ts, doc, rng):
    """Spread one of the document's fragments once more at a place of a *different* nesting depth (or inside another
    fragment that it does not reach: no cycle) whose static type overlaps the fragment's type condition.
    Returns True if a spread was added."""
    frag = {f["name"]: f for f in doc["frags"]}
    if not frag:
        return False

    def names(sels, acc):
        for s in sels:
            if s["k"] == "spread":
                acc.add(s["name"])
            else:
                names(s["sels"], acc)
        return acc
    direct = {n: names(f["sels"], set()) for n, f in frag.items()}

    def reach(n):
        seen, todo = set(), [n]
        while todo:
            x = todo.pop()
            if x in seen or x not in direct:
                continue
            seen.add(x)
            todo += list(direct[x])
        return seen
    fname = rng.choice(sorted(frag))
    on = set(gqlgen.possible(ts, frag[fname]["on"]))
    places, first_depth = [], []

    def walk(sels, t, depth, owner):
        if t and set(gqlgen.possible(ts, t)) & on:
            places.append((sels, depth, owner))
        for s in sels:
            if s["k"] == "field":
                if s["name"] != "__typename" and s["sels"]:
                    walk(s["sels"], gqlgen.named(ts["types"][t]["fields"][s["name"]]["ty"]), depth + 1, owner)
            elif s["k"] == "inline":
                walk(s["sels"], s["on"] or t, depth + 1, owner)
            elif s["name"] == fname and owner == "":
                first_depth.append(depth)
    walk(doc["ops"][0]["sels"], ts["query"], 0, "")
    for n, f in sorted(frag.items()):
        if fname not in reach(n) and n not in reach(fname):
            walk(f["sels"], f["on"], 100, n)          # depth relative to the fragment: always "different"
    cands = [p for p in places if p[1] not in first_depth]
    if not cands:
        return False
    sels, _d, _o = rng.choice(cands)
    sels.insert(rng.choice([0, len(sels)]), spread(fname))
    return True


def random_flat(ts, rng, arg_names):
    """seeded bigger documents: gqlgen.DocGen's structure (nested fragments, depth <= 4), decorated with
    arguments, directive counts and re-spreads"""
    dg = gqlgen.DocGen(ts, rng, max_depth=4, max_items=3, p_dir=0.0, p_frag=0.3, p_alias=0.0)
    flat = []
    dg.sels("Query", 1, flat, [rng.randint(4, 14)])
    out = []
    spreads = []  # (index in out, depth, on, closed?) -- a spread is closed once a node of depth <= its depth follows
    for n in flat:
        for sp in spreads:
            if not sp[3] and n["d"] <= sp[1]:
                sp[3] = True
        node = {"d": n["d"], "k": n["k"], "name": n["name"], "alias": "", "on": n["on"], "dirs": "", "arg": "", "ref": 0}
        if n["k"] == "field":
            node["dirs"] = "t" * rng.choice([0, 0, 0, 0, 1, 1, 2, 3, 4, 5])
            if n["name"] in arg_names and rng.random() < 0.7:
                node["arg"] = rng.choice(["0", "1", "2", "4", "7", "$c"])
        else:
            node["dirs"] = "s" * rng.choice([0, 0, 0, 1])
        out.append(node)
        if n["k"] == "spread":
            spreads.append([len(out), n["d"], n["on"], False])
    return out, spreads


def body(c):
    import time
    marks = [("start", time.time())]

    def stage(name):
        marks.append((name, time.time()))
        c.cov["stage_wall_s"] = {marks[i][0]: round(marks[i][1] - marks[i - 1][1], 1) for i in range(1, len(marks))}
    ts = json.load(open(SCHEMA))
    rng = random.Random(c.seed)
    arg_names = {}
    for t in ts["types"].values():
        for f, fd in t["fields"].items():
            if fd["args"]:
                arg_names[f] = fd["args"][0]["name"]

    # ---- G: documents --------------------------------------------------------------------------------
    n = 4 if c.quick else 5
    ndec = 1 if c.quick else 2
    # the generator runs are independent: run them side by side, account for them in a fixed order
    from concurrent.futures import ThreadPoolExecutor
    jobs = [lambda: gen_docs(c, 4, 1, 1, 1, ndec, "decorated"),       # <=4 nodes, <=ndec decorations (contains every smaller document)
            # one fragment spread at two different nesting depths (either order, also from inside another fragment): deeper bounds on field slices
            lambda: gen_docs(c, 5 if c.quick else 6, 0, 0, 0, 0, "deep-reuse", focus=["a", "me", "n", "node", "peer", "id"], deep=True),
            lambda: gen_docs(c, 6 if c.quick else 7, 0, 0, 0, 0, "deep-reuse-via-fragment", focus=["a", "me", "n"], deep=True)]
    # renamed arguments feeding complexity rules: every document with <=4 nodes over the slice of the object with
    # `rename_args = "snake_case"` (S.pages(page_size)), the individually renamed argument (S.top(topN)) and the multi-word
    # argument under the default rule (Query.paged(perPage)), up to two arguments (omitted / 0 / 1 / 4 / $c)
    jobs.append(lambda: gen_docs(c, 4, 0, 0, 2, 2, "renamed-args", focus=RENAMED_FOCUS))
    if not c.quick:
        jobs.append(lambda: gen_docs(c, 5, 0, 0, 0, 0, "plain"))      # undecorated, 5 nodes, incl. re-spread fragments
    with ThreadPoolExecutor(len(jobs)) as ex:
        futs = [ex.submit(j) for j in jobs]
        results = [f.result() for f in futs]
    for _docs, label, g in results:
        c.add_tlc(label, g)
    decor = results[0][0]
    deep = results[1][0] + results[2][0]
    renamed = [x for x in results[3][0] if any(nd["arg"] and nd["name"] in RENAMED_FIELDS for nd in json.loads(x))]
    plain5 = results[4][0] if not c.quick else []
    deep = sorted(set(deep))
    ndeep_total = len(deep)
    cap_deep = 350 if c.quick else 6000
    if len(deep) > cap_deep:
        deep = rng.sample(deep, cap_deep)
    total = len(set(decor) | set(plain5) | set(renamed)) + ndeep_total

    parsed = {}

    def flat(x):
        if x not in parsed:
            parsed[x] = json.loads(x)
        return parsed[x]

    def nodes(x):
        return len(flat(x))

    def decorated(x):
        return any(nd["dirs"] or nd["alias"] or nd["arg"] for nd in flat(x))
    small = [x for x in decor if nodes(x) <= 3]
    plain = [x for x in decor if nodes(x) == 4 and not decorated(x)] + [x for x in plain5 if nodes(x) == 5]
    rest = [x for x in decor if nodes(x) == 4 and decorated(x)]
    cap_small, cap_plain, cap_decor = (1200, 400, 800) if c.quick else (len(small), 12000, 20000)
    exhaustive = True
    if len(small) > cap_small:
        small = rng.sample(small, cap_small)
        exhaustive = False
    if len(plain) > cap_plain:
        keep = [x for x in plain if '"reuse"' in x]
        others = [x for x in plain if '"reuse"' not in x]
        keep = keep if len(keep) <= cap_plain // 3 else rng.sample(keep, cap_plain // 3)
        plain = keep + rng.sample(others, cap_plain - len(keep))
        exhaustive = False
    if len(rest) > cap_decor:
        rest = rng.sample(rest, cap_decor)
        exhaustive = False
    decor = rest
    flats = sorted(set(small) | set(plain) | set(decor))
    docs = []
    dropped = 0
    for fs in flats:
        d = tree_from_flat(flat(fs), rng, arg_names)
        if conflicts(d):
            dropped += 1
            continue
        docs.append(d)
    ndeep = 0
    for fs in deep:
        d = tree_from_flat(json.loads(fs), rng, arg_names)
        if conflicts(d):
            dropped += 1
            continue
        d["_dense"] = True
        docs.append(d)
        ndeep += 1
    nrenamed = 0
    nrenamed_total = len(renamed)
    if c.quick:      # all with <= 3 nodes (every variable form), a seeded sample of the 4-node ones (two variable forms as elsewhere)
        big_r = [x for x in renamed if len(json.loads(x)) > 3]
        renamed = [x for x in renamed if len(json.loads(x)) <= 3] + sorted(rng.sample(big_r, min(150, len(big_r))))
    for fs in renamed:
        d = tree_from_flat(json.loads(fs), rng, arg_names)
        if conflicts(d):
            dropped += 1
            continue
        if not c.quick or len(json.loads(fs)) <= 3:
            d["_allforms"] = True
        docs.append(d)
        nrenamed += 1
    templates = placement_templates()
    for d in templates:
        if conflicts(d):
            raise vlib.ToolError("placement template with a response-key conflict")
    docs += templates
    nbounded = len(docs)
    # seeded random bigger documents (valid by construction; key conflicts filtered)
    nrand = 300 if c.quick else 6000
    made = 0
    nrespread = 0
    while made < nrand:
        rflat, spreads = random_flat(ts, rng, arg_names)
        d = tree_from_flat(rflat, rng, arg_names)
        # spread a fragment a second time at the place of its first spread (same static type: valid, no cycle)
        if d["frags"] and rng.random() < 0.5:
            fr = rng.choice(d["frags"])

            def dup(sels):
                for i, s in enumerate(sels):
                    if s["k"] == "spread" and s["name"] == fr["name"]:
                        sels.insert(i + 1, {"k": "spread", "name": fr["name"], "dirs": []})
                        return True
                    if s["k"] != "spread" and dup(s["sels"]):
                        return True
                return False
            dup(d["ops"][0]["sels"]) or any(dup(f["sels"]) for f in d["frags"])
        # ... and/or once more at a place of a different nesting depth (shallower or deeper, before or after, or inside another fragment)
        if d["frags"] and rng.random() < 0.9:
            for _ in range(rng.choice([1, 1, 2])):
                if respread_elsewhere(ts, d, rng):
                    d["_dense"] = True
                    nrespread += 1
        if conflicts(d):
            continue
        docs.append(d)
        made += 1
    # two-operation documents (the measures are those of the whole document)
    ntwo = 100 if c.quick else 1500
    base = docs[:nbounded]
    for _ in range(ntwo):
        docs.append(two_ops(rng.choice(base), rng.choice(base)))

    stage("G")
    # ---- cases: variable forms ------------------------------------------------------------------------
    cases = []
    for d in docs:
        if uses_var(d):
            forms = VAR_FORMS if (not c.quick or d.get("_allforms")) else rng.sample(VAR_FORMS, 2)
        else:
            forms = [VAR_FORMS[0]]
        for form in forms:
            dd, supplied = with_vars(d, form)
            dense = bool(dd.pop("_dense", False))
            dd.pop("_allforms", None)
            cases.append({"id": len(cases) + 1, "doc": dd, "opName": dd["ops"][0]["name"], "vars": supplied, "runs": [], "dense": dense})

    # ---- V1: TLC computes the reference measures --------------------------------------------------------
    vlib.write_ndjson(c.path("docs.ndjson"), cases)
    m = vlib.run_tlc_sliced("gql/LimitsTrace.tla", "gql/LimitsTrace.cfg", c.path("docs.ndjson"), env={"SCHEMA": SCHEMA, "MODE": "measure"},
                            slices=8, timeout=3000, keep_lines=50, xmx="3g")
    c.add_tlc("V1 LimitsTrace (measure)", m)
    meas = {t[1]: dict(zip(["depth", "cx_static", "cx_dynamic", "recursive", "directives"], t[2:7])) for t in m.tagged("MEASURE")}
    if len(meas) != len(cases):
        raise vlib.ToolError("measuring pass produced %d lines for %d documents" % (len(meas), len(cases)))
    broken = [t[1] for t in m.tagged("MEASURE") if t[7] is not True]
    if broken:
        raise vlib.ToolError("design-level failure in Limits.tla: InliningLaw (measures unchanged when spreads are written inline) fails for case %s" % broken[:3])

    stage("V1 measure")
    # ---- runs: every limit at measure-1, measure, measure+1; one all-limits configuration; fast mode ------
    def lim(**kw):
        l = {"depth": -1, "complexity": -1, "recursive": -1, "directives": -1}
        l.update(kw)
        return l
    for case in cases:
        mm = meas[case["id"]]
        flavours = ["static"] + ([] if uses_tag(case["doc"]) else ["dynamic"])
        for fl in flavours:
            val = {"depth": mm["depth"], "complexity": mm["cx_static"] if fl == "static" else mm["cx_dynamic"],
                   "recursive": mm["recursive"], "directives": mm["directives"]}
            for k in KINDS:
                offs = [-1, 0, 1]
                if case["dense"] and k != "directives":
                    # a fragment placed at several depths: also every limit between the measures of the placements
                    offs = list(range(-val[k], 2)) if k != "complexity" else list(range(-min(val[k], 4), 2))
                for off in offs:
                    if val[k] + off >= 0:
                        case["runs"].append({"flavour": fl, "mode": "strict", "limits": lim(**{k: val[k] + off})})
            allv = {k: max(0, val[k] + rng.choice([-1, 0, 0, 0, 1])) for k in KINDS}
            case["runs"].append({"flavour": fl, "mode": "strict", "limits": allv})
            k = rng.choice(KINDS)
            case["runs"].append({"flavour": fl, "mode": "fast", "limits": lim(**{k: max(0, val[k] + rng.choice([-1, 0]))})})
    vlib.write_ndjson(c.path("cases.ndjson"), cases)

    # ---- H: the real library ----------------------------------------------------------------------------
    (binary,) = vlib.build_harness(["c10"])
    p = vlib.run_harness(binary, [SCHEMA, c.path("cases.ndjson"), c.path("trace.ndjson")], timeout=3000)
    if p.returncode != 0:
        raise vlib.ToolError("c10 harness failed: " + (p.stderr[-2000:] or p.stdout[-2000:]))
    obs = vlib.read_ndjson(c.path("trace.ndjson"))
    # what TLC judges: everything but the error texts
    slim = []
    for o in obs:
        s = {"id": o["id"], "doc": o["doc"], "opName": o["opName"], "vars": o["vars"], "runs": []}
        for r in o["runs"]:
            s["runs"].append({"flavour": r["flavour"], "mode": r["mode"], "limits": r["limits"],
                              "obs": {k: r["obs"][k] for k in ("rejected", "ran", "dataNull", "problem")}})
        slim.append(s)
    vlib.write_ndjson(c.path("judge.ndjson"), slim)

    stage("harness")
    # ---- V2: TLC judges every run ------------------------------------------------------------------------
    v = vlib.run_tlc_sliced("gql/LimitsTrace.tla", "gql/LimitsTrace.cfg", c.path("judge.ndjson"), env={"SCHEMA": SCHEMA, "MODE": "judge"},
                            slices=8, timeout=6000, keep_lines=50, xmx="3g")
    c.add_tlc("V2 LimitsTrace (judge)", v)
    verdicts = {t[1]: json.loads(t[2]) for t in v.tagged("VERDICT")}
    if len(verdicts) != len(obs):
        raise vlib.ToolError("V produced %d verdicts for %d cases" % (len(verdicts), len(obs)))
    stage("V2 judge")
    nrun = nrej = nacc_ran = 0
    seen_kind = {k: [0, 0] for k in KINDS}
    for o in obs:
        vs = verdicts[o["id"]]
        if len(vs) != len(o["runs"]):
            raise vlib.ToolError("case %s: %d run verdicts for %d runs" % (o["id"], len(vs), len(o["runs"])))
        for r, rv in zip(o["runs"], vs):
            nrun += 1
            rej = r["obs"]["rejected"]
            nrej += 1 if rej else 0
            nacc_ran += 1 if (not rej and r["obs"]["ran"] > 0) else 0
            for k in KINDS:
                if r["limits"][k] >= 0 and sum(1 for x in KINDS if r["limits"][x] >= 0) == 1:
                    seen_kind[k][1 if rej else 0] += 1
            c.count_case({"t": o["text"], "v": o["vars"], "f": r["flavour"], "m": r["mode"], "l": r["limits"]}, nontrivial=True)
            c.verdict(rv, {"text": o["text"], "vars": o["vars"], "opName": o["opName"], "measures": meas[o["id"]], "run": r, "doc": o["doc"]},
                      "limit enforcement differs from Limits!MustReject (%s, %s)" % (r["flavour"], json.dumps({k: x for k, x in r["limits"].items() if x >= 0})))
    stage("classify")
    # vacuity: every limit kind must have been seen rejecting and accepting, and accepted requests must have executed
    for k in KINDS:
        if min(seen_kind[k]) == 0:
            raise vlib.ToolError("vacuous: limit kind %s was never seen both accepting and rejecting: %s" % (k, seen_kind[k]))
    if nacc_ran == 0 or nrej == 0:
        raise vlib.ToolError("vacuous: rejected=%d accepted-and-executed=%d" % (nrej, nacc_ran))
    c.cov["traces_validated_against_impl"] = nrun
    c.cov["exhaustive"] = exhaustive
    if ndeep == 0 or nrespread == 0:
        raise vlib.ToolError("vacuous: no document spreads one fragment at two different depths (TLC %d, random %d)" % (ndeep, nrespread))
    # vacuity: a renamed argument feeding a rule was supplied by literal and by variable with a value that differs from its default
    ren = {"literal": 0, "variable": 0}
    defaults = {f: fd["args"][0]["default"] for t in ts["types"].values() for f, fd in t["fields"].items() if f in RENAMED_FIELDS}

    def ren_walk(sels, o):
        for s_ in sels:
            if s_["k"] == "field" and s_["name"] in RENAMED_FIELDS and s_["args"]:
                v = s_["args"][0]["val"]
                if v["k"] == "int" and v["n"] != defaults[s_["name"]]:
                    ren["literal"] += 1
                elif v["k"] == "var" and o["vars"] and o["vars"][0]["val"]["n"] != defaults[s_["name"]]:
                    ren["variable"] += 1
            if s_["k"] != "spread":
                ren_walk(s_["sels"], o)
    for o in obs:
        for op in o["doc"]["ops"]:
            ren_walk(op["sels"], o)
        for fr in o["doc"]["frags"]:
            ren_walk(fr["sels"], o)
    if nrenamed == 0 or min(ren.values()) < 20:
        raise vlib.ToolError("vacuous: renamed arguments feeding complexity rules: %d documents, uses %s" % (nrenamed, ren))
    c.cov["renamed_arguments"] = {"documents": nrenamed, "generated": nrenamed_total, "uses_with_non_default_value": ren}
    c.cov["documents"] = len(docs)
    c.cov["fragment_at_several_depths"] = {"tlc_documents": ndeep, "tlc_generated": ndeep_total, "templates": len(templates), "random_documents_respread": nrespread,
                                           "limits": "every value 0..measure+1 for depth and nesting, measure-4..measure+1 for complexity"}
    c.cov["runs"] = {"total": nrun, "rejected": nrej, "accepted_and_executed": nacc_ran, "per_kind_accept_reject": seen_kind}
    c.cov["rule"] = ("G: valid query documents over the limits family: with <=3 nodes and <=%d decoration(s), undecorated with <=%d nodes "
                     "(named fragments spread once or twice, fragments in fragments) and with 4 nodes and <=%d decoration(s) "
                     "(argument feeding a rule: omitted / 0 / 1 / 4 / $c; 1-3 directives on a field; directive on a fragment; alias) -- TLC BFS of Gen_LimitDoc.tla, "
                     "%d documents%s, %d dropped for response-key conflicts; one fragment spread at two different nesting depths (either document order, also from inside "
                     "another fragment): every such document with <=5 nodes over a 6-field slice and <=6 nodes over a 3-field slice (thorough 6 / 7), plus a "
                     "systematic template family (chain depth 4, 2-3 placements, 5 fragment bodies, through a second fragment), each run with every limit between "
                     "the placements' measures; every document with <=%d nodes over the slice s/pages/top/paged/id/n with up to two arguments (a multi-word argument feeding a "
                     "rule on an object with rename_args = snake_case, one renamed on the argument itself, one under the default camelCase rule; literal and $c in "
                     "all five variable forms): %d of %d documents -- plus %d seeded random documents (4-14 nodes, up to 5 directives per field, fragments re-spread at the same and at other depths) and %d "
                     "two-operation documents; crossed with the ways of defining/supplying $c; each run on the static family and (without @tag) its dynamic twin "
                     "with each limit at measure-1, measure, measure+1 (measure from TLC), one all-limits configuration and one fast-validation run; "
                     "distinct by (text, variables, flavour, mode, limits); every run is non-trivial (limit within 1 of the measure)"
                     % (ndec, n, ndec, total, " (all of them)" if exhaustive else " (seeded sample of each set)", dropped, 4, nrenamed, nrenamed_total, nrand, ntwo))
    for o in obs[:1] + [o for o in obs if o["doc"]["frags"]][:2]:
        c.sample({"text": o["text"], "vars": o["vars"], "measures": meas[o["id"]],
                  "runs": [{"flavour": r["flavour"], "limits": {k: x for k, x in r["limits"].items() if x >= 0}, "rejected": r["obs"]["rejected"], "ran": r["obs"]["ran"], "verdict": rv}
                           for r, rv in list(zip(o["runs"], verdicts[o["id"]]))[:6]]})
    c.assumptions += ["the harness document printer is trusted; schemas/limits.json is compared with both live schemas through introspection and with the "
                      "table generated from the #[graphql(complexity = ...)] annotations at harness start-up",
                      "the measures are those of the whole document (all operations), as fixed in DESIGN.md section 5 C10",
                      "the static family (harness/vh/src/bin/c10.rs) stands for 'every derive-built schema'; dynamic schemas cannot declare complexity rules",
                      "refused = the response carries errors, its data is null and no resolver of the family was called"]


vlib.main("C10", "model_checking", body)
