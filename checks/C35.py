#!/usr/bin/env python3
"""C35 -- a request received over HTTP GET never executes a mutation (five bundled integrations).
M: HttpMethod.tla -- handling of one HTTP request (decode, select operation, method gate, execute, respond)
   over the whole request matrix; invariants GetNeverMutates / GetMutationAnswered / agreement with the
   reference operators / termination.  A second run with all named deviations on (today's code) must
   violate GetNeverMutates.
G: TLC enumerates the matrix: integration x entry (ready-made service, single extractor, batch extractor)
   x {GET, POST} x accept {json, multipart/mixed} x requests (every valid document of <= 2 operations over
   {query Q, mutation M, anonymous query, anonymous mutation} x operationName {absent, empty, Q, M, unknown});
   GET: query string {absent, one request} x JSON body sent along {none, one mutation, batch of two};
   POST: JSON object, or JSON-array batch where the entry accepts one.
harness (harness/vh-http, binary c35): sends each cell in process through the integration's own
   service / extractor / filter with a real HTTP request; records status, per-response `errors`, the
   mutation resolver's side-effect counter delta and the query resolver's runs.
V: HttpMethodTrace.tla judges every observation with the reference operators (MayExecute, GetOperation)."""
import os, subprocess, sys, json
sys.path.insert(0, os.path.join(os.path.dirname(os.path.abspath(__file__)), "..", "lib"))
import vlib

INTEGRATIONS = ["axum", "actix-web", "poem", "warp", "rocket"]


def build_c35():
    """The vh-http crate is a workspace member next to vh; vlib.HARNESS honours the mutant-run override."""
    env = dict(os.environ)
    env["CARGO_NET_OFFLINE"] = "true"
    p = subprocess.run(["cargo", "build", "--release", "--offline", "-q"], cwd=os.path.join(vlib.HARNESS, "vh-http"),
                       env=env, stdout=subprocess.PIPE, stderr=subprocess.STDOUT, text=True)
    if p.returncode != 0:
        raise vlib.ToolError("vh-http build failed:\n" + p.stdout[-6000:])
    return os.path.join(vlib.HARNESS, "target", "release", "c35")


def selected(it):
    """operation type selected by (document, operationName) -- only used for counting, TLC judges"""
    if it["opk"] == "absent":
        return it["doc"][0]["type"] if len(it["doc"]) == 1 else "none"
    if it["opk"] == "given":
        for o in it["doc"]:
            if o["name"] == it["op"] and it["op"] != "":
                return o["type"]
    return "none"


def get_asks_mutation(o):
    """the antecedent of the property: a GET request that asks for a mutation -- by the query string (also with an
    operationName that selects nothing, when the document has a mutation) or by a JSON body sent along"""
    if o["method"] != "GET":
        return False
    return any(x["type"] == "mutation" for it in o["qs"] for x in it["doc"]) or len(o["body"]) > 0


def body(c):
    blen = 2 if c.quick else 3
    # ---- modes M and G (three independent TLC runs, 4 workers in total, run side by side) ----------
    gcfg = c.path("Gen_HttpMethod.cfg")
    with open(gcfg, "w") as f:
        f.write("CONSTANT Dev = {}\nCONSTANT BatchLen = %d\nINIT Init\nNEXT GNext\nINVARIANT Emit\n" % blen)
    from concurrent.futures import ThreadPoolExecutor
    with ThreadPoolExecutor(3) as ex:
        fm = ex.submit(vlib.run_tlc, "conc/HttpMethod.tla", "conc/MC_HttpMethod.cfg", workers=2, coverage=True, timeout=900)
        fd = ex.submit(vlib.run_tlc, "conc/HttpMethod.tla", "conc/MC_HttpMethodDev.cfg", workers=1, timeout=900,
                       expect_violation=True)
        fg = ex.submit(vlib.run_tlc, "conc/HttpMethod.tla", gcfg, workers=1, timeout=900, keep_lines=50)
        m, d, g = fm.result(), fd.result(), fg.result()
    if m.invariant_violated:
        raise vlib.ToolError("design-level failure in HttpMethod.tla: " + str(m.invariant_violated))
    for act in ("Decode", "Select", "Reject", "Admit", "Execute", "Respond"):
        if m.coverage.get("HttpMethod!" + act, (0, 0))[0] == 0:
            raise vlib.ToolError("vacuity: action %s never taken in mode M" % act)
    if m.coverage.get("HttpMethod!DevGetMutation", (0, 0))[0] != 0:
        raise vlib.ToolError("the ideal model took a deviation action")
    c.add_tlc("M HttpMethod ideal (BatchLen=2; 6 invariants + termination)", m)
    if d.invariant_violated != "GetNeverMutates":
        raise vlib.ToolError("the model of today's code (all DevGetMutation* on) does not violate GetNeverMutates: %s"
                             % d.invariant_violated)
    c.add_tlc("M HttpMethod with all deviations on (must violate GetNeverMutates)", d)
    c.add_tlc("G request matrix (BatchLen=%d)" % blen, g)
    cells = sorted(set(t[1] for t in g.tagged("REPLAY")))
    if len(cells) != g.distinct:
        raise vlib.ToolError("G printed %d distinct cells for %d initial states" % (len(cells), g.distinct))
    cells = [json.loads(x) for x in cells]
    for i, cell in enumerate(cells):
        cell["id"] = i + 1
    vlib.write_ndjson(c.path("cells.ndjson"), cells)
    # ---- harness --------------------------------------------------------------------------------
    binary = build_c35()
    p = vlib.run_harness(binary, [c.path("cells.ndjson"), c.path("obs.ndjson")], timeout=900)
    if p.returncode != 0:
        raise vlib.ToolError("c35 harness failed (rc=%s): %s" % (p.returncode, p.stderr[-2000:]))
    obs = vlib.read_ndjson(c.path("obs.ndjson"))
    if [o["id"] for o in obs] != [x["id"] for x in cells]:
        raise vlib.ToolError("harness returned %d observations for %d cells" % (len(obs), len(cells)))
    # ---- mode V ---------------------------------------------------------------------------------
    vcfg = c.path("HttpMethodTrace.cfg")
    with open(vcfg, "w") as f:
        f.write("CONSTANT Dev = {}\nCONSTANT BatchLen = %d\nINIT TInit\nNEXT TNext\n" % blen)
    if len(obs) > 2000:
        v = vlib.run_tlc_sliced("conc/HttpMethodTrace.tla", vcfg, c.path("obs.ndjson"), slices=4, timeout=1500, keep_lines=50)
    else:
        v = vlib.run_tlc("conc/HttpMethodTrace.tla", vcfg, env={"TRACE": c.path("obs.ndjson")}, workers=1, timeout=900,
                         keep_lines=50)
    c.add_tlc("V verdicts", v)
    verdicts = {t[1]: t[2] for t in v.tagged("VERDICT")}
    if len(verdicts) != len(obs):
        raise vlib.ToolError("V produced %d verdicts for %d observations" % (len(verdicts), len(obs)))
    drift = set(t[1] for t in v.tagged("DRIFT"))
    controls = [(o, verdicts[o["id"]]) for o in obs if str(verdicts[o["id"]]).startswith("control:")]
    if controls:
        o, vd = controls[0]
        raise vlib.ToolError("%d control cells failed (the harness cannot observe through this route, the run would be "
                             "vacuous); first: %s %s %s %s %s -> status %s errs %s effects %s reads %s response %r"
                             % (len(controls), vd, o["integ"], o["entry"], o["method"], o["url"][:80], o["payload"][:80],
                                o["status"], o["errs"], o["effects"], o["reads"], o["response"][:120]))
    judged = {i: 0 for i in INTEGRATIONS}      # GET cells whose query string selects a mutation
    hostile = {i: 0 for i in INTEGRATIONS}     # GET cells with a body / an operationName that selects nothing
    for o in obs:
        get_mut = o["method"] == "GET" and len(o["qs"]) == 1 and selected(o["qs"][0]) == "mutation"
        asks = get_asks_mutation(o)
        key = {k: o[k] for k in ("integ", "entry", "method", "accept", "qs", "body")}
        c.count_case(key, nontrivial=asks)
        if get_mut:
            judged[o["integ"]] += 1
        elif asks:
            hostile[o["integ"]] += 1
        vd = verdicts[o["id"]]
        c.verdict(vd, o, "%s %s over %s (%s%s): %s" % (o["integ"], o["entry"], o["method"], o["url"][:60],
                                                      " + JSON body" if o["method"] == "GET" and o["payload"] else "", vd))
    for i in INTEGRATIONS:
        if judged[i] == 0 or hostile[i] == 0:
            raise vlib.ToolError("vacuity: no GET + mutation cell was driven through " + i)
    for i in sorted(drift)[:3]:
        o = obs[i - 1]
        c.drift("cell %d (%s %s %s): observed status %s errs %s effects %s differs from the model of today's code "
                "(DevGetMutation*) -- if the gate was added, move the finding to 'fixed'"
                % (i, o["integ"], o["entry"], o["method"], o["status"], o["errs"], o["effects"]))
    c.cov["model_drift"] = len(drift)
    c.cov["traces_validated_against_impl"] = len(obs)
    c.cov["exhaustive"] = True
    c.cov["get_mutation_cells_per_integration"] = judged
    c.cov["get_body_or_unselected_cells_per_integration"] = hostile
    c.cov["rule"] = ("G: every cell of the finite matrix of HttpMethod.tla (TLC enumerates the initial states): integration x "
                     "entry (ready-made service / single extractor / batch extractor, as each integration offers) x {GET, POST} "
                     "x accept {json; multipart/mixed on the services} x requests = every valid document of <= 2 operations over "
                     "{query Q, mutation M, anonymous query, anonymous mutation} x operationName {absent, present but empty, Q, M, "
                     "unknown X} (30 requests, 10 of them select an operation). GET: query string {none, one request as "
                     "query/operationName/variables} x JSON body sent along {none, one mutation, array of two mutations}; POST: "
                     "one request as JSON object, or a JSON array of %d selecting requests where the entry accepts a batch. "
                     "non-trivial = a GET that asks for a mutation (mutation in the query-string document, or a body sent "
                     "along); distinct by the cell" % blen)
    gm = [o for o in obs if o["method"] == "GET" and len(o["qs"]) == 1 and selected(o["qs"][0]) == "mutation"]
    gb = [o for o in obs if o["method"] == "GET" and not o["qs"] and len(o["body"]) == 2]
    ge = [o for o in obs if o["method"] == "GET" and o["qs"] and o["qs"][0]["opk"] == "empty" and not o["body"]
          and o["qs"][0]["doc"] == [{"type": "mutation", "name": "M"}]]
    for o in gm[:1] + gb[:1] + ge[:1]:
        c.sample({k: o[k] for k in ("integ", "entry", "method", "accept", "url", "payload", "status", "errs", "effects",
                                     "reads", "response")} | {"verdict": verdicts[o["id"]]})
    c.assumptions += [
        "all five integrations were driven in process: axum via tower::ServiceExt::oneshot on a Router, actix-web via "
        "actix_web::test::{init_service, try_call_service}, warp via warp::test::request().reply(), rocket via "
        "rocket::local::asynchronous::Client, poem via Endpoint::get_response on a Route with a hand-built poem::Request "
        "(poem's `test` feature needs sse-codec, which is not in the offline lock file)",
        "'single' and 'batch' entries are user handlers written as the integrations' documentation shows (extract, then "
        "Executor::execute / execute_batch); rocket's GET route uses GraphQLQuery (its only GET decoder)",
        "POST cells and GET cells whose document has no mutation are controls of the observation channel (counter, route): a "
        "failing control is a tool error, not a verdict -- the property says nothing about them",
        "'answered with an error' = HTTP status >= 400 or a GraphQL response with a non-empty `errors`",
        "an operationName that is present (the empty string included) selects the operation of that name or nothing "
        "(GraphQL 6.1 GetOperation; an anonymous operation has no name); for GET cells where nothing is selected, where there "
        "is no query string, or where a JSON body is sent along, only 'no mutation effect' is demanded (what the answer looks "
        "like is reported as drift against the model of today's code, not judged)",
        "a tokio current-thread runtime / actix System carries the frameworks' plumbing; no schedule is checked",
        "WebSocket and multipart/form-data uploads are not HTTP GET request paths and are out of scope",
    ]


vlib.main("C35", "model_checking", body)
