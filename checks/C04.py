#!/usr/bin/env python3
"""C04 -- merged fields resolve once; mutation root fields run one at a time in order.
G: Gen_Doc.tla enumerates every mutation (<= N nodes) and every query with a repeated response key (directly,
   through an alias, through fragments); M/G: ExecSched.tla gives every completion order of their gated resolvers.
harness: cexec executes each (document, schedule) and logs resolver start/finish events with sequence numbers.
V: SchedTrace.tla -- monitors MergedOnce and MutationSerial over the event log."""
import json, os, random, sys
sys.path.insert(0, os.path.join(os.path.dirname(os.path.abspath(__file__)), "..", "lib"))
import vlib, gqlgen, execcheck, schedcheck


def has_repeated_key(doc):
    s = json.dumps(doc)
    def walk(sels):
        keys = [x["alias"] or x["name"] for x in sels if x["k"] == "field"]
        if len(keys) != len(set(keys)):
            return True
        return any(walk(x.get("sels", [])) for x in sels if x["k"] != "spread")
    # fragments are followed conservatively: a key occurring in the operation and in a fragment counts
    all_keys = []
    def collect(sels):
        for x in sels:
            if x["k"] == "field":
                all_keys.append(x["alias"] or x["name"])
            if x["k"] != "spread":
                collect(x.get("sels", []))
    for op in doc["ops"]:
        collect(op["sels"])
    for f in doc["frags"]:
        collect(f["sels"])
    return len(all_keys) != len(set(all_keys))


def body(c):
    ts = json.load(open(execcheck.SCHEMA))
    rng = random.Random(c.seed)
    mflats = execcheck.gen_docs(c, "Mutation", 3 if c.quick else 4, ["skip:$s"], "m")
    qflats = execcheck.gen_docs(c, "Query", 3 if c.quick else 4, ["skip:$s"], "q")
    mdocs = [gqlgen.tree_from_flat(json.loads(f), "mutation") for f in mflats]
    qdocs = [d for d in (gqlgen.tree_from_flat(json.loads(f), "query") for f in qflats) if has_repeated_key(d)]
    capm, capq = (250, 150) if c.quick else (4000, 3000)
    exhaustive = len(mdocs) <= capm and len(qdocs) <= capq
    if len(mdocs) > capm:
        mdocs = rng.sample(mdocs, capm)
    if len(qdocs) > capq:
        qdocs = rng.sample(qdocs, capq)
    base = []
    for i, doc in enumerate(mdocs + qdocs):
        d, supplied = execcheck.with_vars(doc, rng.choice(gqlgen.var_forms(doc)))
        for flavour in ("static", "dynamic"):
            wg = gqlgen.WorldGen(ts, random.Random(c.seed * 13 + i), p_null=0.05)
            wg.dyn_lists = flavour == "dynamic"
            base.append({"id": 0, "flavour": flavour, "doc": d, "opIndex": 1, "vars": supplied, "world": wg.world(), "schedule": []})
    dry = schedcheck.dry_run(c, base, "c04")
    trees, gated = [], {}
    for case, d in zip(base, dry):
        tt = schedcheck.task_tree(case, d, rng, 4 if c.quick else 5)
        if tt is None:
            continue
        world, tree = tt
        tree["id"] = case["id"]
        trees.append(tree)
        gated[case["id"]] = world
    sched = schedcheck.schedules(c, trees, "c04")
    cases = []
    for case in base:
        if case["id"] not in gated:
            x = dict(case)
            x["group"] = case["id"]
            cases.append(x)
            continue
        ss = sched.get(case["id"], [[]])
        if len(ss) > (6 if c.quick else 120):
            ss = rng.sample(ss, 6 if c.quick else 120)
            exhaustive = False
        for s in ss:
            x = dict(case)
            x["world"] = gated[case["id"]]
            x["schedule"] = s
            x["group"] = case["id"]
            cases.append(x)
    for i, x in enumerate(cases):
        x["id"] = i + 1
        x.setdefault("ext", i % 3 == 2)      # pass-through extension registered (extension-aware executor paths)
        x.setdefault("stream", i % 4 == 1)   # executed through Schema::execute_stream (first item) instead of execute
    vlib.write_ndjson(c.path("cases.ndjson"), cases)
    (binary,) = vlib.build_harness(["cexec"])
    p = vlib.run_harness(binary, [c.path("cases.ndjson"), c.path("trace.ndjson"), execcheck.SCHEMA], timeout=3000)
    if p.returncode != 0:
        raise vlib.ToolError("cexec failed: " + p.stderr[-2000:])
    v = vlib.run_tlc("conc/SchedTrace.tla", "conc/SchedTrace.cfg", env={"TRACE": c.path("trace.ndjson"), "SCHEMA": execcheck.SCHEMA},
                     workers=8, timeout=6000, keep_lines=50, xmx="12g")
    verdicts = {t[1]: t[2] for t in v.tagged("VERDICT")}
    obs = vlib.read_ndjson(c.path("trace.ndjson"))
    if len(verdicts) != len(obs):
        raise vlib.ToolError("V produced %d verdicts for %d cases" % (len(verdicts), len(obs)))
    nmut = 0
    for o in obs:
        is_mut = o["doc"]["ops"][0]["ty"] == "mutation"
        nmut += is_mut
        c.count_case({"t": o["text"], "f": o["flavour"], "s": o["schedule"], "w": vlib.chash(o["world"])},
                     nontrivial=is_mut or has_repeated_key(o["doc"]))
        slim = {"flavour": o["flavour"], "text": o["text"], "schedule": o["schedule"],
                "log": [{k: e[k] for k in e if k != "view"} for e in o["obs"]["log"]], "problem": o["obs"]["problem"]}
        c.verdict(verdicts[o["id"]], slim, "event log violates MergedOnce / MutationSerial: " + str(verdicts[o["id"]]))
    c.cov["traces_validated_against_impl"] = len(obs)
    c.cov["mutation_traces"] = nmut
    c.cov["exhaustive"] = exhaustive
    c.cov["rule"] = ("every TLC-generated mutation and every TLC-generated query with a repeated response key (<=%d nodes%s), both schema "
                     "flavours, up to %d gated resolvers each, completion orders from ExecSched.tla (all linear extensions, sampled per case in "
                     "quick); non-trivial = mutation or repeated key; distinct by (flavour, text, world, schedule)"
                     % (3 if c.quick else 4, "" if exhaustive else ", seeded sample", 4 if c.quick else 5))
    for o in obs[:1] + [x for x in obs if x["schedule"]][:1]:
        c.sample({"flavour": o["flavour"], "text": o["text"], "schedule": o["schedule"],
                  "log": [[e["seq"], e["ev"], e.get("path", e.get("gate"))] for e in o["obs"]["log"]][:12], "verdict": verdicts[o["id"]]})
    c.assumptions += ["resolver invocations are observed through the harness's own resolvers (start/finish events under one lock)",
                      "__typename and introspection fields have no resolver and are not counted"]


vlib.main("C04", "model_checking", body)
