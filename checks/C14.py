#!/usr/bin/env python3
"""C14 -- reported source positions are exact line and column numbers.
M: Position.tla automaton vs. declarative line/column definition (all texts <= MaxLen).
G: TLC enumerates every legal ignored-token prefix (<= N code-point classes).
harness: renders each prefix before tokens of every kind / inside block strings / before syntax,
         validation and resolver errors; logs every position the real library reports.
V: PositionTrace.tla decides each case with the automaton."""
import os, sys
sys.path.insert(0, os.path.join(os.path.dirname(os.path.abspath(__file__)), "..", "lib"))
import vlib


def body(c):
    n = 3 if c.quick else 4
    # mode M
    m = vlib.run_tlc("lex/Position.tla", "lex/MC_Position.cfg", workers=8, coverage=True, timeout=600)
    if m.invariant_violated:
        raise vlib.ToolError("design-level failure in Position.tla: " + str(m.invariant_violated))
    c.add_tlc("M Position (MaxLen=5)", m)
    # mode G
    cfg = c.path("Gen_Position.cfg")
    with open(cfg, "w") as f:
        f.write("CONSTANT MaxLen = %d\nINIT Init\nNEXT Next\nINVARIANT Emit\n" % n)
    g = vlib.run_tlc("lex/Position.tla", cfg, workers=8, timeout=900, keep_lines=100)
    c.add_tlc("G prefixes (MaxLen=%d)" % n, g)
    prefixes = [t[1] for t in g.tagged("REPLAY")]
    rows = []
    for p in prefixes:
        p = p.strip()
        rows.append([] if p == "<<>>" else vlib.parse_tuple_line(p))
    rows.sort(key=lambda r: (len(r), r))
    # thorough: every prefix; quick: all of them too (N=3 is small)
    vlib.write_ndjson(c.path("prefixes.ndjson"), rows)
    (binary,) = vlib.build_harness(["c14"])
    stride = 7 if c.quick else 5
    p = vlib.run_harness(binary, [c.path("prefixes.ndjson"), c.path("trace.ndjson"), stride], timeout=1200)
    if p.returncode != 0:
        raise vlib.ToolError("c14 harness failed: " + p.stderr[-2000:])
    cases = vlib.read_ndjson(c.path("trace.ndjson"))
    by_id = {x["id"]: x for x in cases}
    v = vlib.run_tlc_sliced("lex/PositionTrace.tla", "lex/PositionTrace1.cfg", c.path("trace.ndjson"), slices=8, timeout=3000, keep_lines=100, xmx="3g")
    c.add_tlc("V PositionTrace", v)
    verdicts = {t[1]: t[2] for t in v.tagged("VERDICT")}
    if len(verdicts) != len(cases):
        raise vlib.ToolError("V produced %d verdicts for %d cases" % (len(verdicts), len(cases)))
    for cid, case in by_id.items():
        nontrivial = any(k in ("CR", "LF") for k in case["text"])
        c.count_case({"text": case["text"], "kind": case["kind"], "obs": [o["k"] for o in case["obs"]]}, nontrivial)
        c.verdict(verdicts[cid], case, "position mismatch (%s)" % case["kind"])
    c.cov["traces_validated_against_impl"] = len(cases)
    c.cov["exhaustive"] = True
    c.cov["rule"] = ("G: every sequence of <=%d code-point classes over {CR,LF,TAB,SP,COMMA,BOM,#,ascii,2/3/4-byte,quote} that is a "
                     "legal run of ignored tokens (TLC BFS, %d prefixes); each rendered before tokens of every kind (rotating "
                     "insertion points), inside a block string, before a syntax error, a validation error and two failing "
                     "resolvers; non-trivial = the text contains a line terminator; distinct by (text classes, kind, token indices)"
                     % (n, len(prefixes)))
    for x in cases[:1] + [x for x in cases if "CR" in x["text"]][:2]:
        c.sample({"kind": x["kind"], "src": x["src"], "obs": x["obs"][:4], "verdict": verdicts[x["id"]]})
    c.assumptions += ["harness token offsets are computed by the harness's own renderer (trusted)",
                      "positions are judged for the first token of each syntax-tree node; Positioned<Name> of variables is not judged"]


vlib.main("C14", "model_checking", body)
