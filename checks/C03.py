#!/usr/bin/env python3
"""C03 -- a field error nulls only the nearest nullable position and is reported once.
Reference: Execution.tla with fault outcomes in the world (resolver error, guard rejection, invalid value for
the type, nothing for a non-null type): data, required error sets and optional errors (errors inside a
region discarded by another fault's propagation).
Enumerated: for TLC-generated documents (Gen_Doc.tla) and seeded random documents, EVERY single fault
position of the resolved tree and sampled pairs, static and dynamic flavour, queries and mutations.
V: ExecTrace.tla MODE=errors: data equal, every reported error explained, each required set hit, no duplicates."""
import json, os, random, sys
sys.path.insert(0, os.path.join(os.path.dirname(os.path.abspath(__file__)), "..", "lib"))
import vlib, gqlgen, execcheck


def invalid_value(ts, world, pos):
    """a leaf value of the wrong kind for the field's declared type (dynamic schemas), or None"""
    oid, f = pos
    ty = ts["types"][world[oid]["type"]]["fields"][f]["ty"]
    if ty["k"] == "nn":
        ty = ty["of"]
    if ty["k"] != "named":
        return None
    n = ty["n"]
    if gqlgen.kind(ts, n) == "ENUM":
        return {"k": "enum", "v": "PURPLE"}
    if n in ("Int", "Float", "Boolean"):
        return {"k": "str", "v": "wrong"}
    if n == "String":
        return {"k": "int", "v": "5"}
    return None


def inject(world, pos, kind, item=None, value=None):
    w = json.loads(json.dumps(world))
    oid, f = pos
    if value is not None:
        w[oid]["vals"][f] = value
        return w
    cur = w[oid]["vals"][f]
    if item is not None and cur.get("k") == "list" and cur["items"]:
        cur["items"][item % len(cur["items"])] = {"k": kind}
    else:
        w[oid]["vals"][f] = {"k": kind}
    return w


def fault_kinds(ts, world, pos, flavour):
    oid, f = pos
    d = ts["types"][world[oid]["type"]]["fields"][f]
    kinds = ["err"]
    if flavour == "dynamic":
        kinds.append("nothing")
    return kinds


def fed_cases(ts, c, rng):
    """Dynamic federation: `_entities(representations:)` is a root field of type [_Entity]! whose items are nullable --
    a failing non-null field of one entity nulls that item only.  The type system handed to TLC (and to the harness,
    which enables federation and installs an entity resolver) is the exec family plus _Entity / Query._entities."""
    fts = json.loads(json.dumps(ts))
    fts["federation"] = True
    for t in ("A", "B"):
        fts["types"][t]["key"] = "id"
    fts["types"]["_Entity"] = {"kind": "UNION", "fields": {}, "implements": [], "members": ["A", "B"], "values": []}
    fts["types"]["Query"]["fields"]["_entities"] = {"ty": {"k": "nn", "of": {"k": "list", "of": {"k": "named", "n": "_Entity"}}}, "outer": False, "guard": False, "gen": False}
    def f(d, name, alias="", args=None): return {"d": d, "k": "field", "name": name, "alias": alias, "on": "", "dir": "", "args": args or []}
    def on(d, t): return {"d": d, "k": "inline", "name": "", "alias": "", "on": t, "dir": ""}
    def reps(ids, objs): return [{"name": "representations", "val": {"k": "list", "items": [
        {"k": "obj", "entries": [{"key": "__typename", "val": {"k": "str", "v": objs[i]}}, {"key": "id", "val": {"k": "str", "v": i}}]} for i in ids]}}]
    out = []
    shapes = [(["a1", "b1", "a2"], lambda a: [f(1, "_entities", args=a), on(2, "A"), f(3, "id"), f(3, "nn"), f(3, "n"), on(2, "B"), f(3, "id"), f(3, "b"), f(1, "n")]),
              (["a2", "a1"], lambda a: [f(1, "_entities", "e", args=a), on(2, "A"), f(3, "selfNN"), f(4, "nn"), f(3, "fnn"), on(2, "Node"), f(3, "label"), f(1, "nn")]),
              (["b1", "a1", "b1"], lambda a: [f(1, "_entities", args=a), on(2, "Entity"), f(3, "peer"), f(4, "id"), on(2, "A"), f(3, "kidsNN"), f(4, "id"), f(2, "__typename")])]
    for si, (ids, mk) in enumerate(shapes):
        for k in range(2 if c.quick else 12):
            wg = gqlgen.WorldGen(fts, random.Random(c.seed * 77 + si * 13 + k), p_null=0.1)
            wg.dyn_lists = True
            base = wg.world()
            d = gqlgen.tree_from_flat(mk(reps(ids, wg.objects)), "query")
            base["root"]["vals"]["_entities"] = {"k": "list", "items": [{"k": "ref", "id": i, "ty": wg.objects[i]} for i in ids]}
            positions = [p for p in gqlgen.resolved_positions(fts, d, base) if p[1] != "id" and not p[1].startswith("_")]
            out.append({"id": 0, "flavour": "dynamic", "ts": fts, "doc": d, "opIndex": 1, "vars": [], "world": base, "schedule": [], "faults": []})
            for pos in positions:
                out.append({"id": 0, "flavour": "dynamic", "ts": fts, "doc": d, "opIndex": 1, "vars": [], "world": inject(base, pos, "err"), "schedule": [],
                            "faults": [list(pos) + ["err"]]})
            pairs = [(a, b) for i, a in enumerate(positions) for b in positions[i + 1:]]
            for a, b in (rng.sample(pairs, min(len(pairs), 2 if c.quick else 10))):
                out.append({"id": 0, "flavour": "dynamic", "ts": fts, "doc": d, "opIndex": 1, "vars": [], "world": inject(inject(base, a, "err"), b, "err"),
                            "schedule": [], "faults": [list(a) + ["err"], list(b) + ["err"]]})
    return out


def body(c):
    ts = json.load(open(execcheck.SCHEMA))
    rng = random.Random(c.seed)
    n = 3 if c.quick else 4
    flats = execcheck.gen_docs(c, "Query", n, ["skip:$s"], "q", max_alias=1)
    mflats = execcheck.gen_docs(c, "Mutation", 3, ["skip:$s"], "m")
    cap = 700 if c.quick else 8000
    exhaustive = len(flats) <= cap
    if not exhaustive:
        flats = rng.sample(flats, cap)
    docs = [gqlgen.tree_from_flat(json.loads(fs), "query") for fs in flats] + \
           [gqlgen.tree_from_flat(json.loads(fs), "mutation") for fs in rng.sample(mflats, min(len(mflats), 150 if c.quick else 2000))]
    # hand-picked documents reaching a non-null position below every list / nullability wrapping, several worlds each
    docs += gqlgen.wrapping_docs() * (3 if c.quick else 10)
    dg = gqlgen.DocGen(ts, random.Random(c.seed + 5), max_depth=4, max_items=3, p_dir=0.05)
    nrand = 250 if c.quick else 4000
    while nrand > 0:
        mut = rng.random() < 0.1
        d = dg.doc("Mutation" if mut else "Query", "mutation" if mut else "query", budget=9)
        if not gqlgen.conflicting_keys(ts, d):
            docs.append(d)
            nrand -= 1
    cases = []
    nsingle = npair = 0
    for di, doc in enumerate(docs):
        form = rng.choice(gqlgen.var_forms(doc))
        d, supplied = execcheck.with_vars(doc, form)
        for flavour in ("static", "dynamic"):
            wg = gqlgen.WorldGen(ts, random.Random(c.seed * 31 + di), p_null=0.1)
            wg.dyn_lists = flavour == "dynamic"
            base = wg.world()
            positions = [p for p in gqlgen.resolved_positions(ts, d, base) if p[1] != "id"]
            if not positions:
                continue
            # every single fault position
            for pos in positions:
                if flavour == "dynamic":
                    iv = invalid_value(ts, base, pos)
                    if iv is not None and base[pos[0]]["vals"][pos[1]].get("k") != "null":
                        cases.append({"id": 0, "flavour": flavour, "doc": d, "opIndex": 1, "vars": supplied, "world": inject(base, pos, "", value=iv),
                                      "schedule": [], "faults": [list(pos) + ["invalid"]]})
                        nsingle += 1
                for kind in fault_kinds(ts, base, pos, flavour):
                    if kind == "nothing" and rng.random() < 0.5:
                        continue
                    w = inject(base, pos, kind)
                    cases.append({"id": 0, "flavour": flavour, "doc": d, "opIndex": 1, "vars": supplied, "world": w, "schedule": [], "faults": [list(pos) + [kind]]})
                    nsingle += 1
                    cur = base[pos[0]]["vals"][pos[1]]
                    if flavour == "static" and cur.get("k") == "list" and cur["items"]:
                        w2 = inject(base, pos, "err", item=rng.randrange(len(cur["items"])))
                        cases.append({"id": 0, "flavour": flavour, "doc": d, "opIndex": 1, "vars": supplied, "world": w2, "schedule": [], "faults": [list(pos) + ["item-err"]]})
                        nsingle += 1
            # pairs of fault positions (all pairs in thorough, sampled in quick)
            pairs = [(a, b) for i, a in enumerate(positions) for b in positions[i + 1:]]
            if c.quick and len(pairs) > 2:
                pairs = rng.sample(pairs, 2)
            elif len(pairs) > 12:
                pairs = rng.sample(pairs, 12)
            for a, b in pairs:
                w = inject(inject(base, a, "err"), b, "err")
                cases.append({"id": 0, "flavour": flavour, "doc": d, "opIndex": 1, "vars": supplied, "world": w, "schedule": [], "faults": [list(a) + ["err"], list(b) + ["err"]]})
                npair += 1
            # guard rejection (static family, request-wide switch)
            if flavour == "static" and any(p[1] == "guarded" for p in positions):
                w = json.loads(json.dumps(base))
                w["_guardRejects"] = True
                for oid in w:
                    if oid != "_guardRejects" and "guarded" in w[oid]["vals"]:
                        w[oid]["vals"]["guarded"] = {"k": "guard"}
                cases.append({"id": 0, "flavour": flavour, "doc": d, "opIndex": 1, "vars": supplied, "world": w, "schedule": [], "faults": [["*", "guarded", "guard"]]})
    case_cap = 7000 if c.quick else 150000
    if len(cases) > case_cap:
        cases = rng.sample(cases, case_cap)
        exhaustive = False
    fed = fed_cases(ts, c, rng)
    cases += fed
    obs, verdicts = execcheck.run_cases(c, cases, "errors")
    for o in obs:
        c.count_case({"t": o["text"], "v": o["vars"], "f": o["flavour"], "w": vlib.chash(o["world"])}, nontrivial=len(o["obs"]["errors"]) > 0 or verdicts[o["id"]] != "ok")
        slim = {"flavour": o["flavour"], "text": o["text"], "vars": o["vars"], "faults": o["faults"], "world": o["world"],
                "obs": {"data": o["obs"]["data"], "errors": o["obs"]["errors"], "problem": o["obs"]["problem"]}}
        c.verdict(verdicts[o["id"]], slim, "data/errors not explained by the reference")
    c.cov["traces_validated_against_impl"] = len(obs)
    c.cov["exhaustive"] = exhaustive
    c.cov["single_fault_cases"] = nsingle
    c.cov["fault_pair_cases"] = npair
    c.cov["rule"] = ("for every TLC-generated query (<=%d nodes) / mutation (<=3 nodes) and seeded random document, for both schema flavours: every "
                     "single fault position of the resolved tree (resolver error; dynamic also 'nothing' and a leaf value invalid for its type; static also a failing list item and a "
                     "rejecting guard) and sampled pairs of positions; non-trivial = at least one error was reported; distinct by (flavour, text, "
                     "variables, world)" % n)
    for o in [x for x in obs if x["obs"]["errors"]][:2]:
        c.sample({"flavour": o["flavour"], "text": o["text"], "faults": o["faults"], "data": o["obs"]["data"],
                  "errors": [{"path": e["path"], "locs": e["locs"]} for e in o["obs"]["errors"]], "verdict": verdicts[o["id"]]})
    c.assumptions += ["error messages, error order and error extensions are not compared",
                      "errors inside a region discarded by another fault's propagation are optional",
                      "subscription events are covered by C27, not here"]


vlib.main("C03", "fault_enumeration", body)
