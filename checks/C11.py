#!/usr/bin/env python3
"""C11 -- request checking work is polynomial in the document size.
M : MC_LimitsWork.tla evaluates the walkers' work functions (Limits.tla Visits_*) on the adversarial families
    (fan-out chains, wide overlapping selections, deep inline nesting, many operations) for n = 1..14:
    the memoised ideal stays below PolyBound = K*Size^2, the code as written (DevNoMemo) does not -- the
    design-level counterexample is recorded in the evidence; the cost-table evaluation used by V equals the
    direct recursion.
G : the same module prints the family documents; the driver adds seeded random documents (gqlgen.DocGen over
    the static family, fragments spread twice) and seeded random fragment DAGs.
H : harness c11 executes every document on the static family with limits configured and reads the
    cfg-guarded work counters (async_graphql::verif_hooks, the only hook of the project) after each request.
V : WorkTrace.tla: counter <= PolyBound(doc) (verdict; above the bound only known:DevNoMemo on documents in
    its trigger class and never above the as-coded work) and counter = Visits_asCoded(doc) (drift only).
Fibonacci DAGs of fragments (f_i spreads f_i+1 and f_i+2), spread from the operation and unreferenced, aim at the rules' own
    searches over the spread graph (NoFragmentCycles ...), which no counter of the hook sees: M shows that the guarded search is
    linear and the unguarded one is not (expected counterexample); V bounds the request's thread CPU time (smallest of up to
    three runs) by SlackUs + UsPerUnit * max(PolyBound, as-coded work) -- orders of magnitude above the unchanged tree.
The hook is not in /repo until the lead commits checks/C11.hook.diff: without it this check exits 2."""
import json, os, random, re, shutil, sys
sys.path.insert(0, os.path.join(os.path.dirname(os.path.abspath(__file__)), "..", "lib"))
import vlib, gqlgen

SCHEMA = os.path.join(vlib.ROOT, "schemas", "exec.json")
HOOK = os.path.join(vlib.ROOT, "checks", "C11.hook.diff")
COUNTERS = ["visit_selection", "visit_field", "recursive_depth", "max_directives", "find_conflicts", "cycle_detect"]   # the sixth only if the hook has it


def repo_path():
    toml = open(os.path.join(vlib.HARNESS, "vh", "Cargo.toml")).read()
    m = re.search(r'async-graphql\s*=\s*\{\s*path\s*=\s*"([^"]+)"', toml)
    return m.group(1) if m else "/repo"


def fld(name, alias="", sels=()):
    return {"k": "field", "name": name, "alias": alias, "args": [], "dirs": [], "sels": list(sels)}


def rand_dag(rng, nfrag, free=False):
    """seeded fragment DAG on Query: f_i spreads one or two later fragments (sometimes the same one twice) and
    selects a few fields; the operation spreads f1 (and sometimes f2).  Valid: no cycles, no unused fragment.
    free: no operation spreads the fragments (the request is refused by NoUnusedFragments after the full checking work)."""
    frags = []
    used = {1}
    for i in range(1, nfrag + 1):
        sels = [fld("n", "x%d" % i)] if rng.random() < 0.5 or i == nfrag else []
        if i < nfrag:
            k = rng.choice([1, 2, 2, 2, 3])
            for _ in range(k):
                j = i + 1 if rng.random() < 0.7 else rng.randint(i + 1, nfrag)
                used.add(j)
                sels.append({"k": "spread", "name": "f%d" % j, "dirs": []})
        if rng.random() < 0.3:
            sels.append({"k": "inline", "on": "", "dirs": [], "sels": [fld("n", "y%d" % i)]})
        frags.append({"name": "f%d" % i, "on": "Query", "dirs": [], "sels": sels})
    root = [{"k": "spread", "name": "f1", "dirs": []}]
    for i in range(2, nfrag + 1):
        if i not in used:
            root.append({"k": "spread", "name": "f%d" % i, "dirs": []})
    if free:
        root = [fld("n")]
    return {"ops": [{"name": "", "ty": "query", "vars": [], "dirs": [], "sels": root}], "frags": frags}


def body(c):
    os.makedirs(c.work, exist_ok=True)
    shutil.copyfile(HOOK, c.path("hook.diff"))
    repo = repo_path()
    try:
        has_hook = "pub mod verif_hooks" in open(os.path.join(repo, "src", "lib.rs")).read()
    except OSError as e:
        raise vlib.ToolError("cannot read %s/src/lib.rs: %s" % (repo, e))
    if not has_hook:
        raise vlib.ToolError("hook missing: %s has no `verif_hooks` work counters; apply %s (add-only, guarded by "
                             "#[cfg(async_graphql_verif)]) to /repo, or run tools/mutant_run.sh C11 work/C11/hook.diff" % (repo, HOOK))

    # ---- M: the design -----------------------------------------------------------------------------------
    m = vlib.run_tlc("gql/MC_LimitsWork.tla", "gql/MC_LimitsWork.cfg", workers=1, timeout=900, keep_lines=200)
    if m.invariant_violated:
        raise vlib.ToolError("design-level failure in Limits.tla (memoised ideal / cost table): " + str(m.invariant_violated))
    c.add_tlc("M ideal work <= PolyBound, table evaluation = direct recursion with and without limits (n<=14)", m)
    table = [dict(zip(["family", "n", "size", "bound", "ideal_max", "as_coded_max"], t[1:7])) for t in m.tagged("WORK")]
    if len(table) < 4 * 14:
        raise vlib.ToolError("mode M printed %d WORK rows" % len(table))
    rf = vlib.run_tlc("gql/MC_LimitsWork.tla", "gql/MC_LimitsWorkRefused.cfg", workers=1, timeout=900, keep_lines=200)
    if rf.invariant_violated:
        raise vlib.ToolError("design-level failure in Limits.tla: a fan-out chain deeper than limit_recursive_depth is not refused cheaply by the "
                             "as-coded walkers (RefusedCheap): " + str(rf.invariant_violated))
    c.add_tlc("M refused requests are cheap: as-coded work of chains deeper than limits 8/12/16/default <= PolyBound, outside DevNoMemo's trigger; NoFragmentCycles search "
              "<= Size on all families incl. Fibonacci DAGs (n<=40)", rf)
    d = vlib.run_tlc("gql/MC_LimitsWork.tla", "gql/MC_LimitsWorkDevNoMemo.cfg", workers=1, timeout=900, keep_lines=200, expect_violation=True)
    cex = d.tagged("COUNTEREXAMPLE")
    if d.invariant_violated != "CodedPoly" or not cex:
        raise vlib.ToolError("mode M: the as-coded work functions were expected to exceed PolyBound on the fan-out chain (DevNoMemo), got %s" % d.invariant_violated)
    c.add_tlc("M as-coded work (DevNoMemo) vs PolyBound: counterexample expected", d)
    c.cov["design_counterexample"] = {"family": cex[0][1], "n": cex[0][2], "size": cex[0][3], "poly_bound": cex[0][4], "as_coded_work": cex[0][5],
                                      "note": "Limits!Visits_asCoded exceeds K*Size^2 (K=4): a fragment is re-visited once per spread"}
    c.cov["design_table"] = [r for r in table if r["n"] in (4, 8, 12, 14)]
    ng = vlib.run_tlc("gql/MC_LimitsWork.tla", "gql/MC_LimitsWorkCycleNoGuard.cfg", workers=1, timeout=900, keep_lines=200, expect_violation=True)
    cex = ng.tagged("COUNTEREXAMPLE")
    if ng.invariant_violated != "NoGuardPoly" or not cex:
        raise vlib.ToolError("mode M: the cycle search without its `visited` guard was expected to exceed PolyBound on the Fibonacci DAGs, got %s" % ng.invariant_violated)
    c.add_tlc("M NoFragmentCycles search without the visited guard vs PolyBound on the Fibonacci DAGs: counterexample expected", ng)
    c.cov["design_counterexample_cycle_search"] = {"family": cex[0][1], "n": cex[0][2], "size": cex[0][3], "poly_bound": cex[0][4], "calls_without_guard": cex[0][5],
                                                   "note": "Limits!Visits_cyclesNoGuard (every path of the spread graph) exceeds K*Size^2; the guarded search (Visits_cycles <= Size, "
                                                           "checked for n<=40 with RefusedCheap) is what the code does today -- no counter of the hook observes it, V holds it through CPU time"}

    # ---- G: documents -------------------------------------------------------------------------------------
    max_n, max_fan = (24, 15) if c.quick else (40, 19)
    cfg = c.path("Gen_Work.cfg")
    with open(cfg, "w") as f:
        f.write("CONSTANT MaxN = 40\nCONSTANT EqN = 0\nCONSTANT MaxFan = %d\nINIT Init\nNEXT Next\nINVARIANT EmitDocs\n" % max_fan)
    g = vlib.run_tlc("gql/MC_LimitsWork.tla", cfg, workers=1, timeout=900, keep_lines=50)
    c.add_tlc("G family documents (n<=%d, fan-out n<=%d; chains up to n=40 for the refused requests)" % (max_n, max_fan), g)
    fam_docs = {}
    for t in g.tagged("REPLAY"):
        fam_docs[(t[1], t[2])] = json.loads(t[3])
    PASS = {"recursive": 64, "directives": 1000}          # limits above every generated nesting / directive count
    cases = []
    for (fname, n) in sorted(fam_docs):
        if fname in ("fanout", "wide", "deepinline", "manyops") and n <= max_n and (fname != "fanout" or n <= max_fan):
            cases.append({"id": 0, "family": fname, "n": n, "cfg": PASS, "doc": fam_docs[(fname, n)]})
    if len({x["family"] for x in cases}) != 4:
        raise vlib.ToolError("family generation incomplete: %s" % sorted({x["family"] for x in cases}))
    # Fibonacci DAGs: spread from the operation (exponential as coded, like the fan-out chain: n small), unreferenced and
    # referenced at the leaf only (no operation-rooted walker enters the DAG: the checks must stay cheap for every n)
    fib_ns = {"fibdag": [n for n in (2, 3, 5, 8, 11, 14, 17, 20, 22, 23, 25, 27) if n <= max_fan + 8],
              "fibfree": (1, 2, 3, 4, 6, 8, 12, 16, 20, 24, 28, 30, 32, 34, 35, 36, 37, 38) + (() if c.quick else (39, 40)),
              "fibtail": (2, 5, 9, 14, 19, 26, 31, 33, 36, 38) + (() if c.quick else (40,))}
    for fname in sorted(fib_ns):
        for n in fib_ns[fname]:
            if (fname, n) not in fam_docs:
                raise vlib.ToolError("generator did not print %s n=%d" % (fname, n))
            cases.append({"id": 0, "family": fname, "n": n, "cfg": PASS, "doc": fam_docs[(fname, n)]})
    # requests that a limit refuses: chains deeper than limit_recursive_depth (the walker must stop at the first violation, so
    # the work is small and nothing is excused), the request exactly at the limit (passes, full walk), and the directive limit
    refused = []
    offs = (1, 2, 5, 8) if c.quick else (1, 2, 3, 4, 5, 6, 8)
    for lim in (8, 12, 16, -1):                            # -1: the default limit (32); these come last (see harness watchdog)
        eff = 32 if lim < 0 else lim
        for fname in ("fanout", "fanoutops", "deepinline"):
            ns = [eff + o for o in offs if eff + o <= 40]
            if lim >= 0 and fname != "fanoutops":
                ns = [eff] + ns                            # exactly at the limit: accepted by this walker
            for n in ns:
                if (fname, n) not in fam_docs:
                    raise vlib.ToolError("generator did not print %s n=%d" % (fname, n))
                refused.append({"id": 0, "family": fname + "@rec%s" % ("default" if lim < 0 else lim), "n": n,
                                "cfg": {"recursive": lim, "directives": 1000}, "doc": fam_docs[(fname, n)], "above": n > eff})
    for fname in ("dirfirst", "dirlast"):
        # n <= 11: everything stays below the bound.  n >= 12: check_recursive_depth (which runs first and passes) is above the bound
        # -- the known DevNoMemo -- but check_max_directives still has to stop at the offending field: its counter is held to the
        # as-coded work, so a directive walker that keeps walking is not covered by the excuse
        for n in ((3, 7, 11, 12, 14) if c.quick else range(1, 16)):
            for dl in (1, 2):
                refused.append({"id": 0, "family": fname + "@dir%d" % dl, "n": n, "cfg": {"recursive": 64, "directives": dl},
                                "doc": fam_docs[(fname, n)], "above": dl == 1 and n <= 11})
    ts = json.load(open(SCHEMA))
    rng = random.Random(c.seed)
    dg = gqlgen.DocGen(ts, random.Random(c.seed + 5), max_depth=4, max_items=4, p_dir=0.0, p_frag=0.35, p_alias=0.2)
    nrand = 600 if c.quick else 6000
    made = 0
    while made < nrand:
        doc = dg.doc("Query", "query", budget=rng.randint(4, 30))
        if doc["frags"] and rng.random() < 0.6:     # spread fragments a second time where they are spread first
            for fr in rng.sample(doc["frags"], min(len(doc["frags"]), rng.randint(1, 3))):
                def dup(sels):
                    for i, s in enumerate(sels):
                        if s["k"] == "spread" and s["name"] == fr["name"]:
                            sels.insert(i + 1, {"k": "spread", "name": fr["name"], "dirs": []})
                            return True
                        if s["k"] != "spread" and dup(s["sels"]):
                            return True
                    return False
                dup(doc["ops"][0]["sels"]) or any(dup(f["sels"]) for f in doc["frags"])
        if gqlgen.conflicting_keys(ts, doc):
            continue
        cases.append({"id": 0, "family": "random", "n": 0, "cfg": PASS, "doc": doc})
        made += 1
    ndag = 150 if c.quick else 1500
    for _ in range(ndag):
        dag = rand_dag(rng, rng.randint(2, 13 if c.quick else 14))
        cases.append({"id": 0, "family": "randdag", "n": 0, "cfg": PASS, "doc": dag})
        if rng.random() < 0.4:                              # the same DAG under a small recursion limit: refused early or walked in full
            cases.append({"id": 0, "family": "randdag@rec", "n": 0, "cfg": {"recursive": rng.choice([2, 4, 6, 9]), "directives": 1000}, "doc": dag})
    # unreferenced random DAGs (own random stream: the older cases stay what they were), also bigger ones -- nothing operation-rooted walks them
    rfree = random.Random(c.seed * 13 + 7)
    nfree = 60 if c.quick else 600
    for _ in range(nfree):
        cases.append({"id": 0, "family": "randdagfree", "n": 0, "cfg": PASS, "doc": rand_dag(rfree, rfree.randint(2, 30), free=True)})
    cases += refused                                        # last: a run-away walk ends the harness run (watchdog) after everything else was recorded
    for i, x in enumerate(cases):
        x["id"] = i + 1
        x.setdefault("above", False)
    vlib.write_ndjson(c.path("cases.ndjson"), cases)

    # ---- H ----------------------------------------------------------------------------------------------------
    (binary,) = vlib.build_harness(["c11"])
    p = vlib.run_harness(binary, [c.path("cases.ndjson"), c.path("trace.ndjson")], timeout=3000)
    if p.returncode != 0:
        raise vlib.ToolError("c11 harness failed: " + (p.stderr[-2000:] or p.stdout[-2000:]))
    obs = vlib.read_ndjson(c.path("trace.ndjson"))
    aborted = bool(obs) and obs[-1]["obs"].get("aborted", False)
    if len(obs) != len(cases) and not aborted:
        raise vlib.ToolError("c11 harness recorded %d of %d requests" % (len(obs), len(cases)))
    slim = [{"id": o["id"], "family": o["family"], "n": o["n"], "cfg": o["cfg"], "doc": o["doc"],
             "obs": {k: o["obs"][k] for k in ("counters", "wallUs", "cpuUs", "refused", "aborted", "problem")}} for o in obs]
    vlib.write_ndjson(c.path("judge.ndjson"), slim)

    # ---- V ----------------------------------------------------------------------------------------------------
    v = vlib.run_tlc_sliced("gql/WorkTrace.tla", "gql/WorkTrace.cfg", c.path("judge.ndjson"), slices=4, timeout=3000, keep_lines=50, xmx="3g")
    c.add_tlc("V WorkTrace", v)
    ver = {t[1]: t for t in v.tagged("VERDICT")}
    if len(ver) != len(obs):
        raise vlib.ToolError("V produced %d verdicts for %d requests" % (len(ver), len(obs)))
    worst = {}
    above = 0
    cpu_ratio = 0.0
    nrefused = 0
    for o in obs:
        t = json.loads(ver[o["id"]][2])
        verdict, size, bound, coded, match, ideal = t["verdict"], t["size"], t["bound"], t["coded"], t["match"], t["ideal"]
        cpu_ratio = max(cpu_ratio, o["obs"]["cpuUs"] / t["cpuAllowed"])
        cnt = o["obs"]["counters"]
        c.count_case({"text": o["text"], "cfg": o["cfg"]}, nontrivial=True)
        rec = {"family": o["family"], "n": o["n"], "size": size, "bytes": o["bytes"], "poly_bound": bound, "counters": dict(zip(COUNTERS, cnt)),
               "as_coded": coded, "ideal": ideal, "cycle_search_calls": t["cycles"], "wall_us": o["obs"]["wallUs"], "cpu_us": o["obs"]["cpuUs"], "cpu_allowed_us": t["cpuAllowed"], "refused": o["obs"]["refused"], "text": o["text"][:400]}
        if verdict == "violation:cpu":
            what = ("request of size %d took %d us of thread CPU time (smallest of up to three runs), allowed %d us = slack + 1 us per unit of max(PolyBound %d, as-coded "
                    "work): checking work that no counter sees is not polynomial" % (size, o["obs"]["cpuUs"], t["cpuAllowed"], bound))
        else:
            what = "checking work %d exceeds PolyBound %d (size %d) and is not explained by DevNoMemo" % (max(cnt), bound, size)
        c.verdict(verdict, rec, what)
        if not match:
            c.drift("request %d (%s n=%s): counters %s but Visits_asCoded %s, cycle search %s" % (o["id"], o["family"], o["n"], cnt, coded, t["cycles"]))
        if verdict != "ok":
            above += 1
        if o["above"]:
            # a request that a limit refuses: the reference work is small, so nothing may be excused here
            nrefused += 1
            if verdict == "ok" and (not o["obs"]["refused"] or cnt[0] != 0):
                raise vlib.ToolError("request %d (%s n=%s) was meant to be refused by its limit before validation: %s" % (o["id"], o["family"], o["n"], o["obs"]))
            if verdict.startswith("known"):
                c.violation(rec, "a request refused by its limit must not need an excuse (%s)" % verdict)
        w = worst.get(o["family"])
        if w is None or max(cnt) > max(w["counters"].values()):
            worst[o["family"]] = {k: rec[k] for k in ("n", "size", "bytes", "poly_bound", "counters", "wall_us", "cpu_us", "refused")}
    if aborted:
        c.notes.append("the harness watchdog ended the run at request %d: checking work went beyond 2^26" % obs[-1]["id"])
    if nrefused == 0 and not aborted:
        raise vlib.ToolError("vacuous: no request above a limit was run")
    c.cov["requests_refused_by_a_limit"] = nrefused
    if above == 0:
        raise vlib.ToolError("vacuous: no request exceeded PolyBound although the fan-out chains were run (DevNoMemo expected)")
    if not any(o["family"] == "random" and max(o["obs"]["counters"]) > 0 for o in obs):
        raise vlib.ToolError("vacuous: the counters stayed at zero")
    c.cov["traces_validated_against_impl"] = len(obs)
    c.cov["exhaustive"] = False
    c.cov["largest_work_by_family"] = worst
    c.cov["requests_above_bound"] = above
    c.cov["largest_cpu_time_over_allowed"] = round(cpu_ratio, 5)
    if not any(o["family"] == "fibfree" and o["n"] >= 36 for o in obs) and not aborted:
        raise vlib.ToolError("vacuous: no large unreferenced Fibonacci DAG was run")
    c.cov["rule"] = ("families from TLC (MC_LimitsWork!Family): fan-out chains n<=%d (as-coded work < 2^20), wide overlapping selections, deep inline nesting and "
                     "many operations n<=%d; the chains (also behind three operations, and deep inline nesting) sized at and above limit_recursive_depth 8 / 12 / 16 / default "
                     "(n up to 40: refused after limit+2 walker calls, judged without excuse) and before / behind a field over limit_directives; %d seeded random documents over the static family (4-30 nodes, nested fragments, fragments spread twice) and %d seeded "
                     "random fragment DAGs; Fibonacci DAGs of fragments spread from the operation (n<=%d), unreferenced and referenced at the leaf only (n<=%d) and %d unreferenced "
                     "seeded random DAGs of up to 30 fragments (the rules' own searches; judged through thread CPU time as well); each executed once with limits configured "
                     "(again, for the CPU time only, when it took > 20 ms), counters read after the request; distinct by document text; every request "
                     "exercises all five counters' walkers" % (max_fan, max_n, nrand, ndag, max(fib_ns["fibdag"]), max(fib_ns["fibfree"]), nfree))
    big = [o for o in obs if o["family"] == "fanout"][-1]
    for o in obs[:1] + [big] + [o for o in obs if o["family"] == "random"][:1]:
        t = json.loads(ver[o["id"]][2])
        c.sample({"family": o["family"], "n": o["n"], "text": o["text"][:300], "size": t["size"], "poly_bound": t["bound"], "counters": o["obs"]["counters"],
                  "as_coded": t["coded"], "wall_us": o["obs"]["wallUs"], "verdict": t["verdict"]})
    c.assumptions += ["work = the five hook counters (validation visitor calls, recursion/directive walkers, FindConflicts searches); parsing and the rules' own "
                      "bookkeeping are not counted by the hook (proposed: a sixth counter in CycleDetector::detect_from); wall time is recorded, never judged",
                      "thread CPU time (CLOCK_THREAD_CPUTIME_ID, smallest of up to three runs) stands for the uncounted work: a request within the bound needs at most "
                      "100 ms + 1 us per unit of max(PolyBound, as-coded work) -- measured on the unchanged tree: the largest ratio is in largest_cpu_time_over_allowed",
                      "PolyBound = 4 * Size^2 with Size = definitions + selection nodes as written",
                      "the hook (checks/C11.hook.diff) only adds counters under #[cfg(async_graphql_verif)]"]


vlib.main("C11", "model_checking", body)
