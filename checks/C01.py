#!/usr/bin/env python3
"""C01 -- query results follow spec field collection and completion (static schemas).
G: Gen_Doc.tla enumerates every valid document with <= N selection nodes over the static family's type
   system (aliases, repeated keys, inline fragments and named fragments on object / interface / union
   conditions, @skip/@include with variables); the driver crosses them with variable supply forms and
   seeded data worlds.
harness: cexec executes each case on the derive-built schema (data-driven resolvers).
V: ExecTrace.tla (MODE=data) evaluates Execution!Execute and compares the response data."""
import json, os, random, sys
sys.path.insert(0, os.path.join(os.path.dirname(os.path.abspath(__file__)), "..", "lib"))
import vlib, gqlgen, execcheck

SCHEMA = os.path.join(vlib.ROOT, "schemas", "exec.json")


def gen_docs(c, root, n, dirs, label):
    cfg = c.path("Gen_%s.cfg" % label)
    with open(cfg, "w") as f:
        f.write('CONSTANT MaxNodes = %d\nCONSTANT MaxDirs = 1\nCONSTANT MaxAlias = 1\nCONSTANT Root = "%s"\nCONSTANT Dirs = {%s}\n'
                'INIT Init\nNEXT Next\nINVARIANT DepthOK\nINVARIANT Emit\n' % (n, root, ", ".join('"%s"' % d for d in dirs)))
    g = vlib.run_tlc("gql/Gen_Doc.tla", cfg, env={"SCHEMA": SCHEMA}, workers=8, timeout=1800, keep_lines=20, xmx="8g")
    c.add_tlc("G documents root=%s N=%d" % (root, n), g)
    return sorted(set(t[1] for t in g.tagged("REPLAY")))


def body(c):
    ts = json.load(open(SCHEMA))
    rng = random.Random(c.seed)
    n = 4 if c.quick else 5
    flats = gen_docs(c, "Query", n, ["skip:$s", "include:$s"], "q")
    total = len(flats)
    cap = 6000 if c.quick else 60000
    exhaustive = True
    small = gen_docs(c, "Query", 3, ["skip:$s", "include:$s", "skip:true", "include:false"], "q3")
    if len(flats) > cap:
        flats = rng.sample(flats, cap)
        exhaustive = False
    flats = sorted(set(flats) | set(small))
    mflats = gen_docs(c, "Mutation", 3, ["skip:$s"], "m")
    worlds = []
    for i in range(2 if c.quick else 4):
        wg = gqlgen.WorldGen(ts, random.Random(c.seed * 1000 + i), p_null=0.15 if i else 0.0, p_nonfinite=0.7 if i == 1 else 0.0)
        worlds.append(wg.world())
    cases = []
    for op_ty, group in (("query", flats), ("mutation", mflats)):
        for fs in group:
            doc = gqlgen.tree_from_flat(json.loads(fs), op_ty)
            forms = gqlgen.var_forms(doc)
            if c.quick and len(forms) > 1:
                forms = rng.sample(forms, 2)
            for defs, supplied in forms:
                d = json.loads(json.dumps(doc))
                d["ops"][0]["vars"] = defs
                if defs:
                    d["ops"][0]["name"] = "Q"
                ws = [rng.choice(worlds)] if c.quick else worlds
                for w in ws:
                    cases.append({"id": 0, "flavour": "static", "doc": d, "opIndex": 1, "vars": supplied,
                                  "world": w, "schedule": []})
    # seeded random documents over *all* fields (bigger than the exhaustive bound)
    dg = gqlgen.DocGen(ts, random.Random(c.seed + 17))
    nrand = 1500 if c.quick else 20000
    rand_cases = []
    while len(rand_cases) < nrand:
        mut = rng.random() < 0.1
        doc = dg.doc("Mutation" if mut else "Query", "mutation" if mut else "query")
        if gqlgen.conflicting_keys(ts, doc):
            continue
        defs, supplied = rng.choice(gqlgen.var_forms(doc))
        doc["ops"][0]["vars"] = defs
        if defs:
            doc["ops"][0]["name"] = "Q"
        op_index = 1
        r = rng.random()
        if r < 0.15:
            # several operations in one document: the request selects one by name
            doc["ops"][0]["name"] = "Q"
            other = {"name": "Other", "ty": "query", "vars": [], "dirs": [], "sels": [
                {"k": "field", "name": "__typename", "alias": "", "args": [], "dirs": [], "sels": [], "nid": 9000, "line": 0, "col": 0}]}
            if rng.random() < 0.5:
                doc["ops"].insert(0, other)
                op_index = 2
            else:
                doc["ops"].append(other)
        elif r < 0.3 and doc["frags"]:
            # the same named fragment spread a second time (CollectFields visits a fragment once per selection set)
            fr = rng.choice(doc["frags"])
            def dup(sels):
                for i, x in enumerate(sels):
                    if x["k"] == "spread" and x["name"] == fr["name"]:
                        sels.insert(i + 1, json.loads(json.dumps(x)))
                        return True
                    if x["k"] != "spread" and dup(x.get("sels", [])):
                        return True
                return False
            dup(doc["ops"][0]["sels"]) or any(dup(f["sels"]) for f in doc["frags"] if f["name"] != fr["name"])
        rand_cases.append({"id": 0, "flavour": "static", "doc": doc, "opIndex": op_index, "vars": supplied, "world": rng.choice(worlds), "schedule": []})
    case_cap = 6000 if c.quick else 110000
    if len(cases) > case_cap:
        cases = rng.sample(cases, case_cap)
        exhaustive = False
    for k, wd in enumerate(gqlgen.wrapping_docs()):
        for w in worlds:
            rand_cases.append({"id": 0, "flavour": "static", "doc": wd, "opIndex": 1, "vars": [], "world": w, "schedule": []})
    cases += rand_cases
    for i, x in enumerate(cases):
        x["id"] = i + 1
    obs, verdicts = execcheck.run_cases(c, cases, "data")
    for o in obs:
        c.count_case({"t": o["text"], "v": o["vars"], "w": vlib.chash(o["world"])}, nontrivial=True)
        slim = {"text": o["text"], "vars": o["vars"], "world": o["world"], "obs": {"data": o["obs"]["data"], "problem": o["obs"]["problem"]}}
        c.verdict(verdicts[o["id"]], slim, "response data differs from Execution!Execute")
    c.cov["traces_validated_against_impl"] = len(obs)
    c.cov["exhaustive"] = exhaustive
    c.cov["rule"] = ("G: every valid query document with <=%d selection nodes over the static family (TLC BFS of Gen_Doc.tla: %d documents%s), "
                     "all with <=3 nodes incl. literal directives, all mutations with <=3 nodes, plus %d seeded random documents over all fields (depth <= 4, nested fragments); crossed with every way of defining/supplying $s "
                     "(required+supplied, default used, default overridden) and %d seeded worlds (one with non-finite floats); distinct by "
                     "(document text, variables, world); every case exercises collection and completion" % (n, total, "" if exhaustive else ", seeded sample", nrand, len(worlds)))
    for o in obs[:2]:
        c.sample({"text": o["text"], "vars": o["vars"], "data": o["obs"]["data"], "verdict": verdicts[o["id"]]})
    c.assumptions += ["the harness document printer and the world->Rust value conversion are trusted",
                      "float text is compared through Rust's shortest round-trip formatting",
                      "the static family (harness/vh/src/fam.rs) stands for 'every derive-built schema'"]


vlib.main("C01", "model_checking", body)
