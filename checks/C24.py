#!/usr/bin/env python3
"""C24 -- multipart uploads bind files exactly as mapped and respect limits.
M: Upload.tla / MC_Upload.tla -- a streaming reader (one action per part, early rejection at the limits) conforms to the
   declarative reference (Causes / Optional / Bound) for every case of the bounded domain and every part
   order; negative control: today's reader (whole-stream byte budget) violates it.
G: every case of the domain (binding family: every assignment of slots to file fields incl. several paths per
   file, lists, nested objects, batch paths; presence family: missing and extra files; limits family: 0..3
   files with sizes L-1/L/L+1 x max_file_size in {none, L} x max_num_files in {none, 1, 2}; extra family:
   unmapped file parts around max_num_files in every position; placeholder family: non-null values at the
   mapped paths; structure and bad-path families), in rotated / reversed part orders.
harness: renders real multipart/form-data bytes, calls receive_batch_body / receive_body with MultipartOptions.
V: UploadTrace.tla judges every outcome (bindings as a variables tree with file nodes, uploads per request)."""
import concurrent.futures
import json
import os
import sys
sys.path.insert(0, os.path.join(os.path.dirname(os.path.abspath(__file__)), "..", "lib"))
import vlib

L = 1000


def body(c):
    # ---- mode M -------------------------------------------------------------------------------
    mc = c.path("MC_Upload.cfg")
    names, lim = (2, 2) if c.quick else (2, 3)
    with open(mc, "w") as f:
        f.write("CONSTANT L = 3\nCONSTANT PartOverhead = 1\nCONSTANT MaxNames = %d\nCONSTANT MaxLim = %d\nCONSTANT AllOrders = TRUE\n"
                "SPECIFICATION USpec\nINVARIANT UTypeOK\nINVARIANT StreamConforms\nPROPERTY Terminates\n" % (names, lim))
    m = vlib.run_tlc("conc/MC_Upload.tla", mc, workers=8, coverage=True, timeout=1500, xmx="8g")
    if m.invariant_violated:
        raise vlib.ToolError("design-level failure in Upload.tla: " + str(m.invariant_violated))
    for act in ("ReadOps", "ReadMap", "ReadFile", "Finish"):
        if m.coverage.get("Upload!" + act, (0, 0))[0] == 0:
            raise vlib.ToolError("vacuity: action %s never taken in mode M" % act)
    c.add_tlc("M streaming reader vs declarative reference (all part orders, <=%d mapped names, <=%d limit files)" % (names, lim), m)
    neg = vlib.run_tlc("conc/MC_Upload.tla", "conc/MC_UploadDev.cfg", workers=4, timeout=900, expect_violation=True)
    if neg.invariant_violated != "StreamConforms":
        raise vlib.ToolError("negative control: today's reader model did not violate StreamConforms")

    # ---- mode G -------------------------------------------------------------------------------
    gn, gl = (2, 2) if c.quick else (3, 3)
    cfg = c.path("Gen.cfg")
    with open(cfg, "w") as f:
        f.write("CONSTANT L = %d\nCONSTANT PartOverhead = 150\nCONSTANT MaxNames = %d\nCONSTANT MaxLim = %d\nCONSTANT AllOrders = FALSE\n"
                "INIT UInit\nNEXT UNext\nINVARIANT Emit\n" % (L, gn, gl))
    g = vlib.run_tlc("conc/MC_Upload.tla", cfg, workers=8, timeout=3000, keep_lines=50, xmx="8g")
    c.add_tlc("G cases (<=%d mapped names, <=%d limit files)" % (gn, gl), g)
    cases = [json.loads(s) for s in sorted(set(t[1] for t in g.tagged("REPLAY")))]
    vlib.write_ndjson(c.path("cases.ndjson"), cases)

    # ---- harness ------------------------------------------------------------------------------
    (binary,) = vlib.build_harness(["c24"])
    p = vlib.run_harness(binary, [c.path("cases.ndjson"), c.path("obs.ndjson"), c.seed], timeout=3000)
    if p.returncode != 0:
        raise vlib.ToolError("c24 harness failed: " + p.stderr[-2000:])
    rows = vlib.read_ndjson(c.path("obs.ndjson"))
    if len(rows) != len(cases):
        raise vlib.ToolError("harness returned %d rows for %d cases" % (len(rows), len(cases)))
    for r in rows:
        if r["case"]["opts"]["maxSize"] and max(r["ops_len"], r["map_len"]) >= r["case"]["opts"]["maxSize"]:
            raise vlib.ToolError("operations / map text is not smaller than the file size limit in case %s" % r["id"])

    # ---- mode V (parallel slices; JSON loading dominates) ---------------------------------------
    nproc = 3 if c.quick else 6
    per = max(500, -(-len(rows) // nproc))
    slices = [rows[i:i + per] for i in range(0, len(rows), per)]

    def validate(k):
        path = c.path("obs_%d.ndjson" % k)
        vlib.write_ndjson(path, [{kk: vv for kk, vv in o.items() if kk != "text"} for o in slices[k]])
        return vlib.run_tlc("conc/UploadTrace.tla", "conc/UploadTrace.cfg", env={"TRACE": path}, workers=1,
                            timeout=3000, keep_lines=50, xmx="3g", metadir=c.path("tlc_v%d" % k))
    with concurrent.futures.ThreadPoolExecutor(max_workers=nproc) as ex:
        results = list(ex.map(validate, range(len(slices))))
    verdicts = {}
    for k, r in enumerate(results):
        c.add_tlc("V slice %d" % k, r)
        for t in r.tagged("VERDICT"):
            verdicts[t[1]] = (t[2], t[3], t[4])
    if len(verdicts) != len(rows):
        raise vlib.ToolError("V produced %d verdicts for %d cases" % (len(verdicts), len(rows)))
    fams, expects, multi, batchpaths = {}, {}, 0, 0
    for r in rows:
        vd, expect, devpred = verdicts[r["id"]]
        case = r["case"]
        fams[case["fam"]] = fams.get(case["fam"], 0) + 1
        expects[expect] = expects.get(expect, 0) + 1
        multi += any(len(e["paths"]) > 1 for e in case["map"]["entries"])
        batchpaths += case["ops"]["kind"] == "batch" and any(e["paths"] for e in case["map"]["entries"])
        nfiles = sum(1 for p in case["body"] if p["t"] == "file")
        c.count_case(case, nontrivial=nfiles > 0 or bool(case["map"]["entries"]) or case["fam"] == "struct")
        c.verdict(vd, r, "upload outcome not allowed by the reference (expected %s; observed %s)" %
                  (expect, "; ".join("%s -> %s %s" % (x["api"], x["out"]["k"], x["out"]["class"]) for x in r["obs"])))
        for x in r["obs"]:
            if x["out"]["k"] != devpred:
                c.drift("case %s: the model of today's reader predicts %s, observed %s" % (r["id"], devpred, x["out"]["k"]))
    for fam in ("bind", "presence", "limits", "extra", "placeholder", "dup", "struct", "badpath"):
        if fams.get(fam, 0) == 0:
            raise vlib.ToolError("vacuity: family %s is empty" % fam)
    if not expects.get("ok") or not expects.get("error") or multi == 0 or batchpaths == 0:
        raise vlib.ToolError("vacuity: expectations %s, multi-path cases %d, batch-path cases %d" % (expects, multi, batchpaths))
    c.cov["traces_validated_against_impl"] = len(rows)
    c.cov["exhaustive"] = True
    c.cov["families"] = fams
    c.cov["expected"] = expects
    c.cov["rule"] = ("G: every case of the bounded domain of Upload.tla: (bind) 4 operations shapes (single slot; two slots + an "
                     "untouched variable; list + nested object slots; batch of 2) x every assignment of slots to <=%d file fields "
                     "(several paths per file, empty path lists) x rotations of the canonical and reversed part order; (presence) "
                     "every subset of mapped files missing x an unmapped extra file; (limits) 0..%d files with sizes in {1, L-1, L, "
                     "L+1}, L=%d, x max_file_size in {none, L} x max_num_files in {none, 1, 2} x {no, small, oversized} unmapped "
                     "extra file x 2 orders; (extra) 0..2 mapped files + 1..2 file parts that the map does not mention (after the mapped files, before them, "
                     "between operations and map; all rotations of these orders and their reversals) x max_num_files in {1, 2} x max_file_size in {none, L}: "
                     "the count limit counts every file part received; (placeholder) the 4 operations shapes with a non-null JSON value (\"\", a text, 0, false, "
                     "{}, [], {k:null}, [null]) at every file position x every assignment of slots to <=2 file fields x 2 orders, plus a batch with mixed "
                     "values: the file replaces whatever value stands at a mapped path and unmapped positions keep theirs; (dup) the same file field name in 2 or 3 file parts of different sizes, alone and with other entries' files missing "
                     "(which same-named part is bound is free; a duplicate never replaces a missing file); (struct) operations / map / file parts missing, map not JSON; (badpath) paths that do "
                     "not exist. non-trivial = at least one file part or map entry or a structural defect; distinct by case" % (gn, gl, L))
    for r in rows[:1] + [r for r in rows if verdicts[r["id"]][0].startswith("known")][:2]:
        c.sample({"fam": r["case"]["fam"], "opts": r["case"]["opts"], "body": [(p["t"], p["name"], p["size"]) for p in r["case"]["body"]],
                  "map": r["case"]["map"]["entries"], "obs": [(x["api"], x["out"]["k"], x["out"]["class"]) for x in r["obs"]],
                  "stream_len": r["stream_len"], "verdict": verdicts[r["id"]][0]})
    c.assumptions += ["the harness's multipart/form-data renderer and file-content generator are trusted; upload contents are compared byte for byte in the harness and a mismatch is reported to TLC as a corrupt file node",
                      "a file part that no map entry mentions and exceeds max_file_size, and map paths that do not exist in operations, may be rejected or ignored (the property text does not decide); max_num_files counts every file part received, mapped or not",
                      "error classes are recorded but not judged (only accepted / rejected)"]


vlib.main("C24", "model_checking", body)
