#!/usr/bin/env python3
"""C12 -- no client input can crash, overflow or hang the server.
M: Hostile.tla -- request handling as a pipeline of total stages (decode, parse, validate, coerce, execute) over the
   case space hostile class x position x size x transport; with no deviation switched on no behaviour crashes and every
   behaviour ends with an answer the property admits (invariants + liveness); with today's named deviations on, a crash
   is reachable only on a deviation's trigger class.
G: every case (= initial state) is printed with what the property expects of it.
harness: materialises every case against a schema with every built-in input type (incl. Upload), adds seeded byte-level
   mutations of valid payloads, and runs every case in a child process with a time budget: panic / abort (stack overflow)
   / timeout are recorded as data.
V: HostileTrace.tla judges every recorded outcome."""
import json, os, sys
from concurrent.futures import ThreadPoolExecutor
sys.path.insert(0, os.path.join(os.path.dirname(os.path.abspath(__file__)), "..", "lib"))
import vlib

SAFE_DEPTH, SAFE_SEL, SAFE_CHAIN = 1000, 3000, 3000


def tla_set(xs):
    return "{" + ", ".join(('"%s"' % x) if isinstance(x, str) else str(x) for x in xs) + "}"


def body(c):
    if c.quick:
        depths, light, sizes, cuts, heavy, nmut, budget = [100, 1000, 10000], [100], [3000], [0, 1, 5, 10, 15, 19], ["execute", "json"], 250, 30000
        seldepths = [50, 65, 200, 1000, 2900, 5000, 20000]
    else:
        depths, light, sizes, cuts = [100, 300, 1000, 3000, 10000, 30000], [100, 300, 1000], [1000, 10000], list(range(20))
        heavy, nmut, budget = ["execute", "json", "get", "multipart", "ws"], 6000, 120000
        seldepths = [50, 64, 65, 100, 200, 500, 1000, 2000, 2900, 5000, 20000]
    gen_cfg = c.path("Gen_Hostile.cfg")
    with open(gen_cfg, "w") as f:
        f.write("CONSTANT Depths = %s\nCONSTANT SelDepths = %s\nCONSTANT LightDepths = %s\nCONSTANT Sizes = %s\nCONSTANT Cuts = %s\nCONSTANT SafeDepth = %d\nCONSTANT SafeSel = %d\n"
                "CONSTANT SafeChain = %d\nCONSTANT HeavyTransports = %s\nCONSTANT Wide = %s\nCONSTANT Dev = {}\nINIT Init\nNEXT Next\nINVARIANT Emit\n"
                "CONSTRAINT OnlyInit\n" % (tla_set(depths), tla_set(seldepths), tla_set(light), tla_set(sizes), tla_set(cuts), SAFE_DEPTH, SAFE_SEL, SAFE_CHAIN, tla_set(heavy), "FALSE" if c.quick else "TRUE"))
    # ---- M (ideal), M (today's deviations on) and G side by side: 1 + 1 + 2 workers
    # (the two model-checking runs do not gate the harness: they are joined before mode V)
    ex = ThreadPoolExecutor(3)
    fm = ex.submit(vlib.run_tlc, "conc/Hostile.tla", "conc/MC_Hostile.cfg", workers=1, timeout=1500)
    fd = ex.submit(vlib.run_tlc, "conc/Hostile.tla", "conc/MC_HostileDev.cfg", workers=1, timeout=1500)
    g = ex.submit(vlib.run_tlc, "conc/Gen_Hostile.tla", gen_cfg, workers=2, timeout=1500, keep_lines=50).result()
    rows = [json.loads(x) for x in sorted(set(t[1] for t in g.tagged("REPLAY")))]
    if len(rows) != g.distinct and len(rows) * 2 != g.generated:
        raise vlib.ToolError("generator printed %d cases for %d initial states" % (len(rows), g.distinct))
    rows.sort(key=lambda r: (r["class"], r["pos"], r["sub"], r["k"], r["transport"]))
    if c.replay:
        with open(c.replay) as f:
            case = json.load(f)["case"]
        if case.get("class") == "mutation":
            raise vlib.ToolError("byte-level mutation cases are replayed by running the check with the same VERIF_SEED")
        rows = [r for r in rows if all(r[k] == case[k] for k in ("class", "pos", "sub", "k", "transport"))] or \
               [{k: case[k] for k in ("class", "pos", "sub", "k", "transport")}]
        nmut = 0
    for i, r in enumerate(rows):
        r["id"] = i + 1
    vlib.write_ndjson(c.path("cases.ndjson"), rows)
    # ---- harness (parent + one child per crash)
    (binary,) = vlib.build_harness(["c12"])
    p = vlib.run_harness(binary, ["run", c.path("cases.ndjson"), c.path("trace.ndjson"), c.seed, nmut, budget], timeout=3600)
    if p.returncode != 0:
        raise vlib.ToolError("c12 harness failed: " + p.stderr[-2000:])
    obs = vlib.read_ndjson(c.path("trace.ndjson"))
    if len(obs) != len(rows) + nmut:
        raise vlib.ToolError("harness recorded %d outcomes for %d cases" % (len(obs), len(rows) + nmut))
    m, d = fm.result(), fd.result()
    for label, r in (("ideal", m), ("deviations on", d)):
        if r.invariant_violated:
            raise vlib.ToolError("design-level failure in Hostile.tla (%s): %s" % (label, r.invariant_violated))
        if r.distinct < 5000:
            raise vlib.ToolError("mode M (%s) explored only %d states" % (label, r.distinct))
    c.add_tlc("M Hostile, no deviation: NoCrash, AnswerAllowed, <>answered", m)
    c.add_tlc("M Hostile, today's deviations on: CrashExplained, <>answered", d)
    c.add_tlc("G cases", g)
    # ---- V
    v = vlib.run_tlc("conc/HostileTrace.tla", "conc/HostileTrace.cfg", env={"TRACE": c.path("trace.ndjson")}, workers=1,
                     timeout=3000, keep_lines=50, xmx="6g")
    c.add_tlc("V HostileTrace", v)
    verdicts = {t[1]: (t[2], t[3]) for t in v.tagged("VERDICT")}
    if len(verdicts) != len(obs):
        raise vlib.ToolError("V produced %d verdicts for %d outcomes" % (len(verdicts), len(obs)))
    stats, first_crash, expect = {}, {}, {r["id"]: r["expect"] for r in rows}
    for o in obs:
        vd, drift = verdicts[o["id"]]
        if vd.startswith("tool:"):
            raise vlib.ToolError("case could not be run (%s): %s" % (vd, json.dumps({k: o[k] for k in ("class", "pos", "sub", "k", "transport")})))
        key = (o["class"] if o["class"] != "mutation" else "mutation/" + o["transport"])
        stats.setdefault(key, {}).setdefault(o["outcome"], 0)
        stats[key][o["outcome"]] += 1
        if o["outcome"] == "abort":
            k2 = "%s/%s" % (o["class"], o["pos"])
            first_crash[k2] = min(first_crash.get(k2, 10 ** 9), o["k"])
        case = {k: o[k] for k in ("class", "pos", "sub", "k", "transport")}
        c.count_case(case if o["class"] != "mutation" else dict(case, seed=c.seed), nontrivial=expect.get(o["id"], "any") != "data")
        rec = dict(case, expect=expect.get(o["id"], "any"), outcome=o["outcome"], detail=o["detail"], features=o["feat"], ms=o["ms"])
        c.verdict(vd, rec, "%s: %s/%s%s k=%s over %s answered with %s (%s)" % (vd, o["class"], o["pos"], ("/" + o["sub"]) if o["sub"] else "",
                                                                            o["k"], o["transport"], o["outcome"], o["detail"][:80].replace("\n", " ")))
        if drift:
            c.drift("case %s/%s k=%s: features of the bytes sent %s differ from the spec's FeatOf" % (o["class"], o["pos"], o["k"], json.dumps(o["feat"])))
    if not c.replay:
        need = ["small_cycle", "block_string", "marker_nan", "marker_oob", "nest_list", "nest_obj", "nest_sel", "bad_string", "undefined_type", "truncate", "mp_structure",
                "ws_frames", "wrong_kind", "big_number", "benign"] + ["mutation/" + t for t in ("execute", "json", "get", "multipart", "ws")]
        for k in need:
            if not stats.get(k):
                raise vlib.ToolError("vacuity: no '%s' cases" % k)
        served = [o for o in obs if o["class"] == "nest_sel" and o["sub"] == "raised" and o["k"] <= 64 and o["pos"] != "unclosed"]
        if not served or any(o["outcome"] != "data" for o in served):
            raise vlib.ToolError("vacuity: nested inline fragments below the parser's limit were not served by the schema with a raised "
                                 "limit_recursive_depth: %s" % [(o["pos"], o["k"], o["outcome"], o["detail"][:60]) for o in served if o["outcome"] != "data"][:3])
        if stats["benign"].get("data", 0) < 5:
            raise vlib.ToolError("vacuity: the harmless requests were not served (%s)" % stats["benign"])
    c.notes.append("outcomes by class: " + json.dumps({k: stats[k] for k in sorted(stats)}))
    c.notes.append("smallest nesting depth / chain length of the grids %s / %s that aborted the process (stack overflow on a 2 MiB thread stack): %s"
                   % (depths, seldepths, json.dumps({k: first_crash[k] for k in sorted(first_crash)})))
    c.cov["traces_validated_against_impl"] = len(obs)
    c.cov["exhaustive"] = False
    c.cov["rule"] = ("G: TLC enumerates hostile class x position x size x transport (forged upload markers in 5 positions; list / object / "
                     "selection / type nesting and fragment chains of depths %s; selection sets nested through inline fragments "
                     "(untyped, typed, with a directive, typed / untyped / field in turn, in operations and in fragment definitions) %s deep against the default schema "
                     "and one with a raised limit_recursive_depth; numbers beyond 64 bits in every scalar slot; 16 malformed "
                     "strings incl. lone surrogates; undefined types; huge names and floods of size %s; every input type x every JSON kind; "
                     "29 malformed documents; 16 shapes of small fragment-spread cycles that an operation reaches x {strict, fast} validation x "
                     "{no limits, limit_directives/depth/complexity}; block strings whose lines start with U+00A0 / U+2003 / U+3000 / U+FEFF / "
                     "U+0085 / 2-, 3-, 4-byte letters after space / tab indents of different widths, beside lines of smaller / bigger indent, as "
                     "argument value, variable default and input-object field; hostile request extensions; truncation at %d offsets, invalid UTF-8, malformed GET strings, "
                     "request shapes, content types, 38 multipart structures, 25 WebSocket frame sequences x 2 protocols) over "
                     "{Schema::execute, JSON body, GET string, multipart, WebSocket}; the harness adds %d seeded byte-level mutations of "
                     "valid payloads (5 transports); every case runs in a child process on a 2 MiB stack with a %d s budget; "
                     "non-trivial = every case except the harmless requests; distinct by (class, position, size, transport)"
                     % (depths, seldepths, sizes, len(cuts), nmut, budget // 1000))
    shown = set()
    for o in obs:
        vd = verdicts[o["id"]][0]
        if vd not in shown:
            shown.add(vd)
            c.sample({"case": {k: o[k] for k in ("class", "pos", "sub", "k", "transport")}, "outcome": o["outcome"], "detail": o["detail"][:100],
                      "verdict": vd}, limit=7)
    c.assumptions += [
        "a case runs on a fresh thread with a 2 MiB stack (the default of std::thread and of tokio worker threads); the depth at which "
        "recursion exhausts the stack depends on that size; SafeDepth = %d (values, list types) / SafeSel = %d (selection sets) / "
        "SafeChain = %d are depths measured to fit" % (SAFE_DEPTH, SAFE_SEL, SAFE_CHAIN),
        "the deviation triggers are stated over syntactic features of the bytes sent, computed by the harness (val = deepest nesting of [ and "
        "of { inside parentheses, sel = deepest nesting of { outside parentheses: val / %d + sel / %d > 1; number of fragment definitions > %d); "
        "small cyclic documents and block strings carry neither" % (SAFE_DEPTH, SAFE_SEL, SAFE_CHAIN),
        "executable documents have no descriptions in this grammar, so block strings are placed in values only",
        "the byte-level mutation corpus is generated by the seeded harness; TLA+ only classifies its outcomes (DESIGN.md section 6)",
        "WebSocket sessions run against the real schema as executor, polled by hand until quiescent; HTTP bodies are decoded with "
        "receive_body (MultipartOptions: 1 MiB per file, 8 files) and executed with Schema::execute",
        "whether lenient inputs (Expect = any) are served or refused is not judged here (C06, C07, C09, C23, C24, C25 do that)",
        "a hang is a case that does not answer within the budget (%d s); polynomial slowness is C11's subject" % (budget // 1000)]


vlib.main("C12", "exploration", body)
