#!/usr/bin/env python3
"""C23 -- all HTTP request encodings decode to the same request; batches keep order.
M: HttpDecode.tla batch machine (items complete in any order; response list aligned with request list;
   termination under fairness) + negative control (completion-order collector must violate Aligned).
G: Gen_HttpDecode.tla -- (a) abstract requests over string atoms x {json, GET, multipart} x member-order /
   extra-member variants, batches of 1..3, malformed wire forms (TLC checks Decode(Encode(r)) = Denote(r) and
   Decode(malformed) = Err on the whole domain); (b) every schedule of the batch machine (open gate i / poll).
harness: renders wire forms to bytes (serde_json strings / serde_urlencoded / hand-written multipart), calls
   receive_json / receive_batch_json / receive_body / receive_batch_body / parse_query_string, and executes
   decoded batches through Schema::execute_batch and the Executor trait default with gated resolvers.
V: HttpDecodeTrace.tla -- reference decoder judges every outcome; monitor fold judges every exec trace."""
import concurrent.futures
import json
import os
import sys
sys.path.insert(0, os.path.join(os.path.dirname(os.path.abspath(__file__)), "..", "lib"))
import vlib


def replay_rows(g):
    return [json.loads(s) for s in sorted(set(t[1] for t in g.tagged("REPLAY")))]


def body(c):
    # ---- mode M -------------------------------------------------------------------------------
    m = vlib.run_tlc("conc/HttpDecode.tla", "conc/MC_HttpDecode.cfg", workers=4, coverage=True, timeout=600)
    if m.invariant_violated:
        raise vlib.ToolError("design-level failure in HttpDecode.tla: " + str(m.invariant_violated))
    for act in ("Submit", "Start", "OpenGate", "Complete", "Collect"):
        if m.coverage.get("HttpDecode!" + act, (0, 0))[0] == 0:
            raise vlib.ToolError("vacuity: action %s never taken in mode M" % act)
    c.add_tlc("M batch machine (<=4 items, all completion orders, invariants + liveness)", m)
    neg = vlib.run_tlc("conc/HttpDecode.tla", "conc/MC_HttpDecodeDev.cfg", workers=4, timeout=600, expect_violation=True)
    if neg.invariant_violated != "Aligned":
        raise vlib.ToolError("negative control: a completion-order collector did not violate Aligned")

    # ---- mode G -------------------------------------------------------------------------------
    maxset = 2 if c.quick else 3
    cfg = c.path("GenCases.cfg")
    with open(cfg, "w") as f:
        f.write("CONSTANT MaxBatch = 3\nCONSTANT MaxSet = %d\nINIT GInit\nNEXT GNext\nINVARIANT Emit\n" % maxset)
    g = vlib.run_tlc("conc/Gen_HttpDecode.tla", cfg, workers=8, timeout=3000, keep_lines=50, xmx="8g")
    c.add_tlc("G decode cases (requests with <=%d fields present; reference laws checked)" % maxset, g)
    cases = replay_rows(g)
    if len(cases) != g.distinct:
        raise vlib.ToolError("G printed %d distinct cases for %d states" % (len(cases), g.distinct))
    nb = 3 if c.quick else 4
    cfg = c.path("GenSched.cfg")
    with open(cfg, "w") as f:
        f.write("CONSTANT MaxBatch = %d\nCONSTANT MaxSet = 0\nINIT SInit\nNEXT SNext\nINVARIANT SEmit\n" % nb)
    gs = vlib.run_tlc("conc/Gen_HttpDecode.tla", cfg, workers=8, timeout=1800, keep_lines=50, xmx="4g")
    c.add_tlc("G schedules (batch machine, <=%d items)" % nb, gs)
    execs = replay_rows(gs)
    vlib.write_ndjson(c.path("cases.ndjson"), cases)
    vlib.write_ndjson(c.path("exec_cases.ndjson"), execs)

    # ---- harness ------------------------------------------------------------------------------
    (binary,) = vlib.build_harness(["c23"])
    for mode, src, dst in (("decode", "cases.ndjson", "obs.ndjson"), ("exec", "exec_cases.ndjson", "exec_obs.ndjson")):
        p = vlib.run_harness(binary, [mode, c.path(src), c.path(dst), c.seed], timeout=1800)
        if p.returncode != 0:
            raise vlib.ToolError("c23 %s failed: %s" % (mode, p.stderr[-2000:]))
    obs = vlib.read_ndjson(c.path("obs.ndjson"))
    traces = vlib.read_ndjson(c.path("exec_obs.ndjson"))
    if len(obs) != len(cases) or len(traces) != len(execs):
        raise vlib.ToolError("harness returned %d/%d rows for %d/%d cases" % (len(obs), len(traces), len(cases), len(execs)))

    # ---- mode V: decode cases, in parallel slices (JSON loading dominates; one JVM per slice) ----
    nproc = 3 if c.quick else 6
    per = max(500, -(-len(obs) // nproc))
    slices = [obs[i:i + per] for i in range(0, len(obs), per)]

    def validate(k):
        path = c.path("obs_%d.ndjson" % k)
        vlib.write_ndjson(path, [{kk: vv for kk, vv in o.items() if kk != "text"} for o in slices[k]])
        return vlib.run_tlc("conc/HttpDecodeTrace.tla", "conc/HttpDecodeTrace.cfg", env={"TRACE": path}, workers=1,
                            timeout=3000, keep_lines=50, xmx="3g", metadir=c.path("tlc_v%d" % k))
    with concurrent.futures.ThreadPoolExecutor(max_workers=nproc) as ex:
        results = list(ex.map(validate, range(len(slices))))
    verdicts = {}
    for k, r in enumerate(results):
        c.add_tlc("V decode slice %d" % k, r)
        for t in r.tagged("VERDICT"):
            verdicts[t[1]] = (t[2], t[3])
    if len(verdicts) != len(obs):
        raise vlib.ToolError("V produced %d verdicts for %d decode cases" % (len(verdicts), len(obs)))
    per_enc, expected_err = {}, 0
    for o in obs:
        vd, expect = verdicts[o["id"]]
        per_enc[o["enc"]] = per_enc.get(o["enc"], 0) + 1
        expected_err += expect == "error"
        w = o["wire"]
        trivial = (not o["mal"]) and w["enc"] in ("json", "get", "multipart") and not w["params"] and \
            not (w["body"]["c"] if w["enc"] == "json" else any(p["name"] == "operations" and p["j"]["c"] for p in w["parts"]))
        c.count_case(w, nontrivial=not trivial)
        c.verdict(vd, o, "decoded request differs from the reference decoder (expected %s; observed %s)" %
                  (expect, "; ".join("%s -> %s" % (x["api"], x["out"]["k"]) for x in o["obs"])))
    for enc in ("json", "json-batch", "get", "multipart", "multipart-batch"):
        if per_enc.get(enc, 0) == 0:
            raise vlib.ToolError("vacuity: no case for encoding " + enc)
    if expected_err == 0 or expected_err == len(obs):
        raise vlib.ToolError("vacuity: malformed / well-formed split is degenerate (%d of %d)" % (expected_err, len(obs)))

    # ---- mode V: exec traces ------------------------------------------------------------------
    vlib.write_ndjson(c.path("exec_v.ndjson"), [{kk: vv for kk, vv in t.items() if kk != "text"} for t in traces])
    x = vlib.run_tlc("conc/HttpDecodeTrace.tla", "conc/HttpBatchTrace.cfg", env={"TRACE": c.path("exec_v.ndjson")}, workers=1,
                     timeout=3000, keep_lines=50, xmx="4g")
    c.add_tlc("V exec traces", x)
    xv = {t[1]: (t[2], t[3], t[4]) for t in x.tagged("VERDICT")}
    if len(xv) != len(traces):
        raise vlib.ToolError("V produced %d verdicts for %d exec traces" % (len(xv), len(traces)))
    reordered = 0
    for t in traces:
        vd, at, drift = xv[t["id"]]
        opens = [e["i"] for e in t["events"] if e["ev"] == "open"]
        reordered += opens != sorted(opens)
        c.count_case({"enc": t["enc"], "api": t["api"], "events": t["events"]}, nontrivial=t["n"] >= 2)
        c.verdict(vd, t, "batch execution monitor rejected event %s (or the decoded batch differs)" % at)
        if drift:
            c.drift("exec trace %s: batch machine predicts the other poll result at event %s" % (t["id"], drift))
    if reordered == 0:
        raise vlib.ToolError("vacuity: no schedule completes batch items out of order")
    c.cov["traces_validated_against_impl"] = len(obs) + len(traces)
    c.cov["exhaustive"] = True
    c.cov["rule"] = ("G(a): every abstract request [query, operationName, variables, extensions] with each field absent / null / "
                     "one of 14 string atoms (quotes, backslashes, &, =, %%, +, unicode incl. non-BMP, control characters, empty, "
                     "'null') or one of 8 variables / 4 extensions objects, at most %d fields present (plus 6 full requests), "
                     "x {json, GET, multipart} x 3 member-order/extra-member variants; every batch of 1..3 over a pool of 5 x "
                     "{json-batch, multipart-batch} x 2 variants; %d malformed wire forms (broken text, wrong member types, scalars, "
                     "arrays in request position, bad batch elements, bad GET JSON parameters). G(b): every behaviour of the batch "
                     "machine with <=%d items as an open-gate/poll schedule x transports x {Schema::execute_batch, Executor default}. "
                     "non-trivial = not the empty request (decode) / batch of >=2 (exec); distinct by wire form / event list"
                     % (maxset, expected_err, nb))
    c.cov["per_encoding"] = per_enc
    c.cov["expected_errors"] = expected_err
    c.cov["out_of_order_schedules"] = reordered
    for o in obs[:1] + [o for o in obs if o["mal"]][:1]:
        c.sample({"enc": o["enc"], "text": o["text"][:300], "obs": [(x["api"], x["out"]["k"]) for x in o["obs"]], "verdict": verdicts[o["id"]][0]})
    for t in [t for t in traces if t["n"] == 3][:1]:
        c.sample({"enc": t["enc"], "api": t["api"], "sched": t["sched"],
                  "events": [e["ev"] + ":" + (str(e["i"]) if e["ev"] == "open" else e["got"]) for e in t["events"]], "verdict": xv[t["id"]][0]})
    c.assumptions += ["the harness's encoders (serde_json string escaping, serde_urlencoded, hand-written multipart/form-data) and its "
                      "atom table (injective, checked at start-up) are trusted",
                      "strings are atoms for TLC: it compares which atom arrived where, not characters",
                      "`query: null`, duplicate keys / parameters and invalid percent-escapes are not generated (the property text does not decide them)"]


vlib.main("C23", "model_checking", body)
