#!/usr/bin/env python3
"""C32 -- connection cursors round-trip and pagination arguments are checked.
M+G: Cursor.tla -- reference operators for every CursorType (integers as digit strings, floats by class, bool, char,
     String, ID, OpaqueCursor<T> over serde terms with a model of serde_json) and for connection::query; TLC enumerates
     every case (boundary values, cursor strings, the product of pagination-argument classes) as one initial state,
     checks the model's own laws on it (ModelLaws) and prints it.
harness: round-trips / decodes through the CursorType API and runs each query case through a real schema whose resolver
     calls connection::query; logs closure calls, arguments, pageInfo and edge cursors.  Seeded random floats, strings,
     chars and cursor strings are added by the harness.
V: CursorTrace.tla judges every observation."""
import json, os, sys
sys.path.insert(0, os.path.join(os.path.dirname(os.path.abspath(__file__)), "..", "lib"))
import vlib

QW_ALL = ["i8", "i32", "u64", "usize", "f64", "bool", "char", "String", "ID", "O3", "O4", "O11"]


def tla_set(xs):
    return "{" + ", ".join('"%s"' % x for x in xs) + "}"


def body(c):
    full = ["i32", "O4"] if c.quick else QW_ALL + ["i128", "u8", "f32", "O1", "O6", "O9"]
    light = ["String", "u64", "bool", "char", "f64", "O11"] if c.quick else []
    cfg = c.path("Gen_Cursor.cfg")
    with open(cfg, "w") as f:
        f.write('CONSTANT GenKinds = {"rt", "dec", "qw", "shape"}\nCONSTANT QwFull = %s\nCONSTANT QwLight = %s\n'
                "INIT Init\nNEXT Next\nINVARIANT Emit\n" % (tla_set(full), tla_set(light)))
    g = vlib.run_tlc("lex/Gen_Cursor.tla", cfg, workers=8, timeout=1800, keep_lines=60, xmx="8g")
    if g.invariant_violated:
        raise vlib.ToolError("design-level failure in Cursor.tla: a case violates ModelLaws (%s)" % g.invariant_violated)
    c.add_tlc("M+G Cursor cases (model laws checked on each)", g)
    rows = [json.loads(x) for x in sorted(set(t[1] for t in g.tagged("REPLAY")))]
    if len(rows) != g.distinct:
        raise vlib.ToolError("generator printed %d cases for %d states" % (len(rows), g.distinct))
    if c.replay:
        # the recorded case first, then the generated cases of the same kind and cursor type as context
        with open(c.replay) as f:
            case = json.load(f)["case"]
        case = {k: v for k, v in case.items() if k not in ("obs", "id", "src")}
        rows = [case] + [r for r in rows if r["kind"] == case["kind"] and r["ty"] == case["ty"] and r != case]
    vlib.write_ndjson(c.path("cases.ndjson"), rows)
    (binary,) = vlib.build_harness(["c32"])
    nrand = 0 if c.replay else (900 if c.quick else 30000)
    p = vlib.run_harness(binary, [c.path("cases.ndjson"), c.path("trace.ndjson"), c.seed, nrand], timeout=1800)
    if p.returncode != 0:
        raise vlib.ToolError("c32 harness failed: " + p.stderr[-2000:])
    cases = vlib.read_ndjson(c.path("trace.ndjson"))
    verdicts = {}
    step = 8000
    for lo in range(0, len(cases), step):
        part = c.path("trace_%d.ndjson" % (lo // step))
        vlib.write_ndjson(part, cases[lo:lo + step])
        v = vlib.run_tlc("lex/CursorTrace.tla", "lex/CursorTrace.cfg", env={"TRACE": part}, workers=8, timeout=3000,
                         keep_lines=60, xmx="8g")
        for t in v.tagged("VERDICT"):
            verdicts[t[1]] = (t[2], t[3])
        if lo == 0:
            c.add_tlc("V CursorTrace (first chunk)", v)
        else:
            os.remove(part)
    if len(verdicts) != len(cases):
        raise vlib.ToolError("V produced %d verdicts for %d cases" % (len(verdicts), len(cases)))
    stats = {}
    for cs in cases:
        vd, drift = verdicts[cs["id"]]
        if vd.startswith("tool:"):
            raise vlib.ToolError("harness/spec mirror problem %s on case %s" % (vd, json.dumps(cs)[:400]))
        key = cs["kind"] + ("/random" if cs.get("src") == "random" else "")
        stats[key] = stats.get(key, 0) + 1
        if cs["kind"] == "qw":
            k2 = "qw closure " + ("called" if cs["obs"].get("calls") else "not called")
            stats[k2] = stats.get(k2, 0) + 1
        c.count_case({k: v for k, v in cs.items() if k not in ("obs", "id")}, nontrivial=cs["kind"] != "shape")
        c.verdict(vd, cs, "%s (%s case, type %s)" % (vd, cs["kind"], cs["ty"]))
        if drift:
            c.drift("case %s (%s %s): the real encoding differs from the model's Encode" % (cs["id"], cs["kind"], cs["ty"]))
    if not c.replay:
        for k in ("rt", "dec", "qw", "shape", "rt/random", "dec/random", "qw closure called", "qw closure not called"):
            if not stats.get(k):
                raise vlib.ToolError("vacuity: no '%s' cases" % k)
    c.notes.append("cases by kind: " + json.dumps({k: stats[k] for k in sorted(stats)}))
    c.cov["traces_validated_against_impl"] = len(cases)
    c.cov["exhaustive"] = not c.replay
    c.cov["rule"] = ("G: TLC enumerates, as initial states of Cursor.tla, (rt) boundary values of all 18 scalar cursor types and 14 "
                     "OpaqueCursor<T> shapes (ints incl. 128-bit bounds, floats by class, options, sequences, tuples, maps, a struct, "
                     "an enum), (dec) cursor strings: encodings, out-of-range neighbours, malformed text, JSON trees of other shapes, "
                     "(qw) the full product {absent,-1,0,1,i32::MAX,i32::MIN}^2 x {absent, valid, garbage, valid-for-another-type}^2 "
                     "for the types %s and a reduced product for %s, plus every sample value as cursor and edge and 0-3 edges over both Connection variants for all 32 types; the harness "
                     "adds %d seeded random floats (all bit patterns), strings, chars and cursor strings; non-trivial = every case "
                     "except the shape mirror checks; distinct by case input" % (", ".join(full), ", ".join(light) or "none", nrand))
    for cs in [x for x in cases if x["kind"] == "qw"][:1] + [x for x in cases if x["kind"] == "rt" and verdicts[x["id"]][0] != "ok"][:2]:
        c.sample({"case": {k: v for k, v in cs.items() if k not in ("obs", "id")}, "obs": cs["obs"], "verdict": verdicts[cs["id"]][0]})
    c.assumptions += ["IEEE-754 bit fidelity of floats is computed by the harness (`ulps`) and only asserted by TLC; TLC sees float classes "
                      "and shortest decimal representations produced by Rust's Display (trusted)",
                      "base64 and JSON byte syntax are not modelled: the harness renders/reads them with the base64 crate and its own JSON "
                      "writer/reader and shows TLC JSON trees (trusted)",
                      "isize/usize are 64-bit (the harness target)",
                      "must-reject cursor strings are those that are not a decimal integer of the type / not true|false / not one scalar "
                      "value / not base64url of JSON of the type's shape; other spellings (\"+5\", \"007\", \"TRUE\", \"1e3\") may be "
                      "accepted with the denoted value or rejected",
                      "first and last together are not rejected (async-graphql documents no such rule)"]


vlib.main("C32", "exploration", body)
