#!/usr/bin/env python3
"""C22 -- look-ahead and selection views list every sub-field that will be resolved.
G: Gen_Doc.tla documents (bounded-exhaustive) + seeded random documents, crossed with variable forms and worlds
   (as C01); every resolver of the harness logs the two views it is given; the event log shows which sub-fields
   were subsequently resolved beneath it.
V: ViewTrace.tla -- resolved sub-fields are in both views; no view contains a field removed by @skip/@include."""
import json, os, random, sys
sys.path.insert(0, os.path.join(os.path.dirname(os.path.abspath(__file__)), "..", "lib"))
import vlib, gqlgen, execcheck


def body(c):
    ts = json.load(open(execcheck.SCHEMA))
    rng = random.Random(c.seed)
    n = 4 if c.quick else 5
    flats = execcheck.gen_docs(c, "Query", n, ["skip:$s", "include:$s"], "q")
    total = len(flats)
    cap = 2500 if c.quick else 40000
    exhaustive = len(flats) <= cap
    if not exhaustive:
        flats = rng.sample(flats, cap)
    docs = [gqlgen.tree_from_flat(json.loads(f), "query") for f in flats]
    # only documents with a composite field are interesting (a view is taken below a field)
    docs = [d for d in docs if any(s["k"] == "field" and s["sels"] for s in d["ops"][0]["sels"]) or d["frags"]]
    dg = gqlgen.DocGen(ts, random.Random(c.seed + 3), max_depth=4, max_items=4, p_dir=0.3)
    nrand = 1200 if c.quick else 20000
    while nrand > 0:
        d = dg.doc("Query", "query", budget=14)
        if not gqlgen.conflicting_keys(ts, d):
            docs.append(d)
            nrand -= 1
    worlds = [gqlgen.WorldGen(ts, random.Random(c.seed * 1000 + i), p_null=0.05).world() for i in range(2)]
    cases = []
    for doc in docs:
        forms = gqlgen.var_forms(doc)
        forms = rng.sample(forms, min(len(forms), 2 if c.quick else 6))
        for form in forms:
            d, supplied = execcheck.with_vars(doc, form)
            cases.append({"id": 0, "flavour": "static", "doc": d, "opIndex": 1, "vars": supplied, "world": rng.choice(worlds), "schedule": []})
    # sub-fields with arguments: literals, variables supplied / omitted with default / omitted without default,
    # directly and through fragments ("with its resolved arguments")
    I = {"k": "named", "n": "Int"}
    def iv(n): return {"k": "int", "v": str(n)}
    def var(n): return {"k": "var", "name": n}
    def fld(d, name, alias="", args=None): return {"d": d, "k": "field", "name": name, "alias": alias, "on": "", "dir": "", "args": args or []}
    def A(name, val): return {"name": name, "val": val}
    def obj(*kv): return {"k": "obj", "entries": [{"key": k, "val": v} for k, v in kv]}
    vdefs = [{"name": "x", "ty": I, "hasDefault": True, "default": iv(5)}, {"name": "y", "ty": I, "hasDefault": False, "default": iv(0)}]
    arg_docs = [
        [fld(1, "a"), fld(2, "arg", args=[A("x", var("x")), A("y", var("y"))]), fld(2, "n")],
        [fld(1, "a"), fld(2, "arg", args=[A("x", iv(3))]), fld(2, "arg", "k", args=[A("y", var("y"))])],
        [fld(1, "a"), {"d": 2, "k": "spread", "name": "", "alias": "", "on": "A", "dir": ""}, fld(3, "arg", args=[A("x", var("x"))]), fld(2, "id")],
        [fld(1, "node"), {"d": 2, "k": "inline", "name": "", "alias": "", "on": "A", "dir": ""}, fld(3, "self"), fld(4, "arg", args=[A("y", var("x"))]), fld(4, "arg", "z", args=[A("x", iv(1)), A("y", iv(2))])],
        [fld(1, "ann"), fld(2, "selfNN"), fld(3, "arg", "p", args=[A("x", var("y"))]), fld(3, "n")],
        # input-object literals containing variables (supplied / default / omitted: the entry is absent)
        [fld(1, "a"), fld(2, "arg", args=[A("o", obj(("min", var("y")), ("max", iv(3))))]), fld(2, "n")],
        [fld(1, "a"), fld(2, "arg", args=[A("o", obj(("min", var("x"))))]), fld(2, "arg", "k", args=[A("x", iv(1)), A("o", obj(("max", var("y"))))])],
        [fld(1, "node"), {"d": 2, "k": "inline", "name": "", "alias": "", "on": "A", "dir": ""}, fld(3, "self"), fld(4, "arg", args=[A("o", obj(("max", var("x")), ("min", var("y")))), A("y", var("y"))])],
    ]
    supplies = [[], [{"name": "x", "val": iv(1)}], [{"name": "y", "val": iv(2)}], [{"name": "x", "val": iv(1)}, {"name": "y", "val": iv(2)}]]
    world0 = gqlgen.WorldGen(ts, random.Random(c.seed + 99), p_null=0.0).world()
    for fl in arg_docs:
        for sup in supplies:
            d = gqlgen.tree_from_flat(fl, "query")
            d["ops"][0]["vars"] = vdefs
            d["ops"][0]["name"] = "Q"
            # both variables must be used somewhere (NoUnusedVariables): add a harmless use on the root
            d["ops"][0]["sels"].append({"k": "field", "name": "a", "alias": "use", "args": [], "dirs": [], "nid": 9990, "line": 0, "col": 0,
                                        "sels": [{"k": "field", "name": "arg", "alias": "", "args": [A("x", var("x")), A("y", var("y"))], "dirs": [], "sels": [], "nid": 9991, "line": 0, "col": 0}]})
            cases.append({"id": 0, "flavour": "static", "doc": d, "opIndex": 1, "vars": sup, "world": world0, "schedule": [], "ext": False})
    for i, x in enumerate(cases):
        x["id"] = i + 1
        x.setdefault("ext", i % 3 == 2)      # pass-through extension registered (extension-aware executor paths)
        x.setdefault("stream", i % 4 == 1)   # executed through Schema::execute_stream (first item) instead of execute
    vlib.write_ndjson(c.path("cases.ndjson"), cases)
    (binary,) = vlib.build_harness(["cexec"])
    p = vlib.run_harness(binary, [c.path("cases.ndjson"), c.path("trace.ndjson"), execcheck.SCHEMA], timeout=3000)
    if p.returncode != 0:
        raise vlib.ToolError("cexec failed: " + p.stderr[-2000:])
    v = vlib.run_tlc_sliced("gql/ViewTrace.tla", "gql/ViewTrace.cfg", c.path("trace.ndjson"), env={"SCHEMA": execcheck.SCHEMA},
                            slices=8, timeout=6000, keep_lines=50, xmx="3g")
    c.add_tlc("V ViewTrace", v)
    verdicts = {t[1]: t[2] for t in v.tagged("VERDICT")}
    obs = vlib.read_ndjson(c.path("trace.ndjson"))
    if len(verdicts) != len(obs):
        raise vlib.ToolError("V produced %d verdicts for %d cases" % (len(verdicts), len(obs)))
    nviews = 0
    for o in obs:
        views = [e for e in o["obs"]["log"] if e["ev"] == "start" and (e["view"]["sel"] or e["view"]["la"])]
        nviews += len(views)
        pruned = "@skip" in o["text"] or "@include" in o["text"]
        c.count_case({"t": o["text"], "v": o["vars"], "w": vlib.chash(o["world"])}, nontrivial=bool(views))
        slim = {"text": o["text"], "vars": o["vars"],
                "log": [{k: e[k] for k in ("seq", "ev", "field", "path", "view") if k in e} for e in o["obs"]["log"] if e["ev"] == "start"],
                "problem": o["obs"]["problem"]}
        c.verdict(verdicts[o["id"]], slim, "a view misses a resolved sub-field or lists a pruned one")
    c.cov["views_judged"] = nviews
    c.cov["traces_validated_against_impl"] = len(obs)
    c.cov["exhaustive"] = exhaustive
    c.cov["rule"] = ("every TLC-generated query with <=%d nodes that has a composite field (%d generated%s) + seeded random documents with nested "
                     "fragments and @skip/@include on 30%% of the nodes, x variable supply forms (default used / overridden / required); "
                     "non-trivial = at least one resolver received a non-empty view; distinct by (text, variables, world)"
                     % (n, total, "" if exhaustive else ", seeded sample"))
    for o in [x for x in obs if "@" in x["text"]][:2]:
        c.sample({"text": o["text"], "vars": o["vars"], "views": [[e["path"], e["view"]] for e in o["obs"]["log"] if e["ev"] == "start" and e["view"]["sel"]][:3]})
    c.assumptions += ["arguments are exercised on one field with two Int arguments (literals, variables supplied / defaulted / omitted)",
                      "a view may list fields under a type condition that does not match the runtime type (superset by type)"]


vlib.main("C22", "model_checking", body)
