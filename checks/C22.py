#!/usr/bin/env python3
"""C22 -- look-ahead and selection views list every sub-field that will be resolved.
G: Gen_Doc.tla documents (bounded-exhaustive) + seeded random documents, crossed with variable forms and worlds
   (as C01); every resolver of the harness logs the two views it is given; the event log shows which sub-fields
   were subsequently resolved beneath it.
V: ViewTrace.tla -- resolved sub-fields are in both views; no view contains a field removed by @skip/@include."""
import json, os, random, sys
sys.path.insert(0, os.path.join(os.path.dirname(os.path.abspath(__file__)), "..", "lib"))
import vlib, gqlgen, execcheck


def body(c):
    ts = json.load(open(execcheck.SCHEMA))
    rng = random.Random(c.seed)
    n = 4 if c.quick else 5
    flats = execcheck.gen_docs(c, "Query", n, ["skip:$s", "include:$s"], "q")
    total = len(flats)
    cap = 2500 if c.quick else 40000
    exhaustive = len(flats) <= cap
    if not exhaustive:
        flats = rng.sample(flats, cap)
    docs = [gqlgen.tree_from_flat(json.loads(f), "query") for f in flats]
    # only documents with a composite field are interesting (a view is taken below a field)
    docs = [d for d in docs if any(s["k"] == "field" and s["sels"] for s in d["ops"][0]["sels"]) or d["frags"]]
    dg = gqlgen.DocGen(ts, random.Random(c.seed + 3), max_depth=4, max_items=4, p_dir=0.3)
    nrand = 1200 if c.quick else 20000
    while nrand > 0:
        d = dg.doc("Query", "query", budget=14)
        if not gqlgen.conflicting_keys(ts, d):
            docs.append(d)
            nrand -= 1
    worlds = [gqlgen.WorldGen(ts, random.Random(c.seed * 1000 + i), p_null=0.05).world() for i in range(2)]
    cases = []
    for doc in docs:
        forms = gqlgen.var_forms(doc)
        forms = rng.sample(forms, min(len(forms), 2 if c.quick else 6))
        for form in forms:
            d, supplied = execcheck.with_vars(doc, form)
            cases.append({"id": 0, "flavour": "static", "doc": d, "opIndex": 1, "vars": supplied, "world": rng.choice(worlds), "schedule": []})
    for i, x in enumerate(cases):
        x["id"] = i + 1
    vlib.write_ndjson(c.path("cases.ndjson"), cases)
    (binary,) = vlib.build_harness(["cexec"])
    p = vlib.run_harness(binary, [c.path("cases.ndjson"), c.path("trace.ndjson"), execcheck.SCHEMA], timeout=3000)
    if p.returncode != 0:
        raise vlib.ToolError("cexec failed: " + p.stderr[-2000:])
    v = vlib.run_tlc_sliced("gql/ViewTrace.tla", "gql/ViewTrace.cfg", c.path("trace.ndjson"), env={"SCHEMA": execcheck.SCHEMA},
                            slices=8, timeout=6000, keep_lines=50, xmx="3g")
    c.add_tlc("V ViewTrace", v)
    verdicts = {t[1]: t[2] for t in v.tagged("VERDICT")}
    obs = vlib.read_ndjson(c.path("trace.ndjson"))
    if len(verdicts) != len(obs):
        raise vlib.ToolError("V produced %d verdicts for %d cases" % (len(verdicts), len(obs)))
    nviews = 0
    for o in obs:
        views = [e for e in o["obs"]["log"] if e["ev"] == "start" and (e["view"]["sel"] or e["view"]["la"])]
        nviews += len(views)
        pruned = "@skip" in o["text"] or "@include" in o["text"]
        c.count_case({"t": o["text"], "v": o["vars"], "w": vlib.chash(o["world"])}, nontrivial=bool(views))
        slim = {"text": o["text"], "vars": o["vars"],
                "log": [{k: e[k] for k in ("seq", "ev", "field", "path", "view") if k in e} for e in o["obs"]["log"] if e["ev"] == "start"],
                "problem": o["obs"]["problem"]}
        c.verdict(verdicts[o["id"]], slim, "a view misses a resolved sub-field or lists a pruned one")
    c.cov["views_judged"] = nviews
    c.cov["traces_validated_against_impl"] = len(obs)
    c.cov["exhaustive"] = exhaustive
    c.cov["rule"] = ("every TLC-generated query with <=%d nodes that has a composite field (%d generated%s) + seeded random documents with nested "
                     "fragments and @skip/@include on 30%% of the nodes, x variable supply forms (default used / overridden / required); "
                     "non-trivial = at least one resolver received a non-empty view; distinct by (text, variables, world)"
                     % (n, total, "" if exhaustive else ", seeded sample"))
    for o in [x for x in obs if "@" in x["text"]][:2]:
        c.sample({"text": o["text"], "vars": o["vars"], "views": [[e["path"], e["view"]] for e in o["obs"]["log"] if e["ev"] == "start" and e["view"]["sel"]][:3]})
    c.assumptions += ["the family's fields take no arguments, so 'with its resolved arguments' is not exercised",
                      "a view may list fields under a type condition that does not match the runtime type (superset by type)"]


vlib.main("C22", "model_checking", body)
