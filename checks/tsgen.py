"""Type-system helpers shared by the C33 and C17 drivers (appendix-A JSON format)."""
import json

def norm_ts(ts):
    """TLC's ToJson prints an empty function as []: turn the maps of appendix A back into objects."""
    def m(x):
        return {} if isinstance(x, list) else x
    ts["types"] = m(ts["types"])
    for t in ts["types"].values():
        t["fields"] = m(t["fields"])
        t["inputFields"] = m(t["inputFields"])
        for f in t["fields"].values():
            f["args"] = m(f["args"])
        t["implements"] = sorted(t["implements"])
        t["members"] = sorted(t["members"])
    return ts


def all_names(ts):
    for n, t in ts["types"].items():
        yield n
        for f, fd in t["fields"].items():
            yield f
            yield from fd["args"]
        yield from t["inputFields"]


# ---- seeded random type systems (thorough) -------------------------------------------------------------
def named(n): return {"k": "named", "n": n}
def nn(t): return t if t["k"] == "nn" else {"k": "nn", "of": t}
def lst(t): return {"k": "list", "of": t}
NONE = {"k": "none"}


def wrap(rng, t):
    r = rng.random()
    if r < 0.35: return t
    if r < 0.6: return nn(t)
    if r < 0.75: return lst(t)
    if r < 0.85: return lst(nn(t))
    if r < 0.93: return nn(lst(t))
    return nn(lst(nn(t)))


def new_type(kind):
    return {"kind": kind, "fields": {}, "implements": [], "members": [], "values": ["V"] if kind == "ENUM" else [],
            "inputFields": {}, "oneOf": False}


def random_ts(rng):
    """A mostly valid type system with <= 12 user types, then 0-2 random edits.  Validity is decided by TLC."""
    types = {}
    objs = ["O%d" % i for i in range(1, rng.randint(1, 3) + 1)]
    itfs = ["I%d" % i for i in range(1, rng.randint(0, 3) + 1)]
    unis = ["U%d" % i for i in range(1, rng.randint(0, 1) + 1)]
    enums = ["E%d" % i for i in range(1, rng.randint(0, 1) + 1)]
    inputs = ["X%d" % i for i in range(1, rng.randint(0, 2) + 1)]
    scalars = ["S1"] if rng.random() < 0.3 else []
    out_names = ["Int", "String"] + objs + itfs + unis + enums + scalars
    in_names = ["Int", "Boolean"] + enums + inputs + scalars

    def args(rng):
        a = {}
        for an in rng.sample(["a", "b"], rng.randint(0, 2)) if rng.random() < 0.5 else []:
            ty = wrap(rng, named(rng.choice(in_names)))
            a[an] = {"ty": ty, "default": {"k": "int", "v": "1"} if ty in (named("Int"), nn(named("Int"))) and rng.random() < 0.3 else NONE}
        return a

    for e in enums: types[e] = new_type("ENUM")
    for s in scalars: types[s] = new_type("SCALAR")
    for k, x in enumerate(inputs):
        t = new_type("INPUT_OBJECT")
        for xn in rng.sample(["x", "y"], rng.randint(1, 2)):
            base = rng.choice(in_names)
            ty = wrap(rng, named(base))
            if base in inputs and inputs.index(base) >= k and ty == nn(named(base)):
                ty = named(base)      # required references only point downwards: no required cycle
            t["inputFields"][xn] = {"ty": ty, "default": NONE}
        types[x] = t
    for k, i in enumerate(itfs):
        t = new_type("INTERFACE")
        for j in itfs[:k]:
            if rng.random() < 0.4:
                for jj in [j] + types[j]["implements"]:
                    if jj not in t["implements"]:
                        t["implements"].append(jj)
                        for fn, fd in types[jj]["fields"].items():
                            t["fields"].setdefault(fn, json.loads(json.dumps(fd)))
        for fn in rng.sample(["f%d" % k, "g%d" % k, "h%d" % k], rng.randint(1, 2)):
            if fn not in t["fields"]:
                t["fields"][fn] = {"ty": wrap(rng, named(rng.choice(out_names))), "args": args(rng)}
        types[i] = t
    for o in objs:
        t = new_type("OBJECT")
        for i in itfs:
            if rng.random() < 0.5:
                for ii in [i] + types[i]["implements"]:
                    if ii not in t["implements"]:
                        t["implements"].append(ii)
                        for fn, fd in types[ii]["fields"].items():
                            t["fields"].setdefault(fn, json.loads(json.dumps(fd)))
        for fn in rng.sample(["p", "q", "r", "s"], rng.randint(1, 2)):
            if fn not in t["fields"]:
                t["fields"][fn] = {"ty": wrap(rng, named(rng.choice(out_names))), "args": args(rng)}
        types[o] = t
    for u in unis:
        t = new_type("UNION")
        t["members"] = rng.sample(objs, rng.randint(1, len(objs)))
        types[u] = t
    # covariant variations of implemented fields (valid by construction)
    for n in objs + itfs:
        t = types[n]
        for i in t["implements"]:
            for fn, ifd in types[i]["fields"].items():
                fd = t["fields"][fn]
                r = rng.random()
                if r < 0.2:
                    fd["ty"] = nn(fd["ty"])
                elif r < 0.4:
                    base = ifd["ty"]
                    while base["k"] != "named": base = base["of"]
                    subs = [o for o in objs + itfs if base["n"] in types[o]["implements"]] + \
                           (types[base["n"]]["members"] if base["n"] in unis else [])
                    if subs and n in objs:
                        def rebase(ty, b): return named(b) if ty["k"] == "named" else {"k": ty["k"], "of": rebase(ty["of"], b)}
                        fd["ty"] = rebase(ifd["ty"], rng.choice(subs))
                elif r < 0.5 and "c" not in fd["args"]:
                    fd["args"]["c"] = {"ty": named("Int"), "default": NONE}
    ts = {"types": types, "query": objs[0], "mutation": objs[1] if len(objs) > 1 and rng.random() < 0.4 else "", "subscription": ""}
    if rng.random() < 0.25:
        sub = new_type("OBJECT")
        sub["fields"]["s"] = {"ty": named("Int"), "args": {}}
        types["Sub"] = sub
        ts["subscription"] = "Sub"
    # random edits
    composite = objs + itfs
    for _ in range(rng.choice([0, 1, 1, 1, 2])):
        n = rng.choice(composite)
        t = types[n]
        fn = rng.choice(sorted(t["fields"])) if t["fields"] else None
        e = rng.randint(0, 17)
        if e == 0 and fn: del t["fields"][fn]
        elif e == 1 and fn: t["fields"][fn]["ty"] = nn(t["fields"][fn]["ty"])
        elif e == 2 and fn and t["fields"][fn]["ty"]["k"] == "nn": t["fields"][fn]["ty"] = t["fields"][fn]["ty"]["of"]
        elif e == 3 and fn: t["fields"][fn]["ty"] = named("Zz")
        elif e == 4 and fn and inputs: t["fields"][fn]["ty"] = named(rng.choice(inputs))
        elif e == 5 and fn: t["fields"][fn]["args"]["a"] = {"ty": named(rng.choice(objs)), "default": NONE}
        elif e == 6 and fn: t["fields"][fn]["args"]["d"] = {"ty": nn(named("Int")), "default": rng.choice([NONE, {"k": "int", "v": "1"}])}
        elif e == 7 and fn and t["fields"][fn]["args"]: del t["fields"][fn]["args"][rng.choice(sorted(t["fields"][fn]["args"]))]
        elif e == 8 and fn and t["fields"][fn]["args"]:
            a = t["fields"][fn]["args"][rng.choice(sorted(t["fields"][fn]["args"]))]
            a["ty"] = a["ty"]["of"] if a["ty"]["k"] == "nn" else nn(a["ty"])
        elif e == 9 and unis: types[rng.choice(unis)]["members"].append(rng.choice(itfs + enums + inputs + ["Int", "Zz"]))
        elif e == 10: t["fields"] = {}
        elif e == 11: t["fields"]["__f"] = {"ty": named("Int"), "args": {}}
        elif e == 12 and inputs:
            x = rng.choice(inputs)
            types[x]["inputFields"]["y"] = {"ty": nn(named(rng.choice(inputs))), "default": NONE}
        elif e == 13 and t["implements"]: t["implements"].remove(rng.choice(t["implements"]))
        elif e == 14: ts[rng.choice(["query", "mutation"])] = rng.choice(itfs + unis + enums + inputs + ["Zz"])
        elif e == 15 and inputs: types[rng.choice(inputs)]["inputFields"] = {}
        elif e == 16 and itfs: t["implements"].append(rng.choice([i for i in itfs + ["Zz"] + objs if i not in t["implements"]] or ["Zz"]))
        elif e == 17 and fn: t["fields"][fn]["ty"] = lst(t["fields"][fn]["ty"])
    for t in types.values():
        t["implements"] = sorted(set(t["implements"]))
        t["members"] = sorted(set(t["members"]))
    return ts


