#!/usr/bin/env python3
"""C26 -- multipart/mixed subscription bodies are well framed.
M: MultipartMixed.tla (coroutine model) -- framing invariants + termination, all interleavings.
G: every behaviour of the model up to the bounds as a feed/end/tick/poll schedule.
harness: drives the real create_multipart_mixed_stream with hand-fed input, hand-fired Timer, hand polling.
V: MultipartMixedTrace.tla -- verdict by the property monitor; drift by replaying the model's actions."""
import json, os, random, sys
sys.path.insert(0, os.path.join(os.path.dirname(os.path.abspath(__file__)), "..", "lib"))
import vlib


def body(c):
    m = vlib.run_tlc("conc/MultipartMixed.tla", "conc/MC_MultipartMixed.cfg", workers=8, coverage=True, timeout=900)
    if m.invariant_violated:
        raise vlib.ToolError("design-level failure in MultipartMixed.tla: " + str(m.invariant_violated))
    for act in ("Feed", "End", "Tick", "TakeResponse", "TakeTimer", "TakeEnd", "WriteBody", "WriteCrlf", "WriteHb"):
        if m.coverage.get("MultipartMixed!" + act, (0, 0))[0] == 0:
            raise vlib.ToolError("vacuity: action %s never taken in mode M" % act)
    c.add_tlc("M MultipartMixed (3 responses, 3 ticks, invariants + liveness)", m)
    nr, nt = (2, 2) if c.quick else (3, 2)
    cfg = c.path("Gen.cfg")
    with open(cfg, "w") as f:
        f.write("CONSTANT MaxResp = %d\nCONSTANT MaxTicks = %d\nINIT GInit\nNEXT GNext\nINVARIANT Emit\n" % (nr, nt))
    g = vlib.run_tlc("conc/Gen_MultipartMixed.tla", cfg, workers=8, timeout=1800, keep_lines=50, xmx="8g")
    c.add_tlc("G schedules (%d responses, %d ticks)" % (nr, nt), g)
    scheds = sorted(set(t[1] for t in g.tagged("REPLAY")))
    scheds = [json.loads(s) for s in scheds]
    exhaustive = True
    cap = 25000 if c.quick else 150000
    rng = random.Random(c.seed)
    if len(scheds) > cap:
        scheds = rng.sample(scheds, cap)
        exhaustive = False
    # seeded random long schedules beyond the exhaustive bound
    for _ in range(300 if c.quick else 3000):
        n = rng.randint(5, 60)
        s, ended = [], False
        for _ in range(n):
            x = rng.choice(["feed", "feederr", "tick", "poll", "poll", "poll", "poll", "end"])
            if x == "end":
                if ended or rng.random() < 0.8:
                    continue
                ended = True
            if x in ("feed", "feederr") and ended:
                continue
            if x == "tick" and s and "tick" in s[-3:]:
                continue  # model: one armed timer fires at most once before being consumed
            s.append(x)
        scheds.append(s)
    # bursts: many (or large) responses available in the same poll, beyond the model-checking bound
    for n, big in ((5, False), (40, False), (130, False), (4, True), (12, True)):
        for pre in ([], ["poll"], ["tick", "poll", "poll"]):
            scheds.append(pre + (["feedbig"] if big else ["feed"]) * n + ["poll"] * (3 * n + 2) + ["end", "poll", "poll"])
            scheds.append(pre + (["feedbig"] if big else ["feed"]) * n + ["tick"] + ["poll"] * (3 * n + 6) + ["end", "poll"])
    # errors-only responses (data null) in the middle of a stream: still one part each, the stream goes on
    for pre in ([], ["feed", "poll", "poll", "poll"]):
        scheds.append(pre + ["feederr"] + ["poll"] * 4 + ["feed"] + ["poll"] * 4 + ["feederr", "feed"] + ["poll"] * 8 + ["end", "poll", "poll"])
        scheds.append(pre + ["feederr", "feederr", "tick"] + ["poll"] * 10 + ["feed"] + ["poll"] * 4 + ["end", "poll"])
    vlib.write_ndjson(c.path("schedules.ndjson"), scheds)
    (binary,) = vlib.build_harness(["c26"])
    p = vlib.run_harness(binary, [c.path("schedules.ndjson"), c.path("trace.ndjson"), c.seed], timeout=1800)
    if p.returncode != 0:
        raise vlib.ToolError("c26 harness failed: " + p.stderr[-2000:])
    traces = vlib.read_ndjson(c.path("trace.ndjson"))
    v = vlib.run_tlc("conc/MultipartMixedTrace.tla", "conc/MultipartMixedTrace.cfg", env={"TRACE": c.path("trace.ndjson")},
                     workers=1, timeout=3000, keep_lines=50, xmx="8g")
    verdicts = {t[1]: (t[2], t[3]) for t in v.tagged("VERDICT")}
    if len(verdicts) != len(traces):
        raise vlib.ToolError("V produced %d verdicts for %d traces" % (len(verdicts), len(traces)))
    for tr in traces:
        outs = [e["got"] for e in tr["events"] if e["ev"] == "poll"]
        c.count_case(tr["events"], nontrivial=("BODY" in outs or "HB" in outs))
        vd, at = verdicts[tr["id"]]
        c.verdict(vd, tr, "framing monitor rejected event %s" % at)
    c.cov["traces_validated_against_impl"] = len(traces)
    # drift run (implementation-shaped model); never a verdict
    d = vlib.run_tlc("conc/MultipartMixedTrace.tla", "conc/MultipartMixedDrift.cfg", env={"TRACE": c.path("trace.ndjson")},
                     workers=1, timeout=3000, keep_lines=50, xmx="8g", deque=True)
    for t in d.tagged("PROGRESS"):
        if t[2] != t[3]:
            c.drift("trace %s: coroutine model matched %s of %s events" % (t[1], t[2], t[3]))
    c.add_tlc("V drift replay", d)
    c.cov["exhaustive"] = exhaustive
    c.cov["rule"] = ("G: every behaviour of the coroutine model with <=%d responses and <=%d timer firings as a feed/end/tick/poll "
                     "schedule (TLC BFS with history variable, %s), plus seeded random schedules of 5-60 commands; each executed against "
                     "the real stream with random JSON payloads containing boundary look-alikes; non-trivial = at least one body or "
                     "heartbeat part was produced; distinct by recorded event list" % (nr, nt, "all replayed" if exhaustive else "sampled"))
    for tr in traces[:1] + traces[-1:]:
        c.sample({"sched": tr["sched"], "events": [(e["ev"] + ":" + e["got"] + (":%d" % e["i"] if e["i"] else "")) for e in tr["events"]]})
    c.assumptions += ["multer (independent multipart reader) and serde_json are trusted for the byte-level check",
                      "chunk boundaries are classified by exact byte comparison in the harness"]


vlib.main("C26", "model_checking", body)
