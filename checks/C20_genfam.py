#!/usr/bin/env python3
"""Generates the C20 schema family: harness/vh/src/bin/c20_profiles.inc (macro invocations) and schemas/c20.json
(mirror with hints) from ONE table, so that the compiled annotations and the TLA+ constant cannot diverge (the harness
additionally compares the structure of the mirror with the live registry at start-up and reports hints that the registry
holds differently -- those are not tool errors: the registry is built by the code under test).
Hints of profiles P2.. are drawn with a fixed seed.
MergedObject: M12 = MergedObject(MP, MQ), M21 = MergedObject(MQ, MP), and the Query root itself is a MergedObject of
QueryCore and QueryExtra (order per profile).  The mirror lists the members' object-level hints in `merged`; the spec
takes Merge of them as the object-level hint of the merged type.
Generic SimpleObject: `Boxed<T>` with `concrete(name = "IntBox", params(i32)), concrete(name = "StrBox", params(String))`
and ONE object-level cache_control on the generic struct: both concrete types carry it (and the field-level hints of the
struct's fields); reached through QueryExtra.ibox (IntBox) and QueryExtra.sbox ([StrBox!]!)."""
import json, random

DOMAIN = [(pub, age) for pub in (True, False) for age in (-1, 0, 1, 2, 60)]
def N(n): return {"k": "named", "n": n}
def NN(t): return {"k": "nn", "of": t}
def L(t): return {"k": "list", "of": t}

# slots of the A/B/C family: (type, field or None) ; order fixed = order of macro parameters
SLOTS = [("Query", None), ("Query", "a"), ("Query", "b"), ("Query", "c"), ("Query", "node"), ("Query", "nodes"), ("Query", "u"), ("Query", "us"), ("Query", "n"),
         ("A", None), ("A", "tag"), ("A", "x"), ("A", "peer"), ("A", "buddy"),
         ("B", None), ("B", "tag"), ("B", "z"),
         ("C", None), ("C", "tag"), ("C", "v")]
# slots of the MergedObject members (appended macro parameters)
MSLOTS = [("QueryExtra", None), ("QueryExtra", "m12"), ("QueryExtra", "m21"), ("QueryExtra", "extra"),
          ("MP", None), ("MP", "mp1"), ("MP", "mp2"), ("MQ", None), ("MQ", "mq1")]
# slots of the generic SimpleObject Boxed<T> (appended macro parameters): the two root fields, the struct, its fields
BSLOTS = [("QueryExtra", "ibox"), ("QueryExtra", "sbox"), ("Box", None), ("Box", "val"), ("Box", "fresh")]
BOXES = {"IntBox": "Int", "StrBox": "String"}
MFIELDS = {"QueryExtra": {"m12": N("M12"), "m21": N("M21"), "extra": NN(N("Int")), "ibox": N("IntBox"), "sbox": NN(L(NN(N("StrBox"))))},
           "MP": {"mp1": NN(N("Int")), "mp2": NN(N("Int"))}, "MQ": {"mq1": NN(N("Int"))}}
ROOT_ORDER = {"P1": ["QueryCore", "QueryExtra"], "P2": ["QueryExtra", "QueryCore"], "P3": ["QueryCore", "QueryExtra"]}
FIELDS = {
 "Query": {"a": N("A"), "b": N("B"), "c": N("C"), "node": N("Node"), "nodes": NN(L(NN(N("Node")))), "u": N("U"), "us": NN(L(NN(N("U")))), "n": NN(N("Int"))},
 "A": {"id": NN(N("ID")), "tag": NN(N("Int")), "x": NN(N("Int")), "peer": N("Node"), "buddy": N("B")},
 "B": {"id": NN(N("ID")), "tag": NN(N("Int")), "z": NN(N("Int"))},
 "C": {"id": NN(N("ID")), "tag": NN(N("Int")), "v": NN(N("Int"))},
 "Node": {"id": NN(N("ID")), "tag": NN(N("Int"))},
}
DEFAULT = (True, 0)

def attr(p):
    pub, age = p
    parts = ["no_cache" if age == -1 else "max_age = %d" % age]
    if not pub:
        parts.append("private")
    return "cache_control(%s)" % ", ".join(parts)

def hint(p): return {"public": p[0], "maxAge": p[1]}

def merge(ps):
    pub, age = True, 0
    for p, a in ps:
        pub = pub and p
        age = -1 if (age == -1 or a == -1) else (a if age == 0 else (age if a == 0 else min(age, a)))
    return (pub, age)

def F(ty, h): return {"ty": ty, "outer": False, "guard": False, "gen": True, "hint": hint(h)}

def family_ts(assign, name="P1"):
    types = {}
    for t, fs in FIELDS.items():
        kind = "INTERFACE" if t == "Node" else "OBJECT"
        fields = {}
        for f, ty in fs.items():
            fields[f] = {"ty": ty, "outer": False, "guard": False, "gen": True, "hint": hint(assign.get((t, f), DEFAULT))}
        types[t] = {"kind": kind, "fields": fields, "implements": (["Node"] if t in ("A", "B", "C") else []), "members": [], "values": [],
                    "hint": hint(assign.get((t, None), DEFAULT)), "merged": []}
    types["U"] = {"kind": "UNION", "fields": {}, "implements": [], "members": ["A", "B", "C"], "values": [], "hint": hint(DEFAULT), "merged": []}
    # MergedObject types: fields of all members, `merged` = the members' object-level hints in declaration order
    g = lambda t, f=None: assign.get((t, f), DEFAULT)
    mfields = lambda members: {f: F(ty, g(m, f)) for m in members for f, ty in MFIELDS[m].items()}
    for tname, members in (("M12", ["MP", "MQ"]), ("M21", ["MQ", "MP"])):
        types[tname] = {"kind": "OBJECT", "fields": mfields(members), "implements": [], "members": [], "values": [],
                        "hint": hint(merge([g(m) for m in members])), "merged": [hint(g(m)) for m in members]}
    # concrete instantiations of the generic SimpleObject: each carries the struct's object-level and field-level hints
    for tname, scalar in BOXES.items():
        types[tname] = {"kind": "OBJECT", "fields": {"val": F(NN(N(scalar)), g("Box", "val")), "fresh": F(NN(N("Int")), g("Box", "fresh"))},
                        "implements": [], "members": [], "values": [], "hint": hint(g("Box")), "merged": []}
    core = ("Query", None)
    order = ROOT_ORDER[name]
    root_members = [g("Query") if m == "QueryCore" else g("QueryExtra") for m in order]
    types["Query"]["fields"].update(mfields(["QueryExtra"]))
    types["Query"]["hint"] = hint(merge(root_members))
    types["Query"]["merged"] = [hint(h) for h in root_members]
    return {"types": types, "query": "Query", "mutation": "", "subscription": "",
            "objects": {"root": "Query", "a1": "A", "a2": "A", "b1": "B", "c1": "C", "m1": "M12", "m2": "M21", "x1": "IntBox", "x2": "StrBox", "x3": "StrBox"}}

profiles = {}
# P1: hand-made: long-lived public root data, a private object (B), a no-cache object (C), a short-lived field
profiles["P1"] = {("Query", None): (True, 120), ("Query", "n"): (True, 60), ("A", None): (True, 30), ("A", "x"): (True, 10), ("A", "tag"): (True, 20),
                  ("B", None): (False, 0), ("B", "z"): (True, 5), ("B", "tag"): (False, 40), ("C", None): (True, -1), ("C", "tag"): (True, 7), ("Query", "a"): (True, 90),
                  # merged members: the later member of M12 (MQ) is private and shorter-lived, the later root member is shorter-lived
                  ("QueryExtra", None): (True, 45), ("QueryExtra", "extra"): (True, 100), ("MP", None): (True, 50), ("MP", "mp1"): (True, 70),
                  ("MQ", None): (False, 20), ("MQ", "mq1"): (True, 80),
                  # generic SimpleObject: private and short-lived as a type, one still shorter-lived field
                  ("Box", None): (False, 15), ("Box", "fresh"): (True, 3), ("QueryExtra", "sbox"): (True, 25)}
rng = random.Random(20260922)
more = [(True, 5), (True, 10), (True, 30), (False, 30), (True, 300)]
for name in ("P2", "P3"):
    a = {}
    for s in SLOTS:
        if rng.random() < 0.6:
            a[s] = rng.choice(DOMAIN + more)
    profiles[name] = a
rng2 = random.Random(20260923)      # the MergedObject slots are drawn separately so that the older slots keep their hints
for name in ("P2", "P3"):
    for sl in MSLOTS:
        if sl[1] is None or rng2.random() < 0.5:
            profiles[name][sl] = rng2.choice(DOMAIN + more)
    while profiles[name][("MP", None)] == profiles[name][("MQ", None)]:
        profiles[name][("MQ", None)] = rng2.choice(DOMAIN + more)

rng3 = random.Random(20260924)      # the generic SimpleObject slots, again drawn separately; the struct's own hint is never the default
for name in ("P2", "P3"):
    for sl in BSLOTS:
        if sl[1] is None or rng3.random() < 0.5:
            profiles[name][sl] = rng3.choice([d for d in DOMAIN + more if d != DEFAULT])
if profiles["P2"][("Box", None)][0] and profiles["P3"][("Box", None)][0]:
    profiles["P3"][("Box", None)] = (False, profiles["P3"][("Box", None)][1])     # one of the drawn profiles has a private box

out = {"_doc": "Mirror of the C20 schema family (generated by checks/C20_genfam.py together with harness/vh/src/bin/c20_profiles.inc; the harness compares its structure with the live registry at start-up and reports differing hints). hint = [public, maxAge] of the object type / field; -1 = no-cache, 0 = unset. merged = object-level hints of the members of a MergedObject type in declaration order (the spec takes their Merge).",
       "domain": [hint(p) for p in DOMAIN], "profiles": {}}
inc = ["// generated by /verif/checks/C20_genfam.py -- do not edit by hand\n"]
for name, a in profiles.items():
    out["profiles"][name] = family_ts(a, name)
    inc.append("family!(%s; %s; [%s]);\n" % (name.lower(), "; ".join("[%s]" % attr(a.get(s, DEFAULT)) for s in SLOTS + MSLOTS + BSLOTS), ", ".join(ROOT_ORDER[name])))
# the law profile: one leaf field per policy of the domain on a plain Query
lf = {}
law_fields = []
for (pub, age) in DOMAIN:
    fname = "%s%s" % ("p" if pub else "q", "n" if age == -1 else str(age))     # p60 = public 60, qn = private no-cache
    lf[fname] = {"ty": NN(N("Int")), "outer": False, "guard": False, "gen": True, "hint": hint((pub, age))}
    law_fields.append((fname, attr((pub, age))))
out["profiles"]["L"] = {"types": {"Query": {"kind": "OBJECT", "fields": lf, "implements": [], "members": [], "values": [], "hint": hint(DEFAULT), "merged": []}},
                        "query": "Query", "mutation": "", "subscription": "", "objects": {"root": "Query"}}
inc.append("laws!(%s);\n" % ", ".join("%s [%s]" % (f, a) for f, a in law_fields))
json.dump(out, open("/verif/schemas/c20.json", "w"), indent=1)
open("/verif/harness/vh/src/bin/c20_profiles.inc", "w").write("".join(inc))
print("".join(inc))
