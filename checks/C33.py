#!/usr/bin/env python3
"""C33 -- dynamic schemas build exactly when the type system is valid.
M: Gen_SchemaCheck.tla builder machine over a small universe; the reference operators of SchemaCheck.tla are
   checked against each other on every reachable type system (spec algorithm = switch family, code transcription =
   switch family, covariance is a pre-order where the transitive-implements rule holds, the two readings of the
   input-object cycle rule agree, deviation switches only touch their own clause).
G: the builder machine enumerates every type system of each universe (roots, kinds in output/input positions,
   unknown and reserved names, covariant field types, arguments, interface chains, required input cycles);
   thorough adds bigger universes and seeded random type systems with <= 12 types.
harness: dynamic::Schema::build(..).register(..).finish(); every schema that builds is introspected, exported and
   queried (one document per root field) under catch_unwind.
V: SchemaCheckTrace.tla: finish().is_ok() <=> TypeSystemValid(ts); no panic."""
import json, os, random, re, sys
sys.path.insert(0, os.path.join(os.path.dirname(os.path.abspath(__file__)), "..", "lib"))
import vlib

RESERVED_POOL = {"__f", "__g", "__a", "__x", "__T"}
QUICK_UNIVERSES = ["Roots", "Refs", "TypeName", "ImplObject6", "ImplInterface3", "Args", "Chain", "Cycle"]
THOROUGH_UNIVERSES = ["Roots", "RefsBig", "TypeName", "ImplObject6", "ImplInterface6", "Args", "Chain", "Cycle", "CycleBig"]


def norm_ts(ts):
    """TLC's ToJson prints an empty function as []: turn the maps of appendix A back into objects."""
    def m(x):
        return {} if isinstance(x, list) else x
    ts["types"] = m(ts["types"])
    for t in ts["types"].values():
        t["fields"] = m(t["fields"])
        t["inputFields"] = m(t["inputFields"])
        for f in t["fields"].values():
            f["args"] = m(f["args"])
        t["implements"] = sorted(t["implements"])
        t["members"] = sorted(t["members"])
    return ts


def all_names(ts):
    for n, t in ts["types"].items():
        yield n
        for f, fd in t["fields"].items():
            yield f
            yield from fd["args"]
        yield from t["inputFields"]


# ---- seeded random type systems (thorough) -------------------------------------------------------------
def named(n): return {"k": "named", "n": n}
def nn(t): return t if t["k"] == "nn" else {"k": "nn", "of": t}
def lst(t): return {"k": "list", "of": t}
NONE = {"k": "none"}


def wrap(rng, t):
    r = rng.random()
    if r < 0.35: return t
    if r < 0.6: return nn(t)
    if r < 0.75: return lst(t)
    if r < 0.85: return lst(nn(t))
    if r < 0.93: return nn(lst(t))
    return nn(lst(nn(t)))


def new_type(kind):
    return {"kind": kind, "fields": {}, "implements": [], "members": [], "values": ["V"] if kind == "ENUM" else [],
            "inputFields": {}, "oneOf": False}


def random_ts(rng):
    """A mostly valid type system with <= 12 user types, then 0-2 random edits.  Validity is decided by TLC."""
    types = {}
    objs = ["O%d" % i for i in range(1, rng.randint(1, 4) + 1)]
    itfs = ["I%d" % i for i in range(1, rng.randint(0, 3) + 1)]
    unis = ["U%d" % i for i in range(1, rng.randint(0, 2) + 1)]
    enums = ["E%d" % i for i in range(1, rng.randint(0, 1) + 1)]
    inputs = ["X%d" % i for i in range(1, rng.randint(0, 3) + 1)]
    scalars = ["S1"] if rng.random() < 0.3 else []
    out_names = ["Int", "String"] + objs + itfs + unis + enums + scalars
    in_names = ["Int", "Boolean"] + enums + inputs + scalars

    def args(rng):
        a = {}
        for an in rng.sample(["a", "b"], rng.randint(0, 2)) if rng.random() < 0.5 else []:
            ty = wrap(rng, named(rng.choice(in_names)))
            a[an] = {"ty": ty, "default": {"k": "int", "v": "1"} if ty in (named("Int"), nn(named("Int"))) and rng.random() < 0.3 else NONE}
        return a

    for e in enums: types[e] = new_type("ENUM")
    for s in scalars: types[s] = new_type("SCALAR")
    for k, x in enumerate(inputs):
        t = new_type("INPUT_OBJECT")
        for xn in rng.sample(["x", "y"], rng.randint(1, 2)):
            base = rng.choice(in_names)
            ty = wrap(rng, named(base))
            if base in inputs and inputs.index(base) >= k and ty == nn(named(base)):
                ty = named(base)      # required references only point downwards: no required cycle
            t["inputFields"][xn] = {"ty": ty, "default": NONE}
        types[x] = t
    for k, i in enumerate(itfs):
        t = new_type("INTERFACE")
        for j in itfs[:k]:
            if rng.random() < 0.4:
                for jj in [j] + types[j]["implements"]:
                    if jj not in t["implements"]:
                        t["implements"].append(jj)
                        for fn, fd in types[jj]["fields"].items():
                            t["fields"].setdefault(fn, json.loads(json.dumps(fd)))
        for fn in rng.sample(["f", "g", "h"], rng.randint(1, 2)):
            if fn not in t["fields"]:
                t["fields"][fn] = {"ty": wrap(rng, named(rng.choice(out_names))), "args": args(rng)}
        types[i] = t
    for o in objs:
        t = new_type("OBJECT")
        for i in itfs:
            if rng.random() < 0.5:
                for ii in [i] + types[i]["implements"]:
                    if ii not in t["implements"]:
                        t["implements"].append(ii)
                        for fn, fd in types[ii]["fields"].items():
                            t["fields"].setdefault(fn, json.loads(json.dumps(fd)))
        for fn in rng.sample(["f", "g", "h", "k"], rng.randint(1, 2)):
            if fn not in t["fields"]:
                t["fields"][fn] = {"ty": wrap(rng, named(rng.choice(out_names))), "args": args(rng)}
        types[o] = t
    for u in unis:
        t = new_type("UNION")
        t["members"] = rng.sample(objs, rng.randint(1, len(objs)))
        types[u] = t
    # covariant variations of implemented fields (valid by construction)
    for n in objs + itfs:
        t = types[n]
        for i in t["implements"]:
            for fn, ifd in types[i]["fields"].items():
                fd = t["fields"][fn]
                r = rng.random()
                if r < 0.2:
                    fd["ty"] = nn(fd["ty"])
                elif r < 0.4:
                    base = ifd["ty"]
                    while base["k"] != "named": base = base["of"]
                    subs = [o for o in objs + itfs if base["n"] in types[o]["implements"]] + \
                           (types[base["n"]]["members"] if base["n"] in unis else [])
                    if subs and n in objs:
                        def rebase(ty, b): return named(b) if ty["k"] == "named" else {"k": ty["k"], "of": rebase(ty["of"], b)}
                        fd["ty"] = rebase(ifd["ty"], rng.choice(subs))
                elif r < 0.5 and "c" not in fd["args"]:
                    fd["args"]["c"] = {"ty": named("Int"), "default": NONE}
    ts = {"types": types, "query": objs[0], "mutation": objs[1] if len(objs) > 1 and rng.random() < 0.4 else "", "subscription": ""}
    if rng.random() < 0.25:
        sub = new_type("OBJECT")
        sub["fields"]["s"] = {"ty": named("Int"), "args": {}}
        types["Sub"] = sub
        ts["subscription"] = "Sub"
    # random edits
    composite = objs + itfs
    for _ in range(rng.choice([0, 1, 1, 1, 2])):
        n = rng.choice(composite)
        t = types[n]
        fn = rng.choice(sorted(t["fields"])) if t["fields"] else None
        e = rng.randint(0, 17)
        if e == 0 and fn: del t["fields"][fn]
        elif e == 1 and fn: t["fields"][fn]["ty"] = nn(t["fields"][fn]["ty"])
        elif e == 2 and fn and t["fields"][fn]["ty"]["k"] == "nn": t["fields"][fn]["ty"] = t["fields"][fn]["ty"]["of"]
        elif e == 3 and fn: t["fields"][fn]["ty"] = named("Zz")
        elif e == 4 and fn and inputs: t["fields"][fn]["ty"] = named(rng.choice(inputs))
        elif e == 5 and fn: t["fields"][fn]["args"]["a"] = {"ty": named(rng.choice(objs)), "default": NONE}
        elif e == 6 and fn: t["fields"][fn]["args"]["d"] = {"ty": nn(named("Int")), "default": rng.choice([NONE, {"k": "int", "v": "1"}])}
        elif e == 7 and fn and t["fields"][fn]["args"]: del t["fields"][fn]["args"][rng.choice(sorted(t["fields"][fn]["args"]))]
        elif e == 8 and fn and t["fields"][fn]["args"]:
            a = t["fields"][fn]["args"][rng.choice(sorted(t["fields"][fn]["args"]))]
            a["ty"] = a["ty"]["of"] if a["ty"]["k"] == "nn" else nn(a["ty"])
        elif e == 9 and unis: types[rng.choice(unis)]["members"].append(rng.choice(itfs + enums + inputs + ["Int", "Zz"]))
        elif e == 10: t["fields"] = {}
        elif e == 11: t["fields"]["__f"] = {"ty": named("Int"), "args": {}}
        elif e == 12 and inputs:
            x = rng.choice(inputs)
            types[x]["inputFields"]["y"] = {"ty": nn(named(rng.choice(inputs))), "default": NONE}
        elif e == 13 and t["implements"]: t["implements"].remove(rng.choice(t["implements"]))
        elif e == 14: ts[rng.choice(["query", "mutation"])] = rng.choice(itfs + unis + enums + inputs + ["Zz"])
        elif e == 15 and inputs: types[rng.choice(inputs)]["inputFields"] = {}
        elif e == 16 and itfs: t["implements"].append(rng.choice([i for i in itfs + ["Zz"] + objs if i not in t["implements"]] or ["Zz"]))
        elif e == 17 and fn: t["fields"][fn]["ty"] = lst(t["fields"][fn]["ty"])
    for t in types.values():
        t["implements"] = sorted(set(t["implements"]))
        t["members"] = sorted(set(t["members"]))
    return ts


def body(c):
    import time
    t0 = time.time()
    stages = {}

    def stage(name):
        nonlocal t0
        stages[name] = round(time.time() - t0, 1)
        t0 = time.time()
    m = vlib.run_tlc("gql/Gen_SchemaCheck.tla", "gql/MC_SchemaCheck.cfg", workers=4, timeout=900)
    if m.invariant_violated:
        raise vlib.ToolError("design-level failure in SchemaCheck.tla: " + str(m.invariant_violated))
    c.add_tlc("M builder machine, universe MC: reference operators checked against each other", m)
    stage("M")
    universes = QUICK_UNIVERSES if c.quick else THOROUGH_UNIVERSES
    cfg = c.path("Gen.cfg")
    with open(cfg, "w") as f:
        f.write("CONSTANT Universes = {%s}\nINIT Init\nNEXT Next\nINVARIANT Emit\n" % ", ".join('"%s"' % u for u in universes))
    g = vlib.run_tlc("gql/Gen_SchemaCheck.tla", cfg, workers=8, timeout=1800, keep_lines=50, xmx="8g")
    c.add_tlc("G builder machine, universes " + ",".join(universes), g)
    stage("G")
    rows = sorted(set((t[1], vlib.canon(norm_ts(json.loads(t[2])))) for t in g.tagged("REPLAY")))
    if len(rows) < 1000:
        raise vlib.ToolError("generator produced only %d type systems" % len(rows))
    cases = [{"src": u, "ts": json.loads(s)} for u, s in rows]
    n_tlc = len(cases)
    n_rand = 0 if c.quick else 30000
    rng = random.Random(c.seed)
    seen = set(s for _, s in rows)
    for _ in range(n_rand):
        ts = random_ts(rng)
        s = vlib.canon(ts)
        if s not in seen:
            seen.add(s)
            cases.append({"src": "random", "ts": ts})
    for i, case in enumerate(cases):
        case["id"] = i + 1
        for n in all_names(case["ts"]):
            if n.startswith("__") != (n in RESERVED_POOL):
                raise vlib.ToolError("reserved-name pool out of step with the generators: " + n)
    vlib.write_ndjson(c.path("cases.ndjson"), cases)
    stage("cases")
    (binary,) = vlib.build_harness(["c33"])
    stage("build")
    p = vlib.run_harness(binary, [c.path("cases.ndjson"), c.path("trace.ndjson")], timeout=3000)
    if p.returncode != 0:
        raise vlib.ToolError("c33 harness failed: " + (p.stderr or p.stdout)[-2000:])
    stats = json.loads(p.stdout.strip().splitlines()[-1])
    stage("harness")
    obs = vlib.read_ndjson(c.path("trace.ndjson"))
    if len(obs) != len(cases):
        raise vlib.ToolError("harness wrote %d observations for %d cases" % (len(obs), len(cases)))
    v = vlib.run_tlc("gql/SchemaCheckTrace.tla", "gql/SchemaCheckTrace.cfg", env={"TRACE": c.path("trace.ndjson")},
                     workers=8, timeout=3000, keep_lines=50, xmx="8g")
    stage("V")
    c.notes.append({"stage_wall_s": stages})
    verdicts = {t[1]: (t[2], [], []) for t in v.tagged("VERDICT")}
    for t in v.tagged("DEV"):
        verdicts[t[1]][1].append(t[2])
    for t in v.tagged("CLAUSE"):
        verdicts[t[1]][2].append(t[2])
    if len(verdicts) != len(obs):
        raise vlib.ToolError("V produced %d verdicts for %d cases" % (len(verdicts), len(obs)))
    single = {}
    n_valid = n_built = n_unjudged = 0
    for o in obs:
        kind, devs, violated = verdicts[o["id"]]
        c.count_case(o["ts"], nontrivial=(kind != "unjudged"))
        n_built += o["ok"]
        if not violated:
            n_valid += 1
        if len(violated) == 1:
            single[violated[0]] = single.get(violated[0], 0) + 1
        if kind == "unjudged":
            n_unjudged += 1
            continue
        what = "build %s; violated clauses %s; %s" % ("succeeded" if o["ok"] else "failed: " + o["err"], violated or "none", o["panic"])
        c.verdict("ok" if kind == "ok" else ("known:" + ",".join(sorted(devs)) if kind == "known" else "violation"), o, what)
    judged = ["RootQueryMissing", "RootQueryNotObject", "RootMutationMissing", "RootMutationNotObject", "RootSubscriptionMissing",
              "RootSubscriptionNotObject", "UnknownType", "FieldNotOutputType", "ArgNotInputType", "InputFieldNotInputType",
              "ImplementsNotInterface", "ImplementsSelf", "ImplTransitive", "ImplFieldMissing", "ImplArgMissing", "ImplArgType",
              "ImplExtraRequiredArg", "ImplFieldType", "UnionMemberNotObject", "EmptyObject", "EmptyInterface", "EmptyInputObject",
              "ReservedTypeName", "ReservedFieldName", "InputCycle"]
    missing = [j for j in judged if j not in single]
    if missing or n_valid < 100 or stats["built"] < 100 or stats["docs"] < 100:
        raise vlib.ToolError("vacuity: no single-rule violation of %s; valid=%d built=%d docs=%d" % (missing, n_valid, stats["built"], stats["docs"]))
    c.cov["traces_validated_against_impl"] = len(obs)
    c.cov["exhaustive"] = True
    c.cov["single_rule_violations"] = single
    c.cov["valid_type_systems"] = n_valid
    c.cov["schemas_built_and_exercised"] = n_built
    c.cov["documents_executed"] = stats["docs"]
    c.cov["unjudged"] = n_unjudged
    c.cov["rule"] = ("G: every type system reachable by the builder machine in the universes %s (TLC BFS, %d type systems; each state "
                     "is one complete registration)%s; each built through dynamic::Schema::build/register/finish; non-trivial = the "
                     "type system violates no rule or at least one rule named by the property (not only unjudged ones); distinct by "
                     "canonical JSON of the type system" % (",".join(universes), n_tlc,
                                                           "" if c.quick else ", plus %d seeded random type systems with <= 12 types and 0-2 edits" % (len(cases) - n_tlc)))
    for o in [x for x in obs if x["ok"]][:1] + [x for x in obs if verdicts[x["id"]][0] == "known"][:2]:
        c.sample({"ts": o["ts"], "ok": o["ok"], "err": o["err"], "verdict": verdicts[o["id"]][0], "deviations": verdicts[o["id"]][1],
                  "violated": verdicts[o["id"]][2]})
    c.assumptions += ["names beginning with '__' are drawn from a fixed pool (TLC strings are atomic); the driver checks the pool against every case",
                      "the object named as subscription root is registered as dynamic::Subscription (the API offers nothing else); type systems "
                      "that reference that object elsewhere, and rules the property does not name (distinct roots, empty unions/enums, oneOf), are not judged",
                      "post-build exercise: standard introspection query, sdl() with default and federation/sorted options, one document per root field; only panics are judged here"]


vlib.main("C33", "model_checking", body)
