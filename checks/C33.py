#!/usr/bin/env python3
"""C33 -- dynamic schemas build exactly when the type system is valid.
M: Gen_SchemaCheck.tla builder machine over a small universe; the reference operators of SchemaCheck.tla are
   checked against each other on every reachable type system (spec algorithm = switch family, code transcription =
   switch family, covariance is a pre-order where the transitive-implements rule holds, the two readings of the
   input-object cycle rule agree, deviation switches only touch their own clause).
G: the builder machine enumerates every type system of each universe (roots, kinds in output/input positions,
   unknown and reserved names, covariant field types, arguments, interface chains, required input cycles);
   thorough adds bigger universes and seeded random type systems with <= 12 types.
harness: dynamic::Schema::build(..).register(..).finish(); every schema that builds is introspected, exported and
   queried (one document per root field) under catch_unwind.
V: SchemaCheckTrace.tla: finish().is_ok() <=> TypeSystemValid(ts); no panic."""
import json, os, random, re, sys
sys.path.insert(0, os.path.join(os.path.dirname(os.path.abspath(__file__)), "..", "lib"))
import vlib

RESERVED_POOL = {"__f", "__g", "__a", "__x", "__T"}
QUICK_UNIVERSES = ["Roots", "Refs", "TypeName", "ImplObject6", "ImplInterface3", "Args", "Chain", "Cycle"]
THOROUGH_UNIVERSES = ["Roots", "RefsBig", "TypeName", "ImplObject6", "ImplInterface6", "Args", "Chain", "Cycle", "CycleBig"]


from tsgen import norm_ts, all_names, random_ts


def body(c):
    import time
    t0 = time.time()
    stages = {}

    def stage(name):
        nonlocal t0
        stages[name] = round(time.time() - t0, 1)
        t0 = time.time()
    # mode M runs beside mode G (own metadir); its result is examined before anything is judged
    import threading
    mres = {}

    def run_m():
        try:
            mres["r"] = vlib.run_tlc("gql/Gen_SchemaCheck.tla", "gql/MC_SchemaCheck.cfg", workers=4, timeout=900, coverage=True,
                                     metadir=c.path("tlc-M"))
        except vlib.ToolError as e:
            mres["e"] = e
    mt = threading.Thread(target=run_m)
    mt.start()
    universes = QUICK_UNIVERSES if c.quick else THOROUGH_UNIVERSES
    cfg = c.path("Gen.cfg")
    with open(cfg, "w") as f:
        f.write("CONSTANT Universes = {%s}\nINIT Init\nNEXT Next\nINVARIANT Emit\n" % ", ".join('"%s"' % u for u in universes))
    g = vlib.run_tlc("gql/Gen_SchemaCheck.tla", cfg, workers=4, timeout=1800, keep_lines=50, xmx="8g")
    c.add_tlc("G builder machine, universes " + ",".join(universes), g)
    mt.join()
    if "e" in mres:
        raise mres["e"]
    m = mres["r"]
    if m.invariant_violated:
        raise vlib.ToolError("design-level failure in SchemaCheck.tla: " + str(m.invariant_violated))
    if m.coverage.get("Gen_SchemaCheck!Next", (0, 0))[0] < 1000:
        raise vlib.ToolError("vacuity: mode M explored %s states" % (m.coverage.get("Gen_SchemaCheck!Next"),))
    c.add_tlc("M builder machine, universe MC: reference operators checked against each other", m)
    stage("M+G")
    rows = sorted(set((t[1], vlib.canon(norm_ts(json.loads(t[2])))) for t in g.tagged("REPLAY")))
    if len(rows) < 1000:
        raise vlib.ToolError("generator produced only %d type systems" % len(rows))
    cases = [{"src": u, "ts": json.loads(s)} for u, s in rows]
    n_tlc = len(cases)
    n_rand = 0 if c.quick else 30000
    rng = random.Random(c.seed)
    seen = set(s for _, s in rows)
    for _ in range(n_rand):
        ts = random_ts(rng)
        s = vlib.canon(ts)
        if s not in seen:
            seen.add(s)
            cases.append({"src": "random", "ts": ts})
    for i, case in enumerate(cases):
        case["id"] = i + 1
        for n in all_names(case["ts"]):
            if n.startswith("__") != (n in RESERVED_POOL):
                raise vlib.ToolError("reserved-name pool out of step with the generators: " + n)
    vlib.write_ndjson(c.path("cases.ndjson"), cases)
    stage("cases")
    (binary,) = vlib.build_harness(["c33"])
    stage("build")
    p = vlib.run_harness(binary, [c.path("cases.ndjson"), c.path("trace.ndjson")], timeout=3000)
    if p.returncode != 0:
        raise vlib.ToolError("c33 harness failed: " + (p.stderr or p.stdout)[-2000:])
    stats = json.loads(p.stdout.strip().splitlines()[-1])
    stage("harness")
    obs = vlib.read_ndjson(c.path("trace.ndjson"))
    if len(obs) != len(cases):
        raise vlib.ToolError("harness wrote %d observations for %d cases" % (len(obs), len(cases)))
    vlib.write_ndjson(c.path("trace_v.ndjson"), [{"id": o["id"], "ts": o["ts"], "ok": o["ok"], "panic": o["panic"]} for o in obs])
    v = vlib.run_tlc("gql/SchemaCheckTrace.tla", "gql/SchemaCheckTrace.cfg", env={"TRACE": c.path("trace_v.ndjson")},
                     workers=4, timeout=3000, keep_lines=50, xmx="8g")
    stage("V")
    c.notes.append({"stage_wall_s": stages})
    verdicts = {t[1]: (t[2], [], []) for t in v.tagged("VERDICT")}
    for t in v.tagged("DEV"):
        verdicts[t[1]][1].append(t[2])
    for t in v.tagged("CLAUSE"):
        verdicts[t[1]][2].append(t[2])
    if len(verdicts) != len(obs):
        raise vlib.ToolError("V produced %d verdicts for %d cases" % (len(verdicts), len(obs)))
    single = {}
    n_valid = n_built = n_unjudged = 0
    for o in obs:
        kind, devs, violated = verdicts[o["id"]]
        c.count_case(o["ts"], nontrivial=(kind != "unjudged"))
        n_built += o["ok"]
        if not violated:
            n_valid += 1
        if len(violated) == 1:
            single[violated[0]] = single.get(violated[0], 0) + 1
        if kind == "unjudged":
            n_unjudged += 1
            continue
        what = "build %s; violated clauses %s; %s" % ("succeeded" if o["ok"] else "failed: " + o["err"], violated or "none", o["panic"])
        c.verdict("ok" if kind == "ok" else ("known:" + ",".join(sorted(devs)) if kind == "known" else "violation"), o, what)
    judged = ["RootQueryMissing", "RootQueryNotObject", "RootMutationMissing", "RootMutationNotObject", "RootSubscriptionMissing",
              "RootSubscriptionNotObject", "UnknownType", "FieldNotOutputType", "ArgNotInputType", "InputFieldNotInputType",
              "ImplementsNotInterface", "ImplementsSelf", "ImplTransitive", "ImplFieldMissing", "ImplArgMissing", "ImplArgType",
              "ImplExtraRequiredArg", "ImplFieldType", "UnionMemberNotObject", "EmptyObject", "EmptyInterface", "EmptyInputObject",
              "ReservedTypeName", "ReservedFieldName", "InputCycle"]
    missing = [j for j in judged if j not in single]
    if not c.violations and (missing or n_valid < 100 or stats["built"] < 100 or stats["docs"] < 100):
        raise vlib.ToolError("vacuity: no single-rule violation of %s; valid=%d built=%d docs=%d" % (missing, n_valid, stats["built"], stats["docs"]))
    c.cov["traces_validated_against_impl"] = len(obs)
    c.cov["exhaustive"] = True
    c.cov["single_rule_violations"] = single
    c.cov["valid_type_systems"] = n_valid
    c.cov["schemas_built_and_exercised"] = n_built
    c.cov["documents_executed"] = stats["docs"]
    c.cov["unjudged"] = n_unjudged
    c.cov["rule"] = ("G: every type system reachable by the builder machine in the universes %s (TLC BFS, %d type systems; each state "
                     "is one complete registration)%s; each built through dynamic::Schema::build/register/finish; non-trivial = the "
                     "type system violates no rule or at least one rule named by the property (not only unjudged ones); distinct by "
                     "canonical JSON of the type system" % (",".join(universes), n_tlc,
                                                           "" if c.quick else ", plus %d seeded random type systems with <= 12 types and 0-2 edits" % (len(cases) - n_tlc)))
    for o in [x for x in obs if x["ok"]][:1] + [x for x in obs if verdicts[x["id"]][0] == "known"][:2]:
        c.sample({"ts": o["ts"], "ok": o["ok"], "err": o["err"], "verdict": verdicts[o["id"]][0], "deviations": verdicts[o["id"]][1],
                  "violated": verdicts[o["id"]][2]})
    c.assumptions += ["names beginning with '__' are drawn from a fixed pool (TLC strings are atomic); the driver checks the pool against every case",
                      "the object named as subscription root is registered as dynamic::Subscription (the API offers nothing else); type systems "
                      "that reference that object elsewhere, and rules the property does not name (distinct roots, empty unions/enums, oneOf), are not judged",
                      "post-build exercise: standard introspection query, sdl() with default and federation/sorted options, one document per root field; only panics are judged here"]


vlib.main("C33", "model_checking", body)
