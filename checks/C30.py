#!/usr/bin/env python3
"""C30 -- extensions are transparent and run their hooks in life-cycle order.
M: ExtensionLifecycle.tla -- the hook nesting machine (K extensions), life-cycle invariants, all interleavings of
   concurrent resolve hooks.
G: TLC-generated documents (Gen_Doc.tla) and seeded random documents, with and without faults, plus invalid
   requests (syntax error, unknown field, unused variable), x K in 1..3 recording pass-through extensions,
   static and dynamic flavour.
V: ExtTrace.tla -- response with K extensions = response without; hook events accepted by the life-cycle machine;
   one resolve hook per resolver invocation / list item for every extension."""
import json, os, random, sys
sys.path.insert(0, os.path.join(os.path.dirname(os.path.abspath(__file__)), "..", "lib"))
import vlib, gqlgen, execcheck

INVALID = ["{ a { ", "{ nosuch }", "query Q($s: Boolean!) { a { id } }", "{ a }", "fragment F on A { id } { a { ...G } }",
           "{ a { id } } { nn }", "mutation { bump @skip }"]


def body(c):
    ts = json.load(open(execcheck.SCHEMA))
    rng = random.Random(c.seed)
    m = vlib.run_tlc("conc/ExtensionLifecycle.tla", "conc/MC_ExtensionLifecycle.cfg", workers=4, coverage=True, timeout=600)
    if m.invariant_violated:
        raise vlib.ToolError("design-level failure in ExtensionLifecycle.tla: %s" % m.invariant_violated)
    for act in ("EnterRequest", "EnterPhase", "ExitPhase", "StartResolve", "ExitRequest"):
        if m.coverage.get("ExtensionLifecycle!" + act, (0, 0))[0] == 0:
            raise vlib.ToolError("vacuity: life-cycle action %s never taken" % act)
    c.add_tlc("M ExtensionLifecycle (K=2, 2 resolves)", m)
    flats = execcheck.gen_docs(c, "Query", 3, ["skip:$s"], "q")
    mflats = execcheck.gen_docs(c, "Mutation", 3, ["skip:$s"], "m")
    cap = 500 if c.quick else 6000
    exhaustive = len(flats) <= cap
    if not exhaustive:
        flats = rng.sample(flats, cap)
    docs = [gqlgen.tree_from_flat(json.loads(f), "query") for f in flats]
    docs += [gqlgen.tree_from_flat(json.loads(f), "mutation") for f in rng.sample(mflats, min(len(mflats), 100 if c.quick else 1500))]
    dg = gqlgen.DocGen(ts, random.Random(c.seed + 9), max_depth=4, max_items=4)
    nrand = 500 if c.quick else 8000
    while nrand > 0:
        d = dg.doc("Query", "query", budget=12)
        if not gqlgen.conflicting_keys(ts, d):
            docs.append(d)
            nrand -= 1
    cases = []
    for i, doc in enumerate(docs):
        d, supplied = execcheck.with_vars(doc, rng.choice(gqlgen.var_forms(doc)))
        flavour = "static" if i % 2 == 0 else "dynamic"
        wg = gqlgen.WorldGen(ts, random.Random(c.seed * 7 + i), p_null=0.1, p_err=0.08 if i % 3 == 0 else 0.0)
        wg.dyn_lists = flavour == "dynamic"
        cases.append({"id": 0, "flavour": flavour, "doc": d, "opIndex": 1, "vars": supplied, "world": wg.world(), "exts": 1 + i % 3,
                      "preparsed": i % 4 == 3})
    empty_doc = {"ops": [{"name": "", "ty": "query", "vars": [], "dirs": [], "sels": []}], "frags": []}
    for j, t in enumerate(INVALID):
        for flavour in ("static", "dynamic"):
            for k in (1, 2, 3):
                cases.append({"id": 0, "flavour": flavour, "doc": empty_doc, "rawText": t, "opIndex": 1, "vars": [],
                              "world": gqlgen.WorldGen(ts, random.Random(j)).world(), "exts": k, "preparsed": (j + k) % 3 == 0})
    # fields of derive(SimpleObject) types have generated resolvers that log no start/finish event (static flavour)
    unlogged = sorted(f for t in ts["types"].values() if t.get("simple") for f in t["fields"])
    for i, x in enumerate(cases):
        x["id"] = i + 1
        x["unlogged"] = unlogged if x["flavour"] == "static" else []
    vlib.write_ndjson(c.path("cases.ndjson"), cases)
    (binary,) = vlib.build_harness(["c30"])
    p = vlib.run_harness(binary, [c.path("cases.ndjson"), c.path("trace.ndjson"), execcheck.SCHEMA], timeout=3000)
    if p.returncode != 0:
        raise vlib.ToolError("c30 harness failed: " + p.stderr[-2000:])
    v = vlib.run_tlc_sliced("conc/ExtTrace.tla", "conc/ExtTrace.cfg", c.path("trace.ndjson"), slices=8, timeout=6000, keep_lines=50, xmx="3g")
    c.add_tlc("V ExtTrace", v)
    verdicts = {t[1]: (t[2], t[3]) for t in v.tagged("VERDICT")}
    obs = vlib.read_ndjson(c.path("trace.ndjson"))
    if len(verdicts) != len(obs):
        raise vlib.ToolError("V produced %d verdicts for %d cases" % (len(verdicts), len(obs)))
    nhooks = 0
    for o in obs:
        hooks = [e for e in o["obs"]["log"] if e["ev"].startswith("hook")]
        nhooks += len(hooks)
        c.count_case({"t": o["text"], "f": o["flavour"], "k": o["exts"], "v": o["vars"], "e": len(o["obs"]["errors"])}, nontrivial=len(hooks) > 0)
        vd, at = verdicts[o["id"]]
        slim = {"flavour": o["flavour"], "text": o["text"], "exts": o["exts"], "bad_event": at,
                "log": [[e["seq"], e["ev"], e.get("hook", ""), e.get("ext", 0), e.get("path", [])] for e in o["obs"]["log"]][:80],
                "obs": {"data": o["obs"]["data"], "errors": o["obs"]["errors"]}, "obs0": {"data": o["obs0"]["data"], "errors": o["obs0"]["errors"]}}
        c.verdict(vd, slim, "extensions: " + str(vd))
    c.cov["hook_events"] = nhooks
    c.cov["traces_validated_against_impl"] = len(obs)
    c.cov["exhaustive"] = exhaustive
    c.cov["rule"] = ("TLC-generated queries/mutations (<=3 nodes%s) + seeded random documents (a third with failing resolvers) + %d invalid request "
                     "texts, alternating static/dynamic flavour, K = 1..3 recording extensions; each executed with 0 and with K extensions; "
                     "non-trivial = at least one hook event; distinct by (flavour, K, text, variables, error count)"
                     % ("" if exhaustive else ", seeded sample", len(INVALID)))
    for o in obs[:1] + obs[-1:]:
        c.sample({"flavour": o["flavour"], "text": o["text"], "exts": o["exts"],
                  "hooks": [[e["ev"], e["hook"], e["ext"], e["path"]] for e in o["obs"]["log"] if e["ev"].startswith("hook")][:14]})
    c.assumptions += ["'pass-through' = every hook only logs and delegates to next", "error order is not compared (multiset of path+locations)"]


vlib.main("C30", "model_checking", body)
