#!/usr/bin/env python3
"""C15 -- values print as GraphQL literals and convert to JSON without loss.
M: Printer.tla (+StringLit.tla): the spec's reader of the Value sub-grammar inverts two reference printers on every
   value the builder machine reaches; the named deviations are wrong exactly on their trigger sets; negative control:
   today's printer model violates the printing law.
G: the same TLC runs print every built value (bounded nodes/depth/width over tricky atoms) and every grown string
   (code-point representatives of each class) as abstract trees, so every replayed value has been model-checked.
harness: builds ConstValue / Value / Variables, prints with Display, re-parses with the crate's parser, JSON round
   trips (tree and text); plus seeded random values.
V: PrinterTrace.tla reads the printed code points with the spec's reader and judges the three laws."""
import json, os, sys
sys.path.insert(0, os.path.join(os.path.dirname(os.path.abspath(__file__)), "..", "lib"))
import vlib

ALPHA_FULL = [0, 8, 9, 10, 11, 12, 13, 27, 31, 34, 47, 48, 92, 117, 127, 133, 159, 160, 233, 8232, 65279, 65535, 65536,
              128512, 128513, 1114111]
ALPHA_SMALL = [27, 34, 92, 10, 48, 117, 128512, 0, 9, 127, 133, 233]


def cfg_text(nodes, depth, width, sel, alpha, maxstr, alpha_long, maxstr_long, tail):
    return ("CONSTANT MaxNodes = %d\nCONSTANT MaxDepth = %d\nCONSTANT MaxWidth = %d\nCONSTANT AtomSel = \"%s\"\n"
            "CONSTANT Alphabet = {%s}\nCONSTANT MaxStr = %d\nCONSTANT AlphabetLong = {%s}\nCONSTANT MaxStrLong = %d\n"
            "INIT Init\nNEXT Next\n%s"
            % (nodes, depth, width, sel, ", ".join(str(a) for a in alpha), maxstr,
               ", ".join(str(a) for a in alpha_long), maxstr_long, tail))


def text(node):
    return "".join(chr(x) for x in node["t"])


def show(n):
    if n["k"] == "list":
        return "[" + ", ".join(show(x) for x in n["xs"]) + "]"
    if n["k"] == "obj":
        return "{" + ", ".join("".join(map(chr, f["key"])) + ": " + show(f["val"]) for f in n["fs"]) + "}"
    if n["k"] == "str":
        return json.dumps(text(n))
    if n["k"] == "var":
        return "$" + text(n)
    return text(n) if n["t"] else n["k"]


def walk(n):
    yield n
    for x in n["xs"]:
        yield from walk(x)
    for f in n["fs"]:
        yield from walk(f["val"])


def features(v):
    f = set()
    for n in walk(v):
        k = n["k"]
        if k == "str":
            for c in n["t"]:
                if c < 32 or 127 <= c <= 159:
                    f.add("ctl")
                if c in (34, 92):
                    f.add("quote/backslash")
                if c >= 65536:
                    f.add("non-bmp")
                elif c >= 128:
                    f.add("bmp")
        elif k == "int" and len(n["t"]) > 10:
            f.add("int64")
        elif k in ("float", "enum", "list", "obj"):
            f.add(k)
    return f


CODES = {"x:panic": "violation: panic", "x:lit": "violation: printed text is not a GraphQL value literal",
         "x:print": "violation: printed literal denotes another value", "x:reparse": "violation: re-parse by the crate differs",
         "x:jtree": "violation: JSON tree round trip differs", "x:jtext": "violation: JSON text round trip differs"}
DEVS = {"D": "DevDecimalEscape", "K": "DevKeywordPrefix", "U": "DevFloatParseUlp"}


def decode(code):
    if code.startswith("k:"):
        return "known:" + ",".join(DEVS[x] for x in code[2:])
    return {"fd": "ok-floatdigits"}.get(code, CODES.get(code, code))


def body(c):
    inv = "".join("INVARIANT %s\n" % i for i in ("TypeOK", "InvRefReadsBack", "InvEscReadsBack", "InvDevExact",
                                                 "InvJsonImage", "InvKwExact"))
    # ---- modes M and G share their runs: every value TLC emits for replay has also been model-checked
    # (reader inverts the reference printers, deviations exact on their triggers).
    if c.quick:
        gens = [("M+G values (3 nodes, depth 2, width 2, mixed atoms), strings<=2 over 26 code points, <=3 over 8",
                 (3, 2, 2, "mixed", ALPHA_FULL, 2, ALPHA_SMALL[:8], 3))]
        nrand = 400
    else:
        gens = [("M+G values (4 nodes, depth 3, width 3, mixed atoms), strings<=3 over 26 code points, <=4 over 8",
                 (4, 3, 3, "mixed", ALPHA_FULL, 3, ALPHA_SMALL[:8], 4)),
                ("M+G values (3 nodes, depth 2, width 2, full atoms)", (3, 2, 2, "full", [], 0, [], 0))]
        nrand = 10000
    neg = vlib.run_tlc("lex/Printer.tla", "lex/MC_PrinterDev.cfg", workers=1, timeout=600, expect_violation=True)
    if neg.invariant_violated != "InvDevReadsBack":
        raise vlib.ToolError("negative control: the model of today's printer should violate the printing law")
    c.add_tlc("M negative control (dev printer violates InvDevReadsBack)", neg)
    seen, values = set(), []
    for gi, (label, par) in enumerate(gens):
        gcfg = c.path("Gen%d.cfg" % gi)
        with open(gcfg, "w") as f:
            f.write(cfg_text(*par, inv + "INVARIANT Emit\n"))
        g = vlib.run_tlc("lex/Printer.tla", gcfg, workers=8, timeout=3000, keep_lines=50, xmx="8g")
        if g.invariant_violated:
            raise vlib.ToolError("design-level failure in Printer.tla: " + str(g.invariant_violated))
        if g.distinct < 1000:
            raise vlib.ToolError("vacuity: mode M explored only %d states" % g.distinct)
        c.add_tlc(label, g)
        for t in g.tagged("REPLAY"):
            if t[1] not in seen:
                seen.add(t[1])
                values.append(t[1])
    values.sort()
    rows = []
    for i, s in enumerate(values):
        v = json.loads(s)
        grown = v["k"] == "str" or (v["k"] == "list" and len(v["xs"]) == 2 and v["xs"][0]["k"] == "obj" and v["xs"][1]["k"] == "str")
        # built values go through ConstValue, Value and (objects) Variables; a grown string alone goes through
        # ConstValue's Display, inside containers through Value's (both call the same write_quoted)
        fl = "cvs" if not grown else ("c" if v["k"] == "str" else "v")
        rows.append({"v": v, "fl": fl})
    vlib.write_ndjson(c.path("cases.ndjson"), rows)
    (binary,) = vlib.build_harness(["c15"])
    p = vlib.run_harness(binary, [c.path("cases.ndjson"), c.path("trace.ndjson"), nrand, c.seed], timeout=1800)
    if p.returncode != 0:
        raise vlib.ToolError("c15 harness failed: " + p.stderr[-2000:])
    cases = vlib.read_ndjson(c.path("trace.ndjson"))
    # what TLC needs of each observation (texts and parser messages stay in trace.ndjson for people)
    vlib.write_ndjson(c.path("v.ndjson"), [{
        "id": x["id"], "v": x["v"], "printed": x["printed"], "skipjson": x["skipjson"], "problem": x["problem"],
        "reparse": {"ok": x["reparse"]["ok"], "v": x["reparse"]["v"]},
        "jtree": {"ok": x["jtree"]["ok"], "mid": x["jtree"]["mid"], "back": x["jtree"]["back"]},
        "jtext": {"ok": x["jtext"]["ok"], "back": x["jtext"]["back"]}} for x in cases])
    v = vlib.run_tlc("lex/PrinterTrace.tla", "lex/PrinterTrace.cfg", env={"TRACE": c.path("v.ndjson")},
                     workers=8, timeout=6000, keep_lines=100, xmx="8g")
    c.add_tlc("V PrinterTrace", v)
    verdicts = {t[1]: (decode(t[2]), t[3]) for t in v.tagged("VERDICT")}
    if len(verdicts) != len(cases):
        raise vlib.ToolError("V produced %d verdicts for %d cases" % (len(verdicts), len(cases)))
    feats = {}
    shown = set()
    unsupported = []
    for x in cases:
        vd, drift = verdicts[x["id"]]
        fs = features(x["v"])
        for f in fs:
            feats[f] = feats.get(f, 0) + 1
        c.count_case({"flavour": x["flavour"], "v": x["v"]}, nontrivial=bool(fs))
        rep = {"flavour": x["flavour"], "origin": x["origin"], "value": show(x["v"]), "v": x["v"], "printed": x["text"],
               "reparse": (show(x["reparse"]["v"]) if x["reparse"]["ok"] else "error: " + x["reparse"]["err"][-160:]),
               "json_tree_back": show(x["jtree"]["back"]), "json_text_back": show(x["jtext"]["back"]), "verdict": vd}
        if vd == "unsupported":      # a block string in the output: StringLit.tla does not transcribe those
            unsupported.append(x["text"][:200])
            continue
        if vd == "ok-floatdigits":
            c.drift("float printed with other digits than its shortest decimal, accepted via the re-parse: %s -> %s" % (show(x["v"]), x["text"]))
            vd = "ok"
        if drift:
            c.drift("intermediate JSON is not the JSON image of %s" % show(x["v"]))
        c.verdict(vd, rep, vd)
        if vd.startswith("known:") and vd not in shown and len(shown) < 4:
            shown.add(vd)
            c.sample({"value": rep["value"], "printed": x["text"], "reparse": rep["reparse"], "json_text_back": rep["json_text_back"], "verdict": vd}, limit=6)
    if unsupported and not c.violations:
        raise vlib.ToolError("the printer emitted block strings, which StringLit.tla does not transcribe: " + unsupported[0])
    for need in ("ctl", "quote/backslash", "non-bmp", "bmp", "int64", "float", "enum", "list", "obj"):
        if feats.get(need, 0) == 0:
            raise vlib.ToolError("vacuity: no case with feature " + need)
    for x in cases[:1] + [y for y in cases if y["origin"] == "random" and y["v"]["k"] == "obj"][:1]:
        c.sample({"value": show(x["v"]), "printed": x["text"], "verdict": verdicts[x["id"]][0]}, limit=6)
    c.cov["traces_validated_against_impl"] = len(cases)
    c.cov["exhaustive"] = True
    c.cov["features"] = feats
    c.cov["rule"] = ("G: every value the builder machine of Printer.tla reaches within the bounds of the listed G runs (atoms: null, true, "
                     "false, 13 ints at the 32/53/64-bit edges, 16 floats given as shortest decimals (zeros, integral, fractional, 1e16, "
                     "1e21, extremes, subnormal), 7 enum names (keyword-prefixed, NaN, e1), 2 variables, 8 strings) and every string over "
                     "code-point representatives of CTRL/C1/QUOTE/BSLASH/LF/CR/TAB/ASCII/BMP/BOM/non-BMP, alone and inside [{a: s}, s]; %d "
                     "generated values, each through ConstValue, Value and (objects) Variables; plus %d seeded random values of depth<=4. "
                     "non-trivial = the value has a string needing escapes or non-ASCII, a float, a 64-bit integer, an enum or a container; "
                     "distinct by (flavour, value)" % (len(values), nrand))
    c.assumptions += [
        "floats are compared as exact decimals (digits, exponent) of their shortest round-trip spelling; that a decimal rounds to "
        "the same IEEE double is computed in Rust (std's float printing/parsing, independent of serde_json/ryu) and only carried as text",
        "the harness checks that every float atom of the spec is the shortest decimal of its double (tool error otherwise)",
        "SourceCharacter is read as in the October 2021 GraphQL spec (raw control characters inside strings are legal)",
        "object and enum names are valid GraphQL names; Binary values and Upload are outside the property; variables are judged "
        "for printing/re-parsing only",
        "the abstract trees of the re-parsed / JSON-round-tripped values are projections written by the harness (trusted)"]


vlib.main("C15", "exploration", body)
