#!/usr/bin/env python3
"""C16 -- serde values convert to GraphQL values and back without loss.
M+G: SerdeModel.tla -- serde data-model terms, types, ToValue, the reference Decode; TLC checks the round-trip law
     Decode(ty, ToValue(x)) = Canon(x) on every typed term of the family up to the depth bound and prints each term.
harness: builds the Rust value from the term (own term deserializer), runs to_value / from_value (and serde_json as the
     reference format), logs the intermediate value and the result as terms.
V: SerdeTrace.tla -- verdict: representable terms come back as Canon(term); cross-check of the reading against
     serde_json; drift of the intermediate value / of from_value against the reference ToValue / Decode."""
import json, os, random, sys
sys.path.insert(0, os.path.join(os.path.dirname(os.path.abspath(__file__)), "..", "lib"))
import vlib

FAMILY = ["Ints", "Uints", "Floats", "UnitS", "Wrap", "Pair", "E", "Opt2", "OptUnit", "Tup", "MapE", "MapOpt", "Keyed",
          "SeqE", "SeqOpt", "HasBytes", "Outer", "Un", "It", "Nest", "One", "Arr", "MapUnit", "MapOpt2", "Skip", "Flat", "Adj"]
INV = "INVARIANT InvLaw\nINVARIANT InvCanon\nINVARIANT InvValue\nINVARIANT Emit\n"


def show(n):
    k = n["k"]
    if k in ("int", "float"):
        return n["s"]
    if k == "str":
        return json.dumps(n["s"])
    if k in ("bytes", "binary"):
        return "b" + json.dumps(n["b"])
    if k in ("some", "newtype"):
        return k + "(" + show(n["xs"][0]) + ")"
    if k in ("seq", "list"):
        return "[" + ", ".join(show(x) for x in n["xs"]) + "]"
    if k in ("tuple", "tstruct"):
        return "(" + ", ".join(show(x) for x in n["xs"]) + ")"
    if k in ("map", "struct", "obj"):
        return "{" + ", ".join(json.dumps(f["key"]) + ": " + show(f["val"]) for f in n["fs"]) + "}"
    if k == "uvar":
        return n["s"]
    if k == "nvar":
        return n["s"] + "(" + show(n["xs"][0]) + ")"
    if k == "tvar":
        return n["s"] + "(" + ", ".join(show(x) for x in n["xs"]) + ")"
    if k == "svar":
        return n["s"] + "{" + ", ".join(f["key"] + ": " + show(f["val"]) for f in n["fs"]) + "}"
    return k


def kinds(n, acc):
    acc.add(n["k"])
    for x in n["xs"]:
        kinds(x, acc)
    for f in n["fs"]:
        kinds(f["val"], acc)
    return acc


CODES = {"x:panic": "violation: panic", "x:tv": "violation: to_value failed", "x:back": "violation: from_value failed",
         "x:rt": "violation: round trip returned another value",
         "tool": "tool: reading of without-loss disagrees with serde_json",
         "d:tv": "to_value image differs from ToValue", "d:ok": "from_value success differs from Decode",
         "d:term": "from_value result differs from Decode"}


def body(c):
    if c.quick:
        runs = [("M+G all family members, depth 2", 2, FAMILY)]
    else:
        runs = [("M+G all family members, depth 3", 3, FAMILY),
                ("M+G family without Outer, depth 4", 4, [t for t in FAMILY if t != "Outer"])]
    seen, cases = set(), []
    for i, (label, depth, types) in enumerate(runs):
        cfg = c.path("Gen%d.cfg" % i)
        with open(cfg, "w") as f:
            f.write("CONSTANT Depth = %d\nCONSTANT Types = {%s}\nINIT Init\nNEXT Next\n%s"
                    % (depth, ", ".join('"%s"' % t for t in types), INV))
        g = vlib.run_tlc("lex/SerdeModel.tla", cfg, workers=8, timeout=3000, keep_lines=50, xmx="8g")
        if g.invariant_violated:
            raise vlib.ToolError("design-level failure in SerdeModel.tla: " + str(g.invariant_violated))
        c.add_tlc(label, g)
        for t in g.tagged("REPLAY"):
            if t[1] not in seen:
                seen.add(t[1])
                cases.append(t[1])
    cases.sort()
    rows = [json.loads(s) for s in cases]
    total = len(rows)
    cap = 6000 if c.quick else 60000
    exhaustive = True
    if len(rows) > cap:      # mode M has checked the law on all of them; replay a seeded sample, every small type in full
        rng = random.Random(c.seed)
        by = {}
        for r in rows:
            by.setdefault(r["ty"], []).append(r)
        big = [t for t in by if len(by[t]) > cap // 10]
        keep = [r for t in by if t not in big for r in by[t]]
        share = max(1, (cap - len(keep)) // max(1, len(big)))
        for t in sorted(big):
            keep += rng.sample(by[t], min(share, len(by[t])))
        rows = keep
        exhaustive = False
    vlib.write_ndjson(c.path("cases.ndjson"), rows)
    (binary,) = vlib.build_harness(["c16"])
    p = vlib.run_harness(binary, [c.path("cases.ndjson"), c.path("trace.ndjson")], timeout=1800)
    if p.returncode != 0:
        raise vlib.ToolError("c16 harness failed: " + p.stderr[-3000:])
    obs = vlib.read_ndjson(c.path("trace.ndjson"))
    vlib.write_ndjson(c.path("v.ndjson"), [{
        "id": o["id"], "ty": o["ty"], "term": o["term"], "problem": o["problem"],
        "tv": {"ok": o["tv"]["ok"], "v": o["tv"]["v"]}, "back": {"ok": o["back"]["ok"], "term": o["back"]["term"]},
        "sj": {"ok": o["sj"]["ok"], "term": o["sj"]["term"]}} for o in obs])
    v = vlib.run_tlc("lex/SerdeTrace.tla", "lex/SerdeTrace.cfg", env={"TRACE": c.path("v.ndjson")}, workers=8,
                     timeout=6000, keep_lines=100, xmx="8g")
    c.add_tlc("V SerdeTrace", v)
    verdicts = {t[1]: (CODES.get(t[2], t[2]), CODES.get(t[3], t[3]), t[4]) for t in v.tagged("VERDICT")}
    if len(verdicts) != len(obs):
        raise vlib.ToolError("V produced %d verdicts for %d cases" % (len(verdicts), len(obs)))
    seen_kinds, per_type, unrep = set(), {}, 0
    for o in obs:
        vd, drift, rep = verdicts[o["id"]]
        if vd.startswith("tool:"):
            raise vlib.ToolError("%s: %s %s (serde_json: %s)" % (vd, o["ty"], show(o["term"]),
                                                                 show(o["sj"]["term"]) if o["sj"]["ok"] else o["sj"]["err"]))
        kinds(o["term"], seen_kinds)
        per_type[o["ty"]] = per_type.get(o["ty"], 0) + 1
        if not rep:
            unrep += 1
        c.count_case({"ty": o["ty"], "term": o["term"]}, nontrivial=bool(rep))
        replay = {"ty": o["ty"], "term": show(o["term"]), "case": {"ty": o["ty"], "term": o["term"]},
                  "to_value": show(o["tv"]["v"]) if o["tv"]["ok"] else "error: " + o["tv"]["err"],
                  "from_value": show(o["back"]["term"]) if o["back"]["ok"] else "error: " + o["back"]["err"], "verdict": vd}
        c.verdict(vd, replay, vd)
        if drift:
            c.drift("%s %s: %s (value %s, back %s)" % (o["ty"], show(o["term"]), drift, replay["to_value"], replay["from_value"]))
    need = {"unit", "ustruct", "true", "false", "int", "float", "str", "bytes", "none", "some", "seq", "tuple", "tstruct", "map",
            "struct", "newtype", "uvar", "nvar", "tvar", "svar"}
    if need - seen_kinds:
        raise vlib.ToolError("vacuity: data-model shapes never exercised: %s" % sorted(need - seen_kinds))
    if set(per_type) != set(FAMILY):
        raise vlib.ToolError("vacuity: family members without cases: %s" % sorted(set(FAMILY) - set(per_type)))
    c.cov["traces_validated_against_impl"] = len(obs)
    c.cov["exhaustive"] = exhaustive
    c.cov["cases_per_type"] = per_type
    c.cov["not_representable_cases"] = unrep
    c.cov["rule"] = ("G: every term of each of the %d family types (all integer widths at their edges, f32/f64 incl. extremes, NaN and "
                     "infinities, strings, bytes, Option, nested Option, Option<()>, unit/newtype/tuple structs, unit/newtype/tuple/struct "
                     "variants, nested enums, tuples, arrays, sequences, string- and unit-variant-keyed maps, untagged / internally / "
                     "adjacently tagged enums, flattened and skipped fields) down to the depth bound (TLC, %d typed terms, law checked on "
                     "each; %d replayed%s); non-trivial = the term is representable in a null-based format (the round trip is demanded); "
                     "distinct by (type, term)" % (len(FAMILY), total, len(obs), "" if exhaustive else ", seeded sample of the large types"))
    for o in obs[:1] + [x for x in obs if x["ty"] == "Opt2"][1:2] + [x for x in obs if x["ty"] == "E" and x["term"]["k"] == "svar"][:1]:
        c.sample({"ty": o["ty"], "term": show(o["term"]), "to_value": show(o["tv"]["v"]), "from_value": show(o["back"]["term"]),
                  "verdict": verdicts[o["id"]][0]})
    c.assumptions += [
        "'without loss' is read as in DESIGN.md section 5 C16: Some(x) whose image is null comes back as None, a non-finite float "
        "outside an Option is not demanded to come back; this reading is cross-checked against serde_json on every case (tool error on disagreement)",
        "integers and floats cross the TLC boundary as decimal texts in Rust's spelling; text equality stands for numeric equality",
        "the harness's term serializer/deserializer (Rust value <-> data-model term) are trusted projections; each case checks that "
        "they are mutually inverse on the built value",
        "char and 128-bit integers are outside the property's list; integer range checks of the reference Decode are not modelled"]


vlib.main("C16", "exploration", body)
