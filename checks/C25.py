#!/usr/bin/env python3
"""C25 -- WebSocket sessions follow the graphql-ws (subscriptions-transport-ws) and graphql-transport-ws protocols.
M: WebSocket.tla -- model of WebSocket::poll_next + environment, both protocols; the five clauses of C25 are
   invariants of the property monitor carried by the model.  The protocol as written (Dev = {}) must satisfy them;
   each deviation of today's code, switched on, must give a TLC counterexample (design-level demonstration).
   Gen_WebSocket.tla also states the clauses declaratively over the history and checks that the monitor is at least
   as strict on every bounded history.
G: every maximal bounded behaviour of the model as a schedule of harness commands (eager polling with two ids,
   free interleaving of polls with one id), plus seeded random scripts of up to 30 environment commands.
harness: c25 drives the real async_graphql::http::WebSocket with a hand-fed client stream, its own Executor,
   hand-resolved on_connection_init / on_ping futures and a manual keep-alive Timer; every event is logged.
V: WebSocketTrace.tla -- verdict by folding the monitor over each recorded history; drift by replaying the model."""
import json, os, random, re, sys
sys.path.insert(0, os.path.join(os.path.dirname(os.path.abspath(__file__)), "..", "lib"))
import vlib

ALL_DEV = ["DevDupIdReplaces", "DevUnauth1011", "DevInvalid1002"]
IDS = ["a", "b", "c"]


def tla_set(xs, quote=True):
    return "{" + ", ".join(('"%s"' % x) if quote else str(x) for x in xs) + "}"


def write_cfg(path, protos, kas, ids, maxev, maxin, maxq, dev, tail):
    with open(path, "w") as f:
        f.write("CONSTANT Protos = %s\nCONSTANT KeepAlives = %s\nCONSTANT Ids = %s\n" %
                (tla_set(protos), tla_set(["TRUE" if k else "FALSE" for k in kas], quote=False), tla_set(ids)))
        f.write("CONSTANT MaxEv = %d\nCONSTANT MaxIn = %d\nCONSTANT MaxQ = %d\nCONSTANT Dev = %s\n" % (maxev, maxin, maxq, tla_set(dev)))
        f.write(tail)
    return path


CLAUSES = ["TypeOK", "P0_ProtocolAlphabet", "P1_AckBeforeRun", "P2_DataIsLive", "P3_CompleteOnce", "P4_ViolationCodes",
           "P5_SilentAfterClose", "P6_PongPerPing", "MonitorInSync"]


def E(k, t="", i="", n=0):
    return {"k": k, "t": t, "id": i, "n": n}


POLL = E("poll")


def random_script(rng):
    """A seeded random session: up to 30 environment commands with polls sprinkled in between."""
    proto = rng.choice(["GWS", "STWS"])
    ka = rng.random() < 0.3
    ids = IDS[:rng.choice([1, 2, 2, 3])]
    s = []
    if rng.random() < 0.75:  # most sessions start with a well-formed handshake so that operations can run
        s += [E("in", "init"), POLL, E("initres", n=1 if rng.random() < 0.9 else 0), POLL]
    n = rng.randint(3, 30)
    eager = rng.random() < 0.5
    for _ in range(n):
        r = rng.random()
        i = rng.choice(ids)
        if r < 0.20: c = E("in", "start", i)
        elif r < 0.29: c = E("in", "stop", i)
        elif r < 0.51: c = E("ev", "", i)
        elif r < 0.59: c = E("end", "", i)
        elif r < 0.65: c = E("in", "ping")
        elif r < 0.68: c = E("in", "pong")
        elif r < 0.72: c = E("in", "init")
        elif r < 0.735: c = E("in", "bad")
        elif r < 0.75: c = E("in", "term")
        elif r < 0.76: c = E("in", "eof")
        elif r < 0.82: c = E("initres", n=1 if rng.random() < 0.7 else 0)
        elif r < 0.90: c = E("pingres", n=1 if rng.random() < 0.8 else 0)
        elif r < 0.92: c = E("tick")
        else: c = POLL
        s.append(c)
        if c is not POLL:
            if eager:
                s += [POLL, POLL, POLL]
            else:
                s += [POLL] * rng.choice([0, 0, 1, 1, 2])
    return {"proto": proto, "keepalive": ka, "sched": s}


def ping_scripts():
    """Overlapping pings: k pings arrive back to back (all at once, or one per poll) while the suspended on_ping callback of
    the first is still running; the gates are opened afterwards (ok / one failing), with polls in between; with and without
    a completed handshake, for both protocols."""
    out = []
    for proto in ("GWS", "STWS"):
        for hs in (False, True):
            for k in (2, 3):
                for burst in (True, False):
                    for res in ([1] * k, [1] * (k - 1) + [0], [0] + [1] * (k - 1)):
                        for tailpolls in (1, 2):
                            s = [E("in", "init"), POLL, E("initres", n=1), POLL, POLL] if hs else []
                            if burst:
                                s += [E("in", "ping")] * k + [POLL, POLL]
                            else:
                                for _ in range(k):
                                    s += [E("in", "ping"), POLL]
                            for r in res:
                                s += [E("pingres", n=r)] + [POLL] * tailpolls
                            s += [E("in", "ping"), POLL, E("pingres", n=1), POLL]
                            out.append({"proto": proto, "keepalive": False, "sched": s})
    return out


def show(tr):
    return " ".join((e["k"] if e["k"] != "out" else "") + (":" if e["k"] != "out" and (e["t"] or e["id"]) else "") +
                    (("<" + e["t"]) if e["k"] == "out" else e["t"]) + (("(%s)" % e["id"]) if e["id"] else "") +
                    ((":%d" % e["n"]) if e["n"] else "") + (">" if e["k"] == "out" else "") for e in tr["events"])


def controls():
    """Hand-written histories with a known verdict: the self-test of the monitor run (a wrong verdict is a tool error)."""
    O = lambda t, i="", n=0: E("out", t, i, n)
    hs = [E("in", "init"), E("recv", "init"), E("initcall"), O("pending"), E("initres", n=1), O("ack")]
    st = lambda i, g: [E("in", "start", i), E("recv", "start", i), E("exec", "", i, g)]
    dup = hs + st("a", 1) + [E("in", "start", "a"), E("recv", "start", "a")]
    pg = [E("in", "ping"), E("recv", "ping"), E("pingcall"), O("pending")]
    return [
        ("ok", "GWS", hs + st("a", 1) + [E("ev", "", "a", 1), O("next", "a", 1), E("end", "", "a", 1), O("complete", "a"), O("pending")]),
        ("violation:P1", "GWS", [E("in", "init"), E("recv", "init"), E("initcall"), O("next", "a", 1)]),
        ("violation:P1", "STWS", [E("in", "start", "a"), E("recv", "start", "a"), E("exec", "", "a", 1)]),
        ("violation:P1", "GWS", hs + [O("ack")]),
        ("violation:P2", "GWS", hs + [O("next", "a", 1)]),
        ("violation:P2", "STWS", hs + st("a", 1) + [E("ev", "", "a", 1)] + st("a", 2) + [O("next", "a", 1)]),
        ("violation:P3", "GWS", hs + st("a", 1) + [E("end", "", "a", 1), O("complete", "a"), O("complete", "a")]),
        ("violation:P3", "STWS", hs + st("a", 1) + [E("ev", "", "a", 1), E("in", "stop", "a"), E("recv", "stop", "a"), O("complete", "a"), O("next", "a", 1)]),
        ("ok", "GWS", dup + [O("close", "", 4409), O("none")]),
        ("known:DevDupIdReplaces", "GWS", dup + [E("exec", "", "a", 2), O("pending")]),
        ("violation:P4", "GWS", dup + [O("close", "", 4400)]),
        ("violation:P4", "GWS", dup + [O("pending")]),
        ("known:DevUnauth1011", "GWS", [E("in", "start", "a"), E("recv", "start", "a"), O("close", "", 1011), O("none")]),
        ("violation:P4", "GWS", [E("in", "start", "a"), E("recv", "start", "a"), O("close", "", 1002)]),
        ("ok", "STWS", [E("in", "start", "a"), E("recv", "start", "a"), O("close", "", 1011), O("none")]),
        ("violation:P4", "STWS", [E("in", "start", "a"), E("recv", "start", "a"), O("pending")]),
        ("violation:P4", "STWS", hs + [E("in", "init"), E("recv", "init"), O("error"), O("pending")]),
        ("violation:P4", "GWS", hs + [E("in", "init"), O("pending")]),
        ("ok", "GWS", [E("in", "init"), E("recv", "init"), E("initcall"), O("pending"), E("in", "init"), O("pending")]),
        ("known:DevInvalid1002", "GWS", [E("in", "bad"), E("recv", "bad"), O("close", "", 1002), O("none")]),
        ("violation:P5", "GWS", [E("in", "bad"), E("recv", "bad"), O("close", "", 4400), O("pending"), O("pong")]),
        ("ok", "GWS", [E("in", "bad"), E("recv", "bad"), O("close", "", 4400), O("pending"), O("none")]),
        ("violation:P5", "STWS", hs + st("a", 1) + [E("ev", "", "a", 1), E("in", "term"), E("recv", "term"), O("next", "a", 1)]),
        ("violation:P0", "GWS", hs + [O("close", "", 1000)]),
        ("violation:P0", "GWS", hs + [O("error")]),
        ("ok", "GWS", pg + [E("pingres", n=1), O("pong", "", 1), O("pending")] + pg + [E("pingres", n=1), O("pong", "", 1), O("pong"), O("pending")]),
        ("ok", "GWS", pg + pg + [E("pingres", n=1), O("pong", "", 1), O("pending"), E("pingres", n=1), O("pong", "", 1), O("pending")]),
        ("violation:P6", "GWS", pg + pg + [E("pingres", n=1), O("pending")]),
        ("violation:P6", "GWS", pg + pg + [E("pingres", n=1), E("pingres", n=1), O("pong", "", 2)]),
        ("violation:P6", "GWS", pg + [O("pong", "", 1)]),
        ("violation:P6", "GWS", pg + [E("pingres", n=1), O("pong", "", 1), O("pong", "", 1)]),
        ("violation:P6", "GWS", hs + pg + [E("pingres", n=1), O("pending")]),
        ("ok", "STWS", pg + pg + [E("pingres", n=1), E("pingres", n=1), O("pong", "", 2), O("pending")]),
        ("ok", "GWS", pg + [E("pingres", n=0), O("close", "", 1002), O("none")]),
    ]


CONTROL_BASE = 10000000


def validate(c, cases, label, do_drift=True, drift_cap=0):
    """harness + V (verdict, drift) for a list of cases; returns the traces with verdicts attached."""
    vlib.write_ndjson(c.path("schedules.ndjson"), cases)
    (binary,) = vlib.build_harness(["c25"])
    p = vlib.run_harness(binary, [c.path("schedules.ndjson"), c.path("trace.ndjson"), c.seed], timeout=1800)
    if p.returncode != 0:
        raise vlib.ToolError("c25 harness failed: " + p.stderr[-2000:])
    traces = vlib.read_ndjson(c.path("trace.ndjson"))
    if len(traces) != len(cases):
        raise vlib.ToolError("harness wrote %d traces for %d cases" % (len(traces), len(cases)))
    # TLC reads only what it judges: id, configuration, events
    rows = [{"id": t["id"], "proto": t["proto"], "keepalive": t["keepalive"], "events": t["events"]} for t in traces]
    ctl = controls()
    vlib.write_ndjson(c.path("events.ndjson"), rows + [{"id": CONTROL_BASE + i, "proto": p, "keepalive": False, "events": ev} for i, (_, p, ev) in enumerate(ctl)])
    v = vlib.run_tlc("conc/WebSocketTrace.tla", "conc/WebSocketTrace.cfg", env={"TRACE": c.path("events.ndjson")},
                     workers=1, timeout=3000, keep_lines=50, xmx="8g")
    c.add_tlc("V verdict fold (%s)" % label, v)
    verdicts = {t[1]: (t[2], t[3]) for t in v.tagged("VERDICT") if len(t) >= 4}
    whys = {t[1]: t[2] for t in v.tagged("WHY") if len(t) >= 3}
    if len(verdicts) != len(traces) + len(ctl):
        raise vlib.ToolError("V produced %d verdicts for %d traces" % (len(verdicts), len(traces) + len(ctl)))
    for i, (want, _, _) in enumerate(ctl):
        if verdicts[CONTROL_BASE + i][0] != want:
            raise vlib.ToolError("monitor self-test: control history %d judged %s, expected %s" % (i, verdicts[CONTROL_BASE + i][0], want))
    c.cov["monitor_control_histories"] = len(ctl)
    for tr in traces:
        vd, at = verdicts[tr["id"]]
        tr["verdict"], tr["bad_at"] = vd, at
        if vd.startswith("violation"):
            tr["why"] = "%s: %s; rejected event #%s %s" % (vd, whys.get(tr["id"], ""), at, json.dumps(tr["events"][at - 1]) if 0 < at <= len(tr["events"]) else "")
    drift = []
    if do_drift:
        if drift_cap and len(rows) > drift_cap:   # quick tier: the model replay runs on a seeded sample (plus every excused trace)
            rr = random.Random(c.seed)
            keep = set(rr.sample(range(len(rows)), drift_cap)) | set(i for i, t in enumerate(traces) if t["verdict"] != "ok")
            rows = [r for i, r in enumerate(rows) if i in keep]
        vlib.write_ndjson(c.path("drift.ndjson"), rows)
        c.cov["traces_replayed_against_model"] = c.cov.get("traces_replayed_against_model", 0) + len(rows)
        d = vlib.run_tlc("conc/WebSocketTrace.tla", "conc/WebSocketDrift.cfg", env={"TRACE": c.path("drift.ndjson")},
                         workers=1, timeout=3000, keep_lines=50, xmx="8g", deque=True)
        prog = d.tagged("PROGRESS")
        if len(prog) != len(rows):
            raise vlib.ToolError("drift run reported %d traces of %d" % (len(prog), len(rows)))
        for t in prog:
            if t[2] != t[3]:
                drift.append((t[1], t[2], t[3]))
        c.add_tlc("V drift replay (%s)" % label, d)
    return traces, drift


def replay(c):
    with open(c.replay) as f:
        obj = json.load(f)
    case = obj.get("case", obj)
    traces, drift = validate(c, [{"proto": case["proto"], "keepalive": case["keepalive"], "sched": case["sched"]}], "replay")
    tr = traces[0]
    print("REPLAY proto=%s keepalive=%s" % (tr["proto"], tr["keepalive"]))
    print("  observed: " + show(tr))
    print("  verdict : " + tr["verdict"] + ((" -- " + tr["why"]) if "why" in tr else ""))
    if "events" in case and case["events"] != tr["events"]:
        print("  note    : the recorded history differs from the one stored in the replay file")
    for (i, got, total) in drift:
        print("  model   : today's-code model follows %s of %s events" % (got, total))
    c.count_case(tr["events"], nontrivial=True)
    c.count_case(tr["sched"], nontrivial=True)
    c.sample({"observed": show(tr), "verdict": tr["verdict"]})
    c.verdict(tr["verdict"], tr, tr.get("why", ""))
    c.cov["rule"] = "replay of one stored case"


def body(c):
    if c.replay:
        return replay(c)
    rng = random.Random(c.seed)
    tail_m = "INIT Init\nNEXT Next\nVIEW MView\n" + "".join("INVARIANT %s\n" % x for x in CLAUSES)
    # ---- M: the protocol as written satisfies the clauses -------------------------------------------
    if c.quick:
        # keep-alive configured subsumes not configured in the model (the only difference is that KeepAliveExpires may happen)
        cfg = write_cfg(c.path("M.cfg"), ["GWS", "STWS"], [True], ["a", "b"], 2, 4, 2, [], tail_m)
        mlabel = "ids {a,b}, <=2 events per run, <=4 client messages, <=2 unread"
    else:
        cfg = os.path.join(vlib.SPEC, "conc", "MC_WebSocket.cfg")
        mlabel = "ids {a,b}, <=2 events per run, <=5 client messages, <=2 unread"
    m = vlib.run_tlc("conc/WebSocket.tla", cfg, workers=8, coverage=True, timeout=2400, xmx="8g")
    if m.invariant_violated:
        raise vlib.ToolError("design-level failure: the protocol model violates " + str(m.invariant_violated))
    for act in ("Client", "StreamEvent", "StreamEnd", "InitResolves", "PingResolves", "KeepAliveExpires", "Poll"):
        if m.coverage.get("WebSocket!" + act, (0, 0))[0] == 0:
            raise vlib.ToolError("vacuity: action %s never taken in mode M" % act)
    c.add_tlc("M protocol as written, both protocols, keep-alive timer (%s): P0-P6, MonitorInSync" % mlabel, m)
    c.cov["coverage_actions"] = {k: list(v) for k, v in sorted(m.coverage.items()) if k.startswith("WebSocket!") and k.split("!")[1][0].isupper()
                                 and k.split("!")[1] in ("Client", "StreamEvent", "StreamEnd", "InitResolves", "PingResolves", "KeepAliveExpires", "Poll")}
    # ---- M: each deviation of today's code, switched on, violates clause P4 (design-level demonstration) ----
    demos = []
    for dev in ALL_DEV:
        cfg = write_cfg(c.path("M_%s.cfg" % dev), ["GWS"], [False], ["a"], 1, 4, 2, [dev], "INIT Init\nNEXT Next\nINVARIANT P4_ViolationCodes\n")
        r = vlib.run_tlc("conc/WebSocket.tla", cfg, workers=4, timeout=600, expect_violation=True, keep_lines=6000)
        if r.invariant_violated != "P4_ViolationCodes":
            raise vlib.ToolError("deviation %s switched on does not violate P4 in the model (got %s)" % (dev, r.invariant_violated))
        steps = [re.sub(r"\s+", " ", x) for x in re.findall(r"^State \d+: <(.*?) line \d+", "\n".join(r.lines), re.M)]
        demos.append({"deviation": dev, "violates": "P4_ViolationCodes", "counterexample_actions": steps, "states_explored": r.distinct})
        c.add_tlc("M deviation %s on: TLC counterexample to P4 (expected)" % dev, r)
    c.cov["deviation_counterexamples"] = demos
    if not c.quick:
        lv = vlib.run_tlc("conc/WebSocket.tla", "conc/MC_WebSocket_Live.cfg", workers=4, timeout=2400, xmx="8g")
        if lv.invariant_violated:
            raise vlib.ToolError("design-level failure: liveness property Drains violated: " + str(lv.invariant_violated))
        c.add_tlc("M liveness: an open server eventually reads every client message (weak fairness of poll_next and callbacks)", lv)
        tail = "INIT Init\nNEXT Next\nVIEW MView\nINVARIANT OnlyNamedDeviations\nINVARIANT MonitorInSync\n"
        cfg = write_cfg(c.path("M_today.cfg"), ["GWS", "STWS"], [True], ["a", "b"], 2, 4, 2, ALL_DEV, tail)
        r = vlib.run_tlc("conc/WebSocket.tla", cfg, workers=8, timeout=2400, xmx="8g")
        if r.invariant_violated:
            raise vlib.ToolError("model of today's code breaks a clause other than through a named deviation: " + str(r.invariant_violated))
        c.add_tlc("M today's code (all deviations on): every clause holds except through the named deviations", r)
    # ---- G: schedules from the state graph (+ declarative clauses => monitor on every history) --------
    gtail = "CONSTANT Eager = %s\nINIT GInit\nNEXT GNext\nINVARIANT Emit\nINVARIANT DeclImpliesMonitor\n"
    if c.quick:
        gens = [("eager", ["a", "b"], 1, 3, 1, True, [True, False]), ("free", ["a"], 1, 2, 2, False, [False])]
    else:
        gens = [("eager", ["a", "b"], 1, 4, 1, True, [True, False]), ("eager2", ["a"], 2, 4, 1, True, [False]),
                ("free", ["a"], 1, 3, 2, False, [False])]
    cases, exhaustive = [], True
    cap = 9000 if c.quick else 40000
    for (name, ids, maxev, maxin, maxq, eager, kas) in gens:
        cfg = write_cfg(c.path("G_%s.cfg" % name), ["GWS", "STWS"], kas, ids, maxev, maxin, maxq, ALL_DEV, gtail % ("TRUE" if eager else "FALSE"))
        g = vlib.run_tlc("conc/Gen_WebSocket.tla", cfg, workers=8, timeout=3000, keep_lines=50, xmx="8g")
        if g.invariant_violated:
            raise vlib.ToolError("Gen_WebSocket: %s violated (the monitor misses something the declarative clauses reject)" % g.invariant_violated)
        c.add_tlc("G %s polling, ids %s, <=%d events, <=%d client messages (+ DeclImpliesMonitor)" % (name, ",".join(ids), maxev, maxin), g)
        rows = sorted(set((t[1], t[2], t[3]) for t in g.tagged("REPLAY") if len(t) >= 4))
        if not rows:
            raise vlib.ToolError("generator %s printed no schedule" % name)
        if len(rows) > cap:
            rows = rng.sample(rows, cap)
            exhaustive = False
        cases += [{"proto": p, "keepalive": bool(k), "sched": json.loads(s)} for (p, k, s) in rows]
    # the ideal model satisfies the declarative clauses themselves
    cfg = write_cfg(c.path("G_ideal.cfg"), ["GWS", "STWS"], [True, False], ["a"], 1, 3, 2, [],
                    "CONSTANT Eager = %s\nINIT GInit\nNEXT GNext\nINVARIANT IdealSatisfiesDecl\n" % ("TRUE" if c.quick else "FALSE"))
    gi = vlib.run_tlc("conc/Gen_WebSocket.tla", cfg, workers=8, timeout=3000, keep_lines=50, xmx="8g")
    if gi.invariant_violated:
        raise vlib.ToolError("the protocol model violates the declarative clauses: " + str(gi.invariant_violated))
    c.add_tlc("M protocol as written satisfies the declarative clauses D1-D5 over the history", gi)
    n_graph = len(cases)
    pings = ping_scripts()
    cases += pings
    c.cov["overlapping_ping_scripts"] = len(pings)
    for _ in range(600 if c.quick else 10000):
        cases.append(random_script(rng))
    # ---- harness + V -------------------------------------------------------------------------------
    traces, drift = validate(c, cases, "all traces", drift_cap=2500 if c.quick else 0)
    seen = {"ack": 0, "next": 0, "complete": 0, "pong": 0, "error": 0, "none": 0}
    codes = {}
    for tr in traces:
        outs = [e for e in tr["events"] if e["k"] == "out"]
        for e in outs:
            if e["t"] in seen:
                seen[e["t"]] += 1
            if e["t"] == "close":
                codes[e["n"]] = codes.get(e["n"], 0) + 1
        c.count_case([tr["proto"], tr["keepalive"], tr["events"]], nontrivial=any(e["k"] == "recv" for e in tr["events"]))
        c.verdict(tr["verdict"], tr, tr.get("why", ""))
    if not c.violations:   # vacuity guards apply to a run that would otherwise report "held"
        for k, n in seen.items():
            if n == 0:
                raise vlib.ToolError("vacuity: no trace contains output '%s'" % k)
        for code in (4429, 3008):
            if codes.get(code, 0) == 0:
                raise vlib.ToolError("vacuity: close code %d never observed" % code)
        for t in ("init", "start", "stop", "ping", "pong", "term", "bad", "eof"):
            if not any(e["k"] == "recv" and e["t"] == t for tr in traces for e in tr["events"]):
                raise vlib.ToolError("vacuity: the server never took a client message of kind '%s'" % t)
    for (i, got, total) in drift:
        c.drift("trace %s: the model of today's code follows %s of %s recorded events" % (i, got, total))
    c.cov["traces_validated_against_impl"] = len(traces)
    c.cov["traces_from_state_graph"] = n_graph
    c.cov["observed_outputs"] = seen
    c.cov["observed_close_codes"] = {str(k): v for k, v in sorted(codes.items())}
    c.cov["exhaustive"] = exhaustive
    c.cov["rule"] = ("G: every maximal behaviour of the session model within the bounds as a schedule of harness commands (client "
                     "message / stream event / stream end / callback resolution / timer expiry / one poll_next), for both protocols: "
                     + "; ".join("%s polling with ids {%s}, <=%d events per run, <=%d client messages%s" %
                                 (nm, ",".join(ids), me, mi, ", keep-alive on/off" if len(kas) > 1 else "") for (nm, ids, me, mi, mq, eg, kas) in gens)
                     + (" (all replayed)" if exhaustive else " (seeded sample of %d per generator)" % cap)
                     + "; plus %d scripts of 2-3 overlapping pings (back to back or one per poll, gates of the suspended on_ping callbacks opened afterwards)" % len(pings)
                     + "; plus seeded random scripts of up to 30 environment commands with ids a-c. Each is executed against the real "
                     "WebSocket stream; non-trivial = the server took at least one client message; distinct by recorded history")
    picks = [t for t in traces if t["verdict"].startswith("known")][:1] + [t for t in traces if any(e["t"] == "next" for e in t["events"])][:1] + traces[-1:]
    for tr in picks:
        c.sample({"proto": tr["proto"], "keepalive": tr["keepalive"], "observed": show(tr), "verdict": tr["verdict"]})
    c.assumptions += ["the four integration crates only map WsMessage::Text/Close to frames and feed incoming frames in (read, not executed here)",
                      "close reasons, payload contents and the service order of two simultaneously ready operations are not compared",
                      "the close code of a rejected init/ping callback and of a keep-alive expiry is not judged (not fixed by the protocols)",
                      "pongs are attributed to pings through the payload the harness's on_ping callback returns (its call number); pong-per-ping (P6) is judged for graphql-transport-ws only, the legacy protocol has no ping/pong",
                      "legacy protocol: a violation must be answered by connection_error+end or by a close frame of any code; a repeated start id is not a violation",
                      "cross-protocol message aliases (start/stop under graphql-transport-ws, subscribe/complete under the legacy protocol) are not exercised"]


vlib.main("C25", "model_checking", body)
