#!/usr/bin/env python3
"""C05 -- responses do not depend on the order in which concurrent resolvers complete.
M/G: ExecSched.tla -- per case, the task tree of its gated resolvers; TLC checks the scheduler invariants and
     termination and enumerates EVERY completion order (<= 5 gates quick, <= 6 thorough).
harness: cexec opens the gates in the TLC-chosen order, polling the execute future by hand in between.
V: ExecTrace.tla MODE=errors -- every schedule's data and error set equal the schedule-free reference."""
import json, os, random, sys
sys.path.insert(0, os.path.join(os.path.dirname(os.path.abspath(__file__)), "..", "lib"))
import vlib, gqlgen, execcheck, schedcheck


def body(c):
    ts = json.load(open(execcheck.SCHEMA))
    rng = random.Random(c.seed)
    nq = 40 if c.quick else 200
    max_tasks = 5 if c.quick else 6
    dg = gqlgen.DocGen(ts, random.Random(c.seed + 11), max_depth=3, max_items=6, p_dir=0.0, p_frag=0.15, p_alias=0.1)
    base = []
    while len(base) < nq * 2:
        d = dg.doc("Query", "query", budget=12)
        if gqlgen.conflicting_keys(ts, d):
            continue
        for flavour in ("static", "dynamic"):
            wg = gqlgen.WorldGen(ts, random.Random(c.seed * 17 + len(base)), p_null=0.05, p_err=0.12)
            wg.dyn_lists = flavour == "dynamic"
            w = wg.world()
            if flavour == "dynamic":
                w = json.loads(json.dumps(w).replace('{"k": "err"}', '{"k": "err"}'))
            base.append({"id": 0, "flavour": flavour, "doc": d, "opIndex": 1, "vars": [], "world": w, "schedule": []})
    # targeted: two nullable subtrees resolving concurrently, each with a failing child (non-null or nullable) --
    # every completion order of "first failure recorded" / "second failure propagates" must report both errors
    def f(d, name, alias=""): return {"d": d, "k": "field", "name": name, "alias": alias, "on": "", "dir": ""}
    def on(d, t): return {"d": d, "k": "inline", "name": "", "alias": "", "on": t, "dir": ""}
    twin = [([f(1, "a"), f(2, "nn"), f(1, "node"), on(2, "A"), f(3, "n")], [("a1", "nn"), ("a2", "n")]),
            ([f(1, "a"), f(2, "selfNN"), f(3, "fnn"), f(1, "u"), on(2, "A"), f(3, "nn")], [("a1", "fnn"), ("a2", "nn")]),
            ([f(1, "node"), on(2, "A"), f(3, "nn"), f(1, "a"), f(2, "n"), f(2, "e")], [("a2", "nn"), ("a1", "n"), ("a1", "e")])]
    for flat, faults in twin:
        for flavour in ("static", "dynamic"):
            wg = gqlgen.WorldGen(ts, random.Random(c.seed * 19 + len(base)), p_null=0.0)
            wg.dyn_lists = flavour == "dynamic"
            w = wg.world()
            # a -> a1, node/u -> a2; self references stay inside a1
            w["root"]["vals"]["a"] = {"k": "ref", "id": "a1", "ty": "A"}
            w["root"]["vals"]["node"] = {"k": "ref", "id": "a2", "ty": "A"}
            w["root"]["vals"]["u"] = {"k": "ref", "id": "a2", "ty": "A"}
            w["a1"]["vals"]["selfNN"] = {"k": "ref", "id": "a1", "ty": "A"}
            for oid, fld in faults:
                w[oid]["vals"][fld] = {"k": "err"}
            base.append({"id": 0, "flavour": flavour, "doc": gqlgen.tree_from_flat(flat, "query"), "opIndex": 1, "vars": [], "world": w, "schedule": []})
    dry = schedcheck.dry_run(c, base, "c05")
    trees, gated = [], {}
    for case, d in zip(base, dry):
        tt = schedcheck.task_tree(case, d, rng, max_tasks)
        if tt is None or len(tt[1]["parent"]) < 2:
            continue
        world, tree = tt
        tree["id"] = case["id"]
        trees.append(tree)
        gated[case["id"]] = world
    if len(trees) < 4:
        raise vlib.ToolError("too few schedulable cases")
    sched = schedcheck.schedules(c, trees, "c05")
    cases = []
    exhaustive_orders = True
    groups = {}
    for case in base:
        if case["id"] not in gated:
            continue
        ss = sched.get(case["id"], [])
        if len(ss) > (60 if c.quick else 720):
            ss = rng.sample(ss, 60 if c.quick else 720)
            exhaustive_orders = False
        for s in ss:
            x = dict(case)
            x["world"] = gated[case["id"]]
            x["schedule"] = s
            x["group"] = case["id"]
            cases.append(x)
    # random completion orders beyond the exhaustive bound: one list of 36 distinct objects whose item resolvers all suspend
    big_objects = {"root": ts["query"], "b1": "B"}
    for i in range(1, 37):
        big_objects["a%d" % i] = "A"
    big_trees, big_cases = [], {}
    for bi, flavour in enumerate(("static", "dynamic")):
        wg = gqlgen.WorldGen(ts, random.Random(c.seed * 3 + bi), objects=dict(big_objects), p_null=0.0)
        wg.dyn_lists = flavour == "dynamic"
        w = wg.world()
        w["root"]["vals"]["nodes"] = {"k": "list", "items": [{"k": "ref", "id": "a%d" % i, "ty": "A"} for i in range(1, 37)]}
        for i in range(1, 37):
            w["a%d" % i]["vals"]["n"] = {"k": "int", "v": str(i), "gate": i}
        flat = [{"d": 1, "k": "field", "name": "nodes", "alias": "", "on": "", "dir": ""},
                {"d": 2, "k": "inline", "name": "", "alias": "", "on": "A", "dir": ""},
                {"d": 3, "k": "field", "name": "n", "alias": "", "on": "", "dir": ""}]
        cid = 100000 + bi
        big_cases[cid] = {"id": 0, "flavour": flavour, "doc": gqlgen.tree_from_flat(flat, "query"), "opIndex": 1, "vars": [], "world": w, "schedule": []}
        big_trees.append({"id": cid, "serial": False, "parent": [0] * 36, "root": [1] * 36, "after": [[] for _ in range(36)]})
    big_sched = schedcheck.schedules(c, big_trees, "c05big", sim=12 if c.quick else 200)
    for cid, case in big_cases.items():
        for s in big_sched.get(cid, []):
            if len(s) != 36:
                continue
            x = dict(case)
            x["schedule"] = s
            x["group"] = cid
            cases.append(x)
    obs, verdicts = execcheck.run_cases(c, cases, "errors")
    per_group = {}
    for o in obs:
        nontriv = len(o["schedule"]) >= 2
        c.count_case({"t": o["text"], "f": o["flavour"], "w": vlib.chash(o["world"]), "s": o["schedule"]}, nontrivial=nontriv)
        slim = {"flavour": o["flavour"], "text": o["text"], "schedule": o["schedule"], "world": o["world"],
                "obs": {"data": o["obs"]["data"], "errors": o["obs"]["errors"], "problem": o["obs"]["problem"]}}
        c.verdict(verdicts[o["id"]], slim, "response under this completion order differs from the reference")
        per_group.setdefault(o["group"], set()).add(vlib.canon([o["obs"]["data"], sorted(vlib.canon([e["path"], e["locs"]]) for e in o["obs"]["errors"])]))
        for e in o["obs"]["log"]:
            if e["ev"] == "open" and not e.get("waited", True) and not e.get("extra"):
                c.drift("case %s: gate %s opened before its resolver waited (model enabled Finish earlier than the executor started it)" % (o["id"], e["gate"]))
                break
    c.cov["groups"] = len(per_group)
    c.cov["groups_with_distinct_responses"] = sum(1 for v in per_group.values() if len(v) > 1)
    c.cov["traces_validated_against_impl"] = len(obs)
    c.cov["exhaustive"] = exhaustive_orders
    c.cov["rule"] = ("%d seeded random queries x {static, dynamic} with failing resolvers at random positions; up to %d resolvers of each are "
                     "gated; ExecSched.tla enumerates every completion order consistent with parent-before-child (all linear extensions); each "
                     "executed by opening the gates in that order; non-trivial = at least 2 gates; distinct by (flavour, text, world, schedule)"
                     % (len(gated), max_tasks))
    for o in obs[:2]:
        c.sample({"flavour": o["flavour"], "text": o["text"], "schedule": o["schedule"], "data": o["obs"]["data"],
                  "errors": [e["path"] for e in o["obs"]["errors"]], "verdict": verdicts[o["id"]]})
    c.assumptions += ["a gate opened before its resolver asked for it is equivalent to an immediately completing resolver",
                      "resolvers are deterministic functions of (object, field) by construction of the harness"]


vlib.main("C05", "model_checking", body)
