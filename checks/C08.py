#!/usr/bin/env python3
"""C08 -- built-in input validators accept exactly the values satisfying their predicate.
M: MC_BigNat (exact arithmetic incl. long division vs TLC's native integers) and, on every generated case, the
   self-consistency invariants of Validators.tla (no deviation = reference; a deviation only acts on its trigger;
   reference arithmetic vs native integers; UTF-8 length vs its definition) plus hand-computed RoundF64 points.
G: Gen_Validators.tla -- for every annotated argument / input-object field of the harness's derive-built family
   (table printed by `c08 family` from the very tokens the derive macros compiled) TLC enumerates values at, below
   and above each bound and at the extremes of the declared Rust type (u64 above i64::MAX, floats on both sides of
   integer bounds, 2^53 neighbours for float bounds, multi-byte strings, regex alphabets, lists, null).
   The driver crosses them with {strict, fast} validation mode and {literal, variable} transport.
harness: c08 executes each request with Schema::execute; the resolver logs its invocation.
V: ValidatorsTrace.tla -- resolver reached <=> every stated predicate holds (exact arithmetic); else an error."""
import json, os, re, sys, threading
sys.path.insert(0, os.path.join(os.path.dirname(os.path.abspath(__file__)), "..", "lib"))
import vlib


def show(v):
    k = v["k"]
    if k == "num":
        d = "".join(map(str, v["d"]))
        s = v["scale"]
        if v["lit"] == "float":
            d = d.rjust(s + 1, "0")
            d = (d[:len(d) - s] + "." + (d[len(d) - s:] or "0")) if s else d + ".0"
        return ("-" if v["neg"] else "") + d
    if k == "str":
        return json.dumps("".join(map(chr, v["cp"])))
    if k == "list":
        return "[" + ", ".join(show(x) for x in v["items"]) + "]"
    return k       # null, omitted, none


def ann_text(a):
    parts = ["list"] if a["list"] else []
    for val in a["vals"]:
        if val["kind"] in ("maximum", "minimum", "multiple_of"):
            b = dict(val["b"], k="num")
            parts.append("%s = %s" % (val["kind"], show(b)))
        elif val["kind"] == "regex":
            parts.append('regex = "%s"' % val["re"])
        else:
            parts.append("%s = %d" % (val["kind"], val["n"]))
    dflt = (", " + a["dflt_attr"] + " [= " + show(a["dflt"]) + "]") if a.get("dflt_attr") else ""
    return "%s: %s%s (%s%s)" % (a["name"], a["T"], {"plain": "", "opt": "?", "list": "[]", "optlist": "[]?"}[a["cont"]], ", ".join(parts), dflt)


def body(c):
    (binary,) = vlib.build_harness(["c08"])
    fam_path = c.path("family.json")
    p = vlib.run_harness(binary, ["family", fam_path], timeout=120)
    if p.returncode != 0:
        raise vlib.ToolError("c08 family failed: " + p.stderr[-2000:])
    with open(fam_path) as f:
        family = json.load(f)
    fam = {a["name"]: a for a in family}
    if c.replay:
        with open(c.replay) as f:
            rep = json.load(f)["case"]
        cases_in = [{"field": rep["field"], "route": rep["route"], "mode": rep["mode"], "v": rep["v"]}]
    else:
        cfg = c.path("Gen_Validators.cfg")
        with open(cfg, "w") as f:
            f.write("CONSTANT MaxStr = %d\nCONSTANT MaxRe = %d\nCONSTANT MaxList = %d\nINIT GInit\nNEXT GNext\nINVARIANT Emit\nINVARIANT NoDevIsReference\n"
                    "INVARIANT DevOnlyOnTrigger\nINVARIANT NativeAgreement\nINVARIANT Utf8Ok\n" % ((4, 2, 3) if c.quick else (6, 4, 4)))
        res = {}
        err = []

        def job(k, f):
            try:
                res[k] = f()
            except Exception as e:  # noqa
                err.append(e)
        ts = [threading.Thread(target=job, args=("bignat", lambda: vlib.run_tlc("common/MC_BigNat.tla", "common/MC_BigNat.cfg", workers=1, coverage=True, timeout=900))),
              threading.Thread(target=job, args=("gen", lambda: vlib.run_tlc("lex/Gen_Validators.tla", cfg, env={"FAMILY": fam_path}, workers=3 if c.quick else 4,
                                                                             timeout=3000, keep_lines=60, xmx="8g")))]
        for t in ts:
            t.start()
        for t in ts:
            t.join()
        if err:
            raise err[0]
        if res["bignat"].invariant_violated:
            raise vlib.ToolError("design-level failure in BigNat.tla: " + str(res["bignat"].invariant_violated))
        if res["gen"].invariant_violated:
            raise vlib.ToolError("design-level failure in Validators.tla (self-consistency): " + str(res["gen"].invariant_violated))
        for act in ("MC_BigNat!IncA", "MC_BigNat!IncB"):
            if res["bignat"].coverage.get(act, (0, 0))[0] == 0:
                raise vlib.ToolError("vacuity: action %s never taken in mode M" % act)
        c.add_tlc("M BigNat vs native integers (-105..105 x -12..12) incl. long division", res["bignat"])
        c.add_tlc("G values per annotation + spec self-consistency", res["gen"])
        rows = sorted(set(t[1] for t in res["gen"].tagged("REPLAY")))
        rows = [json.loads(x) for x in rows]
        if len(rows) < 3000:
            raise vlib.ToolError("generator produced only %d (field, value) pairs" % len(rows))
        missing = set(fam) - set(r["field"] for r in rows)
        if missing:
            raise vlib.ToolError("no value generated for " + ", ".join(sorted(missing)))
        # every value in both validation modes and both transports; in the quick tier the positions whose predicates do
        # not involve numbers (strings, item counts) get the two diagonal combinations only
        numeric = {a["name"] for a in family if a["T"] not in ("String", "ID") and any(v["kind"] in ("maximum", "minimum", "multiple_of") for v in a["vals"])}
        cases_in = []
        for r in rows:
            full = (not c.quick) or r["field"] in numeric
            full = full or fam[r["field"]]["dflt"]["k"] != "none"      # positions with a default: always all four
            for m, rt in ((("strict", "lit"), ("strict", "var"), ("fast", "lit"), ("fast", "var")) if full else (("strict", "lit"), ("fast", "var"))):
                if r["v"]["k"] == "omitted" and rt == "var" and fam[r["field"]]["site"] == "arg":
                    continue        # an omitted *variable* for an argument with a default is argument coercion (C06), not a validator case
                cases_in.append({"field": r["field"], "route": rt, "mode": m, "v": r["v"]})
    vlib.write_ndjson(c.path("cases.ndjson"), cases_in)
    p = vlib.run_harness(binary, ["run", c.path("cases.ndjson"), c.path("trace.ndjson")], timeout=1800)
    if p.returncode != 0:
        raise vlib.ToolError("c08 harness failed: " + p.stderr[-2000:])
    cases = vlib.read_ndjson(c.path("trace.ndjson"))
    if len(cases) != len(cases_in):
        raise vlib.ToolError("harness wrote %d observations for %d cases" % (len(cases), len(cases_in)))
    verdicts = {}
    step = 100000
    for lo in range(0, len(cases), step):
        part = c.path("trace_%d.ndjson" % (lo // step))
        vlib.write_ndjson(part, cases[lo:lo + step])
        v = vlib.run_tlc("lex/ValidatorsTrace.tla", "lex/ValidatorsTrace.cfg", env={"TRACE": part}, workers=4, timeout=3000, keep_lines=50, xmx="8g")
        for t in v.tagged("VERDICT"):
            devs = re.findall(r'"([^"]+)"', t[3]) if isinstance(t[3], str) else []
            verdicts[t[1]] = "ok" if t[2] == "ok" else ("known:" + ",".join(sorted(devs)) if t[2] == "known" and devs else "violation" + (": " + devs[0] if devs else ""))
        if lo == 0:
            c.add_tlc("V ValidatorsTrace (first slice)", v)
    if len(verdicts) != len(cases):
        raise vlib.ToolError("V produced %d verdicts for %d cases" % (len(verdicts), len(cases)))
    seen = {}
    first = {}
    omitted_seen, explicit_refused = {}, {}
    for case in cases:
        if case["v"]["k"] == "omitted":
            omitted_seen[case["field"]] = True
        elif case["calls"] == 0 and case["errs"] > 0:
            explicit_refused[case["field"]] = True
        c.count_case({"field": case["field"], "route": case["route"], "mode": case["mode"], "v": case["v"]}, True)
        vd = verdicts[case["id"]]
        slim = {k: case[k] for k in ("field", "site", "route", "mode", "v", "panic", "calls", "errs", "on_field", "paths", "note")}
        slim["annotation"] = ann_text(case["ann"])
        c.verdict(vd, slim, "%s, %s mode: %s -> resolver calls %d, errors %d%s; differs from Validators.tla"
                  % (ann_text(case["ann"]), case["mode"], case["note"], case["calls"], case["errs"], ", PANIC" if case["panic"] else ""))
        s = seen.setdefault((case["field"], case["mode"]), [0, 0])
        s[0 if (case["calls"] == 1 and case["errs"] == 0) else 1] += 1
        first.setdefault(vd, case)
    if c.replay:
        for case in cases:
            print("REPLAY verdict=%s observation=%s" % (verdicts[case["id"]], json.dumps(case)))
        sys.exit(1 if c.violations else 0)      # a replay is one case: no evidence file, no vacuity accounting
    else:
        for name in fam:
            a = sum(seen.get((name, m), [0, 0])[0] for m in ("strict", "fast"))
            r = sum(seen.get((name, m), [0, 0])[1] for m in ("strict", "fast"))
            if a == 0 or r == 0:
                raise vlib.ToolError("vacuity: %s reached the resolver %d times and was refused %d times" % (name, a, r))
            if fam[name]["dflt"]["k"] != "none" and not (omitted_seen.get(name) and explicit_refused.get(name)):
                raise vlib.ToolError("vacuity: position %s with a default lacks an omission or a refused explicit value" % name)
    c.cov["traces_validated_against_impl"] = len(cases)
    c.cov["exhaustive"] = True
    c.cov["rule"] = ("G (TLC, Gen_Validators.tla): for each of the %d annotated positions of the family (maximum / minimum / multiple_of on every "
                     "integer width, f32, f64 with integer and float bounds, positive and negative, at the 64-bit extremes; max/min_length, "
                     "chars_max/min_length, three regex patterns on String / ID; max/min_items; list forms; optional positions; arguments and "
                     "input-object fields, with and without `default` / `default = ..` / `default_with`) every value of the per-kind pools (see the module header) that belongs to the declared Rust type; "
                     "crossed by the driver with strict/fast validation mode and literal/variable transport (quick tier: all four combinations for "
                     "numeric validators, strict+literal and fast+variable for string / item-count validators).  Every case tests one "
                     "reach-or-refuse decision, hence non-trivial; distinct by (position, mode, transport, value)." % len(fam))
    for vd, case in sorted(first.items()):
        c.sample({"annotation": ann_text(case["ann"]), "mode": case["mode"], "request": case["note"], "resolver_calls": case["calls"],
                  "errors": case["errs"], "error_paths": case["paths"], "verdict": vd}, limit=8)
    c.assumptions += [
        "float values are restricted to decimals that are exact binary floats in f32 and f64 (multiples of 1/4 of small magnitude, powers "
        "of two, 3*2^62); IEEE arithmetic on them is exact, so the decimal arithmetic of the spec is the truth about them",
        "regular expressions: only the patterns ^a+$, ^[0-9]{2}$ and b, whose languages are written out in Validators.tla; regex semantics "
        "in general are not claimed",
        "max_length / min_length are read as UTF-8 byte lengths (the chars_ forms count scalar values), as the documentation's wording and "
        "the existence of the chars_ forms suggest",
        "the family table read by TLC is produced by stringify! of the same tokens that the derive macros compile (harness c08 `family!`)",
    ]


vlib.main("C08", "exploration", body)
