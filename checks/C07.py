#!/usr/bin/env python3
"""C07 -- built-in scalar types accept exactly their domain and round-trip.
M: MC_BigNat (exact arithmetic vs TLC's native integers, Rust MIN/MAX constants vs 2^k),
   MC_ScalarRegistry (registration-order state machine: which is_valid the validation phase uses),
   and the self-consistency invariants of Scalars.tla evaluated on every generated case.
G: Gen_Scalars.tla -- TLC enumerates (type, route, value): every 8-bit (thorough: every 16-bit) integer for the
   small types and their NonZero forms, MIN/MAX +-1 of every Rust integer type for every type, float classes,
   every ASCII char, boundary Unicode, one value of every other GraphQL kind; routes: InputType::parse ("in"),
   literal / variable through Schema::execute ("lit"/"var"), to_value + parse back ("out").
   The driver adds seeded random integers (1..70 bits) and random Unicode strings.
harness: c07 builds the values, calls the real library, renders results with independent formatters.
V: ScalarsTrace.tla -- TLC judges every observation with Accepts / Denoted / Serialised / SameRust."""
import json, os, random, sys, threading
sys.path.insert(0, os.path.join(os.path.dirname(os.path.abspath(__file__)), "..", "lib"))
import vlib

INT_TYPES = ["i8", "i16", "i32", "i64", "isize", "u8", "u16", "u32", "u64", "usize"]
INT_LIKE = INT_TYPES + ["nz_" + t for t in INT_TYPES]
ALL_TYPES = INT_LIKE + ["f32", "f64", "bool", "String", "char", "ID", "enum"]
BLANK = {"k": "null", "neg": False, "d": [], "cls": "", "rep": 0, "cp": [], "b": False}


def int_v(n):
    v = dict(BLANK)
    v.update(k="int", neg=n < 0, d=[int(ch) for ch in str(abs(n))])
    return v


def str_v(cps):
    v = dict(BLANK)
    v.update(k="str", cp=list(cps))
    return v


def random_cases(rng, per_type, n_strings):
    """Seeded random values beyond TLC's boundary sets (judged by TLC like all others)."""
    out = []
    for t in INT_LIKE + ["ID", "f32", "f64"]:
        for i in range(per_type):
            bits = rng.randint(0, 70)
            n = rng.getrandbits(bits) if bits else 0
            if rng.random() < 0.45:
                n = -n
            dirs = ["in"] + (["out"] if t in INT_LIKE else []) + (["lit", "var"] if i % 4 == 0 else [])
            for d in dirs:
                out.append({"T": t, "dir": d, "v": int_v(n)})
    for t in ["char", "String", "ID"]:
        for i in range(n_strings):
            ln = rng.choice([1, 1, 1, 0, 2, 3])
            cps = []
            for _ in range(ln):
                while True:
                    c = rng.choice([rng.randint(0, 0x7f), rng.randint(0x80, 0x7ff), rng.randint(0x800, 0xffff), rng.randint(0x10000, 0x10ffff)])
                    if not (0xd800 <= c <= 0xdfff):
                        break
                cps.append(c)
            for d in ["in", "out"] + (["lit", "var"] if i % 3 == 0 else []):
                out.append({"T": t, "dir": d, "v": str_v(cps)})
    return out


def run_parallel(jobs):
    """jobs: {label: thunk}; returns {label: result}, re-raising the first ToolError."""
    res, err = {}, []

    def wrap(k, f):
        try:
            res[k] = f()
        except Exception as e:  # noqa
            err.append(e)
    ts = [threading.Thread(target=wrap, args=(k, f)) for k, f in jobs.items()]
    for t in ts:
        t.start()
    for t in ts:
        t.join()
    if err:
        raise err[0]
    return res


def show(v):
    k = v["k"]
    if k == "int":
        return ("-" if v["neg"] else "") + "".join(map(str, v["d"]))
    if k == "float":
        return "".join(map(chr, v["cp"])) or v["cls"]
    if k in ("str", "enum"):
        s = "".join(map(chr, v["cp"]))
        return json.dumps(s) if k == "str" else s
    if k == "bool":
        return "true" if v["b"] else "false"
    if k in ("list", "obj"):
        return "%s:%s" % (k, v["cls"])
    return k


def body(c):
    if c.replay:
        with open(c.replay) as f:
            rep = json.load(f)["case"]
        rows, m_runs, g = [{"T": rep["T"], "dir": rep["dir"], "v": rep["v"]}], {}, None
    else:
        full16 = not c.quick
        cfg = c.path("Gen_Scalars.cfg")
        with open(cfg, "w") as f:
            f.write("CONSTANT Full16 = %s\nCONSTANT Stride16 = 257\nCONSTANT Window16 = 24\nINIT GInit\nNEXT GNext\n"
                    "INVARIANT Emit\nINVARIANT SpecRoundTrip\nINVARIANT Lattice\nINVARIANT NativeRange\nINVARIANT KindExclusive\n"
                    % ("TRUE" if full16 else "FALSE"))
        m_runs = run_parallel({
            "bignat": lambda: vlib.run_tlc("common/MC_BigNat.tla", "common/MC_BigNat.cfg", workers=1, coverage=True, timeout=900),
            "registry": lambda: vlib.run_tlc("lex/MC_ScalarRegistry.tla", "lex/MC_ScalarRegistry.cfg", workers=1, coverage=True, timeout=900),
            "gen": lambda: vlib.run_tlc("lex/Gen_Scalars.tla", cfg, workers=2 if c.quick else 4, timeout=3000, keep_lines=60, xmx="8g"),
            "build": lambda: vlib.build_harness(["c07"]),       # cargo is mostly waiting for locks: overlap it with TLC
        })
        for k, what in (("bignat", "BigNat.tla"), ("registry", "ScalarRegistry.tla"), ("gen", "Scalars.tla (self-consistency invariants)")):
            if m_runs[k].invariant_violated:
                raise vlib.ToolError("design-level failure in %s: %s" % (what, m_runs[k].invariant_violated))
        for act in ("MC_BigNat!IncA", "MC_BigNat!IncB"):
            if m_runs["bignat"].coverage.get(act, (0, 0))[0] == 0:
                raise vlib.ToolError("vacuity: action %s never taken in mode M" % act)
        if m_runs["registry"].coverage.get("ScalarRegistry!Register", (0, 0))[0] == 0:
            raise vlib.ToolError("vacuity: Register never taken in mode M")
        c.add_tlc("M BigNat vs native integers (-105..105 x -12..12) + Rust bounds vs 2^k", m_runs["bignat"])
        c.add_tlc("M ScalarRegistry (8 user types, all registration orders)", m_runs["registry"])
        g = m_runs["gen"]
        c.add_tlc("G cases + spec self-consistency (Full16=%s)" % full16, g)
        lines = sorted(set(t[1] for t in g.tagged("REPLAY")))      # JSON texts printed by TLC, kept as text
        g.tuples = []
        if len(lines) < 10000:
            raise vlib.ToolError("generator produced only %d cases" % len(lines))
        rng = random.Random(c.seed)
        lines += [json.dumps(x, separators=(",", ":")) for x in random_cases(rng, 60 if c.quick else 1000, 150 if c.quick else 2000)]
        with open(c.path("cases.ndjson"), "w") as f:
            for ln in lines:
                f.write(ln + "\n")
        n_cases = len(lines)
        del lines
    if c.replay:
        vlib.write_ndjson(c.path("cases.ndjson"), rows)
        n_cases = len(rows)
    (binary,) = vlib.build_harness(["c07"])
    p = vlib.run_harness(binary, [c.path("cases.ndjson"), c.path("trace.ndjson")], timeout=3000)
    if p.returncode != 0:
        raise vlib.ToolError("c07 harness failed: " + p.stderr[-2000:])
    # mode V in slices (one TLC run never holds more than `step` records); everything is streamed
    step = 150000
    parts = []
    with open(c.path("trace.ndjson")) as f:
        out, n = None, 0
        for ln in f:
            if n % step == 0:
                if out:
                    out.close()
                parts.append(c.path("trace_%d.ndjson" % (n // step)))
                out = open(parts[-1], "w")
            out.write(ln)
            n += 1
        if out:
            out.close()
    if n != n_cases:
        raise vlib.ToolError("harness wrote %d observations for %d cases" % (n, n_cases))
    seen, by_v, n_verdicts = {}, {}, 0
    for pi, part in enumerate(parts):
        v = vlib.run_tlc("lex/ScalarsTrace.tla", "lex/ScalarsTrace.cfg", env={"TRACE": part}, workers=4, timeout=3000,
                         keep_lines=50, xmx="8g")
        verdicts = {t[1]: (t[2], t[3]) for t in v.tagged("VERDICT")}
        n_verdicts += len(verdicts)
        if pi == 0:
            c.add_tlc("V ScalarsTrace (first slice)", v)
        v.tuples = []
        with open(part) as f:
            for ln in f:
                case = json.loads(ln)
                if case["id"] not in verdicts:
                    raise vlib.ToolError("V produced no verdict for case %s" % case["id"])
                vd, dr = verdicts[case["id"]]
                c.count_case({"T": case["T"], "dir": case["dir"], "v": case["v"]}, True)
                if vd != "ok":
                    slim = dict(case)
                    slim["shown"] = show(case["v"])
                    c.verdict(vd, slim, "%s %s %s: observation differs from Scalars.tla (%s)" % (case["T"], case["dir"], show(case["v"]), case["note"]))
                if dr is True:
                    c.drift("%s %s %s: ScalarImpl model disagrees with the library" % (case["T"], case["dir"], show(case["v"])))
                s = seen.setdefault((case["T"], case["dir"]), [0, 0, 0])
                if case["dir"] == "out":
                    s[2] += 1 if case["built"] else 0
                else:
                    s[0 if case["acc"] else 1] += 1
                by_v.setdefault(vd, case)
                if c.replay:
                    print("REPLAY verdict=%s drift=%s observation=%s" % (vd, dr, json.dumps(case)))
    if n_verdicts != n_cases:
        raise vlib.ToolError("V produced %d verdicts for %d cases" % (n_verdicts, n_cases))
    if c.replay:
        sys.exit(1 if c.violations else 0)      # a replay is one case: no evidence file, no vacuity accounting
    if not c.replay:
        # vacuity: every type saw an accepted and a refused offer on every route, and a serialised value
        for t in ALL_TYPES:
            for d in ("in", "lit", "var"):
                a, r, _ = seen.get((t, d), [0, 0, 0])
                if a == 0 or r == 0:
                    raise vlib.ToolError("vacuity: %s via %s has %d accepted and %d refused offers" % (t, d, a, r))
            if seen.get((t, "out"), [0, 0, 0])[2] == 0:
                raise vlib.ToolError("vacuity: no Rust value of %s was serialised" % t)
    c.cov["traces_validated_against_impl"] = n_cases
    c.cov["exhaustive"] = not c.quick
    c.cov["rule"] = ("G (TLC, Gen_Scalars.tla): for each of the 27 scalar mappings and each route (InputType::parse, literal and variable "
                     "through Schema::execute, to_value+parse) every integer of -130..257 for the 8-bit types and NonZero forms, %s for the "
                     "16-bit ones, MIN-1/MIN/MIN+1/MAX-1/MAX/MAX+1 of every Rust integer type, -1, 0, 1, -0, 2^31, 2^32, 2^63, 2^64, 2^64+1, "
                     "-2^64, 10^20, 21 float literals of 5 classes (+NaN/inf on the Rust side), every ASCII char, boundary Unicode scalar "
                     "values, strings with numeric/boolean/enum content, enum members and near misses, booleans, null, lists, objects; "
                     "plus seeded random integers of 0..70 bits and random Unicode strings from the driver.  Every case is an offer or a "
                     "round trip, hence non-trivial; distinct by (type, route, value)."
                     % ("every integer of -32770..65537" if not c.quick else "every 257th integer of -32770..65537 and all within 24 of a boundary"))
    for vd, case in sorted(by_v.items()):
        c.sample({"T": case["T"], "route": case["dir"], "value": show(case["v"]), "offered_as": case["note"], "accepted": case["acc"],
                  "is_valid": case["valid"], "resolver_calls": case["calls"], "errors": case["errs"],
                  "received": show(case["parsed"]) if case["parsed"]["k"] != "none" else None, "verdict": vd}, limit=8)
    c.assumptions += [
        "IEEE-754 bit fidelity is outside TLC: floats are judged by class; bit equality of a parsed float with the double its Number holds "
        "(re-read from the Number's decimal text by Rust's float parser) is computed by the harness and only asserted by the spec",
        "64-bit platform (isize = i64, usize = u64)",
        "numbers are built with str::parse::<Number>() as the library's parser does; the conversion of a literal's text to a Number "
        "(serde_json) is not judged here",
        "derived enums are represented by one three-member enum of the harness (RED GREEN DARK_BLUE)",
    ]


vlib.main("C07", "exploration", body)
