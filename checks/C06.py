#!/usr/bin/env python3
"""C06 -- resolvers receive exactly the spec-coerced argument values.
M+G: Gen_Coercion.tla enumerates, for every argument type of the family (schemas/c06.json), every way of
     supplying it from a small universe (absent, literals of the right and wrong kinds, explicit null, lists /
     single values / nested lists, input objects as products of per-field choices, OneOf objects, one variable
     at every position crossed with the ways of declaring and supplying it, three independent arguments) and
     checks the design-level invariants of the reference (TypeSound, FlavourFree, ErrorsAgree) on each case.
harness: c06 executes each case on a derive-built schema (echo resolvers log what their Rust parameters hold)
     and on its dynamic twin (resolvers walk ctx.args with the typed accessors).
V: CoercionTrace.tla judges every observation against Coercion!Expected + BindArgs (presence-aware); named
   deviations (smallest explaining set of triggered ones) give known:<...>."""
import collections, json, os, random, sys
sys.path.insert(0, os.path.join(os.path.dirname(os.path.abspath(__file__)), "..", "lib"))
import vlib

SCHEMA = os.path.join(vlib.ROOT, "schemas", "c06.json")
CODES = {"VU": "DevVarUsageUnchecked", "VT": "DevVarTypeIgnored", "AD": "DevArgDefaultLostOnOmittedVar",
         "OV": "DevOmittedVarSkipsArgValidation", "ES": "DevEnumStringLiteral", "NO": "DevNonObjectForInputObject",
         "NL": "DevDynNoListCoercion", "ND": "DevDynNoFieldDefaults"}


def has_var(v):
    k = v.get("k")
    if k == "var":
        return True
    if k == "list":
        return any(has_var(x) for x in v["items"])
    if k == "obj":
        return any(has_var(e["val"]) for e in v["entries"])
    return False


def nested_var(case):
    return any(a["val"].get("k") != "var" and has_var(a["val"]) for a in case["args"])


def supply_class(case):
    """coarse class of the way the argument is supplied (vacuity accounting)"""
    if not case["args"]:
        return "absent"
    if not case["vdefs"]:
        return "literal-null" if any(a["val"].get("k") == "null" for a in case["args"]) else "literal"
    sup = {s["name"]: s["val"] for s in case["supplied"]}
    out = []
    for vd in case["vdefs"]:
        where = "nested-var" if nested_var(case) else "var"
        if vd["name"] not in sup:
            out.append(where + ("-omitted-default" if vd["hasDefault"] else "-omitted"))
        elif sup[vd["name"]].get("k") == "null":
            out.append(where + "-null")
        else:
            out.append(where + "-value")
    return "+".join(sorted(set(out)))


def random_cases(ts, rng, n):
    """thorough only: seeded combinations with two variables inside one input object / list argument"""
    NULL = {"k": "null"}
    I = lambda x: {"k": "int", "v": str(x)}
    S = lambda x: {"k": "str", "v": x}
    named = lambda x: {"k": "named", "n": x}
    nn = lambda t: {"k": "nn", "of": t}
    out = []
    for _ in range(n):
        kind = rng.choice(["obj", "list", "inner"])
        vdefs, sup, = [], []

        def var(name, ty, good, wrong):
            ty2 = rng.choice([ty, nn(ty)])
            d = rng.choice([None, None, good, NULL if ty2["k"] != "nn" else good])
            vdefs.append({"name": name, "ty": ty2, "hasDefault": d is not None, "default": d if d is not None else NULL})
            s = rng.choice(["omit", "null", "good", "good", "wrong"])
            if s != "omit":
                sup.append({"name": name, "val": {"null": NULL, "good": good, "wrong": wrong}[s]})
            return {"k": "var", "name": name}
        if kind == "obj":
            ents = [{"key": "a", "val": var("p", named("Int"), I(4), S("x"))}]
            which = rng.choice(["b", "m"])
            ents.append({"key": which, "val": var("q", named("Int") if which == "b" else named("String"), I(5) if which == "b" else S("u"), {"k": "bool", "v": True})})
            if rng.random() < 0.3:
                ents.append({"key": "inner", "val": rng.choice([NULL, {"k": "obj", "entries": [{"key": "n", "val": I(1)}]}])})
            field = rng.choice(["obj", "optObj", "muObj"])
            args = [{"name": "x", "val": {"k": "obj", "entries": ents}}]
        elif kind == "inner":
            ents = [{"key": "n", "val": var("p", named("Int"), I(4), S("x"))}, {"key": "d", "val": var("q", named("Int"), I(6), S("y"))}]
            field = rng.choice(["obj", "inners"])
            inner = {"k": "obj", "entries": ents}
            args = [{"name": "x", "val": {"k": "obj", "entries": [{"key": "a", "val": I(1)}, {"key": "inner", "val": inner}]} if field == "obj" else rng.choice([inner, {"k": "list", "items": [inner]}])}]
        else:
            field = rng.choice(["list", "optList", "dList"])
            items = [var("p", named("Int"), I(4), S("x")), var("q", named("Int"), I(5), {"k": "list", "items": [I(1)]})]
            if rng.random() < 0.5:
                items.insert(1, I(9))
            args = [{"name": "x", "val": {"k": "list", "items": items}}]
        out.append({"field": field, "args": args, "vdefs": vdefs, "supplied": sup})
    return out


def body(c):
    ts = json.load(open(SCHEMA))
    level = 1 if c.quick else 2
    workers = 4
    # mode M + G in one run: the invariants are checked on every generated case
    cfg = c.path("Gen_Coercion.cfg")
    with open(cfg, "w") as f:
        f.write("CONSTANT Level = %d\nINIT Init\nNEXT Next\nINVARIANT TypeSound\nINVARIANT FlavourFree\nINVARIANT ErrorsAgree\nINVARIANT Emit\n" % level)
    g = vlib.run_tlc("gql/Gen_Coercion.tla", cfg, env={"SCHEMA": SCHEMA}, workers=workers, timeout=3000, keep_lines=50, xmx="4g")
    if g.invariant_violated:
        raise vlib.ToolError("design-level failure in Coercion.tla: invariant %s violated\n%s" % (g.invariant_violated, "\n".join(g.lines[-30:])))
    c.add_tlc("M+G Gen_Coercion (Level=%d; invariants TypeSound, FlavourFree, ErrorsAgree)" % level, g)
    gen = sorted(set(t[1] for t in g.tagged("REPLAY")))
    if len(gen) != g.distinct - len(ts["fields"]):
        raise vlib.ToolError("generator printed %d cases for %d states" % (len(gen), g.distinct))
    base = [json.loads(s) for s in gen]
    nrand = 0
    if not c.quick:
        extra = random_cases(ts, random.Random(c.seed), 3000)
        nrand = len(extra)
        base += extra
    cases = []
    for b in base:
        for fl in ("static", "dynamic"):
            x = dict(b)
            x["flavour"] = fl
            x["id"] = len(cases) + 1
            cases.append(x)
    vlib.write_ndjson(c.path("cases.ndjson"), cases)
    (binary,) = vlib.build_harness(["c06"])
    p = vlib.run_harness(binary, [SCHEMA, c.path("cases.ndjson"), c.path("trace.ndjson")], timeout=3000)
    if p.returncode != 0:
        raise vlib.ToolError("c06 harness failed: " + p.stderr[-2000:])
    v = vlib.run_tlc_sliced("gql/CoercionTrace.tla", "gql/CoercionTrace.cfg", c.path("trace.ndjson"), env={"SCHEMA": SCHEMA},
                            slices=workers, timeout=6000, keep_lines=50, xmx="3g")
    c.add_tlc("V CoercionTrace", v)
    verdicts = {t[1]: (t[2], t[3]) for t in v.tagged("VERDICT")}
    obs = vlib.read_ndjson(c.path("trace.ndjson"))
    if len(verdicts) != len(obs):
        raise vlib.ToolError("V produced %d verdicts for %d cases" % (len(verdicts), len(obs)))
    classes = collections.Counter()
    supply = collections.Counter()
    fields = collections.Counter()
    invoked = 0
    drift = collections.Counter()
    for o in obs:
        vd, cls = verdicts[o["id"]]
        if vd.startswith("known:"):
            vd = "known:" + ",".join(sorted(CODES.get(x, x) for x in vd[6:].split(",")))
        classes[cls] += 1
        supply[supply_class(o)] += 1
        fields[(o["flavour"], o["field"])] += 1
        invoked += 1 if o["obs"]["calls"] else 0
        c.count_case({"f": o["flavour"], "t": o["text"], "v": o["variables"]}, nontrivial=True)
        slim = {"flavour": o["flavour"], "text": o["text"], "variables": o["variables"], "obs": o["obs"], "reference": cls}
        c.verdict(vd, slim, "resolver arguments / error differ from Coercion!Expected (%s, reference: %s)" % (o["flavour"], cls))
        # informational: class of the error (request error vs field error) -- not part of the property
        if vd == "ok" and cls in ("request", "field") and o["obs"]["errclass"] != cls:
            drift[(cls, o["obs"]["errclass"])] += 1
    for (want, got), n in sorted(drift.items()):
        c.drift("%d cases: the reference raises a %s error, the library reports a %s error (class not judged)" % (n, want, got))
    # vacuity: every field of the family in both flavours, every outcome class, every way of supplying
    for f in ts["fields"]:
        for fl in ("static", "dynamic"):
            if fields[(fl, f["name"])] == 0:
                raise vlib.ToolError("vacuous: no case for %s/%s" % (fl, f["name"]))
    for k in ("ok", "request", "field"):
        if classes[k] == 0:
            raise vlib.ToolError("vacuous: the reference never yields class " + k)
    for k in ("absent", "literal", "literal-null", "var-omitted", "var-omitted-default", "var-null", "var-value",
              "nested-var-omitted", "nested-var-omitted-default", "nested-var-null", "nested-var-value"):
        if supply[k] == 0:
            raise vlib.ToolError("vacuous: no case supplies the argument as " + k)
    if invoked == 0:
        raise vlib.ToolError("vacuous: no resolver was ever invoked")
    c.cov["traces_validated_against_impl"] = len(obs)
    c.cov["exhaustive"] = True
    c.cov["reference_classes"] = dict(classes)
    c.cov["supply_classes"] = dict(supply)
    c.cov["resolver_invoked_cases"] = invoked
    c.cov["rule"] = ("G: Gen_Coercion.tla Level=%d, plain TLC enumeration: for each of the %d fields of the family (Int, String, Boolean, enum, "
                     "[Int!]!, [Int], [[Int!]], [Color!], [Inner!], input object with defaults / MaybeUndefined / nested object, OneOf object; "
                     "required, optional, MaybeUndefined, argument defaults; three arguments) every literal of the small universe and every "
                     "literal with one variable at any position x (declared type: location type, non-null/nullable twin, mismatching base, "
                     "list item type; default none/value/null) x (omitted, null, right value, wrong kinds, single value for list, objects "
                     "with missing/unknown/null fields): %d cases%s; each executed on the static and the dynamic schema. Every case exercises "
                     "argument coercion; distinct by (flavour, document text, variables JSON)"
                     % (level, len(ts["fields"]), len(gen), (" + %d seeded random two-variable cases" % nrand) if nrand else ""))
    for o in obs[:1] + [o for o in obs if verdicts[o["id"]][0] == "known:AD"][:1] + [o for o in obs if nested_var(o)][:1]:
        c.sample({"flavour": o["flavour"], "text": o["text"], "variables": o["variables"], "obs": {k: o["obs"][k] for k in ("calls", "args", "nerr")},
                  "verdict": verdicts[o["id"]][0], "reference": verdicts[o["id"]][1]})
    c.assumptions += ["the harness document printer (vh::doc) and the JSON form of the variables are trusted",
                      "the static family (harness/vh/src/bin/c06.rs) stands for 'every derive-built schema'; its SDL is compared with the dynamic twin built from schemas/c06.json at start-up (exact text)",
                      "dynamic resolvers observe arguments the way a user would: typed ValueAccessor calls along the declared type",
                      "error messages and the request/field class of errors are not compared (class differences are reported as drift)",
                      "a missing variable inside a list literal stands for null (graphql-js behaviour; the specification text is silent)",
                      "scalar domains (32-bit range, floats, ID) belong to C07 and are not enumerated here"]


vlib.main("C06", "model_checking", body)
