#!/usr/bin/env python3
"""C21 -- secret arguments never appear in logged or traced query text.
M: Redaction.tla -- over every generated case: the type-directed walk SecretLeaves and the generator agree on the
   secret leaves (two independent walks), the ideal printer model writes none of them, deviations only add secret leaves.
G: the same state machine prints every case: chains of <= MaxSteps steps (field / `... { }` / `... on T { }` / named
   fragment) from a query, mutation or subscription root to a target field; arguments filled with every value shape of
   their type up to a depth (lists, nested input objects); one value node per argument optionally lifted into a variable
   (supplied / default only / default and supplied); distinct sentinels in all secret leaves; named/anonymous, aliases.
harness: c21 executes each request on a derive-built schema with #[graphql(secret)] arguments and input fields and an
   extension that calls ExtensionContext::stringify_execute_doc in parse_query (the Logger/Tracing formatting path).
V: RedactionTrace.tla searches the logged text (code points) for every sentinel of SecretLeaves(case)."""
import json, os, random, sys
sys.path.insert(0, os.path.join(os.path.dirname(os.path.abspath(__file__)), "..", "lib"))
import vlib

SCHEMA = os.path.join(vlib.ROOT, "schemas", "c21.json")
CODES = {"D": "DevVarDefaultPrinted"}


def cfg_text(steps, budget, listlen, styles, aliases, tail):
    return ('CONSTANT MaxSteps = %d\nCONSTANT ShapeBudget = %d\nCONSTANT MaxListLen = %d\n'
            'CONSTANT VarModes = {"supplied", "default", "both"}\nCONSTANT Styles = {%s}\nCONSTANT StepAliases = {%s}\nINIT Init\nNEXT Next\n%s' %
            (steps, budget, listlen, ", ".join('"%s"' % s for s in styles), ", ".join('"%s"' % s for s in aliases), tail))


def body(c):
    if c.quick:
        configs = [(2, 1, 1, ["anon", "namedAlias"], ["none", "fresh", "sibling"])]
    else:   # deep shapes with single-element lists, and shallower shapes with one- and two-element lists; all four styles
        configs = [(3, 2, 1, ["anon", "namedAlias"], ["none", "fresh"]), (3, 1, 2, ["named", "anonAlias"], ["none", "sibling"])]
    rows = set()
    for k, bounds in enumerate(configs):
        gcfg = c.path("Gen%d.cfg" % k)
        with open(gcfg, "w") as f:
            f.write(cfg_text(*bounds, "INVARIANT GenSound\nINVARIANT IdealRedacts\nINVARIANT DevsInsideSecrets\nINVARIANT Emit\n"))
        g = vlib.run_tlc("gql/Redaction.tla", gcfg, env={"SCHEMA": SCHEMA}, workers=8, timeout=3000, keep_lines=20, xmx="12g")
        if g.invariant_violated:
            raise vlib.ToolError("design-level failure in Redaction.tla: " + str(g.invariant_violated))
        c.add_tlc("M+G Redaction (steps<=%d, shape budget %d, lists<=%d, styles %s, ancestor aliases %s): generator sound, ideal printer redacts, cases" % (bounds[0], bounds[1], bounds[2], "/".join(bounds[3]), "/".join(bounds[4])), g)
        rows |= set(t[1] for t in g.tagged("REPLAY"))
    rows = sorted(rows)
    total = len(rows)
    exhaustive = True
    cap = 12000 if c.quick else 90000
    if total > cap:
        rows = random.Random(c.seed).sample(rows, cap)
        rows.sort()
        exhaustive = False
    cases = [json.loads(r) for r in rows]
    if len(cases) < 500:
        raise vlib.ToolError("generator produced only %d cases" % len(cases))
    for i, x in enumerate(cases):
        x["id"] = i + 1
    vlib.write_ndjson(c.path("cases.ndjson"), cases)
    (binary,) = vlib.build_harness(["c21"])
    p = vlib.run_harness(binary, [c.path("cases.ndjson"), c.path("trace.ndjson"), SCHEMA], timeout=1800)
    if p.returncode != 0:
        raise vlib.ToolError("c21 harness failed: " + p.stderr[-2000:])
    try:
        for note in json.loads(p.stdout.strip().splitlines()[-1]).get("flag_notes", []):
            c.drift("secret flag differs between registry and annotations: " + note)
    except (ValueError, IndexError):
        raise vlib.ToolError("c21 harness summary unreadable: " + p.stdout[-500:])
    obs = vlib.read_ndjson(c.path("trace.ndjson"))
    v = vlib.run_tlc_sliced("gql/RedactionTrace.tla", "gql/RedactionTrace.cfg", c.path("trace.ndjson"), env={"SCHEMA": SCHEMA},
                            slices=(4 if c.quick else 8), timeout=3000, keep_lines=50, xmx="3g")
    c.add_tlc("V RedactionTrace", v)
    verdicts = {t[1]: t[2:] for t in v.tagged("VERDICT")}
    if len(verdicts) != len(obs):
        raise vlib.ToolError("V produced %d verdicts for %d cases" % (len(verdicts), len(obs)))
    seen_dev = set()
    nsent = 0
    for o in obs:
        vd, drift, nleaked, nsecret = verdicts[o["id"]]
        if vd.startswith("k:"):
            vd = "known:" + ",".join(sorted(CODES[x] for x in vd[2:].split(",")))
            verdicts[o["id"]] = (vd, drift, nleaked, nsecret)
        if vd.startswith("invalid:"):
            raise vlib.ToolError("case %s is not a valid probe (%s): %s vars=%s errors=%s" % (o["id"], vd, o["text"], json.dumps(o["vars"]), o["obs"]["errors"][:2]))
        nsent += nsecret
        c.count_case({"t": o["text"], "v": o["vars"]}, nontrivial=nsecret > 0)
        slim = {"text": o["text"], "vars": o["vars"], "logText": o["obs"]["logText"], "leaked": nleaked, "secret": nsecret}
        c.verdict(vd, slim, "a secret value occurs in the logged query text: %s" % o["obs"]["logText"])
        if vd.startswith("known:"):
            seen_dev.update(vd[6:].split(","))
        if drift:
            c.drift("case %s: printer model and library disagree on the leaked sentinels: %s -> %s" % (o["id"], o["text"], o["obs"]["logText"]))
    c.cov["traces_validated_against_impl"] = len(obs)
    c.cov["exhaustive"] = exhaustive
    c.cov["sentinels_searched"] = nsent
    c.cov["rule"] = ("G: every request of the generator state machine of Redaction.tla with chains of <=%d steps from a query/mutation/subscription "
                     "root (field, `... { }`, `... on T { }`, named fragment on T, every overlapping T) to every field with arguments; arguments "
                     "take every value shape of their type with depth <= max(0, %d - chain length) (lists of 1..%d items, nested input objects, "
                     "optional parts present/absent), at most one value node per argument lifted into a variable (supplied / default only / "
                     "default and supplied), styles (named/anonymous operation, target field aliased or not; ancestor fields of the chain plain / under a fresh "
                     "alias / under the name of another field of the same type) %s: %d requests%s, each executed; distinct sentinels in all secret leaves (%d searched); "
                     "every case holds >= 1 secret leaf; distinct by (document text, variables)"
                     % (max(b[0] for b in configs), max(b[1] for b in configs), max(b[2] for b in configs),
                        " + ".join("(steps<=%d, budget %d, lists<=%d: %s; ancestor fields %s)" % (b[0], b[1], b[2], "/".join(b[3]), "/".join(b[4])) for b in configs), total, "" if exhaustive else " (seeded sample of %d)" % len(cases), nsent))
    for o in [x for x in obs if verdicts[x["id"]][0] == "ok"][:1] + [x for x in obs if verdicts[x["id"]][0] != "ok"][:2]:
        c.sample({"text": o["text"], "vars": o["vars"], "logText": o["obs"]["logText"], "verdict": verdicts[o["id"]][0]})
    c.assumptions += ["the harness document printer is trusted", "schemas/c21.json mirrors the harness schema incl. secret flags (structure compared with the live registry at start-up; a secret flag the registry holds differently is reported as drift and judged through the logged text)",
                      "the Logger and Tracing extensions are not compiled in (cargo features log/tracing are off in the harness crate); their formatting path is the single call ExtensionContext::stringify_execute_doc(&document, variables) in parse_query, which the harness extension repeats",
                      "sentinels are chosen so that none is a substring of another or of benign text"]


vlib.main("C21", "model_checking", body)
